/-!
# Rule kinds, inheritance lists, `textx_isinstance`, abstract-rule results (C03)

Mirrors (after the `fix:` commits on `fix/C03`):

* `determine` / `hasNM` / `onePass` / `passes`  — `_determine_rule_types`
  (`textx/lang.py`): the multi-pass fixpoint with its per-pass `resolved_classes`
  set, the recursive descent into referenced rules and the `has_change` flag;
* `addRef` / `addSeq` / `addChoice` / `inhBy`   — `_add_inherited_classes` /
  `_add_reffered_classes` (`textx/lang.py`), run once the kinds are final;
* `dfs` / `dfsL` / `isInstance`                  — `textx_isinstance` (`textx/model.py`)
  with its visited set;
* `proc` …                                       — the rule-kind dispatch of `process_node`
  (`textx/model.py`): abstract → result of a child, match → plain value,
  common → object.

A grammar is seen through its *skeleton*: per rule the has-assignments flag and
the tree of rule references under sequence / ordered choice / any other
operator.  A `ref` is a root node of another rule in the resolved parser model
(string / regex matches are `lit`).  A rule whose body is a single rule
reference (`A: B;`) has `body = ref B` (the special case of the Python code,
which the uniform walk treats identically).
Specs: `NonMatch` (least fixpoint, an inductive predicate), `FirstNM`
("first non-match reference of an alternative"), `Reach`.
Model file: core Lean only.
-/
namespace RuleTypes

inductive Kind
  | mtch
  | abstr
  | common
deriving DecidableEq, Repr

inductive Body
  | lit : Body
  | ref : Nat → Body
  | seq : List Body → Body
  | choice : List Body → Body
  | other : List Body → Body
deriving Repr

structure Rule where
  hasAttrs : Bool
  body : Body
deriving Repr

abbrev Gram := List Rule
abbrev Kinds := Nat → Kind

mutual
/-- every rule referenced anywhere in the body, in order -/
def Body.refs : Body → List Nat
  | .lit => []
  | .ref r => [r]
  | .seq xs => refsL xs
  | .choice xs => refsL xs
  | .other xs => refsL xs
def refsL : List Body → List Nat
  | [] => []
  | x :: xs => x.refs ++ refsL xs
end

/-- all references point to rules of the grammar (textX raises "Unexisting rule" otherwise) -/
def wf (g : Gram) : Bool := g.all fun rule => rule.body.refs.all fun s => decide (s < g.length)

def WF (g : Gram) : Prop := wf g = true

instance (g : Gram) : Decidable (WF g) := inferInstanceAs (Decidable (wf g = true))

/-! ## kinds: the multi-pass fixpoint -/

def upd (k : Kinds) (r : Nat) (v : Kind) : Kinds := fun x => if x = r then v else k x

/-- `_tx_type` of every class, `resolved_classes` of the current pass, `has_change[0]` -/
structure St where
  kinds : Kinds
  visited : List Nat
  change : Bool

mutual
/-- `_has_nonmatch_ref`: walk the nodes in order, determine every referenced
rule first, stop at the first reference whose kind is not match -/
def hasNM (det : Nat → St → St) : Body → St → St × Bool
  | .lit, st => (st, false)
  | .ref r, st =>
      let st' := det r st
      (st', st'.kinds r != .mtch)
  | .seq xs, st => hasNML det xs st
  | .choice xs, st => hasNML det xs st
  | .other xs, st => hasNML det xs st
def hasNML (det : Nat → St → St) : List Body → St → St × Bool
  | [], st => (st, false)
  | x :: xs, st =>
      match hasNM det x st with
      | (st1, true) => (st1, true)
      | (st1, false) => hasNML det xs st1
end

/-- `_determine_rule_type(cls)`; the first argument bounds the recursion depth -/
def determine (g : Gram) : Nat → Nat → St → St
  | 0, _, st => st
  | f + 1, r, st =>
      if r ∈ st.visited then st
      else
        let st0 : St := { st with visited := r :: st.visited }
        match g[r]? with
        | none => st0
        | some rule =>
            if rule.hasAttrs then
              if st0.kinds r ≠ .common then { st0 with kinds := upd st0.kinds r .common, change := true }
              else st0
            else
              match hasNM (determine g f) rule.body st0 with
              | (st1, abstract) =>
                  if abstract && st1.kinds r != .abstr then
                    { st1 with kinds := upd st1.kinds r .abstr, change := true }
                  else st1

/-- one iteration of the `while has_change[0]` loop: fresh visited set, all classes in order -/
def onePass (g : Gram) (k : Kinds) : St :=
  (List.range g.length).foldl (fun st r => determine g (g.length + 1) r st) ⟨k, [], false⟩

/-- the `while` loop; the Boolean says that a change-free pass ended it -/
def passes (g : Gram) : Nat → Kinds → Kinds × Bool
  | 0, k => (k, false)
  | p + 1, k =>
      let st := onePass g k
      if st.change then passes g p st.kinds else (st.kinds, true)

/-- every class starts as a match rule (`_new_class(…, rule_type=RULE_MATCH)`) -/
def initKinds : Kinds := fun _ => .mtch

def determineAll (g : Gram) : Kinds × Bool := passes g (g.length + 1) initKinds

def kindsOf (g : Gram) : Kinds := (determineAll g).1

/-- spec: the least fixpoint of "has assignments, or references a non-match rule" -/
inductive NonMatch (g : Gram) : Nat → Prop
  | attrs {r rule} : g[r]? = some rule → rule.hasAttrs = true → NonMatch g r
  | ref {r rule s} : g[r]? = some rule → s ∈ rule.body.refs → NonMatch g s → NonMatch g r

/-- spec of the kinds (documentation: common = has assignments, match = all
references are match rules, abstract otherwise) -/
def KindSpec (g : Gram) (k : Kinds) : Prop :=
  ∀ r, (k r = .common ↔ ∃ rule, g[r]? = some rule ∧ rule.hasAttrs = true) ∧
       (k r = .abstr ↔ (∃ rule, g[r]? = some rule ∧ rule.hasAttrs = false) ∧ NonMatch g r) ∧
       (k r = .mtch ↔ ¬ NonMatch g r)

/-! ## inheritance lists -/

mutual
/-- `_add_reffered_classes(rule, inh_by)`: the list after the walk and whether
the enclosing sequence is finished -/
def addRef (k : Kinds) : Body → List Nat → List Nat × Bool
  | .lit, acc => (acc, false)
  | .ref r, acc =>
      if k r ≠ .mtch then (if r ∈ acc then acc else acc ++ [r], true) else (acc, false)
  | .seq xs, acc => addSeq k xs acc
  | .other xs, acc => addSeq k xs acc
  | .choice xs, acc => addChoice k xs acc
/-- not an ordered choice: leave at the first node that found its reference -/
def addSeq (k : Kinds) : List Body → List Nat → List Nat × Bool
  | [], acc => (acc, false)
  | x :: xs, acc =>
      match addRef k x acc with
      | (acc1, true) => (acc1, true)
      | (acc1, false) => addSeq k xs acc1
/-- ordered choice: every alternative is walked; finished iff all of them are -/
def addChoice (k : Kinds) : List Body → List Nat → List Nat × Bool
  | [], acc => (acc, true)
  | x :: xs, acc =>
      match addRef k x acc with
      | (acc1, b1) =>
          match addChoice k xs acc1 with
          | (acc2, b2) => (acc2, b1 && b2)
end

/-- `_tx_inh_by` of rule `r` (`_add_inherited_classes`, run for the abstract classes) -/
def inhBy (g : Gram) (k : Kinds) (r : Nat) : List Nat :=
  match g[r]? with
  | none => []
  | some rule =>
      if k r = .abstr then
        match rule.body with
        | .ref t => [t]
        | b => (addRef k b []).1
      else []

/-- spec: `FirstNM k b (some s)` — some alternative of `b` has `s` as its first
non-match reference; `FirstNM k b none` — some alternative has none -/
inductive FirstNM (k : Kinds) : Body → Option Nat → Prop
  | lit : FirstNM k .lit none
  | refNM {r} : k r ≠ .mtch → FirstNM k (.ref r) (some r)
  | refM {r} : k r = .mtch → FirstNM k (.ref r) none
  | seqNil : FirstNM k (.seq []) none
  | seqHead {x xs s} : FirstNM k x (some s) → FirstNM k (.seq (x :: xs)) (some s)
  | seqTail {x xs o} : FirstNM k x none → FirstNM k (.seq xs) o → FirstNM k (.seq (x :: xs)) o
  | choice {x xs o} : x ∈ xs → FirstNM k x o → FirstNM k (.choice xs) o

mutual
/-- the documented fragment: sequences and ordered choices of matches and rule references -/
def Body.documented : Body → Bool
  | .lit => true
  | .ref _ => true
  | .seq xs => documentedL xs
  | .choice xs => documentedL xs
  | .other _ => false
def documentedL : List Body → Bool
  | [] => true
  | x :: xs => x.documented && documentedL xs
end

/-! ## `textx_isinstance` -/

/-- the `for cls in obj_cls._tx_inh_by` loop with the visited set -/
def dfsL (rec : Nat → List Nat → Bool × List Nat) : List Nat → List Nat → Bool × List Nat
  | [], seen => (false, seen)
  | c :: cs, seen =>
      if c ∈ seen then dfsL rec cs seen
      else
        match rec c seen with
        | (true, seen') => (true, seen')
        | (false, seen') => dfsL rec cs seen'

/-- `_isinstance(obj_cls)` for an object of rule `tgt` -/
def dfs (inh : Nat → List Nat) (tgt : Nat) : Nat → Nat → List Nat → Bool × List Nat
  | 0, c, seen => (decide (c = tgt), seen)
  | f + 1, c, seen =>
      if c = tgt then (true, seen) else dfsL (dfs inh tgt f) (inh c) (c :: seen)

inductive Cls
  | object
  | rule (r : Nat)
deriving DecidableEq, Repr

/-- `textx_isinstance(obj, cls)` for a model object created by rule `o` -/
def isInstance (g : Gram) (k : Kinds) (o : Nat) : Cls → Bool
  | .object => true
  | .rule R => (dfs (inhBy g k) o (g.length + 1) R []).1

/-- `R` yields what `S` yields: `R` is abstract and `S` is the first non-match
reference of one of its alternatives -/
def Edge (g : Gram) (k : Kinds) (R S : Nat) : Prop :=
  ∃ rule, g[R]? = some rule ∧ k R = .abstr ∧ FirstNM k rule.body (some S)

inductive Reach (g : Gram) (k : Kinds) : Nat → Nat → Prop
  | edge {R S} : Edge g k R S → Reach g k R S
  | trans {R S T} : Edge g k R S → Reach g k S T → Reach g k R T

/-! ## model construction: the rule-kind dispatch of `process_node` -/

/-- parse tree as `process_node` sees it: children of a root rule's node are
terminals, nodes of referenced root rules and assignment nodes (flattened).
A terminal carries the text it matched (`raw`, what `str(node)` gives) and the
text of the Python value `metamodel.process` turns it into (`val`; the base
type conversion itself is C04's subject and is data here: `'false'` ↦ `False`,
`"''"` ↦ the empty string, `'007'` ↦ `7`; for keywords both are the same) -/
inductive PT
  | term (raw : String) (val : String) : PT
  | nt (rule : Nat) (kids : List PT) : PT
  | asgn (attr : String) (kids : List PT) : PT
deriving Repr

inductive Val
  | prim (text : String) : Val
  | obj (rule : Nat) (attrs : List (String × List Val)) : Val
deriving Repr

mutual
/-- `process_match`: the converted values, joined as text (`"".join(str(process_match(n)) …)`;
a single child keeps its value, whose text is the same string) -/
def PT.flat : PT → String
  | .term _ v => v
  | .nt _ ks => flatL ks
  | .asgn _ ks => flatL ks
def flatL : List PT → String
  | [] => ""
  | x :: xs => x.flat ++ flatL xs
end

mutual
/-- the matched text (`"".join(str(n) for n in node)`) -/
def PT.raw : PT → String
  | .term t _ => t
  | .nt _ ks => rawL ks
  | .asgn _ ks => rawL ks
def rawL : List PT → String
  | [] => ""
  | x :: xs => x.raw ++ rawL xs
end

def PT.isNT : PT → Bool
  | .nt _ _ => true
  | _ => false

/-- a child that is the node of a referenced common / abstract rule -/
def PT.isNM (k : Kinds) : PT → Bool
  | .nt r _ => k r != .mtch
  | _ => false

mutual
def proc (k : Kinds) : PT → Val
  | .term _ v => .prim v
  | .asgn _ _ => .prim ""
  | .nt r kids =>
      match k r with
      | .abstr =>
          if kids.length = 1 then
            -- `process_node(node[0])`
            match procFirst k (fun _ => true) kids with
            | some v => v
            | none => .prim ""
          else
            -- first child that is the node of a non-match rule
            match procFirst k (PT.isNM k) kids with
            | some v => v
            | none =>
              -- only match rules: the first non-terminal child, if any
              match procFirst k PT.isNT kids with
              | some v => v
              -- all nodes are simple matches: the matched texts are joined, unconverted
              | none => .prim (rawL kids)
      | .mtch => .prim (flatL kids)
      | .common => .obj r (procAttrs k kids)
/-- result of the first child satisfying `p` -/
def procFirst (k : Kinds) (p : PT → Bool) : List PT → Option Val
  | [] => none
  | x :: xs => if p x then some (proc k x) else procFirst k p xs
/-- the assignments below a common rule's node, in input order -/
def procAttrs (k : Kinds) : List PT → List (String × List Val)
  | [] => []
  | x :: xs =>
      match x with
      | .asgn a ks => (a, procL k ks) :: procAttrs k xs
      | _ => procAttrs k xs
def procL (k : Kinds) : List PT → List Val
  | [] => []
  | x :: xs => proc k x :: procL k xs
end

mutual
/-- rules of all objects contained in a value -/
def Val.objRules : Val → List Nat
  | .prim _ => []
  | .obj r attrs => r :: objRulesA attrs
def objRulesA : List (String × List Val) → List Nat
  | [] => []
  | (_, vs) :: rest => objRulesL vs ++ objRulesA rest
def objRulesL : List Val → List Nat
  | [] => []
  | v :: vs => v.objRules ++ objRulesL vs
end

/-! ## alternatives, spelled out (a second reading of `FirstNM`) -/

mutual
/-- the alternatives of a body: each one the sequence of rule references it goes through -/
def Body.alts : Body → List (List Nat)
  | .lit => [[]]
  | .ref r => [[r]]
  | .seq xs => altsSeq xs
  | .choice xs => altsChoice xs
  | .other _ => []
def altsSeq : List Body → List (List Nat)
  | [] => [[]]
  | x :: xs => x.alts.flatMap fun a => (altsSeq xs).map fun rest => a ++ rest
def altsChoice : List Body → List (List Nat)
  | [] => []
  | x :: xs => x.alts ++ altsChoice xs
end

/-- first non-match reference of one alternative -/
def firstNMof (k : Kinds) (a : List Nat) : Option Nat := a.find? fun r => k r != .mtch

mutual
/-- no empty ordered choice (the grammar language cannot write one) -/
def Body.noEmptyChoice : Body → Bool
  | .lit => true
  | .ref _ => true
  | .seq xs => noEmptyChoiceL xs
  | .choice xs => !xs.isEmpty && noEmptyChoiceL xs
  | .other xs => noEmptyChoiceL xs
def noEmptyChoiceL : List Body → Bool
  | [] => true
  | x :: xs => x.noEmptyChoice && noEmptyChoiceL xs
end

/-! ## the pinned behaviour (before the repairs), for the negation witnesses -/

mutual
/-- `_add_reffered_classes` as pinned: an already listed class does not end the
walk; an ordered choice ends the enclosing sequence as soon as one alternative found something -/
def addRefPinned (k : Kinds) : Body → List Nat → List Nat × Bool
  | .lit, acc => (acc, false)
  | .ref r, acc => if k r ≠ .mtch ∧ r ∉ acc then (acc ++ [r], true) else (acc, false)
  | .seq xs, acc => addSeqPinned k xs acc
  | .other xs, acc => addSeqPinned k xs acc
  | .choice xs, acc => addChoicePinned k xs acc
def addSeqPinned (k : Kinds) : List Body → List Nat → List Nat × Bool
  | [], acc => (acc, false)
  | x :: xs, acc =>
      match addRefPinned k x acc with
      | (acc1, true) => (acc1, true)
      | (acc1, false) => addSeqPinned k xs acc1
def addChoicePinned (k : Kinds) : List Body → List Nat → List Nat × Bool
  | [], acc => (acc, false)
  | x :: xs, acc =>
      match addRefPinned k x acc with
      | (acc1, b1) =>
          match addChoicePinned k xs acc1 with
          | (acc2, b2) => (acc2, b1 || b2)
end

/-- pinned `process_node` for an abstract rule with several children: the first
non-terminal child whatever its rule kind (`… is not RULE_MATCH` was always true) -/
def procAbsPinned (k : Kinds) (kids : List PT) : Val :=
  match procFirst k PT.isNT kids with
  | some v => v
  | none => .prim (rawL kids)

/-- pinned state: the inheritance lists are filled while the kinds are still moving -/
structure StP where
  kinds : Kinds
  visited : List Nat
  change : Bool
  inh : Nat → List Nat

def updL (m : Nat → List Nat) (r : Nat) (v : List Nat) : Nat → List Nat := fun x => if x = r then v else m x

mutual
def hasNMP (det : Nat → StP → StP) : Body → StP → StP × Bool
  | .lit, st => (st, false)
  | .ref r, st =>
      let st' := det r st
      (st', st'.kinds r != .mtch)
  | .seq xs, st => hasNMLP det xs st
  | .choice xs, st => hasNMLP det xs st
  | .other xs, st => hasNMLP det xs st
def hasNMLP (det : Nat → StP → StP) : List Body → StP → StP × Bool
  | [], st => (st, false)
  | x :: xs, st =>
      match hasNMP det x st with
      | (st1, true) => (st1, true)
      | (st1, false) => hasNMLP det xs st1
end

mutual
def addRefP (det : Nat → StP → StP) : Body → StP × List Nat → (StP × List Nat) × Bool
  | .lit, s => (s, false)
  | .ref r, (st, acc) =>
      let st' := det r st
      if st'.kinds r ≠ .mtch ∧ r ∉ acc then ((st', acc ++ [r]), true) else ((st', acc), false)
  | .seq xs, s => addSeqP det xs s
  | .other xs, s => addSeqP det xs s
  | .choice xs, s => addChoiceP det xs s
def addSeqP (det : Nat → StP → StP) : List Body → StP × List Nat → (StP × List Nat) × Bool
  | [], s => (s, false)
  | x :: xs, s =>
      match addRefP det x s with
      | (s1, true) => (s1, true)
      | (s1, false) => addSeqP det xs s1
def addChoiceP (det : Nat → StP → StP) : List Body → StP × List Nat → (StP × List Nat) × Bool
  | [], s => (s, false)
  | x :: xs, s =>
      match addRefP det x s with
      | (s1, b1) =>
          match addChoiceP det xs s1 with
          | (s2, b2) => (s2, b1 || b2)
end

def determineP (g : Gram) : Nat → Nat → StP → StP
  | 0, _, st => st
  | f + 1, r, st =>
      if r ∈ st.visited then st
      else
        let st0 : StP := { st with visited := r :: st.visited }
        match g[r]? with
        | none => st0
        | some rule =>
            if rule.hasAttrs then
              if st0.kinds r ≠ .common then { st0 with kinds := upd st0.kinds r .common, change := true }
              else st0
            else
              match hasNMP (determineP g f) rule.body st0 with
              | (st1, abstract) =>
                  if abstract && st1.kinds r != .abstr then
                    let st2 : StP := { st1 with kinds := upd st1.kinds r .abstr, change := true }
                    match rule.body with
                    | .ref t =>
                        { st2 with inh := updL st2.inh r (if t ∈ st2.inh r then st2.inh r else st2.inh r ++ [t]) }
                    | b =>
                        match addRefP (determineP g f) b (st2, st2.inh r) with
                        | ((st3, l), _) => { st3 with inh := updL st3.inh r l }
                  else st1

def passesP (g : Gram) : Nat → StP → StP
  | 0, st => st
  | p + 1, st =>
      let st' := (List.range g.length).foldl (fun st r => determineP g (g.length + 1) r st)
        { st with visited := [], change := false }
      if st'.change then passesP g p st' else st'

/-- `_tx_inh_by` on the pinned tree -/
def inhByPinned (g : Gram) (r : Nat) : List Nat :=
  (passesP g (g.length + 1) ⟨initKinds, [], false, fun _ => []⟩).inh r

end RuleTypes
