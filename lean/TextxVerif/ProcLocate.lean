/-!
# Proc.Locate — location of errors raised by processors (C33)

Mirror of
* `TextXMetaModel.process` (textx/metamodel.py, the generic `except` that fills
  the location of a `TextXError`; after the repair recorded in `notes/C33.md` it
  also fills `nchar`),
* the two dispatch sites: object processors (`call_obj_processors`,
  `metamodel.process(model_obj, name, **get_location(model_obj))`) and match
  processors (`process_match` / `process_node`,
  `metamodel.process(value, rule_name, filename=parser.file_name, line=…, col=…)`),
* `textxerror_wrap` (textx/model.py).

File names are abstracted to numbers.  `Site` is the processed text: the file of
its model, line/column of its start (as `pos_to_linecol` of the model's parser
gives them) and its length.  Core Lean only.
-/
namespace Proc

/-- the location attributes of a `TextXError` (`None` = not set) -/
structure ErrLoc where
  filename : Option Nat
  line : Option Nat
  col : Option Nat
  nchar : Option Nat
deriving DecidableEq, Repr

def ErrLoc.empty : ErrLoc := ⟨none, none, none, none⟩

/-- what a processor raises -/
inductive Raised
  | textx (loc : ErrLoc)   -- a `TextXError` (or subclass) with these location attributes
  | other                   -- any other exception
deriving DecidableEq, Repr

/-- keyword arguments handed to `TextXMetaModel.process` -/
structure Given where
  filename : Option Nat
  line : Nat
  col : Nat
  nchar : Option Nat
deriving DecidableEq, Repr

/-- `x if x is not None else y` -/
def orElse (x y : Option Nat) : Option Nat :=
  match x with
  | some v => some v
  | none => y

/-- the `except Exception as e:` branch of `TextXMetaModel.process` -/
def enrich (g : Given) : Raised → Raised
  | .textx l =>
    .textx { col := orElse l.col (some g.col)            -- `if e.col is None: e.col = col`
             line := orElse l.line (some g.line)         -- `if e.line is None: e.line = line`
             filename := orElse l.filename g.filename    -- `if e.filename is None: e.filename = filename`
             nchar := orElse l.nchar g.nchar }           -- `if e.nchar is None: e.nchar = nchar`
  | .other => .other                                      -- `else: raise`

/-- the pinned `process` (before the repair): `nchar` accepted but never used -/
def enrichPinned (g : Given) : Raised → Raised
  | .textx l =>
    .textx { col := orElse l.col (some g.col), line := orElse l.line (some g.line),
             filename := orElse l.filename g.filename, nchar := l.nchar }
  | .other => .other

/-- the processed text -/
structure Site where
  file : Option Nat
  line : Nat
  col : Nat
  len : Nat
deriving DecidableEq, Repr

/-- which dispatch site: object processor (the processed value is a model object)
or match processor (the processed value is a string / converted primitive) -/
inductive PKind | obj | mtch
deriving DecidableEq, Repr

/-- `get_location(model_obj)` -/
def getLocation (s : Site) : Given := ⟨s.file, s.line, s.col, some s.len⟩

/-- the keyword arguments at the dispatch site -/
def given : PKind → Site → Given
  | .mtch, s => ⟨s.file, s.line, s.col, none⟩
  | .obj, s => getLocation s

def Given.toLoc (g : Given) : ErrLoc := ⟨g.filename, some g.line, some g.col, g.nchar⟩

/-- `textxerror_wrap(obj_processor)` around a processor that raises `r` -/
def wrap (k : PKind) (s : Site) : Raised → Raised
  | .textx l => .textx l                       -- `if isinstance(e, TextXError): raise`
  | .other =>
    match k with
    -- `hasattr(obj, "_tx_position") and hasattr(obj, "_tx_filename")`: true for every model
    -- object (`_tx_filename` is also a class attribute of every textX class), false for match values
    | .obj => .textx (getLocation s).toLoc     -- `TextXError(str(e), **get_location(obj))`
    | .mtch => .textx ErrLoc.empty              -- `TextXError(str(e))`

/-- what leaves `metamodel.process` (and with it the load) when the processor —
wrapped or not — raises `r` on the text `s` -/
def outcome (k : PKind) (s : Site) (wrapped : Bool) (r : Raised) : Raised :=
  enrich (given k s) (if wrapped then wrap k s r else r)

def outcomePinned (k : PKind) (s : Site) (wrapped : Bool) (r : Raised) : Raised :=
  enrichPinned (given k s) (if wrapped then wrap k s r else r)

/-- the located error the property asks for -/
def expected (k : PKind) (s : Site) : ErrLoc :=
  ⟨s.file, some s.line, some s.col, match k with | .mtch => none | .obj => some s.len⟩

end Proc
