import TextxVerif.ProcWalk
import TextxVerif.LinkLoc
/-!
# Proc.Load — a whole load: the resolution loop, then initialisation, then the walk (C13)

`Proc.finish` / `finishMM` take the reference resolutions of a load as an opaque
list.  Here they come from the model of the loop that produces them:
`LinkLoc.run` (C28/C34; `parse_tree_to_objgraph`, model.py: every model file is
parsed, then `while unresolved_count > 0 and resolved_count > 0: for m in models:
m._tx_reference_resolver.resolve_one_step()`, then `if unresolved_count > 0: raise`)
with arbitrary scope-provider answers `ans k id` (any provider, any postponement
schedule).  Only when the loop ends with nothing pending does the code reach
`for m in models: _end_model_construction(m)` and `for m in models:
call_obj_processors(m._tx_metamodel, m)`; any error raised in the loop leaves
`parse_tree_to_objgraph` before both.

`LinkLoc.MRec.posList` records every reference a provider resolved (one entry per
resolution, `Entry.ref` = the reference); it is used here as the record of the
resolutions of the load.  Core Lean only.
-/
namespace Proc

/-- the references resolved during the loop, model by model -/
def resolvedRefs (ms : List LinkLoc.MRec) : List Nat := ms.flatMap (fun m => m.posList.map (·.ref))

/-- events of a load of `files` (main model first) whose object trees are `models`:
`none` when loading fails in parsing or reference resolution (no user-class
initialisation, no processor call), else resolutions, initialisations, processor calls -/
def loadEvents (files : List LinkLoc.FileSpec) (ans : Nat → Nat → LinkLoc.Answer) (fuel : Nat)
    (S : Script) (isUser : Nat → Bool) (models : List (MM × Val)) : Option (List Ev) :=
  match LinkLoc.run files ans fuel with
  | .ok ms => some (finishMM S isUser (resolvedRefs ms) models)
  | _ => none

end Proc
