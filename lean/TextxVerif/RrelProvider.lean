import TextxVerif.Rrel
/-!
# The RREL scope provider object (`create_rrel_scope_provider` → class `RREL`, textx/scoping/rrel.py)

One provider object lives as long as its meta-model and is called once per reference it
serves: for every reference of every model loaded with that meta-model, whatever match
rule (name delimiter) and target class the reference has.  A *history* is the list of these
calls.  The Python object could carry state from one call to the next; the code does not:
`__call__` reads `self.rrel_tree`, `self.split_string`, `self.use_proxy` and writes nothing.
The model keeps the object explicit (`call` returns the provider as it is after the call), so
the statement "the answer to a reference does not depend on the references served before"
is a theorem about `run`, not an assumption built into the types.

Python                                                      | here
------------------------------------------------------------|--------------------------------
`RREL(rrel_tree, split_string, use_proxy)`                  | `Provider`
`ObjCrossRef` (`obj_name`, `cls`, `match_rule_name`) + `current_obj` | `Call`
`rule._tx_peg_rule.split` if the match rule has the parameter | `Call.ruleSplit`
`if self.split_string is None: … else: split = self.split_string` | `Provider.delim`
`RREL.__call__`                                             | `Provider.call`
the calls of one provider during the life of a meta-model   | `Provider.run`
-/
namespace Rrel

/-- the scope provider object -/
structure Provider where
  /-- `rrel_tree.seq.paths` -/
  paths : List E
  /-- `split_string` given at creation (`none`: deduce it from the match rule of each reference) -/
  split : Option String
  /-- `use_proxy` (`+p:`) -/
  proxy : Bool

/-- one reference handed to the provider -/
structure Call where
  /-- `current_obj`: the object holding the reference -/
  o : Obj
  /-- `obj_ref.obj_name`: the reference text as matched by the match rule -/
  text : String
  /-- the `split` rule parameter of `obj_ref.match_rule_name`, if the rule has one -/
  ruleSplit : Option String
  /-- `obj_ref.cls` -/
  cls : Option String

/-- the delimiter used for this reference: the provider's own, else the one of the match
rule of *this* reference, else `.` -/
def Provider.delim (p : Provider) (c : Call) : String :=
  match p.split with
  | some s => s
  | none => match c.ruleSplit with
    | some s => s
    | none => "."

/-- `RREL.__call__(current_obj, attr, obj_ref)`: the answer and the provider object afterwards -/
def Provider.call (p : Provider) (H : Heap) (n : Nat) (c : Call) : Res × Provider :=
  (find H n p.paths c.o (splitName c.text (p.delim c)) c.cls, p)

/-- the answers of one provider object to a history of references (each in its own model) -/
def Provider.run (p : Provider) (n : Nat) : List (Heap × Call) → List Res
  | [] => []
  | (H, c) :: rest => (p.call H n c).1 :: (p.call H n c).2.run n rest

/-- what the reference denotes by itself: the query of `find` with the name split at the
delimiter of its own match rule -/
def Provider.alone (p : Provider) (H : Heap) (n : Nat) (c : Call) : Res :=
  find H n p.paths c.o (splitName c.text (p.delim c)) c.cls

end Rrel
