/-!
# Registry machine (C26) — mirror of `textx/registration.py`

State (registration.py:109-111):
* `languages : dict | None`            → `St.langs  : Option (Dict LangDesc)`
* `generators : dict of dict | None`   → `St.gens   : Option (Dict (Dict GenDesc))`
* `metamodels : dict`                  → `St.cache  : Dict MM`
`None` means "entry points not loaded yet".  A Python `dict` is an insertion
ordered association list (`Dict`).  `St.serial` supplies object identity for
meta-models produced by factory callables (the n-th product is `MM.made n …`).

Everything the code takes from its environment is a field of `Env`:
`str.lower`, `fnmatch.fnmatch`, and the entry points of the two groups.

The functions below follow the Python functions statement by statement
(after the `fix:` commit "a language registered without a file pattern matches
no file").  An exception leaves the state as it is at the raise point, so every
function returns the new state together with `Out.ok v` or `Out.raise r`.

The second half of the file is the abstract specification the machine is
proved to refine (`Spec`): plain maps over the case-folded name, no lazy
loading, no dictionary order.

Model file: core Lean only.
-/
namespace Reg

/-- what `LanguageDesc.metamodel` holds -/
inductive MMSrc
  | inst (uid : Nat)   -- a meta-model instance (identity `uid`)
  | factory            -- a callable producing a new meta-model per call
  | badFactory         -- a callable whose result is not a meta-model
  | notCallable        -- `None` / the `typing.Callable` default: calling it raises `TypeError`
deriving DecidableEq, Repr

/-- `LanguageDesc` (identity `uid`) -/
structure LangDesc where
  uid : Nat
  name : String
  pattern : Option String
  mm : MMSrc
deriving DecidableEq, Repr

/-- `GeneratorDesc` (identity `uid`) -/
structure GenDesc where
  uid : Nat
  language : String
  target : String
deriving DecidableEq, Repr

/-- a meta-model object: one given at registration, or the `serial`-th product
of a factory, made by the language descriptor `by_` from the keyword
arguments `kw` (`0` = none) -/
inductive MM
  | given (uid : Nat)
  | made (serial : Nat) (by_ : Nat) (kw : Nat)
deriving DecidableEq, Repr

/-- observable result of one API call -/
inductive Res
  | unit
  | desc (d : LangDesc)
  | descs (ds : List LangDesc)
  | keys (ks : List String)
  | mm (m : MM)
  | mms (ms : List MM)
  | gen (g : GenDesc)
  | gkeys (ks : List (String × String))
  | regError      -- TextXRegistrationError
  | typeError     -- TypeError (calling a non-callable `metamodel`)
deriving DecidableEq, Repr

inductive Out (α : Type)
  | ok (a : α)
  | raise (r : Res)
deriving Repr

/-- the environment of the registry -/
structure Env where
  /-- `str.lower` -/
  lower : String → String
  /-- `fnmatch.fnmatch file pattern` -/
  fnm : String → String → Bool
  /-- `entry_points(group="textx_languages")`, loaded -/
  eps : List LangDesc
  /-- `entry_points(group="textx_generators")`, loaded -/
  geps : List GenDesc

/-! ## Python dictionaries -/

abbrev Dict (α : Type) := List (String × α)

/-- `d.get(k)` -/
def dget {α : Type} : Dict α → String → Option α
  | [], _ => none
  | (k', v) :: t, k => if k' = k then some v else dget t k

/-- `d[k] = v` (an existing key keeps its place) -/
def dset {α : Type} : Dict α → String → α → Dict α
  | [], k, v => [(k, v)]
  | (k', v') :: t, k, v => if k' = k then (k', v) :: t else (k', v') :: dset t k v

/-! ## The machine -/

structure St where
  langs : Option (Dict LangDesc)
  cache : Dict MM
  serial : Nat
  gens : Option (Dict (Dict GenDesc))
deriving Repr

/-- module import time -/
def St.init : St := { langs := none, cache := [], serial := 0, gens := none }

/-- the loop of `language_descriptions` over the entry points
(`register_language_with_project` → `register_language` with `languages`
already a dict): a duplicate name raises and leaves the dict partially filled
(`false`). -/
def loadLangs (E : Env) : List LangDesc → Dict LangDesc → Dict LangDesc × Bool
  | [], acc => (acc, true)
  | d :: rest, acc =>
      if (dget acc (E.lower d.name)).isSome then (acc, false)
      else loadLangs E rest (dset acc (E.lower d.name) d)

/-- `language_descriptions()` (114-127): state, the dict, and whether it returned normally -/
def langDescs (E : Env) (s : St) : St × Dict LangDesc × Bool :=
  match s.langs with
  | some ls => (s, ls, true)
  | none =>
      let r := loadLangs E E.eps []
      ({ s with langs := some r.1 }, r.1, r.2)

/-- `language_description(name)` (146-157) -/
def languageDescription (E : Env) (s : St) (name : String) : St × Out LangDesc :=
  let n := E.lower name
  match langDescs E s with
  | (s, _, false) => (s, .raise .regError)
  | (s, ls, true) =>
      match dget ls n with
      | none => (s, .raise .regError)
      | some d => (s, .ok d)

/-- `register_language(desc)` (202-236) -/
def registerLanguage (E : Env) (s : St) (d : LangDesc) : St × Res :=
  match langDescs E s with
  | (s, _, false) => (s, .regError)
  | (s, ls, true) =>
      if (dget ls (E.lower d.name)).isSome then (s, .regError)
      else ({ s with langs := some (dset ls (E.lower d.name) d) }, .unit)

/-- `clear_language_registrations()` (250-256) -/
def clearLanguages (s : St) : St := { s with langs := none, cache := [] }

/-- `metamodel_for_language(name, **kwargs)` (319-341); `kw = 0` ⇔ no keyword arguments -/
def metamodelForLanguage (E : Env) (s : St) (name : String) (kw : Nat) : St × Out MM :=
  let n := E.lower name
  match dget s.cache n, kw with
  | some m, 0 => (s, .ok m)
  | _, _ =>
      match languageDescription E s n with
      | (s, .raise r) => (s, .raise r)
      | (s, .ok d) =>
          match d.mm with
          | .inst u => ({ s with cache := dset s.cache n (.given u) }, .ok (.given u))
          | .factory =>
              ({ s with cache := dset s.cache n (.made s.serial d.uid kw), serial := s.serial + 1 },
                .ok (.made s.serial d.uid kw))
          | .badFactory => (s, .raise .regError)
          | .notCallable => (s, .raise .typeError)

/-- the test of `languages_for_file` on one language (after the fix: no pattern, no match) -/
def patMatches (E : Env) (f : String) (d : LangDesc) : Bool :=
  match d.pattern with
  | none => false
  | some p => f == p || E.fnm f p

/-- `languages_for_file(f)` (344-356) -/
def languagesForFile (E : Env) (s : St) (f : String) : St × Out (List LangDesc) :=
  match langDescs E s with
  | (s, _, false) => (s, .raise .regError)
  | (s, ls, true) => (s, .ok ((ls.map (·.2)).filter (patMatches E f)))

/-- `language_for_file(f)` (359-374) -/
def languageForFile (E : Env) (s : St) (f : String) : St × Out LangDesc :=
  match languagesForFile E s f with
  | (s, .raise r) => (s, .raise r)
  | (s, .ok [d]) => (s, .ok d)
  | (s, .ok _) => (s, .raise .regError)

/-- the list comprehension of `metamodels_for_file` -/
def mmLoop (E : Env) : St → List LangDesc → St × Out (List MM)
  | s, [] => (s, .ok [])
  | s, d :: ds =>
      match metamodelForLanguage E s d.name 0 with
      | (s, .raise r) => (s, .raise r)
      | (s, .ok m) =>
          match mmLoop E s ds with
          | (s, .raise r) => (s, .raise r)
          | (s, .ok ms) => (s, .ok (m :: ms))

/-- `metamodels_for_file(f)` (377-386) -/
def metamodelsForFile (E : Env) (s : St) (f : String) : St × Out (List MM) :=
  match languagesForFile E s f with
  | (s, .raise r) => (s, .raise r)
  | (s, .ok ds) => mmLoop E s ds

/-- `metamodel_for_file(f, **kwargs)` (389-396) -/
def metamodelForFile (E : Env) (s : St) (f : String) (kw : Nat) : St × Out MM :=
  match languageForFile E s f with
  | (s, .raise r) => (s, .raise r)
  | (s, .ok d) => metamodelForLanguage E s d.name kw

/-- the duplicate test and insertion of `register_generator` (291-297) on a loaded dict -/
def regGenInto (E : Env) (gs : Dict (Dict GenDesc)) (g : GenDesc) : Option (Dict (Dict GenDesc)) :=
  let l := E.lower g.language
  let t := E.lower g.target
  let lg := (dget gs l).getD []
  if (dget lg t).isSome then none else some (dset gs l (dset lg t g))

def loadGens (E : Env) : List GenDesc → Dict (Dict GenDesc) → Dict (Dict GenDesc) × Bool
  | [], acc => (acc, true)
  | g :: rest, acc =>
      match regGenInto E acc g with
      | none => (acc, false)
      | some acc' => loadGens E rest acc'

/-- `generator_descriptions()` (130-143) -/
def genDescs (E : Env) (s : St) : St × Dict (Dict GenDesc) × Bool :=
  match s.gens with
  | some gs => (s, gs, true)
  | none =>
      let r := loadGens E E.geps []
      ({ s with gens := some r.1 }, r.1, r.2)

/-- `register_generator(desc)` (259-297) -/
def registerGenerator (E : Env) (s : St) (g : GenDesc) : St × Res :=
  match genDescs E s with
  | (s, _, false) => (s, .regError)
  | (s, gs, true) =>
      match regGenInto E gs g with
      | none => (s, .regError)
      | some gs' => ({ s with gens := some gs' }, .unit)

/-- `generators[l][t]` with `KeyError` as `none` -/
def gget (gs : Dict (Dict GenDesc)) (l t : String) : Option GenDesc :=
  (dget gs l).bind (fun lg => dget lg t)

/-- `generator_description(l, t, any_permitted)` (160-187) and
`generator_for_language_target` (190-199), which returns its `.generator` -/
def generatorDescription (E : Env) (s : St) (l t : String) (any : Bool) : St × Out GenDesc :=
  let l := E.lower l
  let t := E.lower t
  match genDescs E s with
  | (s, _, false) => (s, .raise .regError)
  | (s, gs, true) =>
      match gget gs l t with
      | some g => (s, .ok g)
      | none =>
          if any then
            match gget gs "any" t with
            | some g => (s, .ok g)
            | none => (s, .raise .regError)
          else (s, .raise .regError)

/-- `clear_generator_registrations()` (311-316) -/
def clearGenerators (s : St) : St := { s with gens := none }

/-- all `(language, target)` keys of the two-level dict, in order -/
def gkeysOf (gs : Dict (Dict GenDesc)) : List (String × String) :=
  gs.flatMap (fun p => p.2.map (fun q => (p.1, q.1)))

/-- one API call -/
inductive Op
  | regLang (d : LangDesc)
  | lang (name : String)
  | langKeys
  | clearLangs
  | mmLang (name : String) (kw : Nat)
  | langsForFile (f : String)
  | langForFile (f : String)
  | mmsForFile (f : String)
  | mmForFile (f : String) (kw : Nat)
  | regGen (g : GenDesc)
  | gen (l t : String) (any : Bool)
  | genKeys
  | clearGens
deriving DecidableEq, Repr

def Out.res {α : Type} (f : α → Res) : Out α → Res
  | .ok a => f a
  | .raise r => r

def step (E : Env) (s : St) : Op → St × Res
  | .regLang d => registerLanguage E s d
  | .lang n => let r := languageDescription E s n; (r.1, r.2.res .desc)
  | .langKeys =>
      match langDescs E s with
      | (s, _, false) => (s, .regError)
      | (s, ls, true) => (s, .keys (ls.map (·.1)))
  | .clearLangs => (clearLanguages s, .unit)
  | .mmLang n kw => let r := metamodelForLanguage E s n kw; (r.1, r.2.res .mm)
  | .langsForFile f => let r := languagesForFile E s f; (r.1, r.2.res .descs)
  | .langForFile f => let r := languageForFile E s f; (r.1, r.2.res .desc)
  | .mmsForFile f => let r := metamodelsForFile E s f; (r.1, r.2.res .mms)
  | .mmForFile f kw => let r := metamodelForFile E s f kw; (r.1, r.2.res .mm)
  | .regGen g => registerGenerator E s g
  | .gen l t any => let r := generatorDescription E s l t any; (r.1, r.2.res .gen)
  | .genKeys =>
      match genDescs E s with
      | (s, _, false) => (s, .regError)
      | (s, gs, true) => (s, .gkeys (gkeysOf gs))
  | .clearGens => (clearGenerators s, .unit)

/-- a history: final state and the results, in order -/
def run (E : Env) : St → List Op → St × List Res
  | s, [] => (s, [])
  | s, op :: ops =>
      let r := step E s op
      let rest := run E r.1 ops
      (rest.1, r.2 :: rest.2)

/-- the state after the history `ops` (from module import) -/
def after (E : Env) (ops : List Op) : St := (run E St.init ops).1

/-- what the call `op` answers after the history `ops` -/
def answer (E : Env) (ops : List Op) (op : Op) : Res := (step E (after E ops) op).2

/-! ## Concrete environment pieces used by the driver -/

/-- `str.lower` on ASCII text -/
def asciiLower (s : String) : String := String.ofList (s.toList.map Char.toLower)

/-- all suffixes of a list, longest first -/
def suffixes {α : Type} : List α → List (List α)
  | [] => [[]]
  | a :: t => (a :: t) :: suffixes t

/-- `fnmatch.fnmatchcase` for patterns without `[`: `*` any run, `?` any one
character (arguments: pattern, file name) -/
def globMatch : List Char → List Char → Bool
  | [], t => t.isEmpty
  | p :: ps, t =>
      if p == '*' then (suffixes t).any (globMatch ps)
      else
        match t with
        | [] => false
        | c :: cs => (p == '?' || p == c) && globMatch ps cs

/-! ### `fnmatch` with character classes

`fnmatch.translate` (CPython 3.12, `Lib/fnmatch.py:77-185`) statement by
statement: `[` opens a class when a closing `]` exists after an optional `!` and
an optional first `]`; otherwise `[` is a literal.  Inside the class text a
character followed by `-` and a further character is a range (a range whose
bounds are out of order is empty), everything else — `^`, `[`, `&`, `~`, `|`, a
leading or trailing `-` — is a literal member.  An empty class never matches, a
negated empty class matches any character.  One quirk of CPython is mirrored
too: `translate` removes empty ranges *before* it looks at the first character
of the class text, so when the text begins with empty ranges followed by `!`, as
in `[b-a!x]`, the `!` is read as the negation mark (`stripEmptyRanges` in
`tokenize`). -/

/-- one unit of a translated pattern -/
inductive Tok where
  | star | any
  | lit (c : Char)
  | cls (neg : Bool) (body : List Char)
  deriving DecidableEq, Repr

/-- split at the first `c`: text before it, text after it -/
def spanTo (c : Char) : List Char → Option (List Char × List Char)
  | [] => none
  | x :: xs => if x == c then some ([], xs) else (spanTo c xs).map fun r => (x :: r.1, r.2)

/-- the text after a `[`: `(negated, class text, text after the closing ']')`,
`none` when the class is not closed -/
def splitClass (p : List Char) : Option (Bool × List Char × List Char) :=
  let neg := p.head? == some '!'
  let q := if neg then p.tail else p
  match q with
  | [] => none
  | x :: q' =>
      if x == ']' then (spanTo ']' q').map fun r => (neg, ']' :: r.1, r.2)
      else (spanTo ']' q).map fun r => (neg, r.1, r.2)

/-- reading position inside a class text: at the start of an item, after a
member `lo`, after `lo-` -/
inductive CSt where
  | s0
  | s1 (lo : Char)
  | s2 (lo : Char)

/-- membership in a class text, read left to right: `lo-hi` is a range (empty
when out of order), after which a new item starts; every other character — also
a `-` with nothing before or after it — is a literal member -/
def classGo (c : Char) : CSt → List Char → Bool
  | .s0, [] => false
  | .s1 lo, [] => lo == c
  | .s2 lo, [] => lo == c || '-' == c
  | .s0, x :: t => classGo c (.s1 x) t
  | .s1 lo, x :: t => if x == '-' then classGo c (.s2 lo) t else lo == c || classGo c (.s1 x) t
  | .s2 lo, x :: t => (decide (lo ≤ c) && decide (c ≤ x)) || classGo c .s0 t

def classHas (c : Char) (body : List Char) : Bool := classGo c .s0 body

/-- the character `c` is accepted by a non-`*` token -/
def Tok.accepts (c : Char) : Tok → Bool
  | .star => false
  | .any => true
  | .lit x => x == c
  | .cls neg body => if neg then !(classHas c body) else classHas c body

/-- a class text without its leading empty ranges (`lo-hi` with `hi < lo`) -/
def stripEmptyRanges : List Char → List Char
  | lo :: m :: hi :: t => if m == '-' && decide (hi < lo) then stripEmptyRanges t else lo :: m :: hi :: t
  | l => l

/-- the text of the *negated* class CPython reads when a class text, after its leading empty
ranges are dropped, begins with `!`.  If the `!` was the lower bound of a range `!-hi`, the `-`
and `hi` become plain members (written here as the one-character ranges `---` and `hi-hi`, after
which a new item starts, exactly as after the original range). -/
def negAfterStrip : List Char → Option (List Char)
  | '!' :: '-' :: hi :: rest => some ('-' :: '-' :: '-' :: hi :: '-' :: hi :: rest)
  | '!' :: t => some t
  | _ => none

/-- the pattern as tokens; the fuel is the pattern length (the text after a
class is shorter than the text after its `[`) -/
def tokenize : Nat → List Char → List Tok
  | 0, _ => []
  | _, [] => []
  | n + 1, c :: cs =>
      if c == '*' then .star :: tokenize n cs
      else if c == '?' then .any :: tokenize n cs
      else if c == '[' then
        match splitClass cs with
        | some (neg, body, rest) =>
            -- CPython drops empty ranges before it looks for the negation mark: `[b-a!x]` is `[!x]`
            match (if neg then none else negAfterStrip (stripEmptyRanges body)) with
            | some body' => .cls true body' :: tokenize n rest
            | none => .cls neg body :: tokenize n rest
        | none => .lit '[' :: tokenize n cs
      else .lit c :: tokenize n cs

/-- a token list against a text: `*` any run, every other token one character -/
def matchToks : List Tok → List Char → Bool
  | [], t => t.isEmpty
  | tok :: ps, t =>
      if tok = .star then (suffixes t).any (matchToks ps)
      else
        match t with
        | [] => false
        | c :: cs => tok.accepts c && matchToks ps cs

/-- `fnmatch.fnmatchcase` (arguments: pattern, file name), classes included -/
def fnMatch (p t : List Char) : Bool := matchToks (tokenize p.length p) t

def asciiEnv (eps : List LangDesc) (geps : List GenDesc) : Env :=
  { lower := asciiLower, fnm := fun f p => fnMatch p.toList f.toList, eps := eps, geps := geps }

/-! ## Abstract specification

Languages: a map from the case-folded name to the descriptor; it always
contains the entry-point registrations.  Meta-model cache: a map from the
case-folded name.  Generators: a map from the two case-folded names. -/

@[ext] structure Spec where
  L : String → Option LangDesc
  C : String → Option MM
  serial : Nat
  G : String → String → Option GenDesc

/-- map update -/
def fupd {α : Type} (f : String → Option α) (k : String) (v : α) : String → Option α :=
  fun k' => if k' = k then some v else f k'

/-- the entry-point languages as a map -/
def epMap (E : Env) : String → Option LangDesc :=
  fun k => E.eps.find? (fun d => E.lower d.name = k)

/-- the entry-point generators as a map -/
def gepMap (E : Env) : String → String → Option GenDesc :=
  fun l t => E.geps.find? (fun g => E.lower g.language = l ∧ E.lower g.target = t)

def Spec.init (E : Env) : Spec :=
  { L := epMap E, C := fun _ => none, serial := 0, G := gepMap E }

/-- `d` is registered (under some key) -/
def Spec.Registered (a : Spec) (d : LangDesc) : Prop := ∃ k, a.L k = some d

/-- `ds` lists, without repetition, exactly the registered languages whose pattern matches `f` -/
def Spec.Enumerates (E : Env) (a : Spec) (f : String) (ds : List LangDesc) : Prop :=
  ds.Nodup ∧ ∀ d, d ∈ ds ↔ (a.Registered d ∧ patMatches E f d = true)

/-- cache protocol: no arguments and cached → the cached object, nothing
changes; otherwise the language must be registered, an instance is returned
(and cached) as it is, a factory is called with the arguments and its new
product is cached. -/
def Spec.metamodel (E : Env) (a : Spec) (name : String) (kw : Nat) : Spec × Out MM :=
  let k := E.lower name
  match a.C k, kw with
  | some m, 0 => (a, .ok m)
  | _, _ =>
      match a.L k with
      | none => (a, .raise .regError)
      | some d =>
          match d.mm with
          | .inst u => ({ a with C := fupd a.C k (.given u) }, .ok (.given u))
          | .factory =>
              ({ a with C := fupd a.C k (.made a.serial d.uid kw), serial := a.serial + 1 },
                .ok (.made a.serial d.uid kw))
          | .badFactory => (a, .raise .regError)
          | .notCallable => (a, .raise .typeError)

/-- meta-models of a list of languages, one after the other -/
def Spec.mmLoop (E : Env) : Spec → List LangDesc → Spec × Out (List MM)
  | a, [] => (a, .ok [])
  | a, d :: ds =>
      match Spec.metamodel E a d.name 0 with
      | (a, .raise r) => (a, .raise r)
      | (a, .ok m) =>
          match Spec.mmLoop E a ds with
          | (a, .raise r) => (a, .raise r)
          | (a, .ok ms) => (a, .ok (m :: ms))

/-- the generator looked up, with the documented `any` fall-back -/
def Spec.generator (a : Spec) (l t : String) (any : Bool) : Option GenDesc :=
  match a.G l t with
  | some g => some g
  | none => if any then a.G "any" t else none

/-- one call according to the specification: `Step E a op r a'` — in abstract
state `a` the call `op` may answer `r` and leave abstract state `a'`.
(Relational only where the answer is a list whose order is left open.) -/
def Spec.Step (E : Env) (a : Spec) : Op → Res → Spec → Prop
  | .regLang d, r, a' =>
      ((a.L (E.lower d.name)).isSome = true ∧ r = .regError ∧ a' = a) ∨
      (a.L (E.lower d.name) = none ∧ r = .unit ∧ a' = { a with L := fupd a.L (E.lower d.name) d })
  | .lang n, r, a' =>
      a' = a ∧ r = (match a.L (E.lower n) with | some d => .desc d | none => .regError)
  | .langKeys, r, a' =>
      a' = a ∧ ∃ ks, r = .keys ks ∧ ks.Nodup ∧ ∀ k, k ∈ ks ↔ (a.L k).isSome = true
  | .clearLangs, r, a' =>
      r = .unit ∧ a' = { a with L := epMap E, C := fun _ => none }
  | .mmLang n kw, r, a' =>
      a' = (Spec.metamodel E a n kw).1 ∧ r = (Spec.metamodel E a n kw).2.res .mm
  | .langsForFile f, r, a' =>
      a' = a ∧ ∃ ds, r = .descs ds ∧ Spec.Enumerates E a f ds
  | .langForFile f, r, a' =>
      a' = a ∧
      ((∃ d, Spec.Enumerates E a f [d] ∧ r = .desc d) ∨
       ((¬ ∃ d, Spec.Enumerates E a f [d]) ∧ r = .regError))
  | .mmsForFile f, r, a' =>
      ∃ ds, Spec.Enumerates E a f ds ∧
        a' = (Spec.mmLoop E a ds).1 ∧ r = (Spec.mmLoop E a ds).2.res .mms
  | .mmForFile f kw, r, a' =>
      (∃ d, Spec.Enumerates E a f [d] ∧
        a' = (Spec.metamodel E a d.name kw).1 ∧ r = (Spec.metamodel E a d.name kw).2.res .mm) ∨
      ((¬ ∃ d, Spec.Enumerates E a f [d]) ∧ r = .regError ∧ a' = a)
  | .regGen g, r, a' =>
      ((a.G (E.lower g.language) (E.lower g.target)).isSome = true ∧ r = .regError ∧ a' = a) ∨
      (a.G (E.lower g.language) (E.lower g.target) = none ∧ r = .unit ∧
        a' = { a with G := fun l t =>
                if l = E.lower g.language ∧ t = E.lower g.target then some g else a.G l t })
  | .gen l t any, r, a' =>
      a' = a ∧ r = (match a.generator (E.lower l) (E.lower t) any with
                    | some g => .gen g | none => .regError)
  | .genKeys, r, a' =>
      a' = a ∧ ∃ ks, r = .gkeys ks ∧ ks.Nodup ∧ ∀ l t, (l, t) ∈ ks ↔ (a.G l t).isSome = true
  | .clearGens, r, a' =>
      r = .unit ∧ a' = { a with G := gepMap E }

/-- a history according to the specification -/
def Spec.Run (E : Env) : Spec → List Op → List Res → Spec → Prop
  | a, [], rs, a' => rs = [] ∧ a' = a
  | a, op :: ops, rs, a'' =>
      ∃ r rs' a', rs = r :: rs' ∧ Spec.Step E a op r a' ∧ Spec.Run E a' ops rs' a''

/-! ## The registered set, read off the history

`live E ops` lists the language descriptors registered after the history
`ops`: the entry points, plus — since the last clear — every registration whose
case-folded name was not taken.  `gLive` is the same for generators. -/

def liveStep (E : Env) (l : List LangDesc) : Op → List LangDesc
  | .regLang d => if l.any (fun d' => E.lower d'.name == E.lower d.name) then l else l ++ [d]
  | .clearLangs => E.eps
  | _ => l

def live (E : Env) (ops : List Op) : List LangDesc := ops.foldl (liveStep E) E.eps

def gLiveStep (E : Env) (l : List GenDesc) : Op → List GenDesc
  | .regGen g =>
      if l.any (fun g' => E.lower g'.language == E.lower g.language && E.lower g'.target == E.lower g.target)
      then l else l ++ [g]
  | .clearGens => E.geps
  | _ => l

def gLive (E : Env) (ops : List Op) : List GenDesc := ops.foldl (gLiveStep E) E.geps

/-- the meta-model objects a result hands out -/
def Res.mmObjs : Res → List MM
  | .mm m => [m]
  | .mms ms => ms
  | _ => []

/-- the meta-model object `m` belongs to the language `d`: it is the instance `d`
was registered with, or a product of `d`'s factory -/
def Owns (d : LangDesc) : MM → Prop
  | .given u => d.mm = .inst u
  | .made _ b _ => d.mm = .factory ∧ b = d.uid

/-- calls that cannot replace a cached meta-model: everything except clearing
the language registry and asking for a meta-model with keyword arguments -/
def Op.keepsCache : Op → Bool
  | .clearLangs => false
  | .mmLang _ kw => kw == 0
  | .mmForFile _ kw => kw == 0
  | _ => true

/-! ### `*_for_file` and the cache, read off the history

`UniqueMatch E l f d` — among the languages `l`, `d` is the one whose pattern
accepts `f` (what `language_for_file` needs to succeed).  `Op.spares E k l op` —
the call `op`, made when the live languages are `l`, cannot replace the cache
entry kept under the folded name `k`: it is not a clear, and if it carries
keyword arguments it resolves to another name (`metamodel_for_language`) or
does not resolve to a single language of that name (`metamodel_for_file`).
`sparesAll` walks a history with `liveStep`.  All three are computable and
mention neither the machine state nor `step`. -/

def UniqueMatch (E : Env) (l : List LangDesc) (f : String) (d : LangDesc) : Prop :=
  d ∈ l ∧ patMatches E f d = true ∧ ∀ d', d' ∈ l → patMatches E f d' = true → d' = d

/-- Boolean form of `∃ d, UniqueMatch E l f d ∧ E.lower d.name = k` -/
def resolvesTo (E : Env) (l : List LangDesc) (f : String) (k : String) : Bool :=
  l.any fun d => patMatches E f d && E.lower d.name == k &&
    l.all fun d' => !patMatches E f d' || d' == d

def Op.spares (E : Env) (k : String) (l : List LangDesc) : Op → Bool
  | .clearLangs => false
  | .mmLang n kw => kw == 0 || E.lower n != k
  | .mmForFile f kw => kw == 0 || !resolvesTo E l f k
  | _ => true

def sparesAll (E : Env) (k : String) : List LangDesc → List Op → Bool
  | _, [] => true
  | l, op :: ops => op.spares E k l && sparesAll E k (liveStep E l op) ops

/-- a meta-model source `metamodel_for_language` can answer from: an instance or
a factory producing meta-models -/
def MMSrc.usable : MMSrc → Bool
  | .inst _ => true
  | .factory => true
  | _ => false

/-- two lists of the same length whose elements are related position by position -/
def AllPairs {α β : Type} (R : α → β → Prop) : List α → List β → Prop
  | [], [] => True
  | a :: as, b :: bs => R a b ∧ AllPairs R as bs
  | _, _ => False

/-- the argument-less `metamodel_for_language` calls `metamodels_for_file` makes for the languages `ds` -/
def mmCalls (ds : List LangDesc) : List Op := ds.map fun d => .mmLang d.name 0

/-- what the specification assumes about the environment -/
structure Env.Ok (E : Env) : Prop where
  /-- lower-casing twice is lower-casing once -/
  lower_idem : ∀ s, E.lower (E.lower s) = E.lower s
  /-- installed packages do not register two languages with the same (case-folded) name -/
  eps_nodup : (E.eps.map (fun d => E.lower d.name)).Nodup
  /-- …nor two generators for the same (language, target) pair -/
  geps_nodup : (E.geps.map (fun g => (E.lower g.language, E.lower g.target))).Nodup

/-- abstraction: what an unloaded registry will contain once it is touched -/
def epsDict (E : Env) : Dict LangDesc := (loadLangs E E.eps []).1
def gepsDict (E : Env) : Dict (Dict GenDesc) := (loadGens E E.geps []).1

def St.abs (E : Env) (s : St) : Spec :=
  { L := fun k => dget (s.langs.getD (epsDict E)) k
    C := fun k => dget s.cache k
    serial := s.serial
    G := fun l t => gget (s.gens.getD (gepsDict E)) l t }

end Reg
