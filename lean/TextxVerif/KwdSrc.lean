import TextxVerif.Kwd
/-!
# Grammar string literals as *written*: quotes and escape sequences (C21)

`visit_str_match` (`textx/lang.py`) receives the string token of the grammar including its quotes.
The literal that is matched — and on which keyword-likeness is decided — is the *decoded* one:

    to_match = children[0][1:-1]
    if "\\" in to_match: to_match = decode_escapes(to_match)      # ValueError → TextXSyntaxError
    … autokwd handling on to_match …

`decode_escapes` = `ESCAPE_SEQUENCE_RE.sub(lambda m: codecs.decode(m.group(0), "unicode-escape"), s)`.
The alternatives of `ESCAPE_SEQUENCE_RE` start with different characters after the backslash, so the
alternative is determined by that character:

    \U........   \u....   \x..     `.` = any character but a newline; `codecs.decode` wants hex digits
    \[0-7]{1,3}                    greedy
    \N{[^}]+}                      Python's Unicode name table (given as data: `Names`)
    \\ \' \" \a \b \f \n \r \t \v
    anything else: no match, the backslash stays

Core Lean only.
-/
namespace Kwd

/-- Python's Unicode name table restricted to the names written in a case (`\N{name}` → character;
a name Python does not know is absent) -/
abbrev Names := List (List Char × Char)

inductive DecErr
  | invalid     -- `codecs.decode` raises `UnicodeDecodeError` (a `ValueError`): `TextXSyntaxError`
  | surrogate   -- the escape denotes a surrogate code point: a Python `str` holds it, Lean's `Char` cannot (outside the model)
  | fuel        -- never returned (`decodeEscapes_ne_fuel`)
deriving DecidableEq, Repr

/-- what `ESCAPE_SEQUENCE_RE` + `codecs.decode` make of the text after a backslash -/
inductive Esc
  | ok (c : Char) (rest : List Char)   -- an escape sequence: its character and the text after it
  | invalid
  | surrogate
  | noMatch                            -- no alternative matches: the backslash is an ordinary character
deriving DecidableEq, Repr

def hexVal? (c : Char) : Option Nat :=
  if '0'.toNat ≤ c.toNat ∧ c.toNat ≤ '9'.toNat then some (c.toNat - 48)
  else if 'a'.toNat ≤ c.toNat ∧ c.toNat ≤ 'f'.toNat then some (c.toNat - 87)
  else if 'A'.toNat ≤ c.toNat ∧ c.toNat ≤ 'F'.toNat then some (c.toNat - 55)
  else none

def hexNumAux : Nat → List Char → Option Nat
  | acc, [] => some acc
  | acc, c :: cs =>
      match hexVal? c with
      | some v => hexNumAux (16 * acc + v) cs
      | none => none

def hexNum? (ds : List Char) : Option Nat := hexNumAux 0 ds

def isOct (c : Char) : Bool := '0'.toNat ≤ c.toNat && c.toNat ≤ '7'.toNat

def octNum : Nat → List Char → Nat
  | acc, [] => acc
  | acc, c :: cs => octNum (8 * acc + (c.toNat - 48)) cs

/-- `chr(n)` of the decoded number -/
def chrOf (n : Nat) (rest : List Char) : Esc :=
  if n.isValidChar then .ok (Char.ofNat n) rest
  else if n < 0x110000 then .surrogate else .invalid

/-- `\x..` / `\u....` / `\U........`: `k` characters that are no newline; they must be hex digits -/
def hexEsc (k : Nat) (cs : List Char) : Esc :=
  let ds := cs.take k
  if ds.length = k ∧ ds.all (· != '\n') then
    match hexNum? ds with
    | some n => chrOf n (cs.drop k)
    | none => .invalid
  else .noMatch

def single? (c : Char) : Option Char :=
  if c = '\\' then some '\\' else if c = '\'' then some '\'' else if c = '"' then some '"'
  else if c = 'a' then some (Char.ofNat 7) else if c = 'b' then some (Char.ofNat 8)
  else if c = 'f' then some (Char.ofNat 12) else if c = 'n' then some '\n' else if c = 'r' then some '\r'
  else if c = 't' then some '\t' else if c = 'v' then some (Char.ofNat 11) else none

/-- `\N{name}` after `\N`: `\{[^}]+\}` -/
def nameEsc (names : Names) : List Char → Esc
  | '{' :: r =>
      let name := r.takeWhile (· != '}')
      if name ≠ [] ∧ (r.drop name.length).head? = some '}' then
        match names.lookup name with
        | some ch => .ok ch (r.drop (name.length + 1))
        | none => .invalid
      else .noMatch
  | _ => .noMatch

/-- the text after a backslash -/
def escape (names : Names) : List Char → Esc
  | [] => .noMatch
  | c :: cs =>
      if c = 'U' then hexEsc 8 cs
      else if c = 'u' then hexEsc 4 cs
      else if c = 'x' then hexEsc 2 cs
      else if isOct c then
        let ds := (cs.take 2).takeWhile isOct
        chrOf (octNum 0 (c :: ds)) (cs.drop ds.length)
      else if c = 'N' then nameEsc names cs
      else
        match single? c with
        | some ch => .ok ch cs
        | none => .noMatch

/-- `ESCAPE_SEQUENCE_RE.sub(decode_match, s)`: left to right, non-overlapping -/
def decAux (names : Names) : Nat → List Char → Except DecErr (List Char)
  | _, [] => .ok []
  | 0, _ :: _ => .error .fuel
  | n+1, c :: cs =>
      if c = '\\' then
        match escape names cs with
        | .ok ch rest => (decAux names n rest).map (ch :: ·)
        | .invalid => .error .invalid
        | .surrogate => .error .surrogate
        | .noMatch => (decAux names n cs).map (c :: ·)
      else (decAux names n cs).map (c :: ·)

/-- `decode_escapes` -/
def decodeEscapes (names : Names) (s : List Char) : Except DecErr (List Char) := decAux names s.length s

/-- `children[0][1:-1]` -/
def unquote (tok : List Char) : List Char := (tok.drop 1).dropLast

/-- the literal a grammar string token (with its quotes) denotes -/
def litOfSrc (names : Names) (tok : List Char) : Except DecErr (List Char) :=
  let body := unquote tok
  if body.contains '\\' then decodeEscapes names body else .ok body

/-- `visit_str_match` on the token as written: decode first, then the autokwd decision on the decoded literal -/
def visitStrMatch (cc : Re.CharClasses) (names : Names) (cfg : Cfg) (tok : List Char) : Except DecErr Tok :=
  (litOfSrc names tok).map (compileLit cc cfg)

end Kwd
