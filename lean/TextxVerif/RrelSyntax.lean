/-!
# RREL syntax: expression trees, printer, parser  (C12)

Mirror of `textx/scoping/rrel.py`:

* `Elem / Path / Seq / Expr`  — the `RREL*` classes after construction
  (`RRELZeroOrMore` always holds brackets, `'^'` is already rewritten to `(..)*`);
* `printElem … printExpr`     — the eight `__repr__` methods (after the two `fix:` commits:
  flags are printed whenever they are non-empty, a fixed name is quoted with the
  quote character under which it lexes back);
* `parse`                     — the Arpeggio grammar `rrel_standalone` (ordered choice,
  greedy repetition `(X sep)* X`, whitespace skipping before every terminal, the
  terminals' regular expressions) fused with `RRELVisitor`.

Character classes of Python's `re` (`\w`, `\d`) are a parameter `CC`; theorems
need only the facts in `CC.Sane`.  Text is `List Char`.  Core Lean only.
-/
namespace RrelSyntax

abbrev Str := List Char

/-- `\w` and `\d` of Python's `re` (str patterns, Unicode aware) -/
structure CC where
  isWord : Char → Bool
  isDigit : Char → Bool

/-- `[^\d\W]` : first character of `rrel_id` -/
def CC.isStart (cc : CC) (c : Char) : Bool := cc.isWord c && !cc.isDigit c

/-- the punctuation of the RREL notation and Arpeggio's default whitespace -/
def punctChars : List Char :=
  ['(', ')', '.', ',', '*', '~', '\'', '"', '+', ':', '^', ' ', '\t', '\n', '\r']

/-- what the theorems assume about the character classes: punctuation is not `\w` -/
structure CC.Sane (cc : CC) : Prop where
  punct : ∀ c, c ∈ punctChars → cc.isWord c = false

/-! ## expression trees -/

/-- `RRELParent(type)`, `RRELNavigation(name, consume_name, fixed_name)`,
`RRELBrackets(seq)`, `RRELZeroOrMore(RRELBrackets(seq))`, `RRELDots(num)`;
a path is the list `path_elements`, a sequence the list `paths`. -/
inductive Elem where
  | parent (t : Str)
  | nav (name : Str) (consume : Bool) (fixed : Option Str)
  | brackets (s : List (List Elem))
  | star (s : List (List Elem))
  | dots (n : Nat)
  deriving Repr, Inhabited

abbrev Path := List Elem
abbrev Seq := List Path

/-- `RRELExpression(seq, flags)` -/
structure Expr where
  seq : Seq
  flags : Str
  deriving Repr

def Elem.isDots : Elem → Bool
  | .dots _ => true
  | _ => false

/-! ## printer (`__repr__`) -/

/-- `sep.join(xs)` -/
def joinSep (sep : Char) : List Str → Str
  | [] => []
  | [x] => x
  | x :: y :: rest => x ++ sep :: joinSep sep (y :: rest)

/-- `name.replace("\\" + q, "")` -/
def removeEsc (q : Char) : Str → Str
  | [] => []
  | c :: rest =>
    if c = '\\' then
      match rest with
      | [] => [c]
      | c2 :: rest2 => if c2 = q then removeEsc q rest2 else c :: removeEsc q (c2 :: rest2)
    else c :: removeEsc q rest

def endsWithBackslash (s : Str) : Bool := s.getLast? == some '\\'

/-- `q not in name.replace("\\" + q, "") and not name.endswith("\\")` -/
def quoteOk (q : Char) (s : Str) : Bool := !(removeEsc q s).contains q && !endsWithBackslash s

/-- `_quote_fixed_name` of the repaired `rrel.py` -/
def quote (s : Str) : Str :=
  if quoteOk '\'' s then '\'' :: s ++ ['\'']
  else if quoteOk '"' s then '"' :: s ++ ['"']
  else '\'' :: s ++ ['\'']

/-- the keyword of `rrel_parent` -/
def kwParent : Str := ['p', 'a', 'r', 'e', 'n', 't']

mutual
def printElem : Elem → Str
  | .parent t => kwParent ++ '(' :: t ++ [')']
  | .nav n c f =>
    match f with
    | some fx => quote fx ++ '~' :: n
    | none => if c then n else '~' :: n
  | .brackets s => '(' :: joinSep ',' (printPaths s) ++ [')']
  | .star s => '(' :: joinSep ',' (printPaths s) ++ [')', '*']
  | .dots n => List.replicate n '.'
def printElems : List Elem → List Str
  | [] => []
  | e :: es => printElem e :: printElems es
/-- `RRELPath.__repr__` -/
def printPath : List Elem → Str
  | [] => []
  | e :: es =>
    match e with
    | .dots n => List.replicate n '.' ++ joinSep '.' (printElems es)
    | _ => joinSep '.' (printElem e :: printElems es)
def printPaths : List (List Elem) → List Str
  | [] => []
  | p :: ps => printPath p :: printPaths ps
end

/-- `RRELSequence.__repr__` -/
def printSeq (s : Seq) : Str := joinSep ',' (printPaths s)

/-- `RRELExpression.__repr__` (repaired: the flags are printed whenever present) -/
def printExpr (e : Expr) : Str :=
  if e.flags.isEmpty then printSeq e.seq else '+' :: e.flags ++ ':' :: printSeq e.seq

/-- the pinned `RRELExpression.__repr__`: flags only when they contain `m` -/
def printExprPinned (e : Expr) : Str :=
  if e.flags.contains 'm' then '+' :: e.flags ++ ':' :: printSeq e.seq else printSeq e.seq

/-! ## parser -/

/-- Arpeggio's default `ws = '\t\n\r '` -/
def isWs (c : Char) : Bool := c = ' ' || c = '\t' || c = '\n' || c = '\r'

/-- whitespace skipping of `Match.parse` -/
def skipWs : Str → Str
  | [] => []
  | c :: r => if isWs c then skipWs r else c :: r

def dropPrefix : Str → Str → Option Str
  | [], inp => some inp
  | _ :: _, [] => none
  | c :: p, d :: inp => if c = d then dropPrefix p inp else none

/-- `StrMatch` of a one-character literal -/
def litc (ch : Char) (inp : Str) : Option Str :=
  match skipWs inp with
  | [] => none
  | d :: r => if d = ch then some r else none

/-- `StrMatch` -/
def lits (p : Str) (inp : Str) : Option Str := dropPrefix p (skipWs inp)

/-- `rrel_id = [^\d\W]\w*\b` -/
def ident (cc : CC) (inp : Str) : Option (Str × Str) :=
  match skipWs inp with
  | [] => none
  | c :: r =>
    if cc.isStart c then some (c :: r.takeWhile cc.isWord, r.dropWhile cc.isWord) else none

/-- `rrel_dots = \.+` -/
def dotsP (inp : Str) : Option (Nat × Str) :=
  match skipWs inp with
  | [] => none
  | c :: r =>
    if c = '.' then some (1 + (r.takeWhile (· = '.')).length, r.dropWhile (· = '.')) else none

def isMP (c : Char) : Bool := c = 'm' || c = 'p'

/-- `\+[mp]+:` ; the result is `children[0][1:-1]` -/
def flagsP (inp : Str) : Option (Str × Str) :=
  match skipWs inp with
  | [] => none
  | c :: r =>
    if c = '+' then
      match r.takeWhile isMP, r.dropWhile isMP with
      | _ :: _, d :: r' => if d = ':' then some (r.takeWhile isMP, r') else none
      | _, _ => none
    else none

/-- The regular expression `q((\\q)|[^q])*q` after the opening quote: the first
match in backtracking order (alternative `\\q` before `[^q]`, greedy loop).
Result: the text between the quotes (`node.value[1:-1]`) and the rest. -/
def scan (q : Char) : Str → Option (Str × Str)
  | [] => none
  | c :: rest =>
    if c = q then some ([], rest)
    else if c = '\\' then
      match rest with
      | [] => none
      | c2 :: rest2 =>
        if c2 = q then
          match scan q rest2 with
          | some (b, r) => some (c :: c2 :: b, r)
          | none => some ([c], rest2)
        else (scan q (c2 :: rest2)).map fun (b, r) => (c :: b, r)
    else (scan q rest).map fun (b, r) => (c :: b, r)

/-- `string_value` of `lang.py` with `visit_string_value` -/
def strP (inp : Str) : Option (Str × Str) :=
  match skipWs inp with
  | [] => none
  | c :: r => if c = '\'' then scan '\'' r else if c = '"' then scan '"' r else none

/-- `rrel_parent` with `visit_rrel_parent` -/
def parentP (cc : CC) (inp : Str) : Option (Elem × Str) :=
  (lits kwParent inp).bind fun r =>
  (litc '(' r).bind fun r =>
  (ident cc r).bind fun (t, r) =>
  (litc ')' r).map fun r => (Elem.parent t, r)

/-- `rrel_navigation` with `visit_rrel_navigation`: the literal `~` of the first
alternative sits in an `Optional` (kept as a child), the one of the second
alternative in a `Sequence` (suppressed) -/
def navP (cc : CC) (inp : Str) : Option (Elem × Str) :=
  let alt1 :=
    match litc '~' inp with
    | some r => (ident cc r).map fun (n, r') => (Elem.nav n false none, r')
    | none => (ident cc inp).map fun (n, r') => (Elem.nav n true none, r')
  match alt1 with
  | some x => some x
  | none =>
    match strP inp with
    | some (f, r) =>
      (litc '~' r).bind fun r1 => (ident cc r1).map fun (n, r2) => (Elem.nav n false (some f), r2)
    | none =>
      (litc '~' inp).bind fun r1 => (ident cc r1).map fun (n, r2) => (Elem.nav n true none, r2)

abbrev SeqParser := Str → Option (Seq × Str)

/-- `rrel_brackets` -/
def bracketsP (seqP : SeqParser) (inp : Str) : Option (Seq × Str) :=
  (litc '(' inp).bind fun r =>
  (seqP r).bind fun (s, r) =>
  (litc ')' r).map fun r => (s, r)

/-- `rrel_path_element` -/
def pelemP (cc : CC) (seqP : SeqParser) (inp : Str) : Option (Elem × Str) :=
  match parentP cc inp with
  | some x => some x
  | none =>
    match bracketsP seqP inp with
    | some (s, r) => some (Elem.brackets s, r)
    | none => navP cc inp

/-- `RRELZeroOrMore.__init__` -/
def mkStar : Elem → Elem
  | .brackets s => .star s
  | e => .star [[e]]

/-- `[rrel_zero_or_more, rrel_path_element]` (`rrel_zero_or_more = rrel_path_element "*"`) -/
def xP (cc : CC) (seqP : SeqParser) (inp : Str) : Option (Elem × Str) :=
  match pelemP cc seqP inp with
  | none => none
  | some (e, r) =>
    match litc '*' r with
    | some r' => some (mkStar e, r')
    | none => some (e, r)

/-- `ZeroOrMore((X, sep))` with loop fuel `k` (every iteration consumes the separator) -/
def manySep {α : Type} (X : Str → Option (α × Str)) (sep : Char) : Nat → Str → List α × Str
  | 0, inp => ([], inp)
  | k + 1, inp =>
    match X inp with
    | none => ([], inp)
    | some (e, r) =>
      match litc sep r with
      | none => ([], inp)
      | some r' =>
        match manySep X sep k r' with
        | (es, r'') => (e :: es, r'')

/-- `(ZeroOrMore((X, sep)), X)` -/
def sepList {α : Type} (X : Str → Option (α × Str)) (sep : Char) (inp : Str) : Option (List α × Str) :=
  match manySep X sep inp.length inp with
  | (es, r) => (X r).map fun (e, r') => (es ++ [e], r')

/-- `'^'` as rewritten by `RRELPath.__init__` -/
def caretElem : Elem := .star [[.dots 2]]

/-- `rrel_path` with `visit_rrel_path` / `RRELPath.__init__` -/
def pathP (cc : CC) (seqP : SeqParser) (inp : Str) : Option (Path × Str) :=
  let pre : Option Elem × Str :=
    match litc '^' inp with
    | some r => (some caretElem, r)
    | none =>
      match dotsP inp with
      | some (n, r) => (some (Elem.dots n), r)
      | none => (none, inp)
  match sepList (xP cc seqP) '.' pre.2 with
  | some (es, r) => some (pre.1.toList ++ es, r)
  | none =>
    match litc '^' inp with
    | some r => some ([caretElem], r)
    | none => (dotsP inp).map fun (n, r) => ([Elem.dots n], r)

/-- `rrel_sequence` -/
def seqWith (cc : CC) (seqP : SeqParser) (inp : Str) : Option (Seq × Str) :=
  sepList (pathP cc seqP) ',' inp

/-- nesting fuel: `parseSeq n` parses sequences with fewer than `n` nested brackets -/
def parseSeq (cc : CC) : Nat → SeqParser
  | 0 => fun _ => none
  | n + 1 => seqWith cc (parseSeq cc n)

/-- `rrel_standalone = rrel_expression EOF` with `visit_rrel_expression`;
this is `textx.scoping.rrel.parse` -/
def parse (cc : CC) (inp : Str) : Option Expr :=
  let pre : Str × Str :=
    match flagsP inp with
    | some (f, r) => (f, r)
    | none => ([], inp)
  match parseSeq cc (inp.length + 1) pre.2 with
  | none => none
  | some (s, r) => if (skipWs r).isEmpty then some ⟨s, pre.1⟩ else none

/-! ## well-formed trees: the RREL expressions -/

/-- `rrel_id` matches exactly `n` -/
def identOk (cc : CC) : Str → Bool
  | [] => false
  | c :: r => cc.isStart c && r.all cc.isWord

/-- a fixed name that has a notation: it lexes back under one of the two quotes -/
def printable (s : Str) : Bool := quoteOk '\'' s || quoteOk '"' s

mutual
def wfElem (cc : CC) : Elem → Bool
  | .parent t => identOk cc t
  | .nav n c f =>
    identOk cc n &&
      (match f with
       | none => true
       | some fx => !c && printable fx)
  | .brackets s => wfPaths cc s && !s.isEmpty
  | .star s => wfPaths cc s && !s.isEmpty
  | .dots n => decide (0 < n)
/-- elements after the first: no dots -/
def wfTail (cc : CC) : List Elem → Bool
  | [] => true
  | e :: es => !e.isDots && wfElem cc e && wfTail cc es
/-- non-empty, dots only in front -/
def wfPath (cc : CC) : List Elem → Bool
  | [] => false
  | e :: es => wfElem cc e && wfTail cc es
def wfPaths (cc : CC) : List (List Elem) → Bool
  | [] => true
  | p :: ps => wfPath cc p && wfPaths cc ps
end

def wfSeq (cc : CC) (s : Seq) : Bool := wfPaths cc s && !s.isEmpty

def wfExpr (cc : CC) (e : Expr) : Bool := e.flags.all isMP && wfSeq cc e.seq

/-! ## the parser's range

Same shape conditions with a parameter `okf` for fixed names, and the list of the
fixed names of a tree.  `lexable`: what `string_value` can deliver. -/

/-- a fixed name the lexer can deliver: it has a notation, or it ends with a backslash -/
def lexable (s : Str) : Bool := printable s || endsWithBackslash s

mutual
def gwfElem (cc : CC) (okf : Str → Bool) : Elem → Bool
  | .parent t => identOk cc t
  | .nav n c f =>
    identOk cc n &&
      (match f with
       | none => true
       | some fx => !c && okf fx)
  | .brackets s => gwfPaths cc okf s && !s.isEmpty
  | .star s => gwfPaths cc okf s && !s.isEmpty
  | .dots n => decide (0 < n)
def gwfTail (cc : CC) (okf : Str → Bool) : List Elem → Bool
  | [] => true
  | e :: es => !e.isDots && gwfElem cc okf e && gwfTail cc okf es
def gwfPath (cc : CC) (okf : Str → Bool) : List Elem → Bool
  | [] => false
  | e :: es => gwfElem cc okf e && gwfTail cc okf es
def gwfPaths (cc : CC) (okf : Str → Bool) : List (List Elem) → Bool
  | [] => true
  | p :: ps => gwfPath cc okf p && gwfPaths cc okf ps
end

def gwfSeq (cc : CC) (okf : Str → Bool) (s : Seq) : Bool := gwfPaths cc okf s && !s.isEmpty

def gwfExpr (cc : CC) (okf : Str → Bool) (e : Expr) : Bool := e.flags.all isMP && gwfSeq cc okf e.seq

mutual
def fixedElem : Elem → List Str
  | .nav _ _ (some fx) => [fx]
  | .brackets s => fixedPaths s
  | .star s => fixedPaths s
  | _ => []
def fixedPath : List Elem → List Str
  | [] => []
  | e :: es => fixedElem e ++ fixedPath es
def fixedPaths : List (List Elem) → List Str
  | [] => []
  | p :: ps => fixedPath p ++ fixedPaths ps
end

/-- the fixed names occurring in an expression -/
def fixedNames (e : Expr) : List Str := fixedPaths e.seq

/-! ## nesting depth -/
mutual
def depthElem : Elem → Nat
  | .brackets s => depthPaths s + 1
  | .star s => depthPaths s + 1
  | _ => 0
def depthPath : List Elem → Nat
  | [] => 0
  | e :: es => max (depthElem e) (depthPath es)
def depthPaths : List (List Elem) → Nat
  | [] => 0
  | p :: ps => max (depthPath p) (depthPaths ps)
end

/-! ## ASCII character classes (driver, negation witnesses) -/
def asciiCC : CC where
  isWord c := c.isAlphanum || c = '_'
  isDigit c := c.isDigit

end RrelSyntax
