import TextxVerif.RrelSpec
import TextxVerif.RrelSyntax
/-!
# From RREL expression trees (C12) to the evaluation calculus (C11)

`RrelSyntax.Expr` is the tree of `RREL*` objects (what `rrel.parse` returns and what
`__repr__` prints); `Rrel.E` is the small calculus `Rrel.eval` / `Rrel.find` work on.
`toCore` is the map between the two — the reading of the object tree that
`get_next_matches` of every class performs:

object tree                                   | core
----------------------------------------------|------------------------------------------
`RRELNavigation / RRELParent / RRELDots`      | `E.atom i …`  (one guarded node)
`RRELBrackets(seq)`                           | `E.grp i (E.grp (i+1) body)`  (the brackets guard, then the guard of its `RRELSequence`)
`RRELZeroOrMore(RRELBrackets(seq))`           | `E.star i (E.grp (i+1) body)` (`get_from_zero_or_more` calls `path_element.seq` directly: the inner brackets object is never asked)
`RRELSequence.paths`                          | `E.alt p₁ (E.alt p₂ …)`
`RRELPath.path_elements`                      | `E.cat e₁ (E.cat e₂ …)`
top level: `for p in rrel_tree.paths`         | the list of the paths (the top-level sequence object is not asked either)

Node identities (`id(node)` in the visited set) are numbered in preorder, starting
with 0 — the numbering the C11 harness (`dump_tree`) gives to the objects of a parsed
tree, so the two can be compared for equality.

A tree with an empty sequence or an empty path is not an object tree
(`RRELPath([])` raises), and `consume_name` together with a fixed name is refused
by `__repr__`; `toCore` answers `none` for these (never a default).
`wfExpr → toCore ≠ none` is `toCore_isSome` in `Proofs/RrelCore.lean`.

Core Lean only.
-/
namespace RrelSyntax
open Rrel

/-- Python `str` from the code points -/
def str (s : Str) : String := String.ofList s

/-- `RRELNavigation(name, consume_name, fixed_name)` as a step mode; `none`: the
combination `__repr__` asserts against -/
def modeOf (consume : Bool) (fixed : Option Str) : Option Mode :=
  match consume, fixed with
  | true, none => some .consume
  | true, some _ => none
  | false, none => some .tilde
  | false, some f => some (.fixed (str f))

mutual
/-- one path element; `i` = the next free node identity, the result carries the next free one -/
def coreElem (i : Nat) : Elem → Option (E × Nat)
  | .parent t => some (.atom i (.parent (str t)), i + 1)
  | .nav n c f => (modeOf c f).map fun m => (.atom i (.nav (str n) m), i + 1)
  | .dots n => some (.atom i (.dots n), i + 1)
  | .brackets s => (coreAlts (i + 2) s).map fun r => (.grp i (.grp (i + 1) r.1), r.2)
  | .star s => (coreAlts (i + 2) s).map fun r => (.star i (.grp (i + 1) r.1), r.2)
/-- `RRELPath` -/
def coreCat (i : Nat) : List Elem → Option (E × Nat)
  | [] => none
  | e :: es =>
    match coreElem i e with
    | none => none
    | some a =>
      match es with
      | [] => some a
      | _ :: _ => (coreCat a.2 es).map fun b => (.cat a.1 b.1, b.2)
/-- the `paths` of a (nested) `RRELSequence` -/
def coreAlts (i : Nat) : List (List Elem) → Option (E × Nat)
  | [] => none
  | p :: ps =>
    match coreCat i p with
    | none => none
    | some a =>
      match ps with
      | [] => some a
      | _ :: _ => (coreAlts a.2 ps).map fun b => (.alt a.1 b.1, b.2)
end

/-- the `paths` of the top-level sequence, one core expression each -/
def coreTop (i : Nat) : List (List Elem) → Option (List E)
  | [] => some []
  | p :: ps =>
    match coreCat i p with
    | none => none
    | some a => (coreTop a.2 ps).map fun r => a.1 :: r

/-- the core alternatives `find_object_with_path` iterates over -/
def toCore (e : Expr) : Option (List E) := coreTop 0 e.seq

/-- `RRELExpression.importURI` -/
def Expr.importURI (e : Expr) : Bool := e.flags.contains 'm'

/-- `RRELExpression.use_proxy` -/
def Expr.useProxy (e : Expr) : Bool := e.flags.contains 'p'

/-- what `rrel.find(obj, names, tree, obj_cls, use_proxy=tree.use_proxy)` returns -/
inductive Answer
  | obj (o : Obj)               -- the resolved object
  | proxy (path : List Obj)     -- a `ReferenceProxy` with this `_tx_path`
  | unknown                     -- `None`
  | postponed
  | fuel
deriving DecidableEq, Repr

/-- the model's heap as an expression sees it: the other models are searched only with `+m:` -/
def heapFor (H : Heap) (e : Expr) : Heap := if e.importURI then H else { H with extra := [] }

def answerOf (useProxy : Bool) : Res → Answer
  | .found s => if useProxy then .proxy (proxyPath s) else .obj s.o
  | .cont _ => .unknown
  | .postponed => .postponed
  | .fuel => .fuel

/-- **Evaluation of an expression tree**: `rrel.find` with the tree `e` on the model `H`
(`H.extra` = the other models a `+m:` expression may search), from object `o`, for the
name parts `ns` and the class `cls`.  `none`: `e` is not an object tree. -/
def evalExpr (H : Heap) (n : Nat) (e : Expr) (o : Obj) (ns : List String) (cls : Option String) :
    Option Answer :=
  (toCore e).map fun ps => answerOf e.useProxy (find (heapFor H e) n ps o ns cls)

end RrelSyntax
