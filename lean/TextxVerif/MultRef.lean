/-!
# Reference lists: how resolved references reach a list attribute

Mirror of `model.py`, `ReferenceResolver.resolve_one_step`, the branch
`attr.mult in [MULT_ONEORMORE, MULT_ZEROORMORE]`:

```
positions = self._list_ref_positions.setdefault((id(obj), attr.name), [])
idx = bisect(positions, crossref.position)
positions.insert(idx, crossref.position)
attr_value.insert(idx, resolved)
```

The values of a reference-valued attribute (`a+=[X]`, `a=[X]` below a repetition, …) are not
stored by `process_node` (it only records an `ObjCrossRef` with the text position of the match);
they reach the list when the reference is resolved, and a scope provider may answer `Postponed`
any number of times, so the order of resolution is *any* order.  The per-list bookkeeping
(`positions`, sorted) is what keeps the list in input order.  Core Lean only.
-/
namespace Mult.Ref

variable {V : Type}

/-- `bisect.bisect` (= `bisect_right`) on the sorted list the resolver keeps: the number of
leading entries `≤ p`. -/
def bisect : List Nat → Nat → Nat
  | [], _ => 0
  | q :: qs, p => if q ≤ p then bisect qs p + 1 else 0

/-- `list.insert(i, x)` (an index past the end appends). -/
def insertAt {α : Type} : List α → Nat → α → List α
  | l, 0, x => x :: l
  | [], _ + 1, x => [x]
  | y :: l, i + 1, x => y :: insertAt l i x

/-- The state of one reference list: `_list_ref_positions[(id(obj), attr)]` and the attribute value. -/
structure St (V : Type) where
  positions : List Nat
  vals : List V
  deriving Repr, DecidableEq

/-- One resolved reference (text position `p`, object `v`) is put into the list. -/
def resolveRef (st : St V) (p : Nat) (v : V) : St V :=
  let idx := bisect st.positions p
  { positions := insertAt st.positions idx p, vals := insertAt st.vals idx v }

/-- The references of one list, resolved in the order `sched` (across all resolution steps). -/
def resolveAll (sched : List (Nat × V)) : St V :=
  sched.foldl (fun st r => resolveRef st r.1 r.2) { positions := [], vals := [] }

/-- The order of resolution a history gives: `refs` = the references of the list in the order
`process_node` recorded them, each with the number of resolution steps in which the scope provider
answers `Postponed` for it first; step `k` resolves, in recorded order, those with delay `k`
(`resolve_one_step` walks `parser._crossrefs` and keeps the postponed ones, in order, for the next
step).  `n` = the largest delay. -/
def scheduleOf (n : Nat) (refs : List (Nat × Nat × V)) : List (Nat × V) :=
  (List.range (n + 1)).flatMap fun k => (refs.filter fun r => r.1 == k).map (·.2)

/-- Seeded variant (C02-5, negation witness only): an `append` fast path for references that come
in textual order, and a slow path that inserts the value but does not record its position. -/
def resolveRefStale (st : St V) (p : Nat) (v : V) : St V :=
  match st.positions.getLast? with
  | some q =>
    if q < p then { positions := st.positions ++ [p], vals := st.vals ++ [v] }
    else { st with vals := insertAt st.vals (bisect st.positions p) v }
  | none => { positions := st.positions ++ [p], vals := st.vals ++ [v] }

def resolveAllStale (sched : List (Nat × V)) : St V :=
  sched.foldl (fun st r => resolveRefStale st r.1 r.2) { positions := [], vals := [] }

end Mult.Ref
