import TextxVerif.Resolve
/-!
# Resolver loop with providers that *ask the resolver* (C09)

`textx.scoping.tools.needs_to_be_resolved(obj, attr)` — the documented way for a
scope provider to decide whether to return `Postponed` — is answered by
`ReferenceResolver.has_unresolved_crossrefs` of the model that owns `obj`: a scan
of that model's `parser._crossrefs` for an entry of the object (and attribute).
`parser._crossrefs` is replaced only at the END of `resolve_one_step`, so

* during the pass of a model file its own references that were resolved earlier in
  the same pass are still reported as unresolved (they become visible with the
  next round),
* a file stepped earlier in the round is seen in its state after this round's
  pass, a file stepped later in its state after the previous round's pass,
* the answer is per object and attribute (or per object): a list attribute counts
  as unresolved as long as one of its references is pending.

A provider that inspects attribute *values* instead (`Wait.val`) sees every
resolved reference at once (that is `Resolve.step`).

`CRef`      = an entry of `parser._crossrefs` (reference id, owning object, attribute)
`Wait`      = one condition of a table-driven provider
`stepQ`     = `resolve_one_step` of one model file; `snap` = the `_crossrefs` of all
              files when the pass starts (nothing replaces them while it runs)
`roundQ`    = `for m in models: m._tx_reference_resolver.resolve_one_step()`
`loopQ`     = `while unresolved_count > 0 and resolved_count > 0`
Model file: core Lean only.
-/
namespace Resolve

/-- an entry of `parser._crossrefs`: the reference, the object holding it, the attribute -/
structure CRef where
  id : Ref
  obj : Nat
  attr : Nat
deriving Repr, DecidableEq

/-- one condition of a provider -/
inductive Wait where
  /-- the attribute of reference `d` holds its target (the provider looks at the model) -/
  | val (d : Ref)
  /-- `needs_to_be_resolved(obj, attr)` is false; `file` = the model file owning `obj`,
  `attr = none` = any attribute of the object -/
  | qry (file : Nat) (obj : Nat) (attr : Option Nat)
deriving Repr, DecidableEq

/-- does the entry belong to the object (and attribute) asked for?
(`crossref_obj is obj and ((not attr_name) or attr_name == attr.name)`) -/
def CRef.matches (c : CRef) (obj : Nat) (attr : Option Nat) : Bool :=
  c.obj == obj && (match attr with | none => true | some a => c.attr == a)

/-- `has_unresolved_crossrefs`: scan of the `_crossrefs` list of the owning model -/
def hasUnresolved (cs : List CRef) (obj : Nat) (attr : Option Nat) : Bool :=
  cs.any (fun c => c.matches obj attr)

def waitOk (snap : List (List CRef)) (res : List Ref) : Wait → Bool
  | .val d => decide (d ∈ res)
  | .qry f o a => !(hasUnresolved (snap.getD f []) o a)

/-- the provider of reference `r` does not return `Postponed` -/
def readyQ (W : Ref → List Wait) (snap : List (List CRef)) (res : List Ref) (r : Ref) : Bool :=
  (W r).all (waitOk snap res)

/-- `resolve_one_step` of one model file: its pending entries in order; attribute values
(`res`) change at once, the `_crossrefs` lists (`snap`) do not change during the pass -/
def stepQ (W : Ref → List Wait) (snap : List (List CRef)) : List CRef → List Ref → List CRef × List Ref
  | [], res => ([], res)
  | c :: cs, res =>
      if readyQ W snap res c.id then stepQ W snap cs (c.id :: res)
      else
        let (p, res') := stepQ W snap cs res
        (c :: p, res')

/-- one round: the files are stepped one after the other; `done` = the files stepped in
this round (new `_crossrefs`), `todo` = the files still to be stepped -/
def roundQ (W : Ref → List Wait) : List (List CRef) → List (List CRef) → List Ref →
    List (List CRef) × List Ref
  | done, [], res => (done, res)
  | done, f :: todo, res =>
      let (p, res') := stepQ W (done ++ f :: todo) f res
      roundQ W (done ++ [p]) todo res'

/-- number of pending references (`unresolved_count`) -/
def pendingCount (fs : List (List CRef)) : Nat := fs.flatten.length

/-- rounds until nothing is pending or a round resolved nothing -/
def loopQ (W : Ref → List Wait) : Nat → List (List CRef) → List Ref → List (List CRef) × List Ref
  | 0, fs, res => (fs, res)
  | n+1, fs, res =>
      let (fs', res') := roundQ W [] fs res
      if pendingCount fs' = 0 ∨ pendingCount fs' = pendingCount fs then (fs', res')
      else loopQ W n fs' res'

/-- ids of the references in the files -/
def idsOf (fs : List (List CRef)) : List Ref := fs.flatten.map (·.id)

/-- What the conditions mean, as a function of the resolved set (the property's "given
the ones resolved before it"): a value condition needs its reference resolved, a query
needs every reference of the object (and attribute) resolved. `fs0` = the files as parsed. -/
def specOk (fs0 : List (List CRef)) (S : List Ref) : Wait → Bool
  | .val d => decide (d ∈ S)
  | .qry f o a => (fs0.getD f []).all (fun c => !(c.matches o a) || decide (c.id ∈ S))

def specP (W : Ref → List Wait) (fs0 : List (List CRef)) : Provider where
  ready S r := (W r).all (specOk fs0 S)
  mono := by
    intro S S' r h hr
    simp only [List.all_eq_true] at hr ⊢
    intro w hw
    have := hr w hw
    cases w with
    | val d => simp only [specOk, decide_eq_true_eq] at this ⊢; exact h d this
    | qry f o a =>
      simp only [specOk, List.all_eq_true, Bool.or_eq_true, Bool.not_eq_true', decide_eq_true_eq] at this ⊢
      intro c hc
      rcases this c hc with h1 | h1
      · exact Or.inl h1
      · exact Or.inr (h c.id h1)

end Resolve
