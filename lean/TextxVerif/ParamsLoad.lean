/-!
# Model parameters: validation and forwarding to every loaded model (C27)

Mirrors
* `ModelParamDefinitions.check_params` (textx/model_params.py) — the loop body is
  *data* (`Stmt`), regenerated from the source on every run
  (`TextxVerif/Gen/CheckParams.lean`), run by `runFor`;
* `TextXMetaModel.model_from_str / model_from_file / internal_model_from_file`
  (textx/metamodel.py): `kwargs_callback` sets `_tx_model_params` on the new
  model before the pre-reference-resolution callback registers it;
* `GlobalModelRepository.load_model` (textx/scoping/__init__.py) and the
  `ImportURI` / `GlobalRepo` `_load_referenced_models` (textx/scoping/providers.py):
  every import is loaded with `model_params = model._tx_model_params` *read from
  the importing model*; models already in `all_models` are reused, not created.

A model is a record `(file, params)`; `params = none` means the attribute
`_tx_model_params` was never set.  `Repo` is `all_models` in insertion order.
Model file: core Lean only.
-/
namespace ParamsLoad

/-! ## the translated subset of Python for `check_params` -/

/-- conditions on the loop variable `k` -/
inductive Cond where
  | inStore      -- k in self.store
  | notInStore   -- k not in self.store
  | not (c : Cond)
  | and (a b : Cond)
  | or (a b : Cond)
  | tt
  | ff
deriving DecidableEq, Repr

/-- loop body statements -/
inductive Stmt where
  | pass
  | raise          -- raise TextXError(...)
  | ret            -- return / return None / return <const>
  | cont
  | brk
  | seq (a b : Stmt)
  | ite (c : Cond) (t e : Stmt)
deriving DecidableEq, Repr

inductive Sig where
  | next | raise | ret | cont | brk
deriving DecidableEq, Repr

def Cond.eval (known : Bool) : Cond → Bool
  | .inStore => known
  | .notInStore => !known
  | .not c => !(c.eval known)
  | .and a b => a.eval known && b.eval known
  | .or a b => a.eval known || b.eval known
  | .tt => true
  | .ff => false

def Stmt.exec (known : Bool) : Stmt → Sig
  | .pass => .next
  | .raise => .raise
  | .ret => .ret
  | .cont => .cont
  | .brk => .brk
  | .seq a b => match a.exec known with
    | .next => b.exec known
    | s => s
  | .ite c t e => if c.eval known then t.exec known else e.exec known

/-- `for k in kwargs: <body>`; `some k` = the loop raised while `k` was the loop
variable, `none` = the function returned normally -/
def runFor (body : Stmt) (store : List String) : List String → Option String
  | [] => none
  | k :: ks =>
    match body.exec (store.contains k) with
    | .raise => some k
    | .ret => none
    | .brk => none
    | .next => runFor body store ks
    | .cont => runFor body store ks

/-! ## the load machine -/

/-- keyword arguments: name and canonical text of the value, in call order -/
abbrev Params := List (String × String)

structure ModelRec where
  file : Nat
  params : Option Params
deriving DecidableEq, Repr

abbrev Repo := List ModelRec

def has (repo : Repo) (f : Nat) : Bool := repo.any (·.file = f)

/-- which scope provider follows imports -/
inductive Prov where
  | none
  | importURI                                   -- ImportURI family: glob / search path
  | rrelM                                       -- grammar RREL with `+m:` (only models holding such a reference)
  | globalRepo (rel : Bool) (hit : List Nat)    -- GlobalRepo family: one pattern; `hit` = files it denotes when rooted
deriving DecidableEq, Repr

structure FileSpec where
  stmts : List (List Nat)   -- per import statement the files it denotes (`[]` = nothing found)
  hasRef : Bool
  broken : Bool             -- does not parse
deriving DecidableEq, Repr

structure World where
  files : List FileSpec
  prov : Prov

inductive Err where
  | unknownParam (k : String)   -- TextXError("unknown parameter …")
  | notString                   -- TextXError("textX accepts only strings.")
  | syntax (f : Nat)            -- TextXSyntaxError in file f
  | enoent                      -- OSError(ENOENT): import / pattern matches nothing
  | noParams                    -- `assert model_params is not None`
  | noFile (f : Nat)
  | fuel
deriving DecidableEq, Repr

def hasKey (p : Option Params) (k : String) : Bool :=
  match p with
  | some ps => ps.any (·.1 = k)
  | none => false

/-- the import statements a provider follows for a model with attributes `p` -/
def effImports (W : World) (spec : FileSpec) (p : Option Params) : List (List Nat) :=
  match W.prov with
  | .none => []
  | .importURI => spec.stmts
  | .rrelM => if spec.hasRef then spec.stmts else []
  | .globalRepo rel hit => [if rel && !hasKey p "project_root" then [] else hit]

/-- `for filename in filenames: load_model(...)`; `rec` = `internal_model_from_file`.
`p` is what the importing model's `_tx_model_params` holds. -/
def loadFilesWith (rec : Repo → Nat → Params → Except Err Repo) :
    Repo → List Nat → Option Params → Except Err Repo
  | repo, [], _ => .ok repo
  | repo, g :: gs, p =>
    match p with
    | none => .error .noParams                                 -- first statement of `load_model`: the assert
    | some mp =>
      if has repo g then loadFilesWith rec repo gs p           -- local_models / all_models: reuse
      else
        match rec repo g mp with
        | .error e => .error e
        | .ok repo' => loadFilesWith rec repo' gs p

/-- one provider's `_load_referenced_models`: statement after statement -/
def loadStmtsWith (rec : Repo → Nat → Params → Except Err Repo) :
    Repo → List (List Nat) → Option Params → Except Err Repo
  | repo, [], _ => .ok repo
  | repo, fs :: rest, p =>
    if fs = [] then .error .enoent
    else
      match loadFilesWith rec repo fs p with
      | .error e => .error e
      | .ok repo' => loadStmtsWith rec repo' rest p

/-- `internal_model_from_file` for a file that is not in the repository -/
def loadFile (W : World) : Nat → Repo → Nat → Params → Except Err Repo
  | 0 => fun _ _ _ => .error .fuel
  | fuel + 1 => fun repo f mp =>
    match W.files[f]? with
    | none => .error (.noFile f)
    | some spec =>
      if spec.broken then .error (.syntax f)
      else
        -- parse; kwargs_callback: other_model._tx_model_params = model_params; callback: register
        let m : ModelRec := { file := f, params := some mp }
        -- ModelLoader providers: model_params = model._tx_model_params
        loadStmtsWith (loadFile W fuel) (repo ++ [m]) (effImports W spec m.params) m.params

structure Request where
  defs : List String      -- names in the entry metamodel's model_param_defs
  kwargs : Params
  isStr : Bool            -- model_from_str got a str
  viaFile : Bool          -- goes through internal_model_from_file (cached main model is returned)
  file : Nat

/-- `model_from_str` / `model_from_file` -/
def load (body : Stmt) (W : World) (fuel : Nat) (repo0 : Repo) (rq : Request) : Except Err Repo :=
  match runFor body rq.defs (rq.kwargs.map (·.1)) with
  | some k => .error (.unknownParam k)
  | none =>
    if !rq.isStr then .error .notString
    else if rq.viaFile && has repo0 rq.file then .ok repo0
    else loadFile W fuel repo0 rq.file rq.kwargs

/-- import targets are file ids -/
def World.WF (W : World) : Prop :=
  (∀ spec, spec ∈ W.files → ∀ fs, fs ∈ spec.stmts → ∀ g, g ∈ fs → g < W.files.length) ∧
  (∀ rel hit, W.prov = .globalRepo rel hit → ∀ g, g ∈ hit → g < W.files.length)

end ParamsLoad
