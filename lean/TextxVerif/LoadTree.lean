/-!
# Load-tree machine: user class instrumentation and its undoing (C14, C15)

Mirror of the (repaired) code in `textx/model.py`:

* `get_model_from_str` (parse, `_replace_user_attr_methods`, `parse_tree_to_objgraph`,
  final `_restore_user_attr_methods` of a main model, the `except:` handler with
  `_restore_user_attr_methods` + `_discard_user_obj_attrs`)            → `node`
* `_replace_user_attr_methods(_for_class)`, `_restore_user_attr_methods`
  (per-parser flag, per-class counter `_tx_instrumented`, cached `_tx_real_*`) → `incC`, `decC`,
  `replace`, `restore`
* `process_node` for objects of user classes (`_tx_obj_attrs[id(inst)] = {}`,
  `_user_class_allocated`, `_user_class_inst` after the children)          → `buildOT`
* `parse_tree_to_objgraph`: pre-resolution callback, imported models (ImportURI →
  `internal_model_from_file(is_main_model=False)` + model processors), and for the main
  model the resolution loop, `_end_model_construction` of every model, object
  processors; the two failure handlers with `_abort_model_construction`   → `node`, `phase2`
* `_end_model_construction` (restore, then per user object: pop the collected
  attributes, call `__init__`)                                             → `endRec`

Every call of user code is a `Hook`: it logs an event carrying a snapshot of the
instrumentation state of the parser's user classes, runs nested independent loads
(`Env` actions; failures swallowed by the user code or not) and may raise.

State that outlives a load (`Sh`): per class the counter / current methods / cached
methods, the keys of all `_tx_obj_attrs` dicts, the object allocator, the logs.
Core Lean only.
-/
namespace LoadTree

abbrev ClassId := Nat
abbrev ObjId := Nat

/-- the three attribute-access entries of a class `__dict__` (as one bundle):
the class's own (`real a`, `a` = which functions, possibly absent) or textX's instrumented ones -/
inductive Cur (α : Type) where
  | real (a : α)
  | instr
deriving DecidableEq, Repr

/-- instrumentation state of one user class -/
structure Core (α : Type) where
  /-- `_tx_instrumented` (0 = attribute absent) -/
  cnt : Nat
  /-- `__setattr__` / `__delattr__` / `__getattribute__` entries -/
  cur : Cur α
  /-- `_tx_real_*` (none = attributes absent) -/
  saved : Option (Cur α)
deriving DecidableEq, Repr

/-- `_replace_user_attr_methods`, one class -/
def incC {α} (s : Core α) : Core α :=
  if s.cnt = 0 then { cnt := 1, cur := .instr, saved := some s.cur }
  else { s with cnt := s.cnt + 1 }

/-- `_restore_user_attr_methods`, one class -/
def decC {α} (s : Core α) : Core α :=
  if s.cnt = 0 then s
  else if s.cnt = 1 then
    match s.saved with
    | some m => { cnt := 0, cur := m, saved := none }
    | none => { s with cnt := 0 }
  else { s with cnt := s.cnt - 1 }

/-- one logged call of user code -/
structure Ev where
  kind : Nat
  pid : Nat
  lab : Nat
  /-- per user class of the parser's metamodel: counter, instrumented?, cache present?, #keys -/
  snap : List (Nat × Bool × Bool × Nat)
deriving DecidableEq, Repr

/-- state shared by all loads -/
structure Sh (α : Type) where
  core : ClassId → Core α
  /-- keys of the `_tx_obj_attrs` dicts, `(class, id(obj))`, insertion order -/
  attrs : List (ClassId × ObjId)
  /-- allocator: every object created so far has an id `< next` -/
  next : ObjId
  /-- all hook calls, of every load -/
  log : List Ev
  /-- hook calls of the current load attempt only -/
  own : List Ev

/-- a call of user code -/
structure Hook where
  lab : Nat
  /-- nested independent loads: (action, failure swallowed by the user code) -/
  acts : List (Nat × Bool)
  raises : Bool
deriving DecidableEq, Repr

/-- what `process_node` walks over: objects of common rules (of a user class or
not) and match-rule object processor calls -/
inductive OT where
  | obj (cls : Option ClassId) (init : Hook) (kids : List OT)
  | conv (h : Hook)

/-- one model file with the files it makes textX load -/
inductive Load where
  | mk (pid : Nat) (classes : List ClassId) (syntaxOk : Bool) (root : OT) (pre : Option Hook)
       (imports : List Load) (resolve : List Hook) (unresolved : Bool) (oprocs : List Hook) (mproc : Hook)

/-- the model is a value of an immutable type (`str`, `int`, …) when the top rule
application is a match rule: no object is created for it -/
def OT.isConv : OT → Bool
  | .conv _ => true
  | .obj _ _ _ => false

/-- nested independent loads started by user code: arbitrary state transformers -/
abbrev Env (α : Type) := Nat → Sh α → Sh α × Bool

/-- parser (clone) of one model, with what the main model later needs from it -/
structure PRec where
  pid : Nat
  classes : List ClassId
  /-- `_user_attr_methods_replaced` -/
  replaced : Bool
  /-- `_user_class_allocated` -/
  allocs : List (ClassId × ObjId)
  /-- `_user_class_inst` (with the scripted constructor) -/
  insts : List (ClassId × ObjId × Hook)
  resolve : List Hook
  unresolved : Bool
  oprocs : List Hook
  /-- `model._tx_parser` is set (the model can be aborted through the repositories) -/
  hasParser : Bool
deriving Repr

section
variable {α : Type}

def modCore (f : Core α → Core α) (c : ClassId) (sh : Sh α) : Sh α :=
  { sh with core := fun d => if d = c then f (sh.core d) else sh.core d }

def incAll (cs : List ClassId) (sh : Sh α) : Sh α := cs.foldl (fun s c => modCore incC c s) sh
def decAll (cs : List ClassId) (sh : Sh α) : Sh α := cs.foldl (fun s c => modCore decC c s) sh

def isInstr : Cur α → Bool
  | .instr => true
  | .real _ => false

def countKeys (c : ClassId) (l : List (ClassId × ObjId)) : Nat := (l.filter (fun p => p.1 == c)).length

def snapOf (classes : List ClassId) (sh : Sh α) : List (Nat × Bool × Bool × Nat) :=
  classes.map fun c => ((sh.core c).cnt, isInstr (sh.core c).cur, (sh.core c).saved.isSome, countKeys c sh.attrs)

/-- `_replace_user_attr_methods` -/
def replace (P : PRec) (sh : Sh α) : Sh α × PRec :=
  (incAll P.classes sh, { P with replaced := true })

/-- `_restore_user_attr_methods` -/
def restore (P : PRec) (sh : Sh α) : Sh α × PRec :=
  if P.replaced then (decAll P.classes sh, { P with replaced := false }) else (sh, P)

def eraseAll (ps : List (ClassId × ObjId)) (l : List (ClassId × ObjId)) : List (ClassId × ObjId) :=
  ps.foldl (fun l p => l.erase p) l

/-- `_discard_user_obj_attrs` -/
def discard (P : PRec) (sh : Sh α) : Sh α × PRec :=
  ({ sh with attrs := eraseAll P.allocs sh.attrs }, { P with allocs := [] })

/-- handler of `get_model_from_str` -/
def giveUp (P : PRec) (sh : Sh α) : Sh α × PRec :=
  let (sh, P) := restore P sh
  discard P sh

/-- `_abort_model_construction`, one model -/
def abort (P : PRec) (sh : Sh α) : Sh α × PRec :=
  if P.hasParser then giveUp P sh else (sh, P)

def abortList : List PRec → Sh α → Sh α × List PRec
  | [], sh => (sh, [])
  | r :: rs, sh =>
    let (sh, r') := abort r sh
    let (sh, rs') := abortList rs sh
    (sh, r' :: rs')

def runActs (env : Env α) : List (Nat × Bool) → Sh α → Sh α × Bool
  | [], sh => (sh, true)
  | (a, sw) :: rest, sh =>
    let r := env a sh
    if r.2 || sw then runActs env rest r.1 else (r.1, false)

/-- a call of user code: event, nested loads, possibly an exception -/
def runHook (env : Env α) (kind pid : Nat) (classes : List ClassId) (h : Hook) (sh : Sh α) : Sh α × Bool :=
  let ev : Ev := ⟨kind, pid, h.lab, snapOf classes sh⟩
  let r := runActs env h.acts { sh with log := sh.log ++ [ev], own := sh.own ++ [ev] }
  (r.1, r.2 && !h.raises)

def runHooks (env : Env α) (kind pid : Nat) (classes : List ClassId) : List Hook → Sh α → Sh α × Bool
  | [], sh => (sh, true)
  | h :: hs, sh =>
    let r := runHook env kind pid classes h sh
    if r.2 then runHooks env kind pid classes hs r.1 else (r.1, false)

/-- `user_class.__new__`, `_tx_obj_attrs[id(inst)] = {}`, `_user_class_allocated.append` -/
def alloc (c : ClassId) (P : PRec) (sh : Sh α) : Sh α × PRec × ObjId :=
  ({ sh with attrs := sh.attrs ++ [(c, sh.next)], next := sh.next + 1 },
   { P with allocs := P.allocs ++ [(c, sh.next)] }, sh.next)

mutual
/-- `process_node` -/
def buildOT (env : Env α) (P : PRec) : OT → Sh α → Sh α × PRec × Bool
  | .conv h, sh =>
    let r := runHook env 0 P.pid P.classes h sh
    (r.1, P, r.2)
  | .obj (some c) init kids, sh =>
    let a := alloc c P sh
    let r := buildKids env a.2.1 kids a.1
    if r.2.2 then (r.1, { r.2.1 with insts := r.2.1.insts ++ [(c, a.2.2, init)] }, true)
    else (r.1, r.2.1, false)
  | .obj none _ kids, sh => buildKids env P kids sh
def buildKids (env : Env α) (P : PRec) : List OT → Sh α → Sh α × PRec × Bool
  | [], sh => (sh, P, true)
  | t :: ts, sh =>
    let r := buildOT env P t sh
    if r.2.2 then buildKids env r.2.1 ts r.1 else (r.1, r.2.1, false)
end

/-- `_end_model_construction`, the loop over `_user_class_inst` -/
def initAll (env : Env α) (pid : Nat) (classes : List ClassId) : List (ClassId × ObjId × Hook) → Sh α → Sh α × Bool
  | [], sh => (sh, true)
  | (c, i, h) :: rest, sh =>
    let r := runHook env 3 pid classes h { sh with attrs := sh.attrs.erase (c, i) }
    if r.2 then initAll env pid classes rest r.1 else (r.1, false)

/-- `_end_model_construction` -/
def endRec (env : Env α) (r : PRec) (sh : Sh α) : Sh α × PRec × Bool :=
  let x := restore r sh
  let y := initAll env r.pid r.classes r.insts x.1
  (y.1, x.2, y.2)

def endAll (env : Env α) : List PRec → Sh α → Sh α × List PRec × Bool
  | [], sh => (sh, [], true)
  | r :: rs, sh =>
    let x := endRec env r sh
    if x.2.2 then
      let y := endAll env rs x.1
      (y.1, x.2.1 :: y.2.1, y.2.2)
    else (x.1, x.2.1 :: rs, false)

def resolveAll (env : Env α) : List PRec → Sh α → Sh α × Bool
  | [], sh => (sh, true)
  | r :: rs, sh =>
    let x := runHooks env 2 r.pid r.classes r.resolve sh
    if x.2 then resolveAll env rs x.1 else (x.1, false)

def procAll (env : Env α) : List PRec → Sh α → Sh α × Bool
  | [], sh => (sh, true)
  | r :: rs, sh =>
    let x := runHooks env 4 r.pid r.classes r.oprocs sh
    if x.2 then procAll env rs x.1 else (x.1, false)

/-- the main model's part of `parse_tree_to_objgraph` (inner `try`): resolution,
end of construction of all models, object processors; on failure the inner
handler (`_abort_model_construction(models)`) -/
def phase2 (env : Env α) (ms : List PRec) (sh : Sh α) : Sh α × List PRec × Bool :=
  let a := resolveAll env ms sh
  if !a.2 || ms.any (·.unresolved) then
    let z := abortList ms a.1
    (z.1, z.2, false)
  else
    let b := endAll env ms a.1
    if !b.2.2 then
      let z := abortList b.2.1 b.1
      (z.1, z.2, false)
    else
      let c := procAll env b.2.1 b.1
      if !c.2 then
        let z := abortList b.2.1 c.1
        (z.1, z.2, false)
      else (c.1, b.2.1, true)

/-- outer handler of `parse_tree_to_objgraph` (`_remove_all_affected_models_in_construction`:
abort every model of the attempt that has a parser) followed by the handler of
`get_model_from_str` -/
def failOuter (P : PRec) (left : List PRec) (sh : Sh α) : Sh α × Except (List PRec) (List PRec) :=
  let a := abortList left sh
  let b := abort P a.1
  let c := giveUp b.2 b.1
  (c.1, .error [])

def newRec (pid : Nat) (classes : List ClassId) (resolve : List Hook) (unresolved : Bool) (oprocs : List Hook) : PRec :=
  { pid, classes, replaced := false, allocs := [], insts := [], resolve, unresolved, oprocs, hasParser := false }

/-- first part of `get_model_from_str` / `parse_tree_to_objgraph`: parse, instrument,
`process_node`, pre-resolution callback.  `.inl` = failed (with the final result of
the node), `.inr (P, sh)` = go on with the imports. -/
def front (env : Env α) (isMain hasImports : Bool) (pid : Nat) (classes : List ClassId) (syntaxOk : Bool) (root : OT) (pre : Option Hook)
    (resolve : List Hook) (unresolved : Bool) (oprocs : List Hook) (repo : List PRec) (sh : Sh α) :
    (Sh α × Except (List PRec) (List PRec)) ⊕ (PRec × Sh α) :=
  if !syntaxOk then .inl (sh, .error repo) else
  let p := replace (newRec pid classes resolve unresolved oprocs) sh
  let b := buildOT env p.2 root p.1
  if !b.2.2 then .inl ((giveUp b.2.1 b.1).1, .error repo) else
  -- an imported model is registered by the repository's own pre-resolution callback,
  -- which needs attributes on the model: AttributeError for a model of an immutable type
  if !isMain && root.isConv then .inl (failOuter b.2.1 repo b.1) else
  let q := match pre with
    | some h => runHook env 1 pid classes h b.1
    | none => (b.1, true)
  if !q.2 then .inl (failOuter b.2.1 repo q.1) else
  -- `load_models` stores the repository on the model: AttributeError for a model of an immutable type
  if root.isConv && hasImports then .inl (failOuter b.2.1 repo q.1) else .inr (b.2.1, q.1)

/-- last part, after the imported models are loaded: `_tx_parser` is set; the main
model resolves, ends the construction of all models and runs the object
processors (`phase2`), then gives back its own instrumentation (immutable models
never reach `_end_model_construction`); finally the model processors
(`internal_model_from_file`). -/
def back (env : Env α) (isMain immut : Bool) (pid : Nat) (classes : List ClassId) (mproc : Hook)
    (P0 : PRec) (repo mine : List PRec) (sh : Sh α) : Sh α × Except (List PRec) (List PRec) :=
  let P : PRec := if immut then P0 else { P0 with hasParser := true }
  if isMain then
    let ms := if immut then [] else P :: (repo ++ mine)
    let r := phase2 env ms sh
    let P' := match r.2.1 with
      | x :: _ => x
      | [] => P
    if !r.2.2 then failOuter P' [] r.1 else
    let f := restore P' r.1
    let m := runHook env 5 pid classes mproc f.1
    (m.1, if m.2 then .ok [] else .error [])
  else
    let m := runHook env 5 pid classes mproc sh
    (m.1, if m.2 then .ok (P :: mine) else .error (repo ++ P :: mine))

mutual
/-- `internal_model_from_file`: `get_model_from_str` followed by the model
processors.  `repo` = the models of this attempt which are completely parsed
(they are registered in the repositories and have `_tx_parser`).
Result: `.ok new` (the models completed by this call, in registration order) or
`.error left` (failure; `left` = what is still registered). -/
def node (env : Env α) (isMain : Bool) : Load → List PRec → Sh α → Sh α × Except (List PRec) (List PRec)
  | .mk pid classes syntaxOk root pre imps resolve unresolved oprocs mproc, repo, sh =>
    match front env isMain (!imps.isEmpty) pid classes syntaxOk root pre resolve unresolved oprocs repo sh with
    | .inl res => res
    | .inr (P, sh1) =>
      match importList env imps repo [] sh1 with
      | (sh2, .error left) => failOuter P left sh2
      | (sh2, .ok mine) => back env isMain root.isConv pid classes mproc P repo mine sh2
/-- the imported models of one model, in order -/
def importList (env : Env α) : List Load → List PRec → List PRec → Sh α → Sh α × Except (List PRec) (List PRec)
  | [], _, mine, sh => (sh, .ok mine)
  | L :: Ls, repo, mine, sh =>
    match node env false L (repo ++ mine) sh with
    | (sh, .error left) => (sh, .error left)
    | (sh, .ok new) => importList env Ls repo (mine ++ new) sh
end

/-- one load attempt (`metamodel.model_from_str` / `model_from_file`) -/
def runMain (env : Env α) (L : Load) (sh : Sh α) : Sh α × Bool :=
  let r := node env true L [] sh
  (r.1, match r.2 with | .ok _ => true | .error _ => false)

/-- a nested load as seen by the enclosing one: its own event list is local -/
def asAction (f : Sh α → Sh α × Bool) (sh : Sh α) : Sh α × Bool :=
  let r := f { sh with own := [] }
  ({ r.1 with own := sh.own }, r.2)

/-- the loads user code may start: action `a` runs `table[a]` -/
def tableEnv (run : Load → Sh α → Sh α × Bool) (table : List Load) : Env α := fun a s =>
  match table[a]? with
  | some L' => asAction (run L') s
  | none => (s, false)

/-- loads started by user code are loads again; `fuel` bounds the nesting depth -/
def runF (table : List Load) : Nat → Load → Sh α → Sh α × Bool
  | 0, _, sh => (sh, false)
  | n + 1, L, sh => runMain (tableEnv (runF table n) table) L sh

/-- a history of load attempts on the same classes (same metamodel or metamodels sharing user
classes), one after the other: each entry = the loads user code may start, the nesting depth, the
attempt.  Attempts may fail or succeed; the state each leaves is the state the next starts in. -/
def runHist (hist : List (List Load × Nat × Load)) (sh : Sh α) : Sh α :=
  hist.foldl (fun s x => (runF x.1 x.2.1 x.2.2 s).1) sh

/-- a later attempt on the classes as an earlier history left them: its own event lists -/
def runNext (table : List Load) (n : Nat) (L : Load) (sh : Sh α) : Sh α × Bool :=
  runF table n L { sh with log := [], own := [] }

end

/-! ## what the calls of user code of one attempt should be (specification)

Pure functions of the load tree: which user code is called in which order when
nothing fails.  `Proofs/LoadTreeTrace.lean` shows that the machine's own event list is
always a prefix of `mainTrace`, and equal to it when the attempt succeeds. -/

/-- kind, parser, label of an event -/
abbrev Key := Nat × Nat × Nat

def Ev.key (e : Ev) : Key := (e.kind, e.pid, e.lab)

def hookKeys (kind pid : Nat) (hs : List Hook) : List Key := hs.map fun h => (kind, pid, h.lab)

mutual
/-- match-rule object processor calls of an object tree, in textual order -/
def OT.convs : OT → List Hook
  | .conv h => [h]
  | .obj _ _ kids => OT.convsL kids
def OT.convsL : List OT → List Hook
  | [] => []
  | t :: ts => t.convs ++ OT.convsL ts
end

mutual
/-- constructors of the user class objects of an object tree: children before
their container -/
def OT.inits : OT → List Hook
  | .conv _ => []
  | .obj (some _) init kids => OT.initsL kids ++ [init]
  | .obj none _ kids => OT.initsL kids
def OT.initsL : List OT → List Hook
  | [] => []
  | t :: ts => t.inits ++ OT.initsL ts
end

/-- per model file: parser, constructors, provider calls, object processor calls -/
structure NodeSum where
  pid : Nat
  inits : List Hook
  resolve : List Hook
  oprocs : List Hook
deriving DecidableEq, Repr

mutual
/-- the files of a load in registration order (a file before the files it imports) -/
def Load.sums : Load → List NodeSum
  | .mk pid _ _ root _ imps resolve _ oprocs _ => ⟨pid, root.inits, resolve, oprocs⟩ :: Load.sumsL imps
def Load.sumsL : List Load → List NodeSum
  | [] => []
  | L :: Ls => L.sums ++ Load.sumsL Ls
end

mutual
/-- per file of a load (registration order, as `Load.sums`): does the reference resolution of the file
fail — a scope-provider call raises (unknown name, exception of the provider) or a reference stays
postponed for good -/
def Load.unres : Load → List Bool
  | .mk _ _ _ _ _ imps resolve unresolved _ _ => (unresolved || resolve.any (·.raises)) :: Load.unresL imps
def Load.unresL : List Load → List Bool
  | [] => []
  | L :: Ls => L.unres ++ Load.unresL Ls
end

/-- the model is a value of an immutable type -/
def Load.immut : Load → Bool
  | .mk _ _ _ root _ _ _ _ _ _ => root.isConv

mutual
/-- calls while an imported file (and what it imports) is parsed -/
def Load.buildTr : Load → List Key
  | .mk pid _ _ root pre imps _ _ _ mproc =>
    hookKeys 0 pid root.convs ++ hookKeys 1 pid pre.toList ++ Load.buildTrL imps ++ [(5, pid, mproc.lab)]
def Load.buildTrL : List Load → List Key
  | [] => []
  | L :: Ls => L.buildTr ++ Load.buildTrL Ls
end

def resolveTr (ns : List NodeSum) : List Key := ns.flatMap fun n => hookKeys 2 n.pid n.resolve
def initTr (ns : List NodeSum) : List Key := ns.flatMap fun n => hookKeys 3 n.pid n.inits
def procTr (ns : List NodeSum) : List Key := ns.flatMap fun n => hookKeys 4 n.pid n.oprocs

/-- all calls of user code of a successful attempt, in order: parsing (match-rule
processors, callbacks, model processors of imported files), reference resolution,
constructors, object processors, model processors of the main file -/
def mainTrace : Load → List Key
  | .mk pid cs ok root pre imps resolve unres oprocs mproc =>
    let ns := if root.isConv then [] else (Load.mk pid cs ok root pre imps resolve unres oprocs mproc).sums
    hookKeys 0 pid root.convs ++ hookKeys 1 pid pre.toList ++ Load.buildTrL imps ++
      resolveTr ns ++ initTr ns ++ procTr ns ++ [(5, pid, mproc.lab)]

/-! ## `__init__` keyword arguments (`_end_model_construction`) -/
namespace Kw

/-- `setattr` on the collecting dict -/
def set (k : String) : List String → List String
  | [] => [k]
  | x :: xs => if x = k then x :: xs else x :: set k xs

/-- keys collected for one user object: `_init_obj_attrs` (every grammar
attribute), positions, assignments (grammar attributes again), `parent` when the
object is contained, then whatever textX or user code stores later (`extras`) -/
def collected (txAttrs assigned : List String) (contained : Bool) (extras : List String) : List String :=
  let d := txAttrs.foldl (fun d k => set k d) []
  let d := set "_tx_position_end" (set "_tx_position" d)
  let d := assigned.foldl (fun d k => set k d) d
  let d := if contained then set "parent" d else d
  extras.foldl (fun d k => set k d) d

/-- what `_end_model_construction` passes on: attributes of the rule, and `parent` unless the object
is the root of its model (`obj is model` ⇔ not contained: a `parent` found among the root's collected
attributes is taken out — it goes onto the object only — before the filter `k in _tx_attrs or k == "parent"`) -/
def kwargs (txAttrs : List String) (contained : Bool) (coll : List String) : List String :=
  coll.filter fun k => txAttrs.contains k || (k == "parent" && contained)

/-- the filter of the pinned code: `parent` was passed whenever it was found -/
def kwargsPinned (txAttrs : List String) (coll : List String) : List String :=
  coll.filter fun k => txAttrs.contains k || k == "parent"

/-- `delattr` on the collecting dict (the instrumented `__delattr__` pops the name) -/
def del (k : String) (d : List String) : List String := d.filter fun x => x != k

/-- what user code (callback, scope provider, model processor of an imported file, the
constructor of another object) does to an object that is still under construction -/
inductive Op where
  | set (k : String)
  | del (k : String)
deriving DecidableEq, Repr

def Op.apply : Op → List String → List String
  | .set k, d => Kw.set k d
  | .del k, d => Kw.del k d

/-- the keys collected for an object after textX's own stores and the stores / deletions of user code -/
def collectedOps (txAttrs assigned : List String) (contained : Bool) (extras : List String) (ops : List Op) :
    List String :=
  ops.foldl (fun d o => o.apply d) (collected txAttrs assigned contained extras)

/-- what user code may do without changing the constructor arguments: store anything, delete
anything but what the constructor is owed (grammar attributes, `parent` of a contained object) -/
def Op.harmless (txAttrs : List String) (contained : Bool) : Op → Prop
  | .set _ => True
  | .del k => k ∉ txAttrs ∧ (k = "parent" → contained = false)

/-- is the name `k` on the object after the operations of user code (`present`: was it there before):
the last store / deletion of `k` decides -/
def Op.alive (k : String) (present : Bool) (ops : List Op) : Bool :=
  ops.foldl (fun b o => match o with
    | .set x => b || x == k
    | .del x => b && x != k) present

end Kw

end LoadTree
