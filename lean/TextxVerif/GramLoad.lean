/-!
# Loading a grammar: outcome-classifying mirror of `metamodel_from_str` (C23)

Mirrors, after the `fix:` commits on `fix/C23` (and the `lang.py` fixes of C01, C02,
C03, C05, C25 that are cherry-picked there), the three stages a grammar text goes through:

* stage 0  `language_from_str`: the grammar text is parsed by the textX grammar
  parser (Arpeggio, `lang.py:textx_model`); `NoMatch` is wrapped into
  `TextXSyntaxError`.  The model starts from the *parse tree* (type `Grammar`,
  the typed shape of the trees of `textx_model`), `parseFailed` is the wrapper.
* stage 1  the first pass of `TextXVisitor` in Arpeggio's post-order
  (`visit_rule_name`, `visit_rule_params`, `visit_str_match`, `visit_re_match`,
  `visit_obj_ref`, `visit_assignment`, `visit_repeatable_expr`, `visit_sequence`,
  `visit_choice`, `visit_expression`, `visit_textx_rule` with
  `_update_attr_multiplicities`, `visit_import_stm`, `visit_reference_stm`,
  `visit_textx_model`): functions `visit*`, `visitRule`, `firstPass`.
* stage 2  `second_textx_model`: `_resolve_rule_refs` (`resolveCross`,
  `resolvePeg`, `stage2`), the refresh of the comments model (`refreshComments`; the first
  read is `visit_textx_model`, `commentsModel`), `_determine_rule_types` (the attribute accesses it
  performs: `stage3`), `_resolve_cls_refs` (`stage4`), with
  `TextXMetaModel.__getitem__` / `__contains__` (`getitem`, `contains`).

Everything runs in an explicit error monad `Except Exc`.  `Exc` has the four
textX error classes and `py e` for every other Python exception.  Each *partial*
operation of the Python code is a helper that can return `py …`:
dict lookups (`KeyError`), attribute reads on objects that may lack the attribute
(`_attr_name`, `_tx_class`, `nodes` of a `RuleCrossRef`: `AttributeError`),
`'\\' in value` on a non-string (`TypeError`), `re.compile` / `codecs.decode`
(`re.error`, `OverflowError`, `RecursionError`, `ValueError`, … / `UnicodeDecodeError`,
all caught by the code), following rule
aliases (`RecursionError` when the fuel runs out), `assert` (`AssertionError`).
The property theorems (Props/C23.lean) show that no `py …` other than the
documented `import`-in-a-string assertion ever leaves `compile`.

Abstractions (stated in notes/C23.md): whether a regular expression compiles (and
which exception class the regex engine raises when it does not) and
whether the escapes of a string decode are inputs (flags on the literal, computed
by Python's `re` / `codecs` in the harness); an RREL expression inside a link is
opaque (its visitor has no failing operation on a parse tree); multiplicities,
positions, scope providers and messages are dropped; the order in which the
second pass meets several erroneous references is not modelled — `candidates`
lists every error the second pass can raise and `compile` picks the first in
namespace order.
Model file: core Lean only.
-/
namespace GramLoad

/-! ## outcome classes -/

/-- Python exceptions that are not textX errors -/
inductive PyExc
  | keyError | attributeError | typeError | indexError | recursionError
  | assertionError | unicodeDecodeError | reError
  | overflowError | valueError
  | other           -- any further subclass of `Exception`
deriving DecidableEq, Repr

inductive Exc
  | syntax        -- TextXSyntaxError
  | semantic      -- TextXSemanticError
  | txerror       -- TextXError (base class)
  | registration  -- TextXRegistrationError
  | py (e : PyExc)
deriving DecidableEq, Repr

abbrev M := Except Exc

/-- the outcome is a textX error class -/
def Exc.isTx : Exc → Bool
  | .py _ => false
  | _ => true

/-! ## the parse tree of the grammar language (`lang.py:textx_model`) -/

/-- `simple_match`; `decodes` is the answer of `codecs.decode`, `raises` the answer
of `re.compile`: `none` = the pattern compiles, `some e` = the regex engine refuses
it with the exception `e`.  The engine does not use `re.error` for every refusal:
a repetition count beyond its limit is an `OverflowError`, a pattern nested deeper
than the interpreter stack a `RecursionError`, incompatible flags a `ValueError`. -/
inductive Lit
  | str (decodes : Bool)
  | re (raises : Option PyExc)
deriving DecidableEq, Repr

/-- one item of `repeat_modifiers` -/
inductive Mod
  | sep (l : Lit)
  | eolterm
deriving DecidableEq, Repr

inductive AOp | eq | plus | star | opt
deriving DecidableEq, Repr

inductive ROp | star | opt | plus | hash
deriving DecidableEq, Repr

inductive Pred | not_ | and_
deriving DecidableEq, Repr

/-- `assignment_rhs` without its modifiers -/
inductive Rhs
  | lit (l : Lit)
  | ref (name : String)
  | obj (cls : String) (rule : Option String) (rrel : Bool)
deriving DecidableEq, Repr

structure RepOp where
  op : ROp
  mods : Option (List Mod)
deriving DecidableEq, Repr

mutual
/-- `expression` -/
inductive Expr
  | asgn (attr : String) (op : AOp) (rhs : Rhs) (mods : Option (List Mod))
  | lit (pred : Option Pred) (l : Lit)
  | ref (pred : Option Pred) (name : String)
  | group (pred : Option Pred) (c : Choice)
/-- `repeatable_expr` -/
inductive RExpr
  | mk (e : Expr) (rep : Option RepOp) (sup : Bool)
/-- `sequence`: one or more -/
inductive Seq
  | one (x : RExpr)
  | cons (x : RExpr) (xs : Seq)
/-- `choice` / `textx_rule_body`: one or more -/
inductive Choice
  | one (s : Seq)
  | cons (s : Seq) (c : Choice)
end

/-- `textx_rule`; `params` are `(param_name, string_value?)` -/
structure Rule where
  name : String
  params : Option (List (String × Option String))
  body : Choice

inductive Stm
  | imp
  | reference (lang : String) (alias : Option String)
deriving DecidableEq, Repr

/-- `textx_model`: statements, then one or more rules -/
structure Grammar where
  stms : List Stm
  first : Rule
  rest : List Rule

/-! ## the objects the visitor builds -/

/-- Python class of a parser model node -/
inductive PK
  | seq | choice | opt | zom | oom | ug | not_ | and_ | mtch
deriving DecidableEq, Repr

/-- parser model under construction.  `cross` is a `RuleCrossRef` (not a
`ParsingExpression`: no `nodes`, no `root`); `node` carries `rule_name`, `root`
and `_attr_name` (present on assignment rules only). -/
inductive Peg
  | cross (name : String) (sup : Bool)
  | node (k : PK) (rn : String) (root : Bool) (attr : Option String) (nodes : List Peg)
deriving Repr

/-- `MetaAttr`: name, `bool_assignment`, `cls.cls_name` of its `ClassCrossRef` -/
structure Attr where
  name : String
  isBool : Bool
  clsName : String
deriving DecidableEq, Repr

/-- a meta-class of the current namespace: `__name__`, `_tx_attrs`, `_tx_peg_rule` -/
structure Cls where
  name : String
  attrs : List Attr
  peg : Peg
deriving Repr

/-! ## string helpers (list based: they reduce in the kernel) -/

def isAsgnName (s : String) : Bool := "__asgn".toList.isPrefixOf s.toList

def startsNo (s : String) : Bool := "no".toList.isPrefixOf s.toList

def drop2 (s : String) : String := String.ofList (s.toList.drop 2)

/-- `name.rsplit(".", 1)` when `"." in name` -/
def rsplitDot (s : String) : Option (String × String) :=
  let r := s.toList.reverse
  if r.contains '.' then
    some (String.ofList (r.dropWhile (· != '.')).tail.reverse,
          String.ofList (r.takeWhile (· != '.')).reverse)
  else none

def baseTypeNames : List String :=
  ["ID", "BOOL", "INT", "FLOAT", "STRICTFLOAT", "STRING", "NUMBER", "BASETYPE"]

/-- classes of the `__base__` namespace -/
def baseNames : List String := baseTypeNames ++ ["OBJECT"]

/-! ## partial operations of the Python code -/

/-- `re.compile` (`regex.compile()` of Arpeggio's `RegExMatch`) -/
def reCompile : Option PyExc → M Unit
  | none => pure ()
  | some e => throw (.py e)

/-- `decode_escapes` (`codecs.decode(…, "unicode-escape")`) -/
def decodeEscapes (ok : Bool) : M Unit := if ok then pure () else throw (.py .unicodeDecodeError)

/-- `expr.nodes` -/
def nodesOf : Peg → M (List Peg)
  | .cross _ _ => throw (.py .attributeError)
  | .node _ _ _ _ ns => pure ns

/-- `rule._attr_name` -/
def attrNameOf : Peg → M String
  | .node _ _ _ (some a) _ => pure a
  | _ => throw (.py .attributeError)

/-- `cls._tx_attrs[name]` -/
def attrGet (attrs : List Attr) (name : String) : M Attr :=
  match attrs.find? (·.name == name) with
  | some a => pure a
  | none => throw (.py .keyError)

/-- value of a rule parameter: `True` / `False` or the string of `string_value` -/
inductive PVal
  | bool (b : Bool)
  | str (s : String)
deriving DecidableEq, Repr

/-- `"\\" in value` -/
def pyInStr (v : PVal) : M Bool :=
  match v with
  | .str s => pure (s.toList.contains '\\')
  | .bool _ => throw (.py .typeError)

/-- `len(value)` -/
def pyLen (v : PVal) : M Nat :=
  match v with
  | .str s => pure s.length
  | .bool _ => throw (.py .typeError)

/-! ## `try … except H`: the exception classes the handlers of the code name

An independent reading of Python's `try: body  except H: handler`: the handler runs
exactly when the raised exception is an instance of `H` (`issubclass(type(e), H)`; the table
`PyExc.isa` is compared with `issubclass` of the running interpreter on every run of the
check).  `visitLit`, `contains`, `resolveAttr` below are written as explicit case
distinctions; Proofs/GramLoadClass.lean shows that they are `tryExcept` with the class
named in the code (`*_spec`). -/

/-- the classes named in `except` clauses of `lang.py` / `metamodel.py` on the paths
modelled here: `Exception`, `ValueError`, `KeyError`, `re.error` (the last one only in the
seeded variant C23-2) -/
inductive Handler
  | exception | valueError | keyError | reError
deriving DecidableEq, Repr

/-- `issubclass(E, H)` in the builtin hierarchy: everything is an `Exception`;
`UnicodeDecodeError < UnicodeError < ValueError`; `KeyError < LookupError` and `re.error`
have no subclass among the classes of `PyExc`.  `other` stands for an `Exception` subclass
outside the three narrower handlers. -/
def PyExc.isa : PyExc → Handler → Bool
  | _, .exception => true
  | .valueError, .valueError => true
  | .unicodeDecodeError, .valueError => true
  | .keyError, .keyError => true
  | .reError, .reError => true
  | _, _ => false

/-- the textX error classes derive from `Exception` and from none of the narrower handlers -/
def Exc.caughtBy : Exc → Handler → Bool
  | .py e, h => e.isa h
  | _, .exception => true
  | _, _ => false

/-- `try: body  except h: handler` -/
def tryExcept {α : Type} (body : M α) (h : Handler) (handler : M α) : M α :=
  match body with
  | .ok a => .ok a
  | .error e => if e.caughtBy h then handler else .error e

/-! ## first pass: literals, modifiers, rule parameters -/

/-- `visit_str_match` / `visit_re_match`: a failing `decode_escapes` (`except
ValueError`) or `regex.compile()` (`except Exception`: whatever exception class the
regex engine uses, every `PyExc` is a subclass of `Exception`) is reported as
`TextXSyntaxError`. -/
def visitLit : Lit → M Unit
  | .str ok =>
      match decodeEscapes ok with
      | .ok _ => pure ()
      | .error _ => throw .syntax
  | .re r =>
      match reCompile r with
      | .ok _ => pure ()
      | .error _ => throw .syntax

/-- the children of `repeat_modifiers` are visited in order -/
def visitMods : List Mod → M Unit
  | [] => pure ()
  | .sep l :: ms => do visitLit l; visitMods ms
  | .eolterm :: ms => visitMods ms

def visitModsOpt : Option (List Mod) → M Unit
  | none => pure ()
  | some ms => visitMods ms

/-- `visit_rule_param` -/
def visitParam : String × Option String → String × PVal
  | (n, some v) => (n, .str v)
  | (n, none) => if startsNo n then (drop2 n, .bool false) else (n, .bool true)

/-- `name not in ["skipws", "ws", "split"]` -/
def checkParamName (n : String) : M Unit :=
  if n == "skipws" || n == "ws" || n == "split" then pure () else throw .syntax

/-- `split` needs a non-empty string -/
def checkSplit (n : String) (v : PVal) : M Unit :=
  if n == "split" then
    match v with
    | .bool _ => throw .txerror                -- not isinstance(value, str)
    | .str s => do
        let l ← pyLen (.str s)
        if l == 0 then throw .txerror else pure ()
  else pure ()

/-- `ws` needs a string (fix); then `"\\" in value` -/
def checkWs (n : String) (v : PVal) : M Unit :=
  if n == "ws" then
    match v with
    | .bool _ => throw .txerror                -- not isinstance(value, str)  (fix)
    | .str s => do
        let _ ← pyInStr (.str s)               -- "\\" in value
        pure ()
  else pure ()

/-- the loop of `visit_rule_params` -/
def checkParams : List (String × PVal) → M Unit
  | [] => pure ()
  | (n, v) :: rest => do
      checkParamName n
      checkSplit n v
      checkWs n v
      checkParams rest

def visitParams : Option (List (String × Option String)) → M Unit
  | none => pure ()
  | some ps => checkParams (ps.map visitParam)

/-! ## first pass: expressions -/

def mkMatch : Peg := .node .mtch "" false none []

/-- `visit_expression`: `Not(nodes=[x])` / `And(nodes=[x])` -/
def wrapPred : Option Pred → Peg → Peg
  | none, p => p
  | some .not_, p => .node .not_ "" false none [p]
  | some .and_, p => .node .and_ "" false none [p]

/-- `isinstance(expr, Sequence)` (`OrderedChoice` is a subclass) -/
def isSeqClass : Peg → Bool
  | .node .seq _ _ _ _ => true
  | .node .choice _ _ _ _ => true
  | _ => false

def rootOf : Peg → Bool
  | .node _ _ r _ _ => r
  | .cross _ _ => false

/-- `rule.suppress = suppress` (kept on rule references only) -/
def setSup : Peg → Bool → Peg
  | .cross n _, s => .cross n s
  | p, _ => p

/-- the rule a repeat operator makes of its operand; `#` takes the `nodes` of a
non-root `Sequence` / `OrderedChoice` (C02 fix), else the operand itself -/
def repNode (p : Peg) : ROp → M Peg
  | .opt => pure (.node .opt "" false none [p])
  | .star => pure (.node .zom "" false none [p])
  | .plus => pure (.node .oom "" false none [p])
  | .hash =>
      if isSeqClass p && !(rootOf p) then do
        let ns ← nodesOf p
        pure (.node .ug "" false none ns)
      else pure (.node .ug "" false none [p])

/-- "Modifiers are not allowed for ? operator" -/
def checkRepMods (mods : Option (List Mod)) (op : ROp) : M Unit :=
  if mods.isSome && op == .opt then throw .syntax else pure ()

/-- `visit_repeatable_expr`, the repeat-operator part -/
def applyRep (p : Peg) : Option RepOp → M Peg
  | none => pure p
  | some ⟨op, mods⟩ => do
      visitModsOpt mods
      let r ← repNode p op
      checkRepMods mods op
      pure r

/-- `visit_obj_ref` / `visit_rule_ref` / `simple_match` as right-hand side:
parser rule, `target_cls`, `rhs_rule.rule_name` -/
def visitRhs : Rhs → M (Peg × Option String × String)
  | .lit l => do visitLit l; pure (mkMatch, none, "")
  | .ref n => pure (.cross n false, none, n)
  | .obj cls rule _ =>
      if baseTypeNames.contains cls then throw .semantic
      else pure (.cross (rule.getD "ID") false, some cls, rule.getD "ID")

/-- register / update the attribute on `_current_cls` -/
def upsertAttr (attrs : List Attr) (an : String) (isBool : Bool) (ty : String) : List Attr :=
  match attrs with
  | [] => [{ name := an, isBool := isBool, clsName := ty }]
  | a :: rest =>
      if a.name == an then
        { a with clsName := if a.clsName != ty then "OBJECT" else a.clsName } :: rest
      else a :: upsertAttr rest an isBool ty

/-- `"parent"` is reserved (C05 fix) -/
def checkParent (an : String) : M Unit :=
  if an == "parent" then throw .semantic else pure ()

/-- multiple assignment: `?=` can not take part (C02 fix: in either order) -/
def checkMulti (attrs : List Attr) (an : String) (op : AOp) : M Unit :=
  if attrs.any (·.name == an) then do
    let ca ← attrGet attrs an
    if op == .opt || ca.isBool then throw .semantic else pure ()
  else pure ()

/-- Python class, `rule_name` of the assignment rule and `base_rule_name` -/
def asgnKind (op : AOp) (baseName : String) : PK × String × String :=
  match op with
  | .plus => (.oom, "__asgn_oneormore", baseName)
  | .star => (.zom, "__asgn_zeroormore", baseName)
  | .opt => (.opt, "__asgn_optional", "BOOL")
  | .eq => (.seq, "__asgn_plain", baseName)

/-- "Modifiers are not allowed for = / ?= operator" -/
def checkAsgnMods (mods : Option (List Mod)) (op : AOp) : M Unit :=
  if mods.isSome && (op == .opt || op == .eq) then throw .syntax else pure ()

def asgnType (target : Option String) (base : String) : String :=
  target.getD (if base != "" then base else "STRING")

/-- `visit_assignment` (its children — right-hand side, then modifiers — first) -/
def visitAsgn (attrs : List Attr) (an : String) (op : AOp) (rhs : Rhs) (mods : Option (List Mod)) :
    M (Peg × List Attr) := do
  let r ← visitRhs rhs
  visitModsOpt mods
  checkParent an
  checkMulti attrs an op
  checkAsgnMods mods op
  pure (.node (asgnKind op r.2.2).1 (asgnKind op r.2.2).2.1 true (some an) [r.1],
        upsertAttr attrs an (op == .opt) (asgnType r.2.1 (asgnKind op r.2.2).2.2))

/-- `visit_sequence` / `visit_choice`: a single child is returned as it is -/
def mkSeq : List Peg → Peg
  | [p] => p
  | ps => .node .seq "" false none ps

def mkChoice : List Peg → Peg
  | [p] => p
  | ps => .node .choice "" false none ps

mutual
def visitExpr (attrs : List Attr) : Expr → M (Peg × List Attr)
  | .asgn a op rhs mods => visitAsgn attrs a op rhs mods
  | .lit pred l => do visitLit l; pure (wrapPred pred mkMatch, attrs)
  | .ref pred n => pure (wrapPred pred (.cross n false), attrs)
  | .group pred c => do
      let (ps, a) ← visitChoiceL attrs c
      pure (wrapPred pred (mkChoice ps), a)
def visitRExpr (attrs : List Attr) : RExpr → M (Peg × List Attr)
  | .mk e rep sup => do
      let (p, a) ← visitExpr attrs e
      let r ← applyRep p rep
      pure (setSup r sup, a)
def visitSeqL (attrs : List Attr) : Seq → M (List Peg × List Attr)
  | .one x => do
      let (p, a) ← visitRExpr attrs x
      pure ([p], a)
  | .cons x xs => do
      let (p, a) ← visitRExpr attrs x
      let (ps, a2) ← visitSeqL a xs
      pure (p :: ps, a2)
def visitChoiceL (attrs : List Attr) : Choice → M (List Peg × List Attr)
  | .one s => do
      let (ps, a) ← visitSeqL attrs s
      pure ([mkSeq ps], a)
  | .cons s c => do
      let (ps, a) ← visitSeqL attrs s
      let (qs, a2) ← visitChoiceL a c
      pure (mkSeq ps :: qs, a2)
end

/-! ## first pass: rules -/

/-- the assignment branch of `_update_attr_multiplicities`: `rule._attr_name`,
`cls._tx_attrs[…]`, "Can't use bool assignment inside repetition" -/
def multAsgn (attrs : List Attr) (many : Bool) (rn : String) (self : Peg) : M Unit :=
  if isAsgnName rn then do
    let an ← attrNameOf self
    let _ ← attrGet attrs an
    if many && rn == "__asgn_optional" then throw .semantic else pure ()
  else pure ()

mutual
/-- `_update_attr_multiplicities` (`many`: the multiplicity is `*` or `+`); the
branch sets and the multiplicities themselves do not influence the outcome -/
def multWalk (attrs : List Attr) (isRootRule : Bool) (many : Bool) : Peg → M Unit
  | .cross _ _ => pure ()
  | .node k rn root attr nodes =>
      if k == .choice then multWalkL attrs many nodes
      else do
        multAsgn attrs (many || k == .oom || k == .zom) rn (.node k rn root attr [])
        if isRootRule || !root then multWalkL attrs (many || k == .oom || k == .zom) nodes else pure ()
def multWalkL (attrs : List Attr) (many : Bool) : List Peg → M Unit
  | [] => pure ()
  | p :: ps => do multWalk attrs false many p; multWalkL attrs many ps
end

/-- `root_rule.rule_name` (a `RuleCrossRef` has one too) -/
def ruleNameOf : Peg → String
  | .cross n _ => n
  | .node _ rn _ _ _ => rn

/-- `visit_textx_rule`: wrap or promote the body -/
def mkRoot (name : String) (hasParams : Bool) (body : Peg) : Peg :=
  if isAsgnName (ruleNameOf body) || (hasParams && !isSeqClass body) then
    .node .seq name true none [body]
  else
    match body with
    | .cross n s => .cross n s
    | .node k _ _ attr ns => .node k name true attr ns

/-- namespace dict: a later class of the same name replaces the earlier one in place -/
def nsInsert (ns : List Cls) (c : Cls) : List Cls :=
  match ns with
  | [] => [c]
  | d :: rest => if d.name == c.name then c :: rest else d :: nsInsert rest c

def nsGet (ns : List Cls) (name : String) : M Cls :=
  match ns.find? (·.name == name) with
  | some c => pure c
  | none => throw (.py .keyError)

/-- `visit_rule_name`: the prefix `__asgn` is reserved (fix) -/
def checkRuleName (n : String) : M Unit :=
  if isAsgnName n then throw .semantic else pure ()

/-- `visit_textx_rule`: the class is looked up by name, the root is wrapped or
promoted, the multiplicities are walked; the class gets its attributes and rule -/
def finishRule (ns1 : List Cls) (name : String) (hasParams : Bool) (b : List Peg × List Attr) :
    M (List Cls × Peg) := do
  let _ ← nsGet ns1 name                            -- cls = self.metamodel[rule_name]
  multWalk b.2 true false (mkRoot name hasParams (mkChoice b.1))
  pure (nsInsert ns1 { name := name, attrs := b.2, peg := mkRoot name hasParams (mkChoice b.1) },
        mkRoot name hasParams (mkChoice b.1))

/-- one `textx_rule` in post-order: `visit_rule_name` (`_new_class`: the class
enters the namespace before its body is visited), `visit_rule_params`, the body,
`visit_textx_rule`.  Returns the new namespace and the rule's root. -/
def visitRule (ns : List Cls) (r : Rule) : M (List Cls × Peg) := do
  checkRuleName r.name
  visitParams r.params
  let b ← visitChoiceL [] r.body
  finishRule (nsInsert ns { name := r.name, attrs := [], peg := mkMatch }) r.name r.params.isSome b

def visitRules (ns : List Cls) : List Rule → M (List Cls)
  | [] => pure ns
  | r :: rs => do
      let r1 ← visitRule ns r
      visitRules r1.1 rs

/-- `referenced_languages[alias] = name` (latest first) -/
def visitStms (refs : List (String × String)) : List Stm → M (List (String × String))
  | [] => pure refs
  | .imp :: _ => throw (.py .assertionError)        -- `_new_import`: assert self.root_path is not None
  | .reference lang alias :: rest => visitStms ((alias.getD lang, lang) :: refs) rest

/-- what the first pass leaves behind -/
structure St where
  ns : List Cls
  refs : List (String × String)
  top : Peg

def firstPass (g : Grammar) : M St := do
  let refs ← visitStms [] g.stms
  let r1 ← visitRule [] g.first
  let ns ← visitRules r1.1 g.rest
  pure { ns := ns, refs := refs, top := r1.2 }       -- visit_textx_model: children[0]

/-! ## second pass -/

/-- registered languages: name given in `reference` → class names of its meta-model -/
structure Env where
  langs : String → Option (List String)

inductive ClsRef
  | loc (c : Cls)
  | base (name : String)
  | foreign (name : String)

/-- `TextXMetaModel.__getitem__` -/
def getitem (env : Env) (st : St) (name : String) : M ClsRef :=
  match rsplitDot name with
  | some (nsp, n) =>
      match st.refs.find? (·.1 == nsp) with
      | some (_, lang) =>
          match env.langs lang with
          | none => throw .registration              -- metamodel_for_language
          | some classes => if classes.contains n then pure (.foreign n) else throw (.py .keyError)
      | none =>
          -- self.namespaces[namespace][name]
          if nsp == "__base__" && baseNames.contains n then pure (.base n) else throw (.py .keyError)
  | none =>
      match st.ns.find? (·.name == name) with
      | some c => pure (.loc c)
      | none => if baseNames.contains name then pure (.base name) else throw (.py .keyError)

/-- `TextXMetaModel.__contains__`: only `KeyError` means "no" -/
def contains (env : Env) (st : St) (name : String) : M Bool :=
  match getitem env st name with
  | .ok _ => pure true
  | .error (.py .keyError) => pure false
  | .error e => throw e

/-- `_resolve_rule` applied to a `RuleCrossRef` named `name`: look the rule up,
follow rules whose body is a single reference (`chain`: the references being
followed, by owning rule), report a cycle (fix).  The fuel stands for the Python
stack. -/
def resolveCross (env : Env) (st : St) : Nat → List String → String → M Unit
  | 0, _, _ => throw (.py .recursionError)
  | f + 1, chain, name => do
      let found ← contains env st name
      if !found then throw .semantic                 -- Unexisting rule
      else do
        let cr ← getitem env st name
        match cr with
        | .loc c =>
            match c.peg with
            | .cross n2 _ =>
                if chain.contains c.name then throw .semantic   -- circular rule reference
                else resolveCross env st f (c.name :: chain) n2
            | .node .. => pure ()
        | _ => pure ()

mutual
/-- `_resolve_rule` on a parser expression: every reference below it -/
def resolvePeg (env : Env) (st : St) : Peg → M Unit
  | .cross n _ => resolveCross env st (st.ns.length + 1) [] n
  | .node _ _ _ _ ns => resolvePegL env st ns
def resolvePegL (env : Env) (st : St) : List Peg → M Unit
  | [] => pure ()
  | p :: ps => do resolvePeg env st p; resolvePegL env st ps
end

def stage2 (env : Env) (st : St) : M Unit := do
  resolvePeg env st st.top
  st.ns.forM fun c => resolvePeg env st c.peg

/-- `r._tx_class` of a node met by `_has_nonmatch_ref`: rule references stand
for root rules of classes (they have `_tx_class`); any other parser expression has
the attribute only if `visit_textx_rule` put it there — never for the nodes
inside a body. -/
def txClassOf : Peg → M Unit
  | .cross _ _ => pure ()
  | .node .. => throw (.py .attributeError)

mutual
/-- the attribute reads of `_has_nonmatch_ref` (all nodes; the Python code
stops at the first non-match reference) -/
def nonmatchWalk : Peg → M Unit
  | .cross _ _ => pure ()                            -- root rule (or its suppress wrapper): `_tx_class`
  | .node k rn root attr ns =>
      if root then txClassOf (.node k rn root attr ns) else nonmatchWalkL ns
def nonmatchWalkL : List Peg → M Unit
  | [] => pure ()
  | p :: ps => do nonmatchWalk p; nonmatchWalkL ps
end

/-- `_determine_rule_type(cls)` for the classes of the namespace -/
def stage3 (st : St) : M Unit :=
  st.ns.forM fun c =>
    if c.attrs.length > 0 then pure ()
    else
      match c.peg with
      | .cross _ _ => pure ()                        -- resolved rule of another class: rule._tx_class
      | .node _ _ _ _ ns => nonmatchWalkL ns

/-- `_resolve_cls` on one attribute: `metamodel[cls.cls_name]`, `except KeyError` -/
def resolveAttr (env : Env) (st : St) (a : Attr) : M Unit :=
  match getitem env st a.clsName with
  | .ok _ => pure ()
  | .error (.py .keyError) => throw .semantic        -- Unknown class/rule
  | .error e => throw e

def stage4 (env : Env) (st : St) : M Unit :=
  st.ns.forM fun c => c.attrs.forM (resolveAttr env st)

/-- `visit_textx_model` (last step of the first pass) and, since fix f957bf6, again
`second_textx_model` after the rule references are resolved:
`if "Comment" in metamodel: comments_model = metamodel["Comment"]._tx_peg_rule`
(every class has `_tx_peg_rule`: `_init_class`).  The result says whether there is a
comments model. -/
def commentsModel (env : Env) (st : St) : M Bool := do
  let found ← contains env st "Comment"
  if found then do
    let _ ← getitem env st "Comment"
    pure true
  else pure false

/-- `second_textx_model`: `if model_parser.comments_model is not None and "Comment" in
model_parser.metamodel: model_parser.comments_model = …["Comment"]._tx_peg_rule` -/
def refreshComments (env : Env) (st : St) (hasComments : Bool) : M Unit :=
  if hasComments then do
    let _ ← commentsModel env st
    pure ()
  else pure ()

def secondPass (env : Env) (st : St) (hasComments : Bool) : M Unit := do
  stage2 env st
  refreshComments env st hasComments
  stage3 st
  stage4 env st

/-- `metamodel_from_str` on a grammar text that parses to `g` -/
def compile (env : Env) (g : Grammar) : M Unit := do
  let st ← firstPass g
  let hc ← commentsModel env st                      -- visit_textx_model
  secondPass env st hc

/-- `language_from_str` on a text the grammar parser rejects: `NoMatch` is
wrapped into `TextXSyntaxError` -/
def parseFailed : M Unit := throw .syntax

/-! ## every error the second pass can raise (any order of the traversal) -/

def errOf (m : M Unit) : List Exc :=
  match m with
  | .ok _ => []
  | .error e => [e]

mutual
def crossErrs (env : Env) (st : St) : Peg → List Exc
  | .cross n _ => errOf (resolveCross env st (st.ns.length + 1) [] n)
  | .node _ _ _ _ ns => crossErrsL env st ns
def crossErrsL (env : Env) (st : St) : List Peg → List Exc
  | [] => []
  | p :: ps => crossErrs env st p ++ crossErrsL env st ps
end

/-- errors of `_resolve_rule_refs`, one per failing reference -/
def candidates2 (env : Env) (st : St) : List Exc :=
  crossErrs env st st.top ++ st.ns.flatMap fun c => crossErrs env st c.peg

/-- errors of `_resolve_cls_refs`, one per failing attribute type -/
def candidates4 (env : Env) (st : St) : List Exc :=
  st.ns.flatMap fun c => c.attrs.flatMap fun a => errOf (resolveAttr env st a)

/-- the errors of one traversal, or (none) what follows -/
def errsOr (es : List Exc) (k : List (M Unit)) : List (M Unit) :=
  match es with
  | [] => k
  | e :: es' => (e :: es').map .error

/-- the possible outcomes of the second pass -/
def outcomes2 (env : Env) (st : St) (hasComments : Bool) : List (M Unit) :=
  errsOr (candidates2 env st)
    (match refreshComments env st hasComments with
     | .error e => [.error e]
     | .ok _ =>
        match stage3 st with
        | .error e => [.error e]
        | .ok _ => errsOr (candidates4 env st) [.ok ()])

/-- the outcomes `metamodel_from_str` can have on `g` when the order in which the
second pass meets the references is left open -/
def outcomes (env : Env) (g : Grammar) : List (M Unit) :=
  match firstPass g with
  | .error e => [.error e]
  | .ok st =>
      match commentsModel env st with
      | .error e => [.error e]
      | .ok hc => outcomes2 env st hc

/-! ## where the two error classes the property statement does not name come from

Independent, syntactic conditions on the parse tree (no visitor function is used):
Props/C23.lean shows that `TextXError` needs `hasBadParam`, `TextXRegistrationError`
needs `hasUnregistered`. -/

/-- a rule parameter, as written in the grammar text, that lacks the string value it
needs: `ws`, `nows`, `split`, `nosplit` without a value, or `split=''` -/
def badParamValue : String × Option String → Bool
  | (n, none) => n == "ws" || n == "nows" || n == "split" || n == "nosplit"
  | (n, some v) => n == "split" && v.length == 0

def Rule.hasBadParam (r : Rule) : Bool :=
  match r.params with
  | none => false
  | some ps => ps.any badParamValue

def Grammar.hasBadParam (g : Grammar) : Bool := (g.first :: g.rest).any Rule.hasBadParam

/-- a `reference` statement names a language that is not registered -/
def Grammar.hasUnregistered (env : Env) (g : Grammar) : Bool :=
  g.stms.any fun s =>
    match s with
    | .reference lang _ => (env.langs lang).isNone
    | .imp => false

def Grammar.hasReference (g : Grammar) : Bool :=
  g.stms.any fun s =>
    match s with
    | .reference _ _ => true
    | .imp => false

end GramLoad
