import TextxVerif.Export
/-!
# The argument handling of `model_export_to_file` (C29)

`textx/export.py`, the statements before and after the nested functions:

```python
    if model is None and not repo:     raise Exception(...)   # fix: was `not model`
    if model is not None and repo:     raise Exception(...)   # fix: was `model`
    ...
    if repo or hasattr(model, "_tx_model_repository"):
        if not repo:
            repo = model._tx_model_repository.all_models
            if not repo:
                _export(model)
        for m in repo:
            _export_subgraph(m)
            _export(m)
        _export(model)          # fix: the model need not be a member of its repository
    else:
        _export(model)
```

Which models are exported depends on three things the caller controls: the `model` argument,
the `repo` argument (any iterable of models — a list, a `ModelRepository`) and the repository
the model carries (`model._tx_model_repository.all_models`: empty for a model without imports,
shared with every other model for a metamodel with a global repository).  `planArgs` computes
the `Root` list handed to `exportRoots` from exactly these three inputs.
-/
namespace Dot

/-- a model as the top level sees it: `str(m._tx_filename)`, the ids of
`get_children(lambda _: True, m)`, `id(m)` -/
structure MRef where
  fname : Str
  kids : List Nat
  id : Nat
  deriving DecidableEq, Repr

/-- `model` (`none` = `None`; the truth value of the model object plays no role after the
second `fix:` commit), `repo` (`none` = `None`, otherwise the models the iterable
yields) and `model._tx_model_repository.all_models` (`none`: the model has no such attribute) -/
structure Args where
  model : Option Nat
  repo : Option (List MRef)
  own : Option (List MRef)
  deriving DecidableEq, Repr

/-- Python truthiness of `repo`: `None` and empty containers (`ModelRepository` defines
`__len__`) are false -/
def repoTruthy : Option (List MRef) → Bool
  | some (_ :: _) => true
  | _ => false

def MRef.root (m : MRef) : Root := .sub m.fname m.kids m.id

/-- `_export(model)`; nothing for `None` -/
def plainOf : Option Nat → List Root
  | some i => [.plain i]
  | none => []

/-- `hasattr(model, "_tx_model_repository")` (`hasattr(None, …)` is false) -/
def Args.hasOwn (a : Args) : Bool := a.model.isSome && a.own.isSome

/-- the part of the control flow that both revisions share: `some (first, repo)` when the
`if repo or hasattr(…)` branch is taken -/
def repoBranch (a : Args) : Option (List Root × List MRef) :=
  if repoTruthy a.repo || a.hasOwn then
    if !repoTruthy a.repo then
      let own := a.own.getD []
      some (if own.isEmpty then plainOf a.model else [], own)
    else some ([], a.repo.getD [])
  else none

/-- the argument checks: `none` = an exception is raised before anything is written -/
def argsOk (a : Args) : Bool :=
  !(!a.model.isSome && !repoTruthy a.repo) && !(a.model.isSome && repoTruthy a.repo)

/-- the roots exported by `model_export_to_file(f, model, repo)`, in order; `none` = raises -/
def planArgs (a : Args) : Option (List Root) :=
  if !argsOk a then none
  else
    match repoBranch a with
    | some (first, repo) => some (first ++ repo.map MRef.root ++ plainOf a.model)
    | none => some (plainOf a.model)

/-- the same before the `fix:` commit (no `_export(model)` after the loop) — only used for the
negative witness -/
def planArgsPinned (a : Args) : Option (List Root) :=
  if !argsOk a then none
  else
    match repoBranch a with
    | some (first, repo) => some (first ++ repo.map MRef.root)
    | none => some (plainOf a.model)

/-- the text written by the call (`none`: exception, or the object graph is not closed) -/
def exportCall (h : Heap) (a : Args) : Option Str := (planArgs a).bind (exportModel h)

/-- the models the caller asked for: `model`, and every model of a (non-empty) `repo` -/
def requested (a : Args) : List Nat :=
  a.model.toList ++ (if repoTruthy a.repo then (a.repo.getD []).map (·.id) else [])

end Dot
