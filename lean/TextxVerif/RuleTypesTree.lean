import TextxVerif.RuleTypes
/-!
# Parse-tree children against the grammar alternative that produced them (C03)

`process_node` sees, for the node of a root rule, the *flattened* list of what the
rule's body matched (Arpeggio: a non-root sequence / ordered choice returns a
plain list, the root expression flattens it and wraps it into one `NonTerminal`).
For the documented fragment (sequences and ordered choices of matches and rule
references) this file says which child lists a body can produce:

* `Derives k b kids` — the specification (an inductive relation): a match gives
  one terminal, a rule reference gives the node of that rule (or a terminal when
  the referenced rule is itself a single match, hence a match rule), a sequence
  appends, an ordered choice takes one alternative;
* `matchB` / `derivesB` — an executable recogniser (all remainders after a
  derivable prefix), proved equivalent to `Derives` in `Proofs/RuleTypesTree.lean`;
* `WfTree g k t` — every node of an abstract rule in `t` has children derived from
  that rule's body; `treeOK` is its executable form (run by the driver on every
  Arpeggio parse tree of the correspondence check).

Core Lean only.
-/
namespace RuleTypes

/-- the rule whose node a child is -/
def PT.head : PT → Option Nat
  | .nt r _ => some r
  | _ => none

/-- rules of the children that are nodes of common / abstract rules, in order -/
def nmHeads (k : Kinds) (kids : List PT) : List Nat := (kids.filter (PT.isNM k)).filterMap PT.head

/-- spec: `kids` is a list of children that body `b` can leave in the node of its rule -/
inductive Derives (k : Kinds) : Body → List PT → Prop
  | lit {raw val : String} : Derives k .lit [.term raw val]
  | refNode {r : Nat} {ks : List PT} : Derives k (.ref r) [.nt r ks]
  | refTerm {r : Nat} {raw val : String} : k r = .mtch → Derives k (.ref r) [.term raw val]
  | seqNil : Derives k (.seq []) []
  | seqCons {x : Body} {xs : List Body} {ks ks' : List PT} :
      Derives k x ks → Derives k (.seq xs) ks' → Derives k (.seq (x :: xs)) (ks ++ ks')
  | choice {x : Body} {xs : List Body} {ks : List PT} : x ∈ xs → Derives k x ks → Derives k (.choice xs) ks

mutual
/-- the remainders of `kids` after every prefix that `b` derives -/
def matchB (k : Kinds) : Body → List PT → List (List PT)
  | .lit, kids =>
      match kids with
      | .term _ _ :: rest => [rest]
      | _ => []
  | .ref r, kids =>
      match kids with
      | .nt r' _ :: rest => if r' = r then [rest] else []
      | .term _ _ :: rest => if k r = .mtch then [rest] else []
      | _ => []
  | .seq xs, kids => matchSeq k xs kids
  | .choice xs, kids => matchChoice k xs kids
  | .other _, _ => []
/-- a sequence: the head, then the rest from each of the head's remainders -/
def matchSeq (k : Kinds) : List Body → List PT → List (List PT)
  | [], kids => [kids]
  | x :: xs, kids => (matchB k x kids).flatMap fun rest => matchSeq k xs rest
def matchChoice (k : Kinds) : List Body → List PT → List (List PT)
  | [], _ => []
  | x :: xs, kids => matchB k x kids ++ matchChoice k xs kids
end

/-- executable `Derives` -/
def derivesB (k : Kinds) (b : Body) (kids : List PT) : Bool := (matchB k b kids).any List.isEmpty

mutual
/-- spec: every node of an abstract rule has children derived from the rule's body -/
def WfTree (g : Gram) (k : Kinds) : PT → Prop
  | .term _ _ => True
  | .asgn _ ks => WfTreeL g k ks
  | .nt r ks => (k r = .abstr → ∃ rule, g[r]? = some rule ∧ Derives k rule.body ks) ∧ WfTreeL g k ks
def WfTreeL (g : Gram) (k : Kinds) : List PT → Prop
  | [] => True
  | x :: xs => WfTree g k x ∧ WfTreeL g k xs
end

mutual
/-- executable `WfTree` -/
def treeOK (g : Gram) (k : Kinds) : PT → Bool
  | .term _ _ => true
  | .asgn _ ks => treeOKL g k ks
  | .nt r ks =>
      (if k r = .abstr then
        match g[r]? with
        | some rule => derivesB k rule.body ks
        | none => false
       else true) && treeOKL g k ks
def treeOKL (g : Gram) (k : Kinds) : List PT → Bool
  | [] => true
  | x :: xs => treeOK g k x && treeOKL g k xs
end

/-- spec of the rule-kind dispatch, clause by clause as the property states it ("first" is
spelled out as a split of the children, not computed): what the node `t` yields.
The attributes of an object are those `procAttrs` collects (object construction is not this
property's subject); an assignment node on its own yields nothing (it is consumed by the object). -/
inductive Yields (k : Kinds) : PT → Val → Prop
  /-- a simple match yields its (converted) plain value -/
  | term {raw val : String} : Yields k (.term raw val) (.prim val)
  | asgn {a : String} {ks : List PT} : Yields k (.asgn a ks) (.prim "")
  /-- a match rule yields a plain value: the converted values of what it matched, joined -/
  | mtch {r : Nat} {kids : List PT} : k r = .mtch → Yields k (.nt r kids) (.prim (flatL kids))
  /-- a common rule yields an object of its own class -/
  | common {r : Nat} {kids : List PT} : k r = .common → Yields k (.nt r kids) (.obj r (procAttrs k kids))
  /-- an abstract rule whose alternative matched a single thing yields what that yields -/
  | single {r : Nat} {x : PT} {v : Val} : k r = .abstr → Yields k x v → Yields k (.nt r [x]) v
  /-- an abstract rule yields what its first non-match reference yields (`pre`: match rules and
  simple matches in front of it) -/
  | firstNM {r : Nat} {pre post : List PT} {x : PT} {v : Val} : k r = .abstr →
      (pre ++ x :: post).length ≠ 1 → (∀ y ∈ pre, PT.isNM k y = false) → PT.isNM k x = true →
      Yields k x v → Yields k (.nt r (pre ++ x :: post)) v
  /-- only match rules, one of them with a node of its own: what the first such node yields
  (known finding C03-KF1: the text of that rule alone) -/
  | onlyMatchNT {r : Nat} {pre post : List PT} {x : PT} {v : Val} : k r = .abstr →
      (pre ++ x :: post).length ≠ 1 → (∀ y ∈ pre ++ x :: post, PT.isNM k y = false) →
      (∀ y ∈ pre, y.isNT = false) → x.isNT = true → Yields k x v → Yields k (.nt r (pre ++ x :: post)) v
  /-- only simple matches: the concatenated matched text -/
  | text {r : Nat} {kids : List PT} : k r = .abstr → kids.length ≠ 1 → (∀ y ∈ kids, y.isNT = false) →
      Yields k (.nt r kids) (.prim (rawL kids))

end RuleTypes
