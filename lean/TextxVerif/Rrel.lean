/-!
# RREL evaluation (textx/scoping/rrel.py, after the three `fix:` commits of branch fix/C11)

Python                                        | here
----------------------------------------------|---------------------------------------------
model objects, `parent`, `getattr`, `name`    | `Heap` (objects are numbers)
`textx_isinstance(o, metamodel[T])`           | `Heap.conf o T`
attribute with an unresolved reference        | `Heap.attr o a = none`  (→ `Postponed`)
`RRELNavigation / RRELParent / RRELDots`      | `E.atom i a`  (`i` = identity of the node)
`RRELSequence`, `RRELBrackets`                | `E.grp i e`   (guard on the node, then the body)
  … its `paths`                               | `E.alt p₁ (E.alt p₂ …)`
`RRELPath [e₁,…,eₙ]`                          | `E.cat e₁ (E.cat e₂ …)`
`RRELZeroOrMore(brackets(seq))`               | `E.star i seq'`  (`i` = identity of the `*` node)
`get_next_matches` generator pipeline         | `eval` in continuation-passing style: the
                                              | continuation is "the consumer's loop body",
                                              | the visited set is threaded through it, so the
                                              | interleaving of the lazy generators is kept
`allowed` / `visited[len(lookup_list)]`       | `guard`, `Vis` (keys `(object, node, remaining length)`)
`find_object_with_path` top-level loop        | `findPaths` / `find`
`find(..., use_proxy=True)`                   | `proxyPath`

`prevent_doubles` of `RRELZeroOrMore` is not modelled: a value it drops was
yielded before by the same `*` evaluation to the same consumer, and every
consumer starts with the guard on the same key or is the final success test, so
dropping it is unobservable (the correspondence runs confirm this).

Recursion is on a fuel argument that decreases at every call; `Res.fuel`
reports exhaustion (never a default).  Core Lean only.
-/
namespace Rrel

abbrev Obj := Nat

/-- the part of a model (plus metamodel) RREL evaluation looks at -/
structure Heap where
  /-- `obj.parent` (`none`: `not hasattr(obj, "parent")`, a model root) -/
  parent : Obj → Option Obj
  /-- `getattr(obj, a)` as a list: a missing attribute, `None` and `[]` are `some []`,
  a single object is `some [x]`; `none` = the attribute holds a reference that is
  not resolved yet (`needs_to_be_resolved`) -/
  attr : Obj → String → Option (List Obj)
  /-- `obj.name` if `hasattr(obj, "name")` -/
  name : Obj → Option String
  /-- `textx_isinstance(obj, metamodel[T])` -/
  conf : Obj → String → Bool
  /-- `+m:` — the other models searched from a model root (local, then builtin models);
  `[]` without `+m:` -/
  extra : List Obj
  /-- bound on the length of parent chains (the number of objects will do) -/
  depth : Nat

/-- the strict ancestors of `o`, nearest first (`while hasattr(obj, "parent"): obj = obj.parent`) -/
def ancF (H : Heap) : Nat → Obj → List Obj
  | 0, _ => []
  | n+1, o => match H.parent o with
    | none => []
    | some p => p :: ancF H n p

def anc (H : Heap) (o : Obj) : List Obj := ancF H H.depth o

/-- `get_model(obj)` -/
def root (H : Heap) (o : Obj) : Obj := (anc H o).getLast?.getD o

/-- evaluation state: current object, name parts not consumed yet, named objects so far -/
structure St where
  o : Obj
  ns : List String
  path : List Obj
deriving DecidableEq, Repr

inductive Mode
  | consume                 -- `attr`
  | tilde                   -- `~attr`
  | fixed (n : String)      -- `'n'~attr`
deriving DecidableEq, Repr

inductive Atom
  | nav (attr : String) (m : Mode)
  | parent (T : String)
  | dots (n : Nat)
deriving DecidableEq, Repr

/-- RREL expression trees (see the table above) -/
inductive E
  | atom (i : Nat) (a : Atom)
  | grp (i : Nat) (e : E)
  | alt (a b : E)
  | cat (a b : E)
  | star (i : Nat) (e : E)
deriving DecidableEq, Repr

/-- `start_locally()` -/
def E.startLocal : E → Bool
  | .atom _ (.nav _ _) => false
  | .atom _ _ => true
  | .grp _ e => e.startLocal
  | .alt a b => a.startLocal || b.startLocal
  | .cat a _ => a.startLocal
  | .star _ e => e.startLocal

/-- `start_at_root()` -/
def E.startRoot : E → Bool
  | .atom _ (.nav _ _) => true
  | .atom _ _ => false
  | .grp _ e => e.startRoot
  | .alt a b => a.startRoot || b.startRoot
  | .cat a _ => a.startRoot
  | .star _ e => e.startRoot

/-! ## one navigation step -/

/-- the elements of an attribute value a step may move to -/
def cands (H : Heap) (m : Mode) (ns : List String) (l : List Obj) : List Obj :=
  match m with
  | .tilde => l
  | .fixed f => l.filter (fun x => H.name x == some f)
  | .consume => match ns with
    | [] => []
    | n :: _ => l.filter (fun x => H.name x == some n)

/-- `for start_obj in start: res = lookup(start_obj); if res: return res` -/
def navLookup (H : Heap) (a : String) (m : Mode) (ns : List String) : List Obj → Option (List Obj)
  | [] => some []
  | s :: rest => match H.attr s a with
    | none => none
    | some l =>
      let c := cands H m ns l
      if c.isEmpty then navLookup H a m ns rest else some c

/-- the start list of `RRELNavigation.apply` -/
def starts (H : Heap) (src : Obj) : List Obj :=
  if (H.parent src).isNone then src :: H.extra else [src]

/-- result of one atom from `(o, ns)`: `none` = Postponed, otherwise the yielded
`(object, remaining names, is-a-name-step)` in order -/
def atomRes (H : Heap) (a : Atom) (first : Bool) (o : Obj) (ns : List String) :
    Option (List (Obj × List String × Bool)) :=
  match a with
  | .nav attr m =>
    let src := if first then root H o else o
    if m = .consume ∧ ns = [] then some []
    else match navLookup H attr m ns (starts H src) with
      | none => none
      | some l => some (l.map fun x =>
          match m with
          | .tilde => (x, ns, false)
          | .fixed _ => (x, ns, true)
          | .consume => (x, ns.tail, true))
  | .parent T => match (anc H o).find? (fun p => H.conf p T) with
    | none => some []
    | some p => some [(p, ns, false)]
  | .dots n =>
    if n ≤ 1 then some [(o, ns, false)]
    else match (anc H o)[n - 2]? with
      | none => some []
      | some p => some [(p, ns, false)]

/-- a yielded triple as the next state (`matched_path + [obj]` for name steps) -/
def St.next (s : St) (r : Obj × List String × Bool) : St :=
  ⟨r.1, r.2.1, if r.2.2 then s.path ++ [r.1] else s.path⟩

def applyAtom (H : Heap) (a : Atom) (first : Bool) (s : St) : Option (List St) :=
  (atomRes H a first s.o s.ns).map (·.map s.next)

/-! ## the search -/

/-- visited-set key: (object, node identity, number of remaining name parts) -/
abbrev Key := Obj × Nat × Nat
abbrev Vis := List Key

inductive Res
  | found (s : St)
  | postponed
  | fuel
  | cont (V : Vis)      -- nothing found (so far); the visited set to go on with
deriving DecidableEq, Repr

def key (s : St) (i : Nat) : Key := (s.o, i, s.ns.length)

/-- `if not first_element and not allowed(obj, lookup_list, self): return` —
`none`: blocked; `some V'`: go on with `V'` -/
def guard (first : Bool) (s : St) (i : Nat) (V : Vis) : Option Vis :=
  if first then some V
  else if key s i ∈ V then none else some (key s i :: V)

/-- hand the yielded values to the consumer one after the other -/
def feed (k : St → Vis → Res) : List St → Vis → Res
  | [], V => .cont V
  | x :: xs, V => match k x V with
    | .cont V' => feed k xs V'
    | r => r

/-- what `*` yields before any repetition (`get_from_zero_or_more`, first lines) -/
def zeros (H : Heap) (e : E) (first : Bool) (s : St) : List St :=
  if first then
    (if e.startLocal then [s] else []) ++ (if e.startRoot then [{ s with o := root H s.o }] else [])
  else [s]

/-- `get_next_matches` of every node class -/
def eval (H : Heap) : Nat → E → Bool → St → Vis → (St → Vis → Res) → Res
  | 0, _, _, _, _, _ => .fuel
  | _+1, .atom i a, f, s, V, k =>
    match guard f s i V with
    | none => .cont V
    | some V1 => match applyAtom H a f s with
      | none => .postponed
      | some l => feed k l V1
  | n+1, .grp i e, f, s, V, k =>
    match guard f s i V with
    | none => .cont V
    | some V1 => eval H n e f s V1 k
  | n+1, .alt a b, f, s, V, k =>
    match eval H n a f s V k with
    | .cont V1 => eval H n b f s V1 k
    | r => r
  | n+1, .cat a b, f, s, V, k =>
    eval H n a f s V (fun m V1 => eval H n b false m V1 k)
  | n+1, .star i e, f, s, V, k =>
    match guard f s i V with
    | none => .cont V
    | some V1 => match feed k (zeros H e f s) V1 with
      | .cont V2 => eval H n e f s V2 (fun m V3 => eval H n (.star i e) false m V3 k)
      | r => r

/-- `obj_cls is None or textx_isinstance(obj_res, obj_cls)` -/
def confOpt (H : Heap) (o : Obj) : Option String → Bool
  | none => true
  | some T => H.conf o T

/-- the success test of `find_object_with_path` -/
def isMatch (H : Heap) (cls : Option String) (s : St) : Bool :=
  s.ns.isEmpty && confOpt H s.o cls

/-- the body of the top-level loop: first complete match wins -/
def kTop (H : Heap) (cls : Option String) : St → Vis → Res :=
  fun s V => if isMatch H cls s then .found s else .cont V

/-- `for p in rrel_tree.paths: for … in p.get_next_matches(obj, lookup_list, allowed, [], first_element=True)` -/
def findPaths (H : Heap) (n : Nat) (cls : Option String) (s0 : St) : List E → Vis → Res
  | [], V => .cont V
  | p :: ps, V => match eval H n p true s0 V (kTop H cls) with
    | .cont V1 => findPaths H n cls s0 ps V1
    | r => r

/-- `find_object_with_path(obj, lookup_list, rrel_tree, obj_cls)`; `.cont _` is Python's `None` -/
def find (H : Heap) (n : Nat) (paths : List E) (o : Obj) (ns : List String) (cls : Option String) : Res :=
  findPaths H n cls ⟨o, ns, []⟩ paths []

/-- `_tx_path` of the `ReferenceProxy` built by `find(…, use_proxy=True)` -/
def proxyPath (s : St) : List Obj :=
  if s.path.getLast? = some s.o then s.path else s.path ++ [s.o]

/-- `lookup_list.split(split_string)` followed by dropping empty parts -/
def splitName (text sep : String) : List String :=
  (text.splitOn sep).filter (· ≠ "")

end Rrel
