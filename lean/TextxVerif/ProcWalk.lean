/-!
# Proc.Walk — the object-processor walk of `textx/model.py` (C13)

Mirror of `call_obj_processors` (model.py:789-880, after the repair recorded in
`notes/C13.md`) and of the tail of `parse_tree_to_objgraph` that runs it
(model.py:971-987).

* A model object is `Val.obj id cls fields`; `fields` is the sequence of
  `(metaattr, getattr(model_obj, metaattr.name))` pairs in the order of
  `metamodel[model_obj._tx_fqn]._tx_attrs.values()` — exactly what the `for
  metaattr in …` loop of the walk looks at.  Everything that is not a textX
  object is `prim` (primitive attribute values, references — the walk never
  follows them —, replacement values), `none` is Python's `None`, `list` a
  Python list.
* Python mutates objects in place and returns the replacement; the model returns
  the updated object (`Res.val`) and the replacement (`Res.ret`).
* Processors are *recording* processors: `Script` says what the processor
  registered for a rule returns when called on an object (nothing, a fresh value,
  the object itself, or one of the object's attribute values — "expression
  reduction").  Every call is logged with the state of the object at call time.

Core Lean only.
-/
namespace Proc

inductive Kind | common | abstr | mtch
deriving DecidableEq, Repr

/-- `MetaAttr`: name, `cont`, `mult in (1..*, 0..*)`, `cls` (index of the declared class) -/
structure Attr where
  name : Nat
  cont : Bool
  many : Bool
  cls : Nat
deriving DecidableEq, Repr

mutual
inductive Val
  | none
  | prim (tag : Nat)
  | obj (id : Nat) (cls : Nat) (fs : Fields)
  | list (xs : Vals)
inductive Fields
  | nil
  | cons (a : Attr) (v : Val) (rest : Fields)
inductive Vals
  | nil
  | cons (v : Val) (rest : Vals)
end

/-- what a registered recording processor returns -/
inductive Ret
  | none
  | val (tag : Nat)
  | self
  | field (name : Nat)
deriving DecidableEq, Repr

/-- the part of the metamodel the walk consults: `_tx_type` of a class and
`has_obj_processor(class name)` -/
structure MM where
  kind : Nat → Kind
  hasProc : Nat → Bool

/-- rule ↦ object id ↦ return value of the processor registered for the rule -/
abbrev Script := Nat → Nat → Ret

/-- one processor call: rule it is registered for, object, object state at call time -/
structure Entry where
  rule : Nat
  id : Nat
  snap : Val

structure Res where
  log : List Entry
  ret : Option Val
  val : Val

/-- `getattr(obj, name)` on the field sequence (`None` when absent) -/
def Fields.get : Fields → Nat → Val
  | .nil, _ => .none
  | .cons a v rest, n => if a.name = n then v else rest.get n

def Val.fields : Val → Fields
  | .obj _ _ fs => fs
  | _ => .nil

/-- Python value returned by the processor, given the object it was called on -/
def retOf (r : Ret) (self : Val) : Option Val :=
  match r with
  | .none => Option.none
  | .val t => some (.prim t)
  | .self => some self
  | .field n =>
    match self.fields.get n with
    | .none => Option.none
    | x => some x

/-- `return_value_current if … is not None else return_value_grammar` -/
def pick (a b : Option Val) : Option Val :=
  match a with
  | some x => some x
  | Option.none => b

/-- `result if result is not None else <the object, updated in place>` -/
def slotVal (r : Res) : Val :=
  match r.ret with
  | some x => x
  | Option.none => r.val

/-- body of `call_obj_processors` for a model object once its attribute loop is
done (`r` = log and updated fields of the loop).  Non-recursive. -/
def objStep (M : MM) (S : Script) (id cls : Nat) (fs : Fields) (gm : Nat) (r : List Entry × Fields) : Res :=
  -- `if metaclass_of_grammar_rule._tx_type is RULE_MATCH: return`
  if M.kind gm = .mtch then ⟨[], Option.none, .obj id cls fs⟩
  else
    -- `current._tx_fqn != grammar._tx_fqn and has_obj_processor(current.__name__)`
    ⟨r.1 ++ ((if decide (cls ≠ gm) && M.hasProc cls then [⟨cls, id, .obj id cls r.2⟩] else []) ++
            -- `if metamodel.has_obj_processor(metaclass_of_grammar_rule.__name__)`
            (if M.hasProc gm then [⟨gm, id, .obj id cls r.2⟩] else [])),
     pick (if decide (cls ≠ gm) && M.hasProc cls then retOf (S cls id) (.obj id cls r.2) else Option.none)
          (if M.hasProc gm then retOf (S gm id) (.obj id cls r.2) else Option.none),
     .obj id cls r.2⟩

mutual
/-- the attribute loop `for metaattr in current_metaclass_of_obj._tx_attrs.values()` -/
def walkFields (M : MM) (S : Script) : Fields → List Entry × Fields
  | .nil => ([], .nil)
  | .cons a v rest =>
    ((if a.cont then walkSlot M S a.many a.cls v else ([], v)).1 ++ (walkFields M S rest).1,
     .cons a (if a.cont then walkSlot M S a.many a.cls v else ([], v)).2 (walkFields M S rest).2)
/-- one containment attribute value (`many` = `metaattr.mult in many`), or one list
item (`many = false`): log and the value the slot holds afterwards.
Values that are not textX objects (`None`, match-rule alternatives of an abstract
rule): nothing to do — their match processors ran during construction. -/
def walkSlot (M : MM) (S : Script) (many : Bool) (gm : Nat) : Val → List Entry × Val
  | .obj id cls fs =>
    if many then ([], .obj id cls fs)   -- not a list under a `many` attribute: excluded by `wf`
    else ((objStep M S id cls fs gm (walkFields M S fs)).log, slotVal (objStep M S id cls fs gm (walkFields M S fs)))
  | .list xs =>
    if many then ((walkItems M S gm xs).1, .list (walkItems M S gm xs).2) else ([], .list xs)
  | v => ([], v)
/-- `for idx, obj in enumerate(attr): … attr[idx] = result` -/
def walkItems (M : MM) (S : Script) (gm : Nat) : Vals → List Entry × Vals
  | .nil => ([], .nil)
  | .cons x xs =>
    ((walkSlot M S false gm x).1 ++ (walkItems M S gm xs).1, .cons (walkSlot M S false gm x).2 (walkItems M S gm xs).2)
end

/-- `call_obj_processors(metamodel, model_obj, metaclass_of_grammar_rule)` -/
def walk (M : MM) (S : Script) (v : Val) (gm : Nat) : Res :=
  match v with
  | .obj id cls fs => objStep M S id cls fs gm (walkFields M S fs)
  | v => ⟨[], Option.none, v⟩

/-! ## Specification side: what the property talks about

`occ` lists every object of a value in post-order (attributes in order, the
container after everything it contains), each with the class declared for the
attribute that holds it (`gm`; for the model root its own class).  It follows
the tree only — no metamodel flags, no processors. -/

structure Occ where
  id : Nat
  cls : Nat
  gm : Nat
deriving DecidableEq, Repr

mutual
def occ : Val → Nat → List Occ
  | .obj id cls fs, gm => occFields fs ++ [⟨id, cls, gm⟩]
  | .list xs, gm => occItems xs gm
  | _, _ => []
def occFields : Fields → List Occ
  | .nil => []
  | .cons a v rest => occ v a.cls ++ occFields rest
def occItems : Vals → Nat → List Occ
  | .nil, _ => []
  | .cons x xs, gm => occ x gm ++ occItems xs gm
end

/-- the processor calls one object occurrence is entitled to: the processor of
its own rule when the attribute is declared with another (abstract) rule, then
the processor of the declared rule -/
def calls (M : MM) (o : Occ) : List (Nat × Nat) :=
  (if decide (o.cls ≠ o.gm) && M.hasProc o.cls then [(o.cls, o.id)] else []) ++
  (if M.hasProc o.gm then [(o.gm, o.id)] else [])

def Entry.key (e : Entry) : Nat × Nat := (e.rule, e.id)

/-- Shape of a model as textX builds it (C01–C03 territory, an assumption here,
measured by the driver on every case):
objects sit only in containment attributes; an attribute declared with a common
rule holds objects of exactly that class, one declared with an abstract rule
holds objects of (other) common classes or match-rule values, one declared with a
match rule holds no objects; `many` attributes hold lists (or `None`). -/
def typedOcc (M : MM) (cls gm : Nat) : Bool :=
  decide (M.kind cls = .common) &&
  (match M.kind gm with
   | .common => decide (cls = gm)
   | .abstr => true
   | .mtch => false)

mutual
def wfFields (M : MM) : Fields → Bool
  | .nil => true
  | .cons a v rest => (if a.cont then wfSlot M a.many a.cls v else noObj v) && wfFields M rest
def wfSlot (M : MM) (many : Bool) (gm : Nat) : Val → Bool
  | .obj _ cls fs => !many && typedOcc M cls gm && wfFields M fs
  | .list xs => many && wfItems M xs gm
  | _ => true
def wfItems (M : MM) : Vals → Nat → Bool
  | .nil, _ => true
  | .cons x xs, gm => wfSlot M false gm x && wfItems M xs gm
/-- a value below a non-containment attribute: no objects inside -/
def noObj : Val → Bool
  | .obj _ _ _ => false
  | .list xs => noObjItems xs
  | _ => true
def noObjItems : Vals → Bool
  | .nil => true
  | .cons x xs => noObj x && noObjItems xs
end

/-- a model root (or any single value declared `gm`) is well-formed -/
def wf (M : MM) (v : Val) (gm : Nat) : Bool := wfSlot M false gm v

/-! ### final state, stated without the log -/

/-- the replacement chosen for an object (already in its final state `v'`) stored
in an attribute declared `gm`: the own-rule processor's value wins over the
declared rule's (model.py:867-876) -/
def chosen (M : MM) (S : Script) (v' : Val) (id cls gm : Nat) : Option Val :=
  pick (if decide (cls ≠ gm) && M.hasProc cls then retOf (S cls id) v' else Option.none)
       (if M.hasProc gm then retOf (S gm id) v' else Option.none)

/-- what a containment slot declared `gm` holds after its object `id cls` (fields
already final: `fs'`; originally `fs`) has been processed -/
def slotOf (M : MM) (S : Script) (id cls : Nat) (fs fs' : Fields) (gm : Nat) : Val :=
  if M.kind gm = .mtch then .obj id cls fs
  else
    match chosen M S (.obj id cls fs') id cls gm with
    | some x => x
    | Option.none => .obj id cls fs'

mutual
def finFields (M : MM) (S : Script) : Fields → Fields
  | .nil => .nil
  | .cons a v rest => .cons a (if a.cont then finSlot M S a.many a.cls v else v) (finFields M S rest)
/-- what a containment attribute declared `gm` (a list when `many`) holds afterwards -/
def finSlot (M : MM) (S : Script) (many : Bool) (gm : Nat) : Val → Val
  | .obj id cls fs => if many then .obj id cls fs else slotOf M S id cls fs (finFields M S fs) gm
  | .list xs => if many then .list (finItems M S gm xs) else .list xs
  | v => v
def finItems (M : MM) (S : Script) (gm : Nat) : Vals → Vals
  | .nil => .nil
  | .cons x xs => .cons (finSlot M S false gm x) (finItems M S gm xs)
end

/-- the object itself after the walk (every containment slot below holds `finSlot`) -/
def fin (M : MM) (S : Script) : Val → Val
  | .obj id cls fs => .obj id cls (finFields M S fs)
  | v => v

/-! ### containment between objects of a value (by id) -/

mutual
/-- ids of all objects of a value, post-order (the id column of `occ`) -/
def oids : Val → List Nat
  | .obj id _ fs => oidsFields fs ++ [id]
  | .list xs => oidsItems xs
  | _ => []
def oidsFields : Fields → List Nat
  | .nil => []
  | .cons _ v rest => oids v ++ oidsFields rest
def oidsItems : Vals → List Nat
  | .nil => []
  | .cons x xs => oids x ++ oidsItems xs
end

mutual
/-- `inside v a b`: `v` contains an object with id `a` that (transitively)
contains an object with id `b` -/
def inside : Val → Nat → Nat → Prop
  | .obj id _ fs, a, b => (id = a ∧ b ∈ oidsFields fs) ∨ insideFields fs a b
  | .list xs, a, b => insideItems xs a b
  | _, _, _ => False
def insideFields : Fields → Nat → Nat → Prop
  | .nil, _, _ => False
  | .cons _ v rest, a, b => inside v a b ∨ insideFields rest a b
def insideItems : Vals → Nat → Nat → Prop
  | .nil, _, _ => False
  | .cons x xs, a, b => inside x a b ∨ insideItems xs a b
end

mutual
/-- every object inside a value, as a value (the object itself included) -/
def subObjs : Val → List Val
  | .obj id cls fs => .obj id cls fs :: subObjsFields fs
  | .list xs => subObjsItems xs
  | _ => []
def subObjsFields : Fields → List Val
  | .nil => []
  | .cons _ v rest => subObjs v ++ subObjsFields rest
def subObjsItems : Vals → List Val
  | .nil => []
  | .cons x xs => subObjs x ++ subObjsItems xs
end

/-! ## The tail of a load (model.py:971-987)

After the resolution loop: `for m in models: _end_model_construction(m)` runs the
postponed `__init__` of the user-class objects of each model (in creation order:
an object is appended to `_user_class_inst` after the objects it contains), and
only then `for m in models: call_obj_processors(m._tx_metamodel, m)`. -/

inductive Ev
  | resolve (ref : Nat)
  | init (model : Nat) (id : Nat)
  | proc (model : Nat) (rule : Nat) (id : Nat)
deriving DecidableEq, Repr

def Ev.isProc : Ev → Bool
  | .proc _ _ _ => true
  | _ => false

def Val.cls : Val → Nat
  | .obj _ c _ => c
  | _ => 0

def userInits (isUser : Nat → Bool) (m : Nat) (v : Val) : List Ev :=
  ((occ v v.cls).filter (fun o => isUser o.cls)).map (fun o => Ev.init m o.id)

def procEvents (M : MM) (S : Script) (m : Nat) (v : Val) : List Ev :=
  (walk M S v v.cls).log.map (fun e => Ev.proc m e.rule e.id)

def initsFrom (isUser : Nat → Bool) : Nat → List Val → List Ev
  | _, [] => []
  | k, v :: vs => userInits isUser k v ++ initsFrom isUser (k + 1) vs

def procsFrom (M : MM) (S : Script) : Nat → List Val → List Ev
  | _, [] => []
  | k, v :: vs => procEvents M S k v ++ procsFrom M S (k + 1) vs

/-- events of one load: reference resolutions (given, in the order they happened),
then user-class initialisation of every model, then the object-processor walk of
every model -/
def finish (M : MM) (S : Script) (isUser : Nat → Bool) (resolves : List Nat) (models : List Val) : List Ev :=
  resolves.map Ev.resolve ++ (initsFrom isUser 0 models ++ procsFrom M S 0 models)

/-! ### models of several metamodels in one load

`call_obj_processors(m._tx_metamodel, m)`: every model of the load is walked with
the metamodel it was loaded with — an imported file can belong to another
registered language, whose metamodel has its own processor registrations. -/

def procsFromMM (S : Script) : Nat → List (MM × Val) → List Ev
  | _, [] => []
  | k, mv :: vs => procEvents mv.1 S k mv.2 ++ procsFromMM S (k + 1) vs

def finishMM (S : Script) (isUser : Nat → Bool) (resolves : List Nat) (models : List (MM × Val)) : List Ev :=
  resolves.map Ev.resolve ++ (initsFrom isUser 0 (models.map (·.2)) ++ procsFromMM S 0 models)

end Proc
