import TextxVerif.Obj.Nav
/-!
# Line / column conversion and `get_location` (C06)

`posToLineCol` mirrors Arpeggio's `Parser.pos_to_linecol` (arpeggio/__init__.py 1663-1686):
`line_ends` = the indices of all `'\n'` characters (built with `str.index` in a loop),
`line = bisect_left(line_ends, pos)`, and the column is the distance to the previous line
end.  `getLocation` mirrors `textx.model.get_location` (model.py 197-212).
-/
namespace Obj

/-- indices of the `'\n'` characters of `s`, ascending; `i` = index of the head of `s` -/
def lineEndsFrom (i : Nat) : List Char → List Nat
  | [] => []
  | c :: cs => if c = '\n' then i :: lineEndsFrom (i + 1) cs else lineEndsFrom (i + 1) cs

def lineEnds (s : List Char) : List Nat := lineEndsFrom 0 s

/-- `bisect.bisect_left(xs, p)` written as the loop of CPython's `bisect` module
(`lo, hi = 0, len(a)`; `while lo < hi: mid = (lo + hi) // 2; if a[mid] < x: lo = mid + 1 else: hi = mid`). -/
def bisectLoop (xs : List Nat) (p : Nat) : Nat → Nat → Nat → Nat
  | 0, lo, _ => lo
  | f + 1, lo, hi =>
    if lo < hi then
      let mid := (lo + hi) / 2
      if xs.getD mid 0 < p then bisectLoop xs p f (mid + 1) hi else bisectLoop xs p f lo mid
    else lo

def bisectLeft (xs : List Nat) (p : Nat) : Nat := bisectLoop xs p (xs.length + 1) 0 xs.length

/-- `pos_to_linecol`; columns are Python ints (no truncation is assumed, it is proved) -/
def posToLineCol (s : List Char) (pos : Nat) : Nat × Int :=
  let le := lineEnds s
  let line := bisectLeft le pos
  let col : Int := pos
  let col : Int :=
    if line > 0 then
      let e := le.getD (line - 1) 0
      let col := col - e
      if s.getD e ' ' = '\n' ∨ s.getD e ' ' = '\r' then col - 1 else col
    else col
  (line + 1, col + 1)

structure Loc where
  line : Nat
  col : Int
  nchar : Int
  file : Option Nat
deriving DecidableEq, Repr

/-- `get_location(model_obj)`: the model is found with `get_model`; `input r` / `file r` are the
input string of the parser (`_tx_parser.input`) and `_tx_filename` of the model rooted at `r`. -/
def getLocation (h : Heap) (input : Nat → List Char) (file : Nat → Option Nat) (fuel x : Nat) : Option Loc :=
  match getModel h fuel x, h.get x with
  | some r, some o =>
    let lc := posToLineCol (input r) o.pos
    some { line := lc.1, col := lc.2, nchar := (o.posEnd : Int) - (o.pos : Int), file := file r }
  | _, _ => none

end Obj
