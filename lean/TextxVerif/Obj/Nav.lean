/-!
# Object heaps and the model navigation API (C05)

Mirror of `textx/model.py`: `get_model` (68-75), `get_parent_of_type` (85-103),
`get_children` (106-161), `get_children_of_type` (164-194).

A model is a *heap*: objects are identified by numbers (Python: object identity),
every object carries its class, its `parent` pointer (absent = `none`), its source
span and its attributes in `_tx_attrs` order.  An attribute is described by its
meta attribute (`cont`, multiplicity) and holds one value or a list of values; a
value is `None`, a primitive (only its truthiness is kept) or an object.
Reference attributes (`cont = false`) may point anywhere, also back up the tree.
-/
namespace Obj

inductive Val where
  | none
  | prim (truthy : Bool)
  | obj (id : Nat)
deriving DecidableEq, Repr, Inhabited

def Val.truthy : Val → Bool
  | .none => false
  | .prim t => t
  | .obj _ => true

def Val.objId? : Val → Option Nat
  | .obj i => some i
  | _ => Option.none

structure MetaAttr where
  name : Nat
  many : Bool
  cont : Bool
deriving DecidableEq, Repr, Inhabited

inductive AVal where
  | one (v : Val)
  | many (vs : List Val)
deriving DecidableEq, Repr, Inhabited

def AVal.objIds : AVal → List Nat
  | .one v => v.objId?.toList
  | .many vs => vs.filterMap Val.objId?

structure HObj where
  cls : Nat
  parent : Option Nat
  pos : Nat
  posEnd : Nat
  attrs : List (MetaAttr × AVal)
deriving DecidableEq, Repr, Inhabited

/-- the heap: object `i` is the `i`-th allocated object (`none` = not a textX object) -/
abbrev Heap := List HObj

def Heap.get (h : Heap) (x : Nat) : Option HObj := h[x]?

/-- object ids held by the containment attributes of a list of attributes, in `_tx_attrs`
order and list order: exactly the elements `get_children` recurses into
(`if attr.cont:` … `follow(new_elem)`; values without `_tx_attrs` are inert). -/
def contIdsL : List (MetaAttr × AVal) → List Nat
  | [] => []
  | (m, v) :: rest => (if m.cont then v.objIds else []) ++ contIdsL rest

def HObj.contIds (o : HObj) : List Nat := contIdsL o.attrs

def contIds (h : Heap) (x : Nat) : List Nat :=
  match h.get x with
  | some o => o.contIds
  | Option.none => []

def parentOf (h : Heap) (x : Nat) : Option Nat := (h.get x).bind (·.parent)

def clsOf (h : Heap) (x : Nat) : Option Nat := (h.get x).map (·.cls)

/-- `get_model`: `while hasattr(p, "parent"): p = p.parent` (after the repair: while the
`parent` attribute exists and is not `None`).  `none` = fuel exhausted. -/
def getModel (h : Heap) : Nat → Nat → Option Nat
  | 0, _ => Option.none
  | f + 1, x =>
    match parentOf h x with
    | Option.none => some x
    | some p => getModel h f p

/-- `get_parent_of_type`: first object up the parent chain whose class is `typ`.
outer `none` = fuel exhausted; `some none` = Python's `None`. -/
def getParentOfType (h : Heap) (typ : Nat) : Nat → Nat → Option (Option Nat)
  | 0, _ => Option.none
  | f + 1, x =>
    match parentOf h x with
    | Option.none => some Option.none
    | some p => if clsOf h p = some typ then some (some p) else getParentOfType h typ f p

/-- the inner function `follow` of `get_children`; `acc` is `collected` (and, as the two are
always updated together, `collected_ids` = the members of `acc`). -/
def follow (h : Heap) (sel fol : Nat → Bool) (cf : Bool) : Nat → Nat → List Nat → List Nat
  | 0, _, acc => acc
  | f + 1, x, acc =>
    if acc.contains x then acc
    else
      match h.get x with
      | Option.none => acc
      | some o =>
        let acc1 := if !cf && sel x then acc ++ [x] else acc
        let acc2 := o.contIds.foldl (fun a c => if fol c then follow h sel fol cf f c a else a) acc1
        if cf && sel x then acc2 ++ [x] else acc2

def getChildren (h : Heap) (sel fol : Nat → Bool) (cf : Bool) (fuel root : Nat) : List Nat :=
  follow h sel fol cf fuel root []

/-- `get_children_of_type`: selector = class (name) equality -/
def getChildrenOfType (h : Heap) (typ : Nat) (fol : Nat → Bool) (cf : Bool) (fuel root : Nat) : List Nat :=
  getChildren h (fun x => clsOf h x == some typ) fol cf fuel root

end Obj
