import TextxVerif.Obj.Nav
/-!
# Parse trees, their spans, and `process_node` (C05 parent links, C06 spans)

`PT` is an Arpeggio parse tree as `parse_tree_to_objgraph.process_node` (model.py 569-787)
sees it: a `Terminal` (position, length of its value, whether it was made by the separator
match of the enclosing repeat — `n.rule is sep_rule`, model.py 817-820 —, the truthiness of its
converted value) or a `NonTerminal` of a root rule, classified as the code
classifies it: an assignment (`__asgn_*`, with attribute and operator), or — by the
`_tx_type` of the rule's class — a common rule (creates an object), an abstract rule or a
match rule.

`PT.pos` / `PT.posEnd` mirror `NonTerminal.position` (`nodes[0].position if nodes else 0`,
stored at construction) and `NonTerminal.position_end`
(`self[-1].position_end if self else self.position`); `Terminal.position_end = position + len(value)`.
-/
namespace Obj

inductive Op where
  | optional | plain | many
deriving DecidableEq, Repr, Inhabited

inductive Kind where
  | obj (cls : Nat)
  | abs
  | mat (truthy : Bool)
  | asgn (attr : Nat) (op : Op)
deriving DecidableEq, Repr, Inhabited

inductive PT where
  | term (pos len : Nat) (sep truthy : Bool)
  | nt (k : Kind) (kids : List PT)
deriving Repr, Inhabited

def PT.isTerm : PT → Bool
  | .term .. => true
  | .nt .. => false

def PT.isSep : PT → Bool
  | .term _ _ s _ => s
  | .nt .. => false

/- `nodes[0].position if nodes else 0` (mutual only for structural recursion) -/
mutual
def PT.pos : PT → Nat
  | .term p _ _ _ => p
  | .nt _ ks => posL ks
def posL : List PT → Nat
  | [] => 0
  | k :: _ => k.pos
end

/- `self[-1].position_end if self else self.position` (`d` = `self.position`) -/
mutual
def PT.posEnd : PT → Nat
  | .term p l _ _ => p + l
  | .nt _ ks => endL ks (posL ks)
def endL : List PT → Nat → Nat
  | [], d => d
  | [k], _ => k.posEnd
  | _ :: k :: ks, d => endL (k :: ks) d
end

/- the terminals of a tree, left to right, as (position, length) -/
mutual
def PT.leaves : PT → List (Nat × Nat)
  | .term p l _ _ => [(p, l)]
  | .nt _ ks => leavesL ks
def leavesL : List PT → List (Nat × Nat)
  | [] => []
  | k :: ks => k.leaves ++ leavesL ks
end

/- no `NonTerminal` without children -/
mutual
def PT.full : PT → Bool
  | .term .. => true
  | .nt _ ks => !ks.isEmpty && fullL ks
def fullL : List PT → Bool
  | [] => true
  | k :: ks => k.full && fullL ks
end

def leavesOrdered : List (Nat × Nat) → Bool
  | [] => true
  | [_] => true
  | a :: b :: rest => decide (a.1 + a.2 ≤ b.1) && leavesOrdered (b :: rest)

/-- Well-formed spans: the hypothesis about Arpeggio's output (checked on every real parse
tree by the harness): every `NonTerminal` has children, every terminal is non-empty, and the
terminals appear left to right without overlap and inside the input of length `n`. -/
def PT.wfB (t : PT) (n : Nat) : Bool :=
  t.full && t.leaves.all (fun l => decide (0 < l.2)) && leavesOrdered t.leaves
    && t.leaves.all (fun l => decide (l.1 + l.2 ≤ n))

/-- a `NonTerminal` made by a match rule (`n.rule._tx_class._tx_type == RULE_MATCH`) -/
def PT.isMatchNT : PT → Bool
  | .nt (.mat _) _ => true
  | _ => false

/-- truthiness of what an abstract-rule node with several children yields when none of them is a
common / abstract rule reference (model.py 679-683): `process_node(nonterminals[0])` — the converted
value of the first match-rule `NonTerminal` — `if nonterminals`, else the joined text of the
terminals (never empty: terminals are not empty). -/
def abstractFallback : List PT → Bool
  | [] => true
  | .nt (.mat t) _ :: _ => t
  | _ :: ks => abstractFallback ks

/-! ## process_node -/

structure St where
  heap : Heap
  stack : List Nat

/-- number of objects allocated so far = id of the next one -/
def St.next (s : St) : Nat := s.heap.length

def Heap.put (h : Heap) (x : Nat) (o : HObj) : Heap := h.set x o

/-- `_init_obj_attrs`: `[]` for list attributes, a falsy default otherwise -/
def initAttr (m : MetaAttr) : MetaAttr × AVal := (m, if m.many then .many [] else .one .none)

def findAttr (a : Nat) : List (MetaAttr × AVal) → Option (MetaAttr × AVal)
  | [] => none
  | (m, v) :: rest => if m.name = a then some (m, v) else findAttr a rest

/-- update the (first) attribute named `a` -/
def updAttrs (a : Nat) (f : AVal → AVal) : List (MetaAttr × AVal) → List (MetaAttr × AVal)
  | [] => []
  | (m, v) :: rest => if m.name = a then (m, f v) :: rest else (m, v) :: updAttrs a f rest

def Heap.updAttr (h : Heap) (x a : Nat) (f : AVal → AVal) : Heap :=
  match h.get x with
  | some o => h.put x { o with attrs := updAttrs a f o.attrs }
  | none => h

def Heap.setParent (h : Heap) (x p : Nat) : Heap :=
  match h.get x with
  | some o => h.put x { o with parent := some p }
  | none => h

/-- `setattr(obj_attr, attr_name, value)` -/
def AVal.assign (v : Val) : AVal → AVal := fun _ => .one v

/-- `attr_value.append(value)` on a list attribute.  (`_init_obj_attrs` made every `*`/`+`
attribute a list; for a non-list slot holding `None` the code first stores `[]`.  A non-list
slot holding something else cannot occur for these operators; the model keeps the old value.) -/
def AVal.append (v : Val) : AVal → AVal
  | .many vs => .many (vs ++ [v])
  | .one .none => .many [v]
  | .one w => .many [w, v]

/-- the freshly allocated instance: attributes initialised (`_init_obj_attrs`), no parent yet,
`_tx_position = node.position`, `_tx_position_end = node.position_end` -/
def newObj (mm : Nat → List MetaAttr) (cls : Nat) (ks : List PT) : HObj :=
  { cls := cls, parent := none, pos := posL ks, posEnd := endL ks (posL ks), attrs := (mm cls).map initAttr }

/-- Python truthiness of an attribute value at a moment of the construction (`h` = the objects
as they are then): `None` is falsy, a converted match has the truthiness recorded in the tree,
an object is asked — `tr h i` is what `bool(obj)` answers.  Generic textX objects are always
truthy; a user class (`classes=[…]`) may define `__bool__` / `__len__` in any way, in
particular depending on the attributes collected so far, hence an arbitrary function of the
heap and the object. -/
def Val.truthyIn (tr : Heap → Nat → Bool) (h : Heap) : Val → Bool
  | .none => false
  | .prim t => t
  | .obj i => tr h i

mutual
/-- `process_node(node)`; `none` = a Python exception (IndexError / KeyError / Multiple
assignments), which aborts the load.  `tr` = truthiness of objects (`Val.truthyIn`): the only
place where the code asks an object for its truth value is the "Multiple assignments" guard. -/
def processNode (tr : Heap → Nat → Bool) (mm : Nat → List MetaAttr) : PT → St → Option (Val × St)
  | .term _ _ _ t, s => some (.prim t, s)
  | .nt (.mat t) _, s => some (.prim t, s)
  | .nt .abs ks, s =>
    match ks with
    | [] => none
    | [k] => processNode tr mm k s
    | k :: k2 :: rest =>
      -- `len(node) > 1`: the first child that is a common / abstract rule reference is the result
      processFirstNT tr mm (abstractFallback (k :: k2 :: rest)) (k :: k2 :: rest) s
  | .nt (.obj cls) ks, s =>
    let id := s.next
    -- inst allocated, attributes initialised, span set, pushed on `_inst_stack`
    let s1 : St := { heap := s.heap ++ [newObj mm cls ks], stack := id :: s.stack }
    match processKids tr mm ks s1 with
    | none => none
    | some s2 =>
      -- `_inst_stack.pop()`, then `if parser._inst_stack: obj_attrs.parent = parser._inst_stack[-1][0]`
      let stk := s2.stack.tail
      let heap := match stk with
        | [] => s2.heap
        | p :: _ => s2.heap.setParent id p
      some (.obj id, { heap := heap, stack := stk })
  | .nt (.asgn a op) ks, s =>
    -- `model_obj, obj_attr = parser._inst_stack[-1]`, `metaattr = cls._tx_attrs[attr_name]`
    match s.stack with
    | [] => none
    | top :: _ =>
      match (s.heap.get top).bind (fun o => findAttr a o.attrs) with
      | none => none
      | some (m, cur) =>
        match op with
        | .optional => some (.none, { s with heap := s.heap.updAttr top a (AVal.assign (.prim true)) })
        | .plain =>
          match cur, ks with
          | _, [] => none
          | .one v, k :: _ =>
            -- `if attr_value and not isinstance(attr_value, list)`: "Multiple assignments to attribute";
            -- `attr_value` may be an object of a user class with its own `__bool__` / `__len__`
            if v.truthyIn tr s.heap then none
            else
              match processNode tr mm k s with
              | none => none
              | some (val, s1) =>
                if m.cont then some (.none, { s1 with heap := s1.heap.updAttr top a (AVal.assign val) })
                else some (.none, s1)   -- ObjCrossRef recorded, resolved later
          | .many _, k :: _ =>
            match processNode tr mm k s with
            | none => none
            | some (val, s1) =>
              if m.cont then some (.none, { s1 with heap := s1.heap.updAttr top a (AVal.append val) })
              else some (.none, s1)
        | .many =>
          match processItems tr mm top a m.cont ks s with
          | none => none
          | some s1 => some (.none, s1)

/-- `for n in node: process_node(n)` (results dropped) -/
def processKids (tr : Heap → Nat → Bool) (mm : Nat → List MetaAttr) : List PT → St → Option St
  | [], s => some s
  | k :: ks, s =>
    match processNode tr mm k s with
    | none => none
    | some (_, s1) => processKids tr mm ks s1

/-- the abstract-rule branch for `len(node) > 1` (model.py 671-683, after the repair):
`nonterminals = [n for n in node if type(n) is not Terminal]`; the first of them whose rule is not a
match rule is the result (`return process_node(n)`); `fb` is what the code returns when there is
none (`abstractFallback`). -/
def processFirstNT (tr : Heap → Nat → Bool) (mm : Nat → List MetaAttr) (fb : Bool) : List PT → St → Option (Val × St)
  | [], s => some (.prim fb, s)
  | k :: ks, s => if k.isTerm || k.isMatchNT then processFirstNT tr mm fb ks s else processNode tr mm k s

/-- the `list / oneormore / zeroormore` branch: every child that is not a separator -/
def processItems (tr : Heap → Nat → Bool) (mm : Nat → List MetaAttr) (top a : Nat) (cont : Bool) : List PT → St → Option St
  | [], s => some s
  | k :: ks, s =>
    if k.isSep then processItems tr mm top a cont ks s
    else
      match processNode tr mm k s with
      | none => none
      | some (val, s1) =>
        let s2 : St := if cont then { s1 with heap := s1.heap.updAttr top a (AVal.append val) } else s1
        processItems tr mm top a cont ks s2
end

def St.empty : St := { heap := [], stack := [] }

/-- `model = process_node(parse_tree)` on a fresh parser -/
def build (tr : Heap → Nat → Bool) (mm : Nat → List MetaAttr) (root : PT) : Option (Val × St) := processNode tr mm root St.empty

end Obj
