import TextxVerif.Out.GenFile
/-!
# `Out.GenFileOps` — `_open_output` as a sequence of primitive file operations (C31)

`GenFile.exportNew` describes one export by its end state only.  This file
spells the same code (`textx/export.py: _open_output`, used by
`metamodel_export` / `model_export`) out as the *sequence of primitive file
operations that take effect*, statement by statement:

```
tmp = f"{file_name}.{pid}.tmp"
try:
    with open(tmp, "w") as f:      -- Op.openW tmp
        f.write(..) …              -- Op.append tmp (full c)   (a failing write may leave a part)
    os.replace(tmp, file_name)     -- Op.replace tmp target
except BaseException:
    os.remove(tmp)                 -- Op.remove tmp            (`suppress(OSError)`: no file, no error)
    raise
```

so that the state of the directory after *every* operation is available
(`statesOf`), not only the state after the call.  `Proofs/GenFileOps.lean`
shows that `exportNew` is exactly the end state of this program and that the
target is untouched in every state before the last operation.
Core Lean only.
-/
namespace GenFile

/-- a primitive effect on the directory -/
inductive Op
  | openW (t : Path)                 -- `open(t, "w")`: create / truncate
  | append (t : Path) (pc : Piece)   -- data of a `write` reaching the file
  | replace (src dst : Path)         -- `os.replace(src, dst)`
  | remove (t : Path)                -- `os.remove(t)`, tolerated when `t` does not exist
  deriving DecidableEq, Repr

def Op.apply (fs : FS) : Op → FS
  | .openW t => fs.set t (some [])
  | .append t pc => fs.set t (some ((fs t).getD [] ++ [pc]))
  | .replace s d => (fs.set d (fs s)).set s none
  | .remove t => fs.set t none

/-- one `f.write(chunk)` per chunk, each completely written -/
def writeOps (t : Path) (chunks : List Nat) : List Op := chunks.map fun c => .append t (.full c)

/-- does the `try` block get through (no operation raises) -/
def okOf (chunks : List Nat) : Crash → Bool
  | .none => true
  | .atWrite k _ => decide (chunks.length ≤ k)     -- a failure point behind the last write is never reached
  | _ => false

/-- the operations of the `try` block that take effect before the final `os.replace` / `os.remove` -/
def bodyOps (t : Path) (chunks : List Nat) : Crash → List Op
  | .atOpen => []                                   -- `open` raised: nothing was created
  | .atWrite k partly =>
    if k < chunks.length then
      .openW t :: writeOps t (chunks.take k) ++ (if partly then [.append t (.part (chunks.getD k 0))] else [])
    else .openW t :: writeOps t chunks
  | _ => .openW t :: writeOps t chunks               -- none / atClose / atReplace: every write got through

/-- the whole call: the body, then `os.replace` when nothing raised, else the handler's `os.remove`;
second component: the call returned normally -/
def program (p : Path) (chunks : List Nat) (crash : Crash) : List Op × Bool :=
  let t := tmpOf p
  (bodyOps t chunks crash ++ [if okOf chunks crash then .replace t p else .remove t], okOf chunks crash)

def runOps (fs : FS) (ops : List Op) : FS := ops.foldl Op.apply fs

/-- the directory after each operation, in order -/
def statesOf (fs : FS) : List Op → List FS
  | [] => []
  | o :: r => o.apply fs :: statesOf (o.apply fs) r

/-- the export done operation by operation -/
def exportOps (fs : FS) (p : Path) (chunks : List Nat) (crash : Crash) : FS × Bool :=
  (runOps fs (program p chunks crash).1, (program p chunks crash).2)

/-- the operation has an effect on path `t` only (Boolean form of `Op.only`) -/
def Op.onlyB (t : Path) : Op → Bool
  | .openW t' => t' == t
  | .append t' _ => t' == t
  | .remove t' => t' == t
  | .replace _ _ => false

/-- summary of one export for the driver: number of operations, the last one, "every operation before the
last has an effect on the temporary sibling only" (⇒ the output file is untouched in every intermediate
state: `Proofs/GenFileOps.lean: midOnly_sound`), "the output file is as before after the last operation" -/
structure OpsInfo where
  n : Nat
  last : Option Op
  midOnly : Bool
  lastSame : Bool

/-- for the driver: per run of a history (`none` = skipped as already generated) the summary of the
operation program of the export.  The history is stepped with `exportNew` (= `exportOps`, `C31_ops_summary`). -/
def opsTrace : FS → List Run → List (Option OpsInfo)
  | _, [] => []
  | fs, r :: rs =>
    let s := genFile exportNew fs (.out r.path) r.overwrite r.chunks r.crash
    let info : Option OpsInfo :=
      if s.2 = .skipped then none
      else
        let ops := (program (.out r.path) r.chunks r.crash).1
        some { n := ops.length, last := ops.getLast?,
               midOnly := ops.dropLast.all (Op.onlyB (.tmp r.path)),
               lastSame := decide (s.1 (.out r.path) = fs (.out r.path)) }
    info :: opsTrace s.1 rs

end GenFile
