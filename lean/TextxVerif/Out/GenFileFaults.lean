import TextxVerif.Out.GenFile
/-!
# `Out.GenFileFaults` — one export with *any set* of failing calls (C31)

`GenFile.exportNew` takes one crash point: exactly one operation of
`open, write₀ … writeₙ₋₁, close(flush), replace` raises.  A real failure does not
go away after the first call that reports it (disk full, quota, file size limit):
the write that fails is followed by a failing flush when the `with` block closes
the file.  Here the failure is a *schedule*: for every fallible call of
`textx/export.py: _open_output` whether it raises, any subset of them.

```
tmp = f"{file_name}.{pid}.tmp"
try:
    with open(tmp, "w") as f:      -- raises iff  atOpen
        f.write(..) …              -- the k-th raises iff atWrite k = some partly
                                   -- leaving the block (either way): f.close(), raises iff atClose;
                                   -- the file is closed in any case
    os.replace(tmp, file_name)     -- reached iff nothing raised so far; raises iff atReplace
except BaseException:              -- whatever was raised, by the body or by the close
    os.remove(tmp)
    raise
```

`Proofs/GenFileFaults.lean` shows that only the first failing call that is
reached matters (`exportFaults_eq`): every theorem about `exportNew` holds for
every schedule.  Core Lean only.
-/
namespace GenFile

/-- which calls of one export raise -/
structure Faults where
  atOpen : Bool
  atWrite : Nat → Option Bool     -- `some partly`: the k-th `write` raises (after writing part of its data if `partly`)
  atClose : Bool                  -- the flush done by `close()` raises (the file is closed nevertheless)
  atReplace : Bool

/-- the `write` calls of the `with` body: the content of the open file when the body is left, and
whether it was left normally -/
def writeLoop (f : Faults) : Nat → List Nat → Content → Content × Bool
  | _, [], acc => (acc, true)
  | k, c :: cs, acc =>
    match f.atWrite k with
    | some partly => (acc ++ (if partly then [.part c] else []), false)
    | none => writeLoop f (k + 1) cs (acc ++ [.full c])

/-- `with _open_output(target) as f: export_to_file(f)` under a failure schedule -/
def exportFaults (fs : FS) (p : Path) (chunks : List Nat) (f : Faults) : FS × Bool :=
  let t := tmpOf p
  if f.atOpen then
    (fs.set t none, false)                              -- handler: os.remove(tmp) (nothing there, tolerated); raise
  else
    let fs1 := fs.set t (some [])                       -- open(tmp, "w")
    let w := writeLoop f 0 chunks []
    let fs2 := fs1.set t (some w.1)
    let bodyRaised := !w.2
    let closeRaised := f.atClose                        -- `f.close()` when the `with` block is left, on both ways
    let withRaised := bodyRaised || closeRaised         -- (a failing close replaces the exception of the body)
    let replaceRaised := !withRaised && f.atReplace     -- os.replace is reached only when nothing raised
    if withRaised || replaceRaised then
      (fs2.set t none, false)                           -- handler: os.remove(tmp); raise
    else
      ((fs2.set t none).set p (some w.1), true)         -- os.replace(tmp, target) done

/-- the first `write` call among `k, k+1, …, k+m-1` that raises -/
def firstWrite (f : Faults) : Nat → Nat → Option (Nat × Bool)
  | _, 0 => none
  | k, m + 1 =>
    match f.atWrite k with
    | some b => some (k, b)
    | none => firstWrite f (k + 1) m

/-- the first failing call that an export of `n` chunks reaches -/
def Faults.first (f : Faults) (n : Nat) : Crash :=
  if f.atOpen then .atOpen
  else match firstWrite f 0 n with
    | some (k, b) => .atWrite k b
    | none => if f.atClose then .atClose else if f.atReplace then .atReplace else .none

/-- the schedule of the fault injection: the call named by `crash` fails; when `persist`, every `write`
and every flush / close after it fails too (the condition does not go away).  A `write` behind the last
one is never reached: nothing fails. -/
def Faults.ofCrash (persist : Bool) (n : Nat) : Crash → Faults
  | .none => ⟨false, fun _ => none, false, false⟩
  | .atOpen => ⟨true, fun _ => none, false, false⟩
  | .atWrite k partly =>
    if k < n then
      ⟨false, fun j => if j = k then some partly else if persist && decide (k < j) then some false else none,
       persist, false⟩
    else ⟨false, fun _ => none, false, false⟩
  | .atClose => ⟨false, fun _ => none, true, false⟩
  | .atReplace => ⟨false, fun _ => none, false, true⟩

/-- for the driver: the export under the injected schedule -/
def exportMode (persist : Bool) (fs : FS) (p : Path) (chunks : List Nat) (crash : Crash) : FS × Bool :=
  exportFaults fs p chunks (Faults.ofCrash persist chunks.length crash)

end GenFile
