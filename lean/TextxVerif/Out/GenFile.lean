/-!
# `Out.GenFile` — writing one generated file, with a failure at any point (C31)

Mirror of `textx/generators.py: gen_file` (skip-if-exists rule) and of
`textx/export.py: _open_output / metamodel_export / model_export` *after* the
`fix:` commit of branch `fix/C30` (write to a temporary sibling, `os.replace` it
over the target when the export and the closing of the file have succeeded,
remove it on any failure).  The pinned behaviour (target opened with `"w"`
first) is kept as `exportPinned` for the negation witness.

File system: a function from paths to optional contents.  Output files are
`Path.out n`, their temporary siblings `Path.tmp n` (the real names are
`<target>` and `<target>.<pid>.tmp`).  A content is the list of the pieces
written, a piece being a chunk written completely or cut short.  An export is
the list of chunks it writes (one per `f.write(...)` call); a *crash point*
says which operation of the sequence `open, write₀ … writeₙ₋₁, close, replace`
raises.  OS-level durability beyond this sequence (power loss between `write`
and `close`, non-atomic `rename` on exotic file systems) is not modelled.
Core Lean only.
-/
namespace GenFile

inductive Path
  | out (n : Nat)   -- an output file of a generator
  | tmp (n : Nat)   -- the temporary sibling of `out n`
  deriving DecidableEq, Repr

def tmpOf : Path → Path
  | .out n => .tmp n
  | .tmp n => .tmp n

inductive Piece
  | full (chunk : Nat)   -- the data of one `write` call, completely written
  | part (chunk : Nat)   -- a proper prefix of it
  deriving DecidableEq, Repr

abbrev Content := List Piece

/-- the complete content an export of `chunks` produces -/
def fullContent (chunks : List Nat) : Content := chunks.map .full

abbrev FS := Path → Option Content

def FS.set (fs : FS) (p : Path) (c : Option Content) : FS := fun q => if q = p then c else fs q

def FS.empty : FS := fun _ => none

/-- which operation of one export raises -/
inductive Crash
  | none
  | atOpen                               -- `open(..., "w")` raises
  | atWrite (k : Nat) (partly : Bool)    -- the k-th `write` (0-based) raises — after writing part of
                                         -- its data if `partly`; also: the renderer raises before write k
  | atClose                              -- the flush at `close` raises (what was written stays)
  | atReplace                            -- `os.replace` raises
  deriving DecidableEq, Repr

/-- what the `write` calls leave in the open file, and whether all of them succeeded -/
def written (chunks : List Nat) : Crash → Content × Bool
  | .atWrite k partly =>
    if k < chunks.length then
      (fullContent (chunks.take k) ++ (if partly then [.part (chunks.getD k 0)] else []), false)
    else (fullContent chunks, true)
  | _ => (fullContent chunks, true)

/-- `with _open_output(target) as f: export_to_file(f)` (export.py, repaired).
Returns the new file system and whether the call returned normally. -/
def exportNew (fs : FS) (p : Path) (chunks : List Nat) (crash : Crash) : FS × Bool :=
  let t := tmpOf p
  match crash with
  | .atOpen =>
    -- open(tmp) raised; `except BaseException: os.remove(tmp)` (a stale temp, if any, goes too)
    (fs.set t none, false)
  | _ =>
    let fs1 := fs.set t (some [])                       -- open(tmp, "w")
    let w := written chunks crash
    let fs2 := fs1.set t (some w.1)                     -- the writes (and the flush at close)
    if !w.2 || crash = .atClose || crash = .atReplace then
      (fs2.set t none, false)                           -- os.remove(tmp); raise
    else
      ((fs2.set t none).set p (some w.1), true)         -- os.replace(tmp, target)

/-- pinned: `with open(target, "w") as f: export_to_file(f)` -/
def exportPinned (fs : FS) (p : Path) (chunks : List Nat) (crash : Crash) : FS × Bool :=
  match crash with
  | .atOpen => (fs, false)
  | _ =>
    let w := written chunks crash
    (fs.set p (some w.1), w.2 && crash != .atClose)

inductive Outcome
  | done       -- generated
  | skipped    -- "-- NOT overwriting"
  | failed     -- the generator raised
  deriving DecidableEq, Repr

/-- `gen_file(input, output_file, gen_callback, overwrite)` (generators.py:27-48) -/
def genFile (exp : FS → Path → List Nat → Crash → FS × Bool)
    (fs : FS) (p : Path) (overwrite : Bool) (chunks : List Nat) (crash : Crash) : FS × Outcome :=
  if overwrite || (fs p).isNone then
    let r := exp fs p chunks crash
    (r.1, if r.2 then .done else .failed)
  else (fs, .skipped)

/-- one `textx generate` run for one output file -/
structure Run where
  path : Nat
  chunks : List Nat
  overwrite : Bool
  crash : Crash
  deriving DecidableEq, Repr

/-- a history of runs; returns the final file system and the outcome of each run -/
def runAll (exp : FS → Path → List Nat → Crash → FS × Bool) : FS → List Run → FS × List Outcome
  | fs, [] => (fs, [])
  | fs, r :: rs =>
    let s := genFile exp fs (.out r.path) r.overwrite r.chunks r.crash
    let t := runAll exp s.1 rs
    (t.1, s.2 :: t.2)

/-- like `runAll`, also returning the content of the run's target after every run (for the driver) -/
def trace (exp : FS → Path → List Nat → Crash → FS × Bool) :
    FS → List Run → List (Outcome × Option Content × Bool)
  | _, [] => []
  | fs, r :: rs =>
    let s := genFile exp fs (.out r.path) r.overwrite r.chunks r.crash
    (s.2, s.1 (.out r.path), (s.1 (.tmp r.path)).isSome) :: trace exp s.1 rs

/-- like `trace`, additionally returning the state of every output file of `ps` (content, temporary
sibling present) after every run — histories over several output files (for the driver) -/
def traceOn (exp : FS → Path → List Nat → Crash → FS × Bool) (ps : List Nat) :
    FS → List Run → List (Outcome × Option Content × Bool × List (Option Content × Bool))
  | _, [] => []
  | fs, r :: rs =>
    let s := genFile exp fs (.out r.path) r.overwrite r.chunks r.crash
    (s.2, s.1 (.out r.path), (s.1 (.tmp r.path)).isSome,
      ps.map fun n => (s.1 (.out n), (s.1 (.tmp n)).isSome)) :: traceOn exp ps s.1 rs

end GenFile
