import TextxVerif.Out.Cli
/-!
# `Out.CliClick` — what click hands to the `generate` / `check` command bodies (C30)

`textx generate` is declared with `ignore_unknown_options=True` and a variadic
`arguments` parameter: click removes the options it owns (wherever they stand)
and hands every other token over, in order.  `clickStrip` mirrors that for
command lines in canonical spelling — click's options written as separate tokens
`--target T`, `--language L`, `--grammar G`, `--output-path P` / `-o P`,
`--overwrite`, `--ignore-case` / `-i`.  Not mirrored (never generated, trusted):
`--opt=value`, bundled short options, the `--` separator, abbreviations.
Core Lean only.
-/
namespace Cli

def clickFlagToks : List Str :=
  ["--overwrite".toList, "--ignore-case".toList, "-i".toList]

def clickValuedToks : List Str :=
  ["--output-path".toList, "-o".toList, "--language".toList, "--target".toList, "--grammar".toList]

def isClickFlag (t : Str) : Bool := clickFlagToks.contains t
def isClickValued (t : Str) : Bool := clickValuedToks.contains t

/-- the `arguments` tuple: the command line without click's own options and their values -/
def clickStrip : List Str → List Str
  | [] => []
  | t :: rest =>
    if isClickFlag t then clickStrip rest
    else if isClickValued t then
      match rest with
      | [] => []                 -- "Option requires an argument": usage error, the body does not run
      | _ :: rest' => clickStrip rest'
    else t :: clickStrip rest

end Cli
