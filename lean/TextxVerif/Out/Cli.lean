/-!
# `Out.Cli` — the `textx generate` / `textx check` command bodies (C30)

Mirror of `textx/cli/generate.py` (argument loop, declared-parameter
validation, per-file generation loop) and `textx/cli/check.py` (per-file check
loop) *after* the two `fix:` commits of branch `fix/C30`:

* the name of a custom argument is normalised (`-` → `_`) once, before the
  flag / value branch (pinned code: only in the value branch);
* the undeclared-argument test runs whenever the generator declares its
  parameters, also when the declared list is empty (pinned code: skipped for
  an empty list).

The pinned variants are kept as `parseArgsPinned` / `validatePinned` for the
negation witnesses in `Props/C30.lean`.

click's own option parsing is not modelled: the model starts from the tuple
`arguments` click hands to the command body (its own options removed, unknown
`--options` kept — `ignore_unknown_options=True`).

Strings are `List Char` (`Str`) so that the proofs can use list induction; the
driver converts.  Core Lean only.
-/
namespace Cli

abbrev Str := List Char

/-- `m.startswith("--")` -/
def isSwitch : Str → Bool
  | '-' :: '-' :: _ => true
  | _ => false

/-- `name.replace("-", "_")` -/
def norm (s : Str) : Str := s.map fun c => if c = '-' then '_' else c

def isQuote (c : Char) : Bool := c = '"' || c = '\''

/-- `value.strip("\"'")` -/
def stripQuotes (s : Str) : Str := ((s.dropWhile isQuote).reverse.dropWhile isQuote).reverse

/-- value of a custom argument: `True` for a bare flag, else the (stripped) string -/
inductive Val
  | flag
  | str (s : Str)
  deriving DecidableEq, Repr

/-- insertion-ordered Python `dict` -/
abbrev Dict := List (Str × Val)

/-- `d[k] = v`: a present key keeps its position and gets the new value -/
def dset : Dict → Str → Val → Dict
  | [], k, v => [(k, v)]
  | (k', v') :: r, k, v => if k' = k then (k', v) :: r else (k', v') :: dset r k v

def dget : Dict → Str → Option Val
  | [], _ => none
  | (k', v') :: r, k => if k' = k then some v' else dget r k

def dkeys (d : Dict) : List Str := d.map (·.1)

/-- The `while arguments:` loop of `generate` (generate.py:123-136, repaired).
`files` accumulates `model_files_without_args`, `d` is `custom_args`. -/
def parseLoop : List Str → List Str → Dict → List Str × Dict
  | [], files, d => (files, d)
  | m :: rest, files, d =>
    if isSwitch m then
      let argName := norm (m.drop 2)
      match rest with
      | [] => (files, dset d argName .flag)     -- `not arguments`: boolean argument
      | v :: rest' =>
        if isSwitch v then
          -- boolean argument; `v` stays in the list
          parseLoop (v :: rest') files (dset d argName .flag)
        else
          parseLoop rest' files (dset d argName (.str (stripQuotes v)))
    else
      parseLoop rest (files ++ [m]) d
termination_by structural args => args

def parseArgs (args : List Str) : List Str × Dict := parseLoop args [] []

/-- the loop as pinned (before the repair): only the value branch normalises -/
def parseLoopPinned : List Str → List Str → Dict → List Str × Dict
  | [], files, d => (files, d)
  | m :: rest, files, d =>
    if isSwitch m then
      let argName := m.drop 2
      match rest with
      | [] => (files, dset d argName .flag)
      | v :: rest' =>
        if isSwitch v then
          parseLoopPinned (v :: rest') files (dset d argName .flag)
        else
          parseLoopPinned rest' files (dset d (norm argName) (.str (stripQuotes v)))
    else
      parseLoopPinned rest (files ++ [m]) d
termination_by structural args => args

def parseArgsPinned (args : List Str) : List Str × Dict := parseLoopPinned args [] []

/-! ## declared-parameter validation (generate.py:139-154) -/

structure Param where
  name : Str
  mandatory : Bool
  deriving DecidableEq, Repr

inductive ArgErr
  | missing (name : Str)      -- "Parameter '…' must be provided."
  | undeclared (name : Str)   -- "Parameter '…' is not defined for this generator."
  deriving DecidableEq, Repr

/-- `decl = none`: the generator does not declare its parameters
(`custom_args is None`).  `given` = the keys of `custom_args`.  (Python iterates
a `set` in the second loop; which undeclared name is reported first is not
specified — the model reports the first in dictionary order, comparisons use the
error kind only.) -/
def validate (decl : Option (List Param)) (given : List Str) : Option ArgErr :=
  match decl with
  | none => none
  | some ps =>
    match ps.find? (fun p => p.mandatory && !given.contains p.name) with
    | some p => some (.missing p.name)
    | none =>
      match given.find? (fun k => !(ps.map (·.name)).contains k) with
      | some k => some (.undeclared k)
      | none => none

/-- pinned: `if given_args and generator_args:` skips the second loop for `[]` -/
def validatePinned (decl : Option (List Param)) (given : List Str) : Option ArgErr :=
  match decl with
  | none => none
  | some ps =>
    match ps.find? (fun p => p.mandatory && !given.contains p.name) with
    | some p => some (.missing p.name)
    | none =>
      if ps.isEmpty then none
      else
        match given.find? (fun k => !(ps.map (·.name)).contains k) with
        | some k => some (.undeclared k)
        | none => none

/-! ## the environment of one command line -/

/-- what loading one model-file token does -/
inductive FileRes
  | ok                                   -- `model_from_file` returns a model
  | loadErr (line col : Nat)             -- `TextXSyntaxError` / `TextXSemanticError` at line:col
  | noFile                               -- the file does not exist (`FileNotFoundError`, not a textX error)
  deriving DecidableEq, Repr

structure FileInfo where
  /-- language registered for the file name pattern (`language_for_file`), if exactly one -/
  lang : Option Str
  res : FileRes
  deriving DecidableEq, Repr

/-- how the metamodel is chosen -/
inductive Mode
  | byPattern                  -- neither `--grammar` nor `--language`
  | byLanguage (l : Str) (registered : Bool)
  | byGrammar                  -- `--grammar G` (language name becomes "any")
  deriving DecidableEq, Repr

structure Env where
  mode : Mode
  /-- model-file tokens of this command line with what the file system / registry says about them -/
  files : List (Str × FileInfo)
  /-- generators registered for the requested target: language (lower-case) ↦ declared parameters -/
  gens : List (Str × Option (List Param))
  /-- is the built-in language `textx` usable (always, in practice) -/
  textxRegistered : Bool := true

def fileInfo (env : Env) (tok : Str) : FileInfo :=
  match env.files.find? (·.1 = tok) with
  | some (_, fi) => fi
  | none => { lang := none, res := .noFile }

/-- `generator_description(language, target, any_permitted)` restricted to the requested target -/
def findGen (gens : List (Str × Option (List Param))) (lang : Str) (anyPermitted : Bool) :
    Option (Option (List Param)) :=
  match gens.find? (·.1 = lang) with
  | some (_, d) => some d
  | none =>
    if anyPermitted then
      match gens.find? (·.1 = "any".toList) with
      | some (_, d) => some d
      | none => none
    else none

/-- why a command exits with status 1 (kinds, never message prose) -/
inductive Fail
  | registration                 -- `TextXRegistrationError` (language / generator lookup, no input at all)
  | located (file : Str) (line col : Nat)   -- `TextXError` with location from loading `file`
  | args (e : ArgErr)            -- `TextXError` from the validation
  | exception                    -- a non-textX exception escapes (e.g. `FileNotFoundError`)
  deriving DecidableEq, Repr

/-- one call of the generator callable: the model file (`none` = called without a model) and `**custom_args` -/
structure Call where
  file : Option Str
  kwargs : Dict
  deriving DecidableEq, Repr

structure GenResult where
  exit : Nat
  calls : List Call
  fail : Option Fail
  deriving DecidableEq, Repr

/-- inner `generate(language, target, any_permitted, metamodel, model, custom_args)` -/
def generateOne (env : Env) (lang : Str) (anyPermitted : Bool) (file : Option Str) (d : Dict) :
    Except Fail Call :=
  match findGen env.gens lang anyPermitted with
  | none => .error .registration
  | some decl =>
    match validate decl (dkeys d) with
    | some e => .error (.args e)
    | none => .ok { file := file, kwargs := d }

/-- the language used for a model file: the explicit one, else `language_for_file` -/
def langFor (env : Env) (explicitLang : Option Str) (f : Str) : Option Str :=
  match explicitLang with
  | some l => some l
  | none => (fileInfo env f).lang

/-- the `for model_file in model_files_without_args:` loop (generate.py:161-186);
`calls` = generator calls made so far -/
def genLoop (env : Env) (explicitLang : Option Str) (d : Dict) :
    List Str → List Call → GenResult
  | [], calls => { exit := 0, calls := calls, fail := none }
  | f :: rest, calls =>
    -- language_for_file / metamodel_for_file when no explicit language
    match langFor env explicitLang f with
    | none => { exit := 1, calls := calls, fail := some .registration }
    | some lang =>
      match (fileInfo env f).res with
      | .noFile => { exit := 1, calls := calls, fail := some .exception }
      | .loadErr l c => { exit := 1, calls := calls, fail := some (.located f l c) }
      | .ok =>
        match generateOne env lang explicitLang.isNone (some f) d with
        | .error e => { exit := 1, calls := calls, fail := some e }
        | .ok call => genLoop env explicitLang d rest (calls ++ [call])

/-- metamodel selection (generate.py:105-115): the explicit language name, if any -/
def modeLang (env : Env) : Except Fail (Option Str) :=
  match env.mode with
  | .byGrammar => .ok (some "any".toList)
  | .byLanguage l reg => if reg then .ok (some l) else .error .registration
  | .byPattern => .ok none

/-- does `metamodel_for_language(language)` of the no-model branch succeed -/
def noModelLangOk (env : Env) : Bool :=
  match env.mode with
  | .byGrammar => false        -- metamodel_for_language("any"): not a registered language
  | .byLanguage _ reg => reg
  | .byPattern => env.textxRegistered

/-- the `else:` branch (generate.py:188-203): no model file on the command line -/
def runNoModel (env : Env) (explicitLang : Option Str) (d : Dict) : GenResult :=
  if d.isEmpty then
    { exit := 1, calls := [], fail := some .registration }
  else if !noModelLangOk env then
    { exit := 1, calls := [], fail := some .registration }
  else
    -- generator run without a model: language "textx" unless explicit
    match generateOne env (explicitLang.getD "textx".toList) explicitLang.isNone none d with
    | .error e => { exit := 1, calls := [], fail := some e }
    | .ok call => { exit := 0, calls := [call], fail := none }

/-- body of the `generate` command on the argument tuple click hands over -/
def runGenerate (env : Env) (arguments : List Str) : GenResult :=
  match modeLang env with
  | .error e => { exit := 1, calls := [], fail := some e }
  | .ok explicitLang =>
    let p := parseArgs arguments
    if p.1.isEmpty then runNoModel env explicitLang p.2
    else genLoop env explicitLang p.2 p.1 []

/-! ## `textx check` (check.py:44-71) -/

inductive Msg
  | ok (file : Str)                        -- "<abs path>: OK."
  | error (f : Fail)                       -- "ERROR: …"
  deriving DecidableEq, Repr

structure CheckResult where
  exit : Nat
  msgs : List Msg
  deriving DecidableEq, Repr

def checkLoop (env : Env) (explicit : Bool) : List Str → List Msg → CheckResult
  | [], msgs => { exit := 0, msgs := msgs }
  | f :: rest, msgs =>
    let fi := fileInfo env f
    if !explicit && fi.lang.isNone then
      { exit := 1, msgs := msgs ++ [.error .registration] }
    else
      match fi.res with
      | .noFile => { exit := 1, msgs := msgs }         -- exception escapes, nothing logged
      | .loadErr l c => { exit := 1, msgs := msgs ++ [.error (.located f l c)] }
      | .ok => checkLoop env explicit rest (msgs ++ [.ok f])

def runCheck (env : Env) (modelFiles : List Str) : CheckResult :=
  match env.mode with
  | .byLanguage _ false => { exit := 1, msgs := [.error .registration] }
  | .byLanguage _ true => checkLoop env true modelFiles []
  | .byGrammar => checkLoop env true modelFiles []
  | .byPattern => checkLoop env false modelFiles []

end Cli
