import TextxVerif.Re
import TextxVerif.Py
import TextxVerif.Gen.Regexes
import TextxVerif.Gen.Procs
/-!
# Built-in base types: token match + conversion (C04)

`BaseType`   the match rules INT … STRING and NUMBER = STRICTFLOAT / INT
             (`textx/lang.py:247-262`); regexes and conversion lambdas are the
             *generated* ones (`Gen.Regexes`, `Gen.Procs`).
`tokenAt`    what one `v=TYPE` assignment does at a position: `RegExMatch._parse`
             (head of the matcher's successes, an empty match yields no terminal
             and is treated as no token here) followed by
             `metamodel.process(value, rule_name)` (`textx/model.py:548-598`):
             the default conversion callable of the *matched terminal's* rule —
             for NUMBER that is the alternative that matched.
`tokens`     `Model: v*=TYPE;` on a whole text: Arpeggio's `ZeroOrMore` over the
             token with whitespace skipping before each attempt, then `EOF`.
Model file: core Lean only.
-/
namespace BaseTypes
open Re

inductive BaseType | INT | FLOAT | STRICTFLOAT | BOOL | STRING | NUMBER
deriving DecidableEq, Repr

/-- (regex, conversion) alternatives of a type in priority order -/
def alternatives : BaseType → List (R × (List Char → Py.Val))
  | .INT => [(Gen.Regexes.INT, Gen.Procs.INT)]
  | .FLOAT => [(Gen.Regexes.FLOAT, Gen.Procs.FLOAT)]
  | .STRICTFLOAT => [(Gen.Regexes.STRICTFLOAT, Gen.Procs.STRICTFLOAT)]
  | .BOOL => [(Gen.Regexes.BOOL, Gen.Procs.BOOL)]
  | .STRING => [(Gen.Regexes.STRING, Gen.Procs.STRING)]
  | .NUMBER => [(Gen.Regexes.STRICTFLOAT, Gen.Procs.STRICTFLOAT), (Gen.Regexes.INT, Gen.Procs.INT)]

/-- first alternative whose regex matches (non-empty) at the position: converted value and new position -/
def firstMatch (cc : CharClasses) (s : St) : List (R × (List Char → Py.Val)) → Option (Py.Val × St)
  | [] => none
  | (r, conv) :: alts =>
      match pyMatchSt cc r s with
      | some t =>
          let n := s.2.length - t.2.length
          if n = 0 then firstMatch cc s alts else some (conv (s.2.take n), t)
      | none => firstMatch cc s alts

def tokenAt (cc : CharClasses) (ty : BaseType) (s : St) : Option (Py.Val × St) :=
  firstMatch cc s (alternatives ty)

/-- `v*=TYPE` then EOF.  `fuel` bounds the number of tokens (every token consumes input). -/
def tokensLoop (cc : CharClasses) (ty : BaseType) : Nat → St → List Py.Val → List Py.Val × St
  | 0, s, acc => (acc.reverse, skipWs s)
  | n+1, s, acc =>
      let s' := skipWs s
      match tokenAt cc ty s' with
      | some (v, t) => tokensLoop cc ty n t (v :: acc)
      | none => (acc.reverse, s')

/-- values of `Model: v*=TYPE;` on `text`, or the number of characters left at the failure position -/
def tokens (cc : CharClasses) (ty : BaseType) (text : List Char) : Except Nat (List Py.Val) :=
  let (vals, s) := tokensLoop cc ty text.length (none, text) []
  if s.2.isEmpty then .ok vals else .error s.2.length

/-! ## literal forms (what the property quantifies over) -/

/-- mantissa of a float literal -/
inductive Mant
  | intDot (d : Char) (ds fs : List Char)   -- `12.` `12.5`
  | dotFrac (f : Char) (fs : List Char)     -- `.5`
  | int (d : Char) (ds : List Char)         -- `12` (a float only together with an exponent)
deriving Repr

def Mant.text : Mant → List Char
  | .intDot d ds fs => d :: (ds ++ '.' :: fs)
  | .dotFrac f fs => '.' :: f :: fs
  | .int d ds => d :: ds

def Mant.digits : Mant → List Char
  | .intDot d ds fs => d :: (ds ++ fs)
  | .dotFrac f fs => f :: fs
  | .int d ds => d :: ds

def Mant.hasDot : Mant → Bool
  | .int _ _ => false
  | _ => true

/-- exponent `e`/`E`, optional sign, digits -/
structure Exp where
  e : Char
  sg : List Char
  d : Char
  ds : List Char
deriving Repr

def Exp.text (x : Exp) : List Char := x.e :: (x.sg ++ x.d :: x.ds)

def optExpText : Option Exp → List Char
  | none => []
  | some x => x.text

structure FloatLit where
  sg : List Char
  mant : Mant
  exp : Option Exp
deriving Repr

def FloatLit.text (f : FloatLit) : List Char := f.sg ++ (f.mant.text ++ optExpText f.exp)

def IsSign (sg : List Char) : Prop := sg = [] ∨ sg = ['+'] ∨ sg = ['-']

def Exp.WF (cc : CharClasses) (x : Exp) : Prop :=
  (x.e = 'e' ∨ x.e = 'E') ∧ IsSign x.sg ∧ cc.isDigit x.d = true ∧ ∀ c ∈ x.ds, cc.isDigit c = true

/-- sign, digits (as `\d` sees them), well-formed exponent -/
def FloatLit.WF (cc : CharClasses) (f : FloatLit) : Prop :=
  IsSign f.sg ∧ (∀ c ∈ f.mant.digits, cc.isDigit c = true) ∧ ∀ x, f.exp = some x → x.WF cc

/-- written with a '.' or an exponent -/
def FloatLit.Strict (f : FloatLit) : Prop := f.mant.hasDot = true ∨ f.exp.isSome = true

/-- `[-+]?[0-9]+`: an int literal (ASCII digits, as `str(n)` writes them; leading zeros allowed) -/
structure IntLit where
  sg : List Char
  d : Char
  ds : List Char
deriving Repr

def IntLit.text (i : IntLit) : List Char := i.sg ++ i.d :: i.ds

def IntLit.WF (i : IntLit) : Prop := IsSign i.sg ∧ asciiDigit i.d = true ∧ ∀ c ∈ i.ds, asciiDigit c = true

/-- every BOOL spelling with the bool it stands for -/
def boolSpellings : List (List Char × Bool) :=
  [(['T', 'r', 'u', 'e'], true), (['t', 'r', 'u', 'e'], true), (['F', 'a', 'l', 's', 'e'], false),
   (['f', 'a', 'l', 's', 'e'], false), (['0'], false), (['1'], true)]

/-- `ty` reads exactly the literal `w` (and leaves `rest`), converting it to `v` -/
def Reads (cc : CharClasses) (ty : BaseType) (p : Option Char) (w rest : List Char) (v : Py.Val) : Prop :=
  ∃ q, tokenAt cc ty (p, w ++ rest) = some (v, (q, rest))

/-- quoting a string the way the property says: only the delimiter is escaped -/
def escape (q : Char) : List Char → List Char
  | [] => []
  | c :: cs => if c = q then '\\' :: q :: escape q cs else c :: escape q cs

def encode (q : Char) (s : List Char) : List Char := q :: (escape q s ++ [q])

def noTrailingBackslash : List Char → Prop
  | [] => True
  | [c] => c ≠ '\\'
  | _ :: cs => noTrailingBackslash cs

/-- one string of a line: the whitespace before it, its quote character, its content -/
structure StrItem where
  ws : List Char
  q : Char
  s : List Char
deriving Repr

def StrItem.WF (i : StrItem) : Prop :=
  (∀ c ∈ i.ws, isWs c = true) ∧ (i.q = '"' ∨ i.q = '\'') ∧ noTrailingBackslash i.s

/-- the text of several quoted strings (possibly touching each other) and trailing whitespace -/
def lineOf : List StrItem → List Char → List Char
  | [], tail => tail
  | i :: is, tail => i.ws ++ (encode i.q i.s ++ lineOf is tail)

instance decNoTrailingBackslash : (s : List Char) → Decidable (noTrailingBackslash s)
  | [] => isTrue trivial
  | [c] => inferInstanceAs (Decidable (c ≠ '\\'))
  | _ :: c :: cs => decNoTrailingBackslash (c :: cs)

end BaseTypes
