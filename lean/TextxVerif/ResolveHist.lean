import TextxVerif.ResolveOrder
/-!
# Several loads with one meta-model: the repository between the loads (C09)

`parse_tree_to_objgraph` (`textx/model.py`) resolves *every model of the repository that still
carries a resolver* (`get_included_models(model)` filtered by `_tx_reference_resolver`), not only
the files of the program being loaded.  With a global repository (`global_repository=True`) the
repository outlives the load.  What keeps a load independent of the earlier ones is the clean-up:

    if unresolved_count > 0: raise …     →  except: remove_models_from_repositories(models, models)
    for m in models: _end_model_construction(m)          (the resolver is dropped, the model stays)

`Repo` = the `all_models` dictionary in insertion order: file key and, while the model is under
construction, its pending references.  `loadH` = one load: the files of the program that are not in
the repository yet are parsed and appended (main model first), the loop runs over all models that
carry a resolver, then the clean-up.  `runH` = a history of loads (each with its own provider);
without a global repository every load starts with a new repository.
`specH` = the same history described without a repository: all that an earlier load leaves is the
*set of files a successful load finished* (they are not parsed again).
Model file: core Lean only.
-/
namespace Resolve

/-- a model in the repository: its key (file name) and, while it carries a resolver, its pending references -/
structure RModel where
  key : Nat
  pending : Option (List Ref)
deriving Repr

abbrev Repo := List RModel

/-- a program: its model files (key, references in textual order), main model first -/
abbrev Prog := List (Nat × List Ref)

/-- the files of the program that have to be parsed: those whose key is not among `keys` -/
def freshFiles (keys : List Nat) (files : Prog) : Prog :=
  files.filter fun f => !(keys.any (· == f.1))

/-- parsing: new models are appended to the repository, under construction -/
def addFiles (repo : Repo) (files : Prog) : Repo :=
  repo ++ (freshFiles (repo.map (·.key)) files).map fun f => { key := f.1, pending := some f.2 }

/-- `get_included_models` filtered to the models with `_tx_reference_resolver`: their pending lists -/
def building (repo : Repo) : List (List Ref) := repo.filterMap (·.pending)

/-- one load: result of the loop (pending per model, resolved references) and the repository afterwards -/
def loadH (P : Provider) (repo : Repo) (files : Prog) : (List (List Ref) × List Ref) × Repo :=
  let repo1 := addFiles repo files
  let fs := building repo1
  let out := loopFiles P (fs.flatten.length + 1) fs []
  if out.1.flatten = [] then
    -- `_end_model_construction` for every model: the resolver is dropped, the models stay
    (out, repo1.map fun m => { m with pending := none })
  else
    -- `remove_models_from_repositories(models, models)`: every model that was being resolved is removed
    (out, repo1.filter fun m => m.pending.isNone)

/-- a history of loads with one meta-model (`glob` = it has a global repository) -/
def runH (glob : Bool) : Repo → List (Provider × Prog) → List (List (List Ref) × List Ref)
  | _, [] => []
  | repo, (P, files) :: rest =>
      let r := loadH P repo files
      r.1 :: runH glob (if glob then r.2 else []) rest

/-- the history without a repository: `cached` = keys of the files finished by earlier successful loads -/
def specH (glob : Bool) : List Nat → List (Provider × Prog) → List (List (List Ref) × List Ref)
  | _, [] => []
  | cached, (P, files) :: rest =>
      let fresh := freshFiles cached files
      let fs := fresh.map (·.2)
      let out := loopFiles P (fs.flatten.length + 1) fs []
      out :: specH glob (if glob then (if out.1.flatten = [] then cached ++ fresh.map (·.1) else cached) else []) rest

/-- no model of the repository is under construction (the state between two loads) -/
def Clean (repo : Repo) : Prop := ∀ m ∈ repo, m.pending = none

end Resolve
