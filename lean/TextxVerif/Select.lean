/-!
# Scope provider selection (textx/model.py `resolve_one_step`, textx/metamodel.py
`register_scope_providers`, textx/lang.py `visit_assignment`)

```
attr_refs = [cls + "." + attr, "*." + attr, cls + ".*", "*.*"]      -- Gen.providerOrder
if crossref.scope_provider is not None:  resolved = crossref.scope_provider(...)
else:
    for attr_ref in attr_refs:
        if attr_ref in metamodel.scope_providers:
            resolved = metamodel.scope_providers[attr_ref](...); break
    else:
        resolved = default_scope(...)
```
`select` returns *which* provider is called.  The key expressions are data
(`KeyExpr`), regenerated from the source list expression on every run
(`TextxVerif/Gen/ProviderOrder.lean`).

`P` = user-supplied provider objects, `T` = RREL expression trees.
Model file: core Lean only.
-/
namespace Select

/-- one operand of a `+` chain building a lookup key -/
inductive Piece where
  | lit (s : String)
  | cls   -- obj.__class__.__name__
  | attr  -- attr.name
deriving DecidableEq, Repr

abbrev KeyExpr := List Piece

def Piece.eval (cls attr : String) : Piece → String
  | .lit s => s
  | .cls => cls
  | .attr => attr

/-- Python `a + b + c` (left associative) -/
def KeyExpr.eval (e : KeyExpr) (cls attr : String) : String :=
  e.foldl (fun acc p => acc ++ p.eval cls attr) ""

/-- the provider that gets called for a reference -/
inductive Provider (P T : Type) where
  | custom (p : P)
  | rrel (t : T)
  | default
deriving DecidableEq, Repr

/-- value of a `register_scope_providers` dictionary entry -/
inductive RegVal (P : Type) where
  | prov (p : P)
  | str (s : String)
deriving DecidableEq, Repr

/-- `metamodel.scope_providers`: association list, `k in d` / `d[k]` = first entry
with that key (a Python dict has one entry per key) -/
abbrev Dict (P T : Type) := List (String × Provider P T)

def Dict.get? {P T : Type} (d : Dict P T) (k : String) : Option (Provider P T) :=
  match d with
  | [] => none
  | (k', v) :: rest => if k' = k then some v else Dict.get? rest k

/-- `create_rrel_scope_provider(v)` on a string parses it (`rrel.parse`) -/
def convert {P T : Type} (parse : String → T) : RegVal P → Provider P T
  | .prov p => .custom p
  | .str s => .rrel (parse s)

/-- `register_scope_providers`: strings are replaced by RREL providers, in place -/
def register {P T : Type} (parse : String → T) (raw : List (String × RegVal P)) : Dict P T :=
  raw.map fun (k, v) => (k, convert parse v)

/-- the `for attr_ref in attr_refs: if attr_ref in …: …; break` loop; `none` = the
`else` branch of the `for` -/
def lookupLoop {P T : Type} (d : Dict P T) : List String → Option (Provider P T)
  | [] => none
  | k :: ks =>
    match d.get? k with
    | some p => some p
    | none => lookupLoop d ks

/-- provider called for a reference of attribute `attr` on an object of class
`cls`; `g` = RREL tree attached to the reference (`crossref.scope_provider`) -/
def select {P T : Type} (order : List KeyExpr) (d : Dict P T) (cls attr : String)
    (g : Option T) : Provider P T :=
  match g with
  | some t => .rrel t
  | none => (lookupLoop d (order.map (·.eval cls attr))).getD .default

/-! ## which RREL tree is attached to a reference

A rule body assigns attributes at several places ("occurrences"); each
occurrence may carry an RREL expression.  After the repair the reference
created at occurrence `i` carries that occurrence's expression.  The pinned code
kept one expression per attribute: that of the occurrence processed last. -/

/-- an assignment `attr=[Cls|Rule|rrel?]` inside one rule -/
structure Occ (T : Type) where
  attr : String
  rrel : Option T
deriving Repr, DecidableEq

/-- repaired: the RREL written at the occurrence itself -/
def occRrel {T : Type} (occs : List (Occ T)) (i : Nat) : Option T :=
  match occs[i]? with
  | some o => o.rrel
  | none => none

/-- pinned: `cls_attr.scope_provider` is overwritten by every occurrence of the
same attribute, so the last one wins for all of them -/
def occRrelLastWins {T : Type} (occs : List (Occ T)) (i : Nat) : Option T :=
  match occs[i]? with
  | some o => ((occs.filter (fun o' => o'.attr = o.attr)).getLast?).bind (·.rrel)
  | none => none

/-! ### the two stores the grammar visitor fills

`occRrel` / `occRrelLastWins` above say *what* a reference carries.  The code gets there through
two stores, mirrored here statement by statement (`lang.py visit_assignment`, `model.py process_node`):
```
cls_attr.scope_provider = rhs_rule.scope_provider            # one slot per attribute, overwritten
assignment_rule._scope_provider = obj_ref_rule.scope_provider # (repair) one slot per assignment
…
p = getattr(node.rule, "_scope_provider", metaattr.scope_provider)
```
`Proofs/Select.lean` proves that reading the stores gives `occRrel` (repaired) and
`occRrelLastWins` (pinned: the per-assignment slot is never written). -/

/-- what the visitor leaves behind for the assignments of one rule -/
structure Visited (T : Type) where
  /-- `cls_attr.scope_provider` per attribute name; the newest entry is in front (a later
  assignment of the attribute overwrites the slot) -/
  attrProv : List (String × Option T)
  /-- per assignment rule, in textual order: `_scope_provider` if the attribute was set on it -/
  asgProv : List (Option (Option T))
deriving Repr

/-- `visit_assignment` for one reference assignment; `perAsg` = the repaired visitor -/
def visitStep {T : Type} (perAsg : Bool) (v : Visited T) (o : Occ T) : Visited T :=
  { attrProv := (o.attr, o.rrel) :: v.attrProv,
    asgProv := v.asgProv ++ [if perAsg then some o.rrel else none] }

/-- the assignments of a rule are visited in textual order -/
def visit {T : Type} (perAsg : Bool) (occs : List (Occ T)) : Visited T :=
  occs.foldl (visitStep perAsg) { attrProv := [], asgProv := [] }

/-- `getattr(node.rule, "_scope_provider", metaattr.scope_provider)` for the reference created at
assignment `i` of attribute `attr` -/
def refRrel {T : Type} (v : Visited T) (i : Nat) (attr : String) : Option T :=
  match v.asgProv[i]? with
  | some (some r) => r
  | _ => (v.attrProv.lookup attr).getD none

/-! ## what the selected provider is called with

`create_rrel_scope_provider(tree_or_string, split_string=None)` builds an object of
`class RREL` with the attributes `rrel_tree` and `split_string` (textx/scoping/rrel.py):
```
def __call__(self, current_obj, attr, obj_ref):
    if self.split_string is None:
        rule = get_metamodel(current_obj)[obj_ref.match_rule_name]
        split = rule._tx_peg_rule.split if hasattr(rule._tx_peg_rule, "split") else "."
    else:
        split = self.split_string
    return find(current_obj, obj_ref.obj_name, self.rrel_tree, obj_cls, split_string=split, …)
```
and `find_object_with_path` starts with `lookup_list = lookup_list.split(split_string)`.
`__call__` assigns no attribute of `self`: the object after a call is the object
before it (`RrelObj.call` returns it, so that a history of calls can be stated).
The grammar (`lang.py`, `create_rrel_scope_provider(rrel_tree)`) and
`register_scope_providers` (`create_rrel_scope_provider(v)`) both build the object
without `split_string`; a user may register an object built with one.

One provider object may serve many references: several keys bound to the same
object, a wildcard key, several models loaded by one meta-model.  What `find` is
asked for must depend on the reference alone. -/

/-- a reference as the provider sees it -/
structure Ref (T : Type) where
  /-- class of the object holding the reference -/
  cls : String
  attr : String
  /-- RREL written at the assignment that created the reference -/
  g : Option T
  /-- `obj_ref.obj_name`, as matched by the match rule -/
  name : String
  /-- `split` parameter of the match rule (`PATH[split='/']`), if it has one -/
  ruleSplit : Option String
deriving Repr, DecidableEq

/-- the attributes of an RREL provider object -/
structure RrelObj (T : Type) where
  tree : T
  split : Option String
deriving Repr, DecidableEq

/-- `split` of `RREL.__call__` -/
def delimiter (explicit ruleSplit : Option String) : String :=
  match explicit with
  | some s => s
  | none =>
    match ruleSplit with
    | some s => s
    | none => "."

/-- what a provider call amounts to -/
inductive Call (P T : Type) where
  /-- a user-supplied callable is called -/
  | user (p : P)
  /-- `rrel.find(obj, name.split(delim), tree, …)` -/
  | find (tree : T) (delim : String) (parts : List String)
  /-- the default provider is called -/
  | dflt
deriving DecidableEq, Repr

/-- `RREL.__call__`: the arguments handed to `find`, and `self` afterwards -/
def RrelObj.call {P T : Type} (self : RrelObj T) (name : String) (ruleSplit : Option String) :
    Call P T × RrelObj T :=
  let split := delimiter self.split ruleSplit
  (.find self.tree split (name.splitOn split), self)

/-- one provider object called for a list of references (name, `split` of the
match rule), one after the other, `self` threaded through -/
def RrelObj.callSeq {P T : Type} (self : RrelObj T) :
    List (String × Option String) → List (Call P T) × RrelObj T
  | [] => ([], self)
  | (name, rs) :: rest =>
    let (c, self') := self.call (P := P) name rs
    let (cs, self'') := self'.callSeq rest
    (c :: cs, self'')

/-- the call made for one reference.  `view p` tells whether the user-supplied
provider object `p` is an RREL provider object (and which). -/
def callOf {P T : Type} (order : List KeyExpr) (view : P → Option (RrelObj T)) (d : Dict P T)
    (r : Ref T) : Call P T :=
  match select order d r.cls r.attr r.g with
  | .rrel t => ((RrelObj.mk t none).call r.name r.ruleSplit).1
  | .custom p =>
    match view p with
    | some o => (o.call r.name r.ruleSplit).1
    | none => .user p
  | .default => .dflt

/-- one step of a meta-model's life: optionally `register_scope_providers(raw)`
(replaces the dictionary), then a model whose references are resolved -/
structure Step (P T : Type) where
  reg : Option (List (String × RegVal P))
  refs : List (Ref T)

/-- the calls of a whole history, step by step -/
def run {P T : Type} (order : List KeyExpr) (view : P → Option (RrelObj T)) (parse : String → T)
    (d : Dict P T) : List (Step P T) → List (List (Call P T))
  | [] => []
  | s :: rest =>
    let d' := match s.reg with
      | some raw => register parse raw
      | none => d
    (s.refs.map (callOf order view d')) :: run order view parse d' rest

/-! ## around the provider call: one reference in `resolve_one_step`

```
for obj, attr, crossref in current_crossrefs:
    …                                                  # nothing looks at the name before this point
    resolved = <selected provider>(obj, attr, crossref)            # `callOf`
    …                                                  # (textx-tools position list: no influence)
    if resolved is None and metamodel.builtins and crossref.obj_name in metamodel.builtins:
        if textx_isinstance(metamodel.builtins[crossref.obj_name], crossref.cls):
            resolved = metamodel.builtins[crossref.obj_name]       # fall-back
    if resolved is None: raise TextXSemanticError("Unknown object …")
    if type(resolved) is Postponed: delayed (the reference is handed in again in the next pass)
    else: setattr / list insert
```
The meta-model's configuration (`builtins=`; `textx_tools_support`, user classes, … have no
statement in between) surrounds the call, it must not replace it.  `O` = model objects. -/

/-- what a provider returns -/
inductive Answer (O : Type) where
  | found (o : O)
  | nothing      -- `None`
  | postponed    -- `Postponed()`
deriving DecidableEq, Repr

/-- the part of the meta-model the linking phase reads besides `scope_providers` -/
structure Env (O : Type) where
  /-- `metamodel.builtins` (a dict: first entry with the key) -/
  builtins : List (String × O)
  /-- `textx_isinstance(·, crossref.cls)` -/
  conforms : O → Bool

/-- the fall-back block: the builtin of that name, if it is of the class the reference asks for -/
def Env.builtin? {O : Type} (env : Env O) (name : String) : Option O :=
  match env.builtins.lookup name with
  | some b => if env.conforms b then some b else none
  | none => none

/-- what becomes of a reference in one pass -/
inductive Result (O : Type) where
  | bound (o : O)
  | unknown      -- "Unknown object" error
  | delayed      -- asked again in the next pass
deriving DecidableEq, Repr

/-- one reference in one pass of `resolve_one_step`: the provider calls made (in order) and the
result.  `ask` = what the called provider returns. -/
def resolveRef {P T O : Type} (order : List KeyExpr) (view : P → Option (RrelObj T)) (d : Dict P T)
    (env : Env O) (ask : Call P T → Answer O) (r : Ref T) : List (Call P T) × Result O :=
  let c := callOf order view d r
  let resolved := ask c
  let resolved : Answer O :=
    match resolved with
    | .nothing =>
      match env.builtin? r.name with
      | some b => .found b
      | none => .nothing
    | a => a
  match resolved with
  | .found o => ([c], .bound o)
  | .nothing => ([c], .unknown)
  | .postponed => ([c], .delayed)

/-- the passes the outer loop of `parse_tree_to_objgraph` grants a reference: `asks` = what the
providers answer in pass 1, 2, …; a delayed reference is handed to `resolve_one_step` again -/
def resolvePasses {P T O : Type} (order : List KeyExpr) (view : P → Option (RrelObj T)) (d : Dict P T)
    (env : Env O) (r : Ref T) : List (Call P T → Answer O) → List (Call P T) × Result O
  | [] => ([], .delayed)
  | ask :: rest =>
    match resolveRef order view d env ask r with
    | (cs, .delayed) =>
      let (cs', res) := resolvePasses order view d env r rest
      (cs ++ cs', res)
    | done => done

end Select
