/-!
# Scope provider selection (textx/model.py `resolve_one_step`, textx/metamodel.py
`register_scope_providers`, textx/lang.py `visit_assignment`)

```
attr_refs = [cls + "." + attr, "*." + attr, cls + ".*", "*.*"]      -- Gen.providerOrder
if crossref.scope_provider is not None:  resolved = crossref.scope_provider(...)
else:
    for attr_ref in attr_refs:
        if attr_ref in metamodel.scope_providers:
            resolved = metamodel.scope_providers[attr_ref](...); break
    else:
        resolved = default_scope(...)
```
`select` returns *which* provider is called.  The key expressions are data
(`KeyExpr`), regenerated from the source list expression on every run
(`TextxVerif/Gen/ProviderOrder.lean`).

`P` = user-supplied provider objects, `T` = RREL expression trees.
Model file: core Lean only.
-/
namespace Select

/-- one operand of a `+` chain building a lookup key -/
inductive Piece where
  | lit (s : String)
  | cls   -- obj.__class__.__name__
  | attr  -- attr.name
deriving DecidableEq, Repr

abbrev KeyExpr := List Piece

def Piece.eval (cls attr : String) : Piece → String
  | .lit s => s
  | .cls => cls
  | .attr => attr

/-- Python `a + b + c` (left associative) -/
def KeyExpr.eval (e : KeyExpr) (cls attr : String) : String :=
  e.foldl (fun acc p => acc ++ p.eval cls attr) ""

/-- the provider that gets called for a reference -/
inductive Provider (P T : Type) where
  | custom (p : P)
  | rrel (t : T)
  | default
deriving DecidableEq, Repr

/-- value of a `register_scope_providers` dictionary entry -/
inductive RegVal (P : Type) where
  | prov (p : P)
  | str (s : String)
deriving DecidableEq, Repr

/-- `metamodel.scope_providers`: association list, `k in d` / `d[k]` = first entry
with that key (a Python dict has one entry per key) -/
abbrev Dict (P T : Type) := List (String × Provider P T)

def Dict.get? {P T : Type} (d : Dict P T) (k : String) : Option (Provider P T) :=
  match d with
  | [] => none
  | (k', v) :: rest => if k' = k then some v else Dict.get? rest k

/-- `create_rrel_scope_provider(v)` on a string parses it (`rrel.parse`) -/
def convert {P T : Type} (parse : String → T) : RegVal P → Provider P T
  | .prov p => .custom p
  | .str s => .rrel (parse s)

/-- `register_scope_providers`: strings are replaced by RREL providers, in place -/
def register {P T : Type} (parse : String → T) (raw : List (String × RegVal P)) : Dict P T :=
  raw.map fun (k, v) => (k, convert parse v)

/-- the `for attr_ref in attr_refs: if attr_ref in …: …; break` loop; `none` = the
`else` branch of the `for` -/
def lookupLoop {P T : Type} (d : Dict P T) : List String → Option (Provider P T)
  | [] => none
  | k :: ks =>
    match d.get? k with
    | some p => some p
    | none => lookupLoop d ks

/-- provider called for a reference of attribute `attr` on an object of class
`cls`; `g` = RREL tree attached to the reference (`crossref.scope_provider`) -/
def select {P T : Type} (order : List KeyExpr) (d : Dict P T) (cls attr : String)
    (g : Option T) : Provider P T :=
  match g with
  | some t => .rrel t
  | none => (lookupLoop d (order.map (·.eval cls attr))).getD .default

/-! ## which RREL tree is attached to a reference

A rule body assigns attributes at several places ("occurrences"); each
occurrence may carry an RREL expression.  After the repair the reference
created at occurrence `i` carries that occurrence's expression.  The pinned code
kept one expression per attribute: that of the occurrence processed last. -/

/-- an assignment `attr=[Cls|Rule|rrel?]` inside one rule -/
structure Occ (T : Type) where
  attr : String
  rrel : Option T
deriving Repr, DecidableEq

/-- repaired: the RREL written at the occurrence itself -/
def occRrel {T : Type} (occs : List (Occ T)) (i : Nat) : Option T :=
  match occs[i]? with
  | some o => o.rrel
  | none => none

/-- pinned: `cls_attr.scope_provider` is overwritten by every occurrence of the
same attribute, so the last one wins for all of them -/
def occRrelLastWins {T : Type} (occs : List (Occ T)) (i : Nat) : Option T :=
  match occs[i]? with
  | some o => ((occs.filter (fun o' => o'.attr = o.attr)).getLast?).bind (·.rrel)
  | none => none

end Select
