import TextxVerif.Gen.DotExport
/-!
# DOT side of the graph exports (C29): escaping, a DOT recogniser, record labels

* `dotEscape`, `dotRepr` — `textx/export.py:110-138`, driven by the tables regenerated
  from the source (`Gen.Dot`): the chain of `str.replace` calls and the truncation.
* `steps` / `lex` — a lexer for the DOT subset the exports use: identifiers, numerals,
  double-quoted strings (a backslash protects the next character, so `\"` does not end
  the string), HTML strings `<…>` with nested angle brackets, `->`, punctuation.
* `psteps` / `parse` — a push-down recogniser for `digraph name { stmt* }` with node,
  edge, attribute, assignment and (nested) subgraph statements; it returns the list of
  statements it saw (`Ev`).
* `recOk` — Graphviz record labels (`shape=record`): fields separated by `|`, nested
  `{…}`, ports `<…>`, backslash escapes.

Everything is a fold over the input with an explicit state, so the behaviour on a
concatenation is the composition of the behaviours on the parts.
-/
/-- `cl!"abc"` is the character list `['a', 'b', 'c']` (expanded at elaboration time, so no
`String.toList` has to be unfolded in proofs) -/
macro:max "cl!" s:str : term => do
  let elems ← s.getString.toList.mapM fun c => `($(Lean.Syntax.mkCharLit c))
  `([$(elems.toArray),*])

namespace Dot

abbrev Str := List Char

/-! ## 1. `dot_escape`, `dot_repr`, `html.escape` -/

/-- Python `s.replace(c, new)` for a one-character `c` -/
def replace1 (c : Char) (new : Str) (s : Str) : Str :=
  s.flatMap fun x => if x = c then new else [x]

/-- the chain `s.replace(..).replace(..)…`, first pair applied first -/
def applyPairs (ps : List (Char × Str)) (s : Str) : Str :=
  ps.foldl (fun acc p => replace1 p.1 p.2 acc) s

def dotEscape (s : Str) : Str := applyPairs Gen.Dot.escapePairs s

/-- `dot_repr` on a `str` argument -/
def dotRepr (s : Str) : Str :=
  let e := dotEscape s
  if e.length > Gen.Dot.reprLimit then
    Gen.Dot.reprOpenLong ++ e.take Gen.Dot.reprTake ++ Gen.Dot.reprCloseLong
  else Gen.Dot.reprOpenShort ++ e ++ Gen.Dot.reprCloseShort

/-- `html.escape(s)` (quote=True) of the standard library: `&` first, then `< > " '` -/
def htmlEscChar (c : Char) : Str :=
  if c = '&' then cl!"&amp;"
  else if c = '<' then cl!"&lt;"
  else if c = '>' then cl!"&gt;"
  else if c = '"' then cl!"&quot;"
  else if c = '\'' then cl!"&#x27;"
  else [c]

def htmlEscape (s : Str) : Str := s.flatMap htmlEscChar

/-! ## 2. Lexer -/

inductive Tok
  | id (s : Str)      -- identifier (may be a keyword)
  | num (s : Str)     -- numeral
  | qstr (s : Str)    -- double-quoted string, raw content between the quotes
  | html (s : Str)    -- HTML string, content between the outer angle brackets
  | lbrack | rbrack | lbrace | rbrace | eq | comma | semi | colon | arrow
  deriving DecidableEq, Repr

inductive LState
  | start
  | word (acc : Str)                 -- reversed characters of an identifier / numeral
  | str (acc : Str) (esc : Bool)     -- inside "…"; `esc`: previous character was an unescaped backslash
  | html (acc : Str) (depth : Nat)   -- inside <…>; `depth` = open angle brackets - 1
  | minus                            -- after `-`
  deriving DecidableEq, Repr

def isWs (c : Char) : Bool := c = ' ' || c = '\n' || c = '\t' || c = '\r'

/-- characters of identifiers and numerals: letters, digits, `_`, `.`, and everything ≥ 128 -/
def isWordChar (c : Char) : Bool := c.isAlphanum || c = '_' || c = '.' || c.toNat ≥ 128

def isIdStart (c : Char) : Bool := c.isAlpha || c = '_' || c.toNat ≥ 128
def isIdChar (c : Char) : Bool := c.isAlphanum || c = '_' || c.toNat ≥ 128

/-- `[a-zA-Z_\200-\377][a-zA-Z_0-9\200-\377]*` -/
def isIdent : Str → Bool
  | [] => false
  | c :: cs => isIdStart c && cs.all isIdChar

/-- digits after the decimal point -/
def allDigits (s : Str) : Bool := s.all Char.isDigit

/-- `[0-9]+(\.[0-9]*)? | \.[0-9]+`   (a leading minus is not part of the subset) -/
def isNumeral (s : Str) : Bool :=
  let ip := s.takeWhile Char.isDigit
  match s.dropWhile Char.isDigit with
  | [] => !ip.isEmpty
  | c :: fr => c = '.' && allDigits fr && (!ip.isEmpty || !fr.isEmpty)

def wordTok (w : Str) : Option Tok :=
  if isNumeral w then some (.num w) else if isIdent w then some (.id w) else none

def punct (c : Char) : Option Tok :=
  if c = '[' then some .lbrack else if c = ']' then some .rbrack
  else if c = '{' then some .lbrace else if c = '}' then some .rbrace
  else if c = '=' then some .eq else if c = ',' then some .comma
  else if c = ';' then some .semi else if c = ':' then some .colon
  else none

/-- one character in the `start` state -/
def startStep (c : Char) : Option (LState × List Tok) :=
  if isWs c then some (.start, [])
  else if isWordChar c then some (.word [c], [])
  else if c = '"' then some (.str [] false, [])
  else if c = '<' then some (.html [] 0, [])
  else if c = '-' then some (.minus, [])
  else match punct c with
    | some t => some (.start, [t])
    | none => none

def step : LState → Char → Option (LState × List Tok)
  | .start, c => startStep c
  | .word acc, c =>
    if isWordChar c then some (.word (c :: acc), [])
    else match wordTok acc.reverse, startStep c with
      | some t, some (st, ts) => some (st, t :: ts)
      | _, _ => none
  | .str acc true, c => some (.str (c :: acc) false, [])
  | .str acc false, c =>
    if c = '"' then some (.start, [.qstr acc.reverse])
    else if c = '\\' then some (.str (c :: acc) true, [])
    else some (.str (c :: acc) false, [])
  | .html acc d, c =>
    if c = '<' then some (.html (c :: acc) (d + 1), [])
    else if c = '>' then
      match d with
      | 0 => some (.start, [.html acc.reverse])
      | d' + 1 => some (.html (c :: acc) d', [])
    else some (.html (c :: acc) d, [])
  | .minus, c => if c = '>' then some (.start, [.arrow]) else none

def steps : LState → Str → Option (LState × List Tok)
  | st, [] => some (st, [])
  | st, c :: cs =>
    match step st c with
    | none => none
    | some (st', ts) =>
      match steps st' cs with
      | none => none
      | some (st'', ts') => some (st'', ts ++ ts')

/-- end of input: only `start` or a complete word may be pending -/
def finish : LState → Option (List Tok)
  | .start => some []
  | .word acc => (wordTok acc.reverse).map ([·])
  | _ => none

def lex (s : Str) : Option (List Tok) :=
  match steps .start s with
  | none => none
  | some (st, ts) => (finish st).map (ts ++ ·)

/-! ## 3. Parser -/

def lower (s : Str) : Str := s.map Char.toLower

/-- DOT keywords are case-insensitive -/
def isKw (s : Str) : Bool :=
  let l := lower s
  l = cl!"node" || l = cl!"edge" || l = cl!"graph" || l = cl!"digraph"
    || l = cl!"subgraph" || l = cl!"strict"

/-- a token usable as an `ID` (names, attribute keys and values) -/
def isIdTok : Tok → Bool
  | .id s => !isKw s
  | .num _ => true
  | .qstr _ => true
  | .html _ => true
  | _ => false

inductive Owner
  | node (i : Tok)
  | edge (a b : Tok)
  | dflt (kind : Str)
  deriving DecidableEq, Repr

/-- what the recogniser saw, in order -/
inductive Ev
  | node (i : Tok) (attrs : List (Tok × Tok))
  | edge (a b : Tok) (attrs : List (Tok × Tok))
  | dflt (kind : Str) (attrs : List (Tok × Tok))
  | assign (k v : Tok)
  | sub (name : Option Tok)
  | close
  deriving DecidableEq, Repr

def Owner.ev : Owner → List (Tok × Tok) → Ev
  | .node i, as => .node i as
  | .edge a b, as => .edge a b as
  | .dflt k, as => .dflt k as

inductive PMode
  | g0 | g1 | g2
  | stmt                      -- start of a statement, no `;` allowed
  | stmtEnd                   -- after a complete statement: one optional `;`
  | afterId (i : Tok)
  | afterEq (k : Tok)
  | afterArrow (a : Tok)
  | afterEdge (a b : Tok)
  | kw (kind : Str)           -- after node / edge / graph: `[` must follow
  | attrs (o : Owner) (acc : List (Tok × Tok)) (sep : Bool)   -- inside [ ]; `sep`: a separator may come
  | attrKey (o : Owner) (acc : List (Tok × Tok)) (k : Tok)
  | attrEq (o : Owner) (acc : List (Tok × Tok)) (k : Tok)
  | afterAttrs (o : Owner) (acc : List (Tok × Tok))
  | sub0 | sub1 (name : Tok)
  | done
  deriving DecidableEq, Repr

structure PState where
  depth : Nat
  mode : PMode
  out : List Ev        -- reversed
  deriving DecidableEq, Repr

def PState.emit (s : PState) (e : Ev) (m : PMode) : PState := { s with out := e :: s.out, mode := m }

/-- a token at the start of a statement (`semi`: an optional `;` is allowed here) -/
def stmtTok (s : PState) (semi : Bool) (t : Tok) : Option PState :=
  match t with
  | .semi => if semi then some { s with mode := .stmt } else none
  | .rbrace =>
    match s.depth with
    | 0 => none
    | 1 => some { s with depth := 0, mode := .done }
    | d + 2 => some { depth := d + 1, mode := .stmtEnd, out := .close :: s.out }
  | .lbrace => some { depth := s.depth + 1, mode := .stmt, out := .sub none :: s.out }
  | .id w =>
    let l := lower w
    if l = cl!"subgraph" then some { s with mode := .sub0 }
    else if l = cl!"node" || l = cl!"edge" || l = cl!"graph" then some { s with mode := .kw l }
    else if isKw w then none
    else some { s with mode := .afterId t }
  | .num _ | .qstr _ | .html _ => some { s with mode := .afterId t }
  | _ => none

def pstep (s : PState) (t : Tok) : Option PState :=
  match s.mode with
  | .g0 => if t = .id cl!"digraph" then some { s with mode := .g1 } else none
  | .g1 =>
    if t = .lbrace then some { s with depth := 1, mode := .stmt }
    else if isIdTok t then some { s with mode := .g2 } else none
  | .g2 => if t = .lbrace then some { s with depth := 1, mode := .stmt } else none
  | .stmt => stmtTok s false t
  | .stmtEnd => stmtTok s true t
  | .afterId i =>
    match t with
    | .lbrack => some { s with mode := .attrs (.node i) [] false }
    | .eq => some { s with mode := .afterEq i }
    | .arrow => some { s with mode := .afterArrow i }
    | _ => stmtTok (s.emit (.node i []) .stmtEnd) true t
  | .afterEq k => if isIdTok t then some (s.emit (.assign k t) .stmtEnd) else none
  | .afterArrow a => if isIdTok t then some { s with mode := .afterEdge a t } else none
  | .afterEdge a b =>
    match t with
    | .lbrack => some { s with mode := .attrs (.edge a b) [] false }
    | .arrow => none
    | _ => stmtTok (s.emit (.edge a b []) .stmtEnd) true t
  | .kw k => if t = .lbrack then some { s with mode := .attrs (.dflt k) [] false } else none
  | .attrs o acc sep =>
    match t with
    | .rbrack => some { s with mode := .afterAttrs o acc }
    | .comma | .semi => if sep then some { s with mode := .attrs o acc false } else none
    | _ => if isIdTok t then some { s with mode := .attrKey o acc t } else none
  | .attrKey o acc k => if t = .eq then some { s with mode := .attrEq o acc k } else none
  | .attrEq o acc k => if isIdTok t then some { s with mode := .attrs o (acc ++ [(k, t)]) true } else none
  | .afterAttrs o acc =>
    if t = .lbrack then some { s with mode := .attrs o acc false }
    else stmtTok (s.emit (o.ev acc) .stmtEnd) true t
  | .sub0 =>
    if t = .lbrace then some { depth := s.depth + 1, mode := .stmt, out := .sub none :: s.out }
    else if isIdTok t then some { s with mode := .sub1 t } else none
  | .sub1 n =>
    if t = .lbrace then some { depth := s.depth + 1, mode := .stmt, out := .sub (some n) :: s.out } else none
  | .done => none

def psteps : PState → List Tok → Option PState
  | s, [] => some s
  | s, t :: ts =>
    match pstep s t with
    | none => none
    | some s' => psteps s' ts

def pinit : PState := { depth := 0, mode := .g0, out := [] }

/-- the statements of a token sequence that is a complete `digraph … { … }` -/
def parse (ts : List Tok) : Option (List Ev) :=
  match psteps pinit ts with
  | some s => if s.mode = .done then some s.out.reverse else none
  | none => none

/-- text → statements -/
def recognise (s : Str) : Option (List Ev) :=
  match lex s with
  | none => none
  | some ts => parse ts

/-! ## 4. Record labels (`shape=record`) -/

inductive RMode
  | fresh                 -- nothing in this field yet: `{` may come
  | text (port : Bool)    -- the field has text and / or a finished port
  | inPort
  | table                 -- directly after `}`
  deriving DecidableEq, Repr

structure RState where
  depth : Nat
  mode : RMode
  esc : Bool
  deriving DecidableEq, Repr

def rstep (s : RState) (c : Char) : Option RState :=
  if s.esc then
    match s.mode with
    | .table => none
    | .inPort => some { s with esc := false }
    | .fresh => some { s with esc := false, mode := .text false }
    | .text p => some { s with esc := false, mode := .text p }
  else if c = '\\' then
    match s.mode with
    | .table => none
    | _ => some { s with esc := true }
  else if c = '{' then
    match s.mode with
    | .fresh => some { s with depth := s.depth + 1 }
    | _ => none
  else if c = '}' then
    match s.mode, s.depth with
    | .inPort, _ => none
    | _, 0 => none
    | _, d + 1 => some { depth := d, mode := .table, esc := false }
  else if c = '|' then
    match s.mode with
    | .inPort => none
    | _ => some { s with mode := .fresh }
  else if c = '<' then
    match s.mode with
    | .fresh | .text false => some { s with mode := .inPort }
    | _ => none
  else if c = '>' then
    match s.mode with
    | .inPort => some { s with mode := .text true }
    | _ => none
  else if c = ' ' then some s
  else
    match s.mode with
    | .table => none
    | .inPort => some s
    | .fresh => some { s with mode := .text false }
    | .text p => some { s with mode := .text p }

def rsteps : RState → Str → Option RState
  | s, [] => some s
  | s, c :: cs =>
    match rstep s c with
    | none => none
    | some s' => rsteps s' cs

def rinit : RState := { depth := 0, mode := .fresh, esc := false }

/-- is the (raw) content of a quoted string a well-formed record label? -/
def recOk (s : Str) : Bool :=
  match rsteps rinit s with
  | some r => r.depth = 0 && !r.esc && r.mode != .inPort
  | none => false

/-! ## 5. Fragments that are safe inside quoted strings and record fields -/

/-- characters that must not occur unescaped in a hole of a label -/
def isSpecial (c : Char) : Bool :=
  c = '"' || c = '{' || c = '}' || c = '|' || c = '<' || c = '>'

def isQuote (c : Char) : Bool := c = '"'

/-- scan a fragment: `esc` = the previous character was an unescaped backslash;
`none` when an unescaped `bad` character is met -/
def scan (bad : Char → Bool) : Bool → Str → Option Bool
  | e, [] => some e
  | true, _ :: cs => scan bad false cs
  | false, c :: cs =>
    if c = '\\' then scan bad true cs else if bad c then none else scan bad false cs

/-- a fragment that can be spliced into a quoted record label: no unescaped special
character and no dangling backslash at its end -/
def Safe (s : Str) : Prop := scan isSpecial false s = some false

/-- a fragment that can be spliced into a quoted string -/
def QSafe (s : Str) : Prop := scan isQuote false s = some false

instance (s : Str) : Decidable (Safe s) := inferInstanceAs (Decidable (_ = _))
instance (s : Str) : Decidable (QSafe s) := inferInstanceAs (Decidable (_ = _))

/-- angle-bracket depth inside an HTML string -/
def angle : Nat → Str → Option Nat
  | d, [] => some d
  | d, c :: cs =>
    if c = '<' then angle (d + 1) cs
    else if c = '>' then (match d with | 0 => none | d' + 1 => angle d' cs)
    else angle d cs

def NoAngle (s : Str) : Prop := ∀ c ∈ s, c ≠ '<' ∧ c ≠ '>'

end Dot
