import TextxVerif.ProcWalk
import TextxVerif.ProcLocate
import TextxVerif.LinkLoc
/-!
# Proc.Raise — a processor that raises during the object-processor walk (C33 ∘ C13)

Two pieces that tie the closed-form location model of `ProcLocate.lean` (C33) to
text offsets and to the walk of `ProcWalk.lean` (C13):

* `siteOf` — `get_location(model_obj)` (textx/model.py) computed from what it
  reads: the text of the model's parser (`the_model._tx_parser.pos_to_linecol`,
  mirrored by `LinkLoc.posToLineCol`), `_tx_position`, `_tx_position_end` and
  `the_model._tx_filename`.  For match processors the same computation is made by
  `process_match` / `process_node` with the position of the match node.
* `walkE` — `call_obj_processors` when processor calls can raise: `R rule id`
  says whether the processor registered for `rule` raises when called on object
  `id`.  An exception leaves the recursion at once: nothing after the raising call
  runs, the calls made before it are the calls of the exception-free walk.  The
  statements are the ones of `Proc.walk`; after every call that can raise the
  model checks `R` and stops (`Except.error`), carrying the calls completed so far.
* `loadE` — `for m in models: call_obj_processors(m._tx_metamodel, m)`: the first
  model whose walk raises ends the load.
* `walkErr` — the error that leaves the load: `TextXMetaModel.process` enriches
  what the processor (or `textxerror_wrap` around it) raised with
  `get_location(model_obj)` of the object the failing call was made on.

Core Lean only.
-/
namespace Proc

/-! ## the processed text, from offsets -/

/-- `get_location(model_obj)`: `file` = `the_model._tx_filename`, `text` = input of
`the_model._tx_parser`, `pos`/`posEnd` = `_tx_position`/`_tx_position_end`.
(`process_match`: `parser.file_name`, `parser.pos_to_linecol(node.position)`.) -/
def siteOf (file : Option Nat) (text : List Char) (pos posEnd : Nat) : Site :=
  ⟨file, (LinkLoc.posToLineCol text pos).1, (LinkLoc.posToLineCol text pos).2.toNat, posEnd - pos⟩

/-- the same for a model file as `LinkLoc` (C28) describes it; `enc` numbers file names -/
def siteOfFile (enc : String → Nat) (f : LinkLoc.FileSpec) (pos posEnd : Nat) : Site :=
  siteOf (f.name.map enc) f.text pos posEnd

/-! ## the walk with raising processors -/

/-- `R rule id`: the processor registered for `rule` raises when called on object `id` -/
abbrev Raises := Nat → Nat → Bool

/-- how a walk ends when a processor raises: the calls completed before, and the
call that raised (with the state of its object at call time) -/
structure Fail where
  log : List Entry
  call : Entry

/-- body of `call_obj_processors` once the attribute loop is done (or has raised) -/
def objStepE (M : MM) (S : Script) (R : Raises) (id cls : Nat) (fs : Fields) (gm : Nat)
    (r : Except Fail (List Entry × Fields)) : Except Fail Res :=
  -- `if metaclass_of_grammar_rule._tx_type is RULE_MATCH: return` (before the attribute loop)
  if M.kind gm = .mtch then .ok ⟨[], Option.none, .obj id cls fs⟩
  else
    match r with
    | .error f => .error f
    | .ok r =>
      -- own-rule processor
      if (decide (cls ≠ gm) && M.hasProc cls) && R cls id then
        .error ⟨r.1, ⟨cls, id, .obj id cls r.2⟩⟩
      -- declared rule's processor
      else if M.hasProc gm && R gm id then
        .error ⟨r.1 ++ (if decide (cls ≠ gm) && M.hasProc cls then [⟨cls, id, .obj id cls r.2⟩] else []),
                ⟨gm, id, .obj id cls r.2⟩⟩
      -- no call raised: the statements of the exception-free walk
      else .ok (objStep M S id cls fs gm r)

mutual
def walkFieldsE (M : MM) (S : Script) (R : Raises) : Fields → Except Fail (List Entry × Fields)
  | .nil => .ok ([], .nil)
  | .cons a v rest =>
    match (if a.cont then walkSlotE M S R a.many a.cls v else .ok ([], v)) with
    | .error f => .error f
    | .ok r1 =>
      match walkFieldsE M S R rest with
      | .error f => .error ⟨r1.1 ++ f.log, f.call⟩
      | .ok r2 => .ok (r1.1 ++ r2.1, .cons a r1.2 r2.2)
def walkSlotE (M : MM) (S : Script) (R : Raises) (many : Bool) (gm : Nat) : Val → Except Fail (List Entry × Val)
  | .obj id cls fs =>
    if many then .ok ([], .obj id cls fs)
    else
      match objStepE M S R id cls fs gm (walkFieldsE M S R fs) with
      | .error f => .error f
      | .ok r => .ok (r.log, slotVal r)
  | .list xs =>
    if many then
      match walkItemsE M S R gm xs with
      | .error f => .error f
      | .ok r => .ok (r.1, .list r.2)
    else .ok ([], .list xs)
  | v => .ok ([], v)
def walkItemsE (M : MM) (S : Script) (R : Raises) (gm : Nat) : Vals → Except Fail (List Entry × Vals)
  | .nil => .ok ([], .nil)
  | .cons x xs =>
    match walkSlotE M S R false gm x with
    | .error f => .error f
    | .ok r1 =>
      match walkItemsE M S R gm xs with
      | .error f => .error ⟨r1.1 ++ f.log, f.call⟩
      | .ok r2 => .ok (r1.1 ++ r2.1, .cons r1.2 r2.2)
end

/-- `call_obj_processors(metamodel, model_obj, metaclass_of_grammar_rule)` with raising processors -/
def walkE (M : MM) (S : Script) (R : Raises) (v : Val) (gm : Nat) : Except Fail Res :=
  match v with
  | .obj id cls fs => objStepE M S R id cls fs gm (walkFieldsE M S R fs)
  | v => .ok ⟨[], Option.none, v⟩

/-- `for m in models: call_obj_processors(m._tx_metamodel, m)`: index of the model whose
walk raised, or the results of all walks -/
def loadE (S : Script) (R : Raises) : List (MM × Val) → Except (Nat × Fail) (List Res)
  | [] => .ok []
  | mv :: vs =>
    match walkE mv.1 S R mv.2 mv.2.cls with
    | .error f => .error (0, f)
    | .ok r =>
      match loadE S R vs with
      | .error kf => .error (kf.1 + 1, kf.2)
      | .ok rs => .ok (r :: rs)

/-! ### specification side: the first raising call of a call sequence -/

/-- cut a call log at its first raising call -/
def cut (R : Raises) : List Entry → Option Fail
  | [] => none
  | e :: es =>
    if R e.rule e.id then some ⟨[], e⟩
    else
      match cut R es with
      | some f => some ⟨e :: f.log, f.call⟩
      | none => none

/-! ## the error that leaves the load -/

/-- text and object spans of one model: `_tx_filename`, parser input, and
`(_tx_position, _tx_position_end)` of every object (by id) -/
structure Src where
  file : Option Nat
  text : List Char
  span : Nat → Nat × Nat

/-- `TextXMetaModel.process(model_obj, rule, **get_location(model_obj))` around the
raising call `c`: `wrapped rule` = the processor of `rule` is decorated with
`textxerror_wrap`, `raised` = what it raises -/
def procError (src : Src) (wrapped : Nat → Bool) (raised : Raised) (c : Entry) : Raised :=
  outcome .obj (siteOf src.file src.text (src.span c.id).1 (src.span c.id).2) (wrapped c.rule) raised

/-- the walk of one model: `none` when no processor raised, else the error the
load fails with -/
def walkErr (M : MM) (S : Script) (R : Raises) (src : Src) (wrapped : Nat → Bool)
    (raisedOf : Nat → Nat → Raised) (v : Val) (gm : Nat) : Option Raised :=
  match walkE M S R v gm with
  | .error f => some (procError src wrapped (raisedOf f.call.rule f.call.id) f.call)
  | .ok _ => none

/-- a load of several models (`srcs`: text and spans of each, same order): the error
it fails with is located in the file of the model whose walk raised -/
def loadErr (S : Script) (R : Raises) (srcs : List Src) (wrapped : Nat → Bool)
    (raisedOf : Nat → Nat → Raised) (ms : List (MM × Val)) : Option Raised :=
  match loadE S R ms with
  | .error kf =>
    match srcs[kf.1]? with
    | some src => some (procError src wrapped (raisedOf kf.2.call.rule kf.2.call.id) kf.2.call)
    | none => none
  | .ok _ => none

end Proc
