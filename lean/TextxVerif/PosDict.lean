/-!
# Editor support: the position → object map (`model._pos_rule_dict`)

Mirrors (after the `fix:` commits of branch `fix/C28`) in `textx/model.py`

* `process_node`: objects are created top-down, but the statement
  `if pos not in pos_rule_dict: pos_rule_dict[pos] = inst` runs after the child
  nodes were processed (post-order)                                → `collect`
* `OrderedDict(sorted(pos_rule_dict.items(), key=lambda x: (-x[0][0], x[0][1])))`
                                                                     → `posRuleDict`

An object tree is the containment tree of the objects `process_node` creates,
children in text order; `id` stands for the Python object identity.
A Python `dict` is an insertion-ordered association list.
Model file: core Lean only.
-/
namespace PosDict

inductive ONode where
  | mk (id : Nat) (s e : Nat) (kids : List ONode)
deriving Repr

namespace ONode
def id : ONode → Nat | .mk i _ _ _ => i
def s : ONode → Nat | .mk _ s _ _ => s
def e : ONode → Nat | .mk _ _ e _ => e
def kids : ONode → List ONode | .mk _ _ _ ks => ks
/-- `(inst._tx_position, inst._tx_position_end)` -/
def span (n : ONode) : Nat × Nat := (n.s, n.e)
end ONode

abbrev Item := (Nat × Nat) × Nat
abbrev Dict := List Item

/-- `pos in pos_rule_dict` -/
def has (d : Dict) (k : Nat × Nat) : Bool := d.any (fun it => it.1 == k)

/-- `if pos not in d: d[pos] = inst` -/
def setDefault (d : Dict) (k : Nat × Nat) (v : Nat) : Dict :=
  if has d k then d else d ++ [(k, v)]

/-- pinned: `d[pos] = inst` (a later writer replaces the value, the key keeps its place) -/
def setOverwrite (d : Dict) (k : Nat × Nat) (v : Nat) : Dict :=
  if has d k then d.map (fun it => if it.1 == k then (k, v) else it) else d ++ [(k, v)]

mutual
/-- `process_node` as far as `pos_rule_dict` is concerned -/
def collect : ONode → Dict → Dict
  | .mk id s e kids, d => setDefault (collectList kids d) (s, e) id
def collectList : List ONode → Dict → Dict
  | [], d => d
  | k :: ks, d => collectList ks (collect k d)
end

mutual
def collectPinned : ONode → Dict → Dict
  | .mk id s e kids, d => setOverwrite (collectListPinned kids d) (s, e) id
def collectListPinned : List ONode → Dict → Dict
  | [], d => d
  | k :: ks, d => collectListPinned ks (collectPinned k d)
end

/-- comparison of the sort keys `(-start, end)` -/
def keyLe (a b : Item) : Bool := decide (a.1.1 > b.1.1) || (a.1.1 == b.1.1 && decide (a.1.2 ≤ b.1.2))

/-- pinned: `sorted(..., key=lambda x: x[0], reverse=True)` -/
def keyLePinned (a b : Item) : Bool := decide (a.1.1 > b.1.1) || (a.1.1 == b.1.1 && decide (a.1.2 ≥ b.1.2))

/-- `model._pos_rule_dict` (Python's `sorted` is a stable sort, as is `mergeSort`) -/
def posRuleDict (t : ONode) : Dict := (collect t []).mergeSort keyLe

def posRuleDictPinned (t : ONode) : Dict := (collectPinned t []).mergeSort keyLePinned

/-! ## vocabulary of the specification -/

mutual
/-- all objects of the tree (the root included) -/
def nodes : ONode → List ONode
  | .mk id s e kids => .mk id s e kids :: nodesList kids
def nodesList : List ONode → List ONode
  | [] => []
  | k :: ks => nodes k ++ nodesList ks
end

/-- objects strictly inside `n` -/
def properDesc (n : ONode) : List ONode := nodesList n.kids

/-- span `a` lies inside span `b` -/
def inside (a b : Nat × Nat) : Prop := b.1 ≤ a.1 ∧ a.2 ≤ b.2

mutual
/-- geometry of a parse: an object covers a non-empty text, its children lie inside
it, in text order, without overlap -/
def wf : ONode → Bool
  | .mk _ s e kids => decide (s < e) && wfList s e kids
def wfList (lo hi : Nat) : List ONode → Bool
  | [] => true
  | k :: ks => decide (lo ≤ k.s) && decide (k.e ≤ hi) && wf k && wfList k.e hi ks
end

/-- `k` does not overlap any of `ks` (in either order) -/
def disjointFrom (k : ONode) : List ONode → Bool
  | [] => true
  | x :: xs => (decide (k.e ≤ x.s) || decide (x.e ≤ k.s)) && disjointFrom k xs

mutual
/-- order-free geometry of a parse — what `Obj.build` guarantees for the containment tree of the
model it builds (`C34_geo_of_build`), whatever the order of the attributes: an object covers a
non-empty text, its children lie inside it and do not overlap each other.  Weaker than `wf`
(`C34_wf_geo`): the children need not be listed in text order. -/
def geo : ONode → Bool
  | .mk _ s e kids => decide (s < e) && geoList s e kids
def geoList (lo hi : Nat) : List ONode → Bool
  | [] => true
  | k :: ks => decide (lo ≤ k.s) && decide (k.e ≤ hi) && geo k && disjointFrom k ks && geoList lo hi ks
end

end PosDict
