import TextxVerif.ProcRaise
/-!
# Proc.Match — match processors raising inside `process_match` (C33)

Mirror of `process_match` (textx/model.py, nested in `parse_tree_to_objgraph`) and of
the `Terminal` branch of `process_node`, as far as the dispatch of match processors
and the location they are given are concerned:

```
def process_match(nt):
    line, col = parser.pos_to_linecol(nt.position)
    if isinstance(nt, Terminal):
        return metamodel.process(nt.value, nt.rule_name, filename=parser.file_name, line=line, col=col)
    else:
        … [process_match(n) for n in nt] …            # children first, left to right
        return metamodel.process(result, nt.rule_name, filename=parser.file_name, line=line, col=col)
```

A match parse tree is `MNode` (rule name and start offset of every node); every node
is one `metamodel.process` call, made with the line / column of *that node's own*
start.  `R rule pos` says whether the processor registered for `rule` raises when
called for the node at `pos` (a rule without processor never raises).  Values are
not modelled (the property is about locations).  Core Lean only.
-/
namespace Proc

mutual
inductive MNode
  | term (rule pos : Nat)
  | nonterm (rule pos : Nat) (kids : MNodes)
inductive MNodes
  | nil
  | cons (n : MNode) (rest : MNodes)
end

/-- one `metamodel.process(value, rule_name, …)` call of `process_match` -/
structure MCall where
  rule : Nat
  pos : Nat
deriving DecidableEq, Repr

/-! specification: the calls in post-order (sub-matches before the match they are part of) -/
mutual
def mcalls : MNode → List MCall
  | .term r p => [⟨r, p⟩]
  | .nonterm r p ks => mcallsList ks ++ [⟨r, p⟩]
def mcallsList : MNodes → List MCall
  | .nil => []
  | .cons n rest => mcalls n ++ mcallsList rest
end

structure MFail where
  log : List MCall
  call : MCall

mutual
/-- `process_match(nt)` with raising processors -/
def matchE (R : Nat → Nat → Bool) : MNode → Except MFail (List MCall)
  | .term r p => if R r p then .error ⟨[], ⟨r, p⟩⟩ else .ok [⟨r, p⟩]
  | .nonterm r p ks =>
    match matchListE R ks with
    | .error f => .error f
    | .ok l => if R r p then .error ⟨l, ⟨r, p⟩⟩ else .ok (l ++ [⟨r, p⟩])
/-- `[process_match(n) for n in nt]` -/
def matchListE (R : Nat → Nat → Bool) : MNodes → Except MFail (List MCall)
  | .nil => .ok []
  | .cons n rest =>
    match matchE R n with
    | .error f => .error f
    | .ok l1 =>
      match matchListE R rest with
      | .error f => .error ⟨l1 ++ f.log, f.call⟩
      | .ok l2 => .ok (l1 ++ l2)
end

/-- cut a list at its first element satisfying `p` -/
def cutP {α : Type} (p : α → Bool) : List α → Option (List α × α)
  | [] => none
  | x :: xs =>
    if p x then some ([], x)
    else
      match cutP p xs with
      | some r => some (x :: r.1, r.2)
      | none => none

/-- the error that leaves the load when a match processor raises while the match
tree `t` of the model text `text` (file `file`) is processed: enriched with the
line / column of the start of the node the failing call was made for -/
def matchErr (file : Option Nat) (text : List Char) (R : Nat → Nat → Bool) (wrapped : Bool) (raised : Raised)
    (t : MNode) : Option Raised :=
  match matchE R t with
  | .error f => some (outcome .mtch (siteOf file text f.call.pos f.call.pos) wrapped raised)
  | .ok _ => none

end Proc
