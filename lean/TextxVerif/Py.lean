/-!
# The few Python `str` primitives used by translated functions

Strings are `List Char`.  Functions are total; where Python would raise
(`x[0]` on an empty string) the model returns the empty string — the callers
translated so far only see non-empty regex matches.  Model file: core Lean only.
-/
namespace Py

/-- `str.replace(old, new)` for non-empty `old`: left to right, non-overlapping.
`skip` counts the characters of a matched occurrence still to be dropped. -/
def replaceAux (old new : List Char) : Nat → List Char → List Char
  | _, [] => []
  | k+1, _ :: cs => replaceAux old new k cs
  | 0, c :: cs =>
      if old.isPrefixOf (c :: cs) then new ++ replaceAux old new (old.length - 1) cs
      else c :: replaceAux old new 0 cs

def replace (x old new : List Char) : List Char :=
  if old.isEmpty then x else replaceAux old new 0 x

/-- slice bound as Python normalises it -/
def normIdx (n : Nat) (i : Int) : Nat :=
  if i < 0 then n - i.natAbs else min i.toNat n

/-- `x[lo:hi]` -/
def slice (x : List Char) (lo hi : Int) : List Char :=
  (x.take (normIdx x.length hi)).drop (normIdx x.length lo)

/-- `x[i]` as a one-character string (empty when out of range, where Python raises IndexError) -/
def item (x : List Char) (i : Int) : List Char :=
  if i < 0 then (if i.natAbs ≤ x.length then (x.drop (x.length - i.natAbs)).take 1 else [])
  else (x.drop i.toNat).take 1

def lowerChar (c : Char) : Char :=
  if decide ('A'.val ≤ c.val) && decide (c.val ≤ 'Z'.val) then Char.ofNat (c.val.toNat + 32) else c

/-- `str.lower()` on ASCII text (the default processors apply it to BOOL matches only) -/
def lower (x : List Char) : List Char := x.map lowerChar

/-- result of a conversion callable.  `int` / `float` record the exact text handed to
Python's `int()` / `float()`; their numeric value is computed by Python. -/
inductive Val
  | bool (b : Bool)
  | str (s : List Char)
  | int (lit : List Char)
  | float (lit : List Char)
deriving DecidableEq, Repr

/-- Python's `str(z)` for an int -/
def strInt (z : Int) : List Char :=
  if z < 0 then '-' :: Nat.toDigits 10 z.natAbs else Nat.toDigits 10 z.natAbs

/-- Python's `int(lit)` for `lit` of the form `[-+]?[0-9]+` -/
def intOf : List Char → Int
  | '-' :: ds => - (Nat.ofDigitChars 10 ds 0 : Nat)
  | '+' :: ds => (Nat.ofDigitChars 10 ds 0 : Nat)
  | ds => (Nat.ofDigitChars 10 ds 0 : Nat)

end Py
