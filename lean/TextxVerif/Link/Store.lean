import TextxVerif.Link.PlainName
/-!
# The resolving pass as it really runs: every resolved reference is stored at once (C07)

`resolveAll` (Link/PlainName.lean) resolves every reference against one fixed tree.
The code does not: `resolve_one_step` (model.py) stores each resolved target into
the referencing object *before* the next reference is looked up
(`setattr(obj, attr.name, resolved)` for a single-valued attribute,
`attr_value.insert(idx, resolved)` — in a single pass in textual order: append — for
a list attribute), so `get_children` of the next reference runs over a model whose
reference attributes have changed.

`storeObj`       — that store on the tree representation: in the object with identity
                   `owner`, the reference attribute number `attr` (position in the
                   attribute dictionary) becomes `[tgt]` (single) or gets `tgt` appended.
`resolveFromSt`  — the pass threading the current tree through; `st` is the store.
`readRef`        — the identities a reference attribute holds (`getattr(obj, attr)`).
`outcomeId` / `Target.tid` — outcomes / targets by identity (objects of two different
                   tree states are compared by their Python identity).
Core Lean only.
-/
namespace Link

/-- an outcome by identity -/
inductive OutcomeId where
  | obj (id : Nat)
  | builtin (b : Builtin)
  | unknown
  | notUnique
deriving DecidableEq, Repr

def outcomeId : Outcome → OutcomeId
  | .obj o => .obj o.id
  | .builtin b => .builtin b
  | .unknown => .unknown
  | .notUnique => .notUnique

/-- a target by identity -/
inductive TargetId where
  | obj (id : Nat)
  | builtin (b : Builtin)
deriving DecidableEq, Repr

def Target.tid : Target → TargetId
  | .obj o => .obj o.id
  | .builtin b => .builtin b

/-- the Python identity stored in the attribute -/
def Target.pyId : Target → Nat
  | .obj o => o.id
  | .builtin b => b.id

def resIds (res : List (Ref × Target)) : List (Ref × TargetId) := res.map (fun p => (p.1, p.2.tid))

mutual
  /-- store `tgt` into reference attribute number `attr` of the object(s) with identity `owner` -/
  def storeObj (owner attr : Nat) (single : Bool) (tgt : Nat) : Obj → Obj
    | .mk i c n as => .mk i c n (storeAttrs owner attr single tgt (i == owner) 0 as)
  /-- `here`: these are the attributes of the owner; the `Nat` is the position of the next attribute -/
  def storeAttrs (owner attr : Nat) (single : Bool) (tgt : Nat) (here : Bool) : Nat → List Attr → List Attr
    | _, [] => []
    | j, .cont ks :: as =>
      .cont (storeKids owner attr single tgt ks) :: storeAttrs owner attr single tgt here (j + 1) as
    | j, .ref ts :: as =>
      .ref (if here && j == attr then (if single then [tgt] else ts ++ [tgt]) else ts)
        :: storeAttrs owner attr single tgt here (j + 1) as
    | j, .prim :: as => .prim :: storeAttrs owner attr single tgt here (j + 1) as
  def storeKids (owner attr : Nat) (single : Bool) (tgt : Nat) : List Obj → List Obj
    | [] => []
    | k :: ks => storeObj owner attr single tgt k :: storeKids owner attr single tgt ks
end

/-- the store of `resolve_one_step`; `single r` = the attribute of reference `r` is single-valued -/
def storeRef (single : Ref → Bool) (root : Obj) (r : Ref) (t : Target) : Obj :=
  storeObj r.owner r.attr (single r) t.pyId root

/-- the pass of `resolve_one_step` with its stores: reference `i` is resolved against the
tree in which the targets of the references before it are already stored -/
def resolveFromSt (st : Obj → Ref → Target → Obj) (conf : Nat → Nat → Bool)
    (builtins : List (String × Builtin)) :
    Nat → Obj → List Ref → Except Failure (List (Ref × Target) × Obj)
  | _, root, [] => .ok ([], root)
  | i, root, r :: rs =>
    match resolveRef conf root builtins r.name r.tcls with
    | .unknown => .error (.unknown i)
    | .notUnique => .error (.notUnique i)
    | .obj o =>
      match resolveFromSt st conf builtins (i + 1) (st root r (.obj o)) rs with
      | .ok (ts, root') => .ok ((r, .obj o) :: ts, root')
      | .error e => .error e
    | .builtin b =>
      match resolveFromSt st conf builtins (i + 1) (st root r (.builtin b)) rs with
      | .ok (ts, root') => .ok ((r, .builtin b) :: ts, root')
      | .error e => .error e

def resolveAllSt (st : Obj → Ref → Target → Obj) (conf : Nat → Nat → Bool) (root : Obj)
    (builtins : List (String × Builtin)) (refs : List Ref) :
    Except Failure (List (Ref × Target) × Obj) :=
  resolveFromSt st conf builtins 0 root refs

/-! ## reading a reference attribute of the (final) tree -/

/-- the `j`-th attribute, if it is a reference attribute: the identities it holds -/
def refAt : List Attr → Nat → Option (List Nat)
  | [], _ => none
  | .ref ts :: _, 0 => some ts
  | _ :: _, 0 => none
  | _ :: as, j + 1 => refAt as j

mutual
  /-- `getattr(obj, attr)` for the first object (pre-order) with identity `owner` -/
  def readObj (owner attr : Nat) : Obj → Option (List Nat)
    | .mk i _ _ as => if i = owner then refAt as attr else readAttrs owner attr as
  def readAttrs (owner attr : Nat) : List Attr → Option (List Nat)
    | [] => none
    | .cont ks :: as =>
      match readKids owner attr ks with
      | some v => some v
      | none => readAttrs owner attr as
    | .ref _ :: as => readAttrs owner attr as
    | .prim :: as => readAttrs owner attr as
  def readKids (owner attr : Nat) : List Obj → Option (List Nat)
    | [] => none
    | k :: ks =>
      match readObj owner attr k with
      | some v => some v
      | none => readKids owner attr ks
end

end Link
