import TextxVerif.RuleTypes
/-!
# Conformance as `textx_isinstance` computes it (C07 ∘ C03)

`confOfGrammar g objectCls` instantiates the conformance parameter of the reference
resolution models with the C03 model of `textx_isinstance` (`RuleTypes.isInstance`: depth
first over the `_tx_inh_by` lists with a visited set) for the grammar `g`: classes are
rule numbers, `objectCls` is the number standing for `OBJECT`.  Core Lean only.
-/
namespace Link

def confOfGrammar (g : RuleTypes.Gram) (objectCls : Nat) : Nat → Nat → Bool := fun c t =>
  RuleTypes.isInstance g (RuleTypes.kindsOf g) c (if t = objectCls then .object else .rule t)

end Link
