import TextxVerif.Link.Tree
/-!
# FQN scope provider (C10) — textx/scoping/providers.py:138-241, after the repair

`findObj`       — `find_obj(parent, name)` without `scope_redirection_logic`: the
                  entries of `parent.__dict__` in order, restricted (repair) to the
                  attributes with containment semantics; in each, the first
                  element with `hasattr(o, "name") and o.name == name`.
`walk`          — the `for n in fqn_name.split(".")` loop of `_find_obj_fqn`.
`findObjFqn`    — `_find_obj_fqn`: the walk, then `textx_isinstance(obj, cls)`.
`pathTo`        — the `parent` links of the referencing object: the objects
                  `[cur, cur.parent, …, model root]`.
`findReferenced`— `_find_referenced_obj`: `_find_obj_fqn` from `cur`, then from each
                  ancestor outward, first hit wins.
`findObjPinned` — the unrepaired `find_obj` (all `__dict__` entries, including
                  `parent` and resolved reference attributes), for the negation
                  witness only.
Conformance is a parameter `conf : Obj → Bool` (the target class is fixed per
reference).  Core Lean only.
-/
namespace Link

def nameIs (n : String) (o : Obj) : Bool := o.name == some n

def findAttrs : List Attr → String → Option Obj
  | [], _ => none
  | .cont ks :: as, n =>
    match ks.find? (nameIs n) with
    | some o => some o
    | none => findAttrs as n
  | .ref _ :: as, n => findAttrs as n
  | .prim :: as, n => findAttrs as n

def findObj (p : Obj) (n : String) : Option Obj := findAttrs p.attrs n

def walk : Obj → List String → Option Obj
  | p, [] => some p
  | p, n :: ns =>
    match findObj p n with
    | none => none
    | some o => walk o ns

def findObjFqn (conf : Obj → Bool) (p : Obj) (parts : List String) : Option Obj :=
  match walk p parts with
  | some o => if conf o then some o else none
  | none => none

def findReferenced (conf : Obj → Bool) (ancs : List Obj) (parts : List String) : Option Obj :=
  ancs.findSome? (fun p => findObjFqn conf p parts)

mutual
  /-- `[target, parent, …, o]` if the object with identity `t` is `o` or inside it -/
  def pathTo (t : Nat) : Obj → Option (List Obj)
    | .mk i c n as =>
      if i = t then some [.mk i c n as]
      else match pathAttrs t as with
        | some p => some (p ++ [.mk i c n as])
        | none => none
  def pathAttrs (t : Nat) : List Attr → Option (List Obj)
    | [] => none
    | .cont ks :: as =>
      match pathKids t ks with
      | some p => some p
      | none => pathAttrs t as
    | .ref _ :: as => pathAttrs t as
    | .prim :: as => pathAttrs t as
  def pathKids (t : Nat) : List Obj → Option (List Obj)
    | [] => none
    | k :: ks =>
      match pathTo t k with
      | some p => some p
      | none => pathKids t ks
end

/-- the provider called for a reference made by the object with identity `cur` -/
def fqn (conf : Obj → Bool) (root : Obj) (cur : Nat) (parts : List String) : Option Obj :=
  match pathTo cur root with
  | some ancs => findReferenced conf ancs parts
  | none => none

/-! ## specification -/

/-- `Chain p parts o`: `parts` match a chain of named objects, each contained in
the previous one, the first in `p`, ending in `o` -/
inductive Chain : Obj → List String → Obj → Prop
  | nil (p : Obj) : Chain p [] p
  | cons {p k o : Obj} {n : String} {ns : List String} :
      k ∈ p.children → k.name = some n → Chain k ns o → Chain p (n :: ns) o

/-- the named objects directly contained in `p` have pairwise different names -/
def UniqueNames (p : Obj) : Prop :=
  p.children.Pairwise (fun a b => a.name.isSome → a.name ≠ b.name)

/-- "sibling names are unique" everywhere below `root` -/
def SiblingNamesUnique (root : Obj) : Prop := ∀ q, Desc root q → UniqueNames q

/-! ## the pinned (unrepaired) attribute walk, over a heap view

`deref` maps identities to objects (references and `parent` hold identities in
the tree representation); `parentOf` is the `parent` entry of `__dict__`, which
comes last. -/
def findAttrsPinned (deref : Nat → Option Obj) : List Attr → String → Option Obj
  | [], _ => none
  | .cont ks :: as, n =>
    match ks.find? (nameIs n) with
    | some o => some o
    | none => findAttrsPinned deref as n
  | .ref ts :: as, n =>
    match (ts.filterMap deref).find? (nameIs n) with
    | some o => some o
    | none => findAttrsPinned deref as n
  | .prim :: as, n => findAttrsPinned deref as n

def findObjPinned (deref : Nat → Option Obj) (parentOf : Nat → Option Obj) (p : Obj) (n : String) :
    Option Obj :=
  match findAttrsPinned deref p.attrs n with
  | some o => some o
  | none =>
    match parentOf p.id with
    | some q => if nameIs n q then some q else none
    | none => none

def walkPinned (deref : Nat → Option Obj) (parentOf : Nat → Option Obj) : Obj → List String → Option Obj
  | p, [] => some p
  | p, n :: ns =>
    match findObjPinned deref parentOf p n with
    | none => none
    | some o => walkPinned deref parentOf o ns

end Link

namespace Link
/-! ## erasing everything that is not containment (for the independence theorem) -/
mutual
  def strip : Obj → Obj
    | .mk i c n as => .mk i c n (stripAttrs as)
  def stripAttrs : List Attr → List Attr
    | [] => []
    | .cont ks :: as => .cont (stripKids ks) :: stripAttrs as
    | .ref _ :: as => stripAttrs as
    | .prim :: as => stripAttrs as
  def stripKids : List Obj → List Obj
    | [] => []
    | k :: ks => strip k :: stripKids ks
end

/-- `IsPath t o p`: `p = [x, parent x, …, o]` where `x` has identity `t` -/
inductive IsPath (t : Nat) : Obj → List Obj → Prop
  | here {o : Obj} : o.id = t → IsPath t o [o]
  | inside {o k : Obj} {p : List Obj} : k ∈ o.children → IsPath t k p → IsPath t o (p ++ [o])
end Link

namespace Link
/-! ## the reference text: `fqn_name.split(".")`

`splitDotsL` is Python's `str.split(".")` on the characters of the text (`"".split(".") == [""]`,
`"a..b".split(".") == ["a", "", "b"]`); `joinDotsL` is `".".join`.  The specification of the
split (Proofs/Link/FqnText.lean): it never returns `[]`, no part contains a dot, joining gives
the text back, and it is the only list of dot-free parts that does. -/
def splitDotsL : List Char → List (List Char)
  | [] => [[]]
  | c :: cs =>
    if c = '.' then [] :: splitDotsL cs
    else
      match splitDotsL cs with
      | [] => [[c]]
      | w :: ws => (c :: w) :: ws

def joinDotsL : List (List Char) → List Char
  | [] => []
  | [w] => w
  | w :: w' :: ws => w ++ '.' :: joinDotsL (w' :: ws)

def splitDots (s : String) : List String := (splitDotsL s.toList).map String.ofList

/-- the provider called with the reference *text* `obj_ref.obj_name` -/
def fqnText (conf : Obj → Bool) (root : Obj) (cur : Nat) (text : String) : Option Obj :=
  fqn conf root cur (splitDots text)

/-! ## pinned and repaired `find_obj` over one heap view, differing in the guard only

`findObjHeap guard` visits every entry of `parent.__dict__` — containment attributes,
reference attributes (dereferenced through `deref`) and finally `parent` (`parentOf`).
With `guard = true` (the repair: `a in tx_attrs and tx_attrs[a].cont`) reference attributes
(`cont == False`) and `parent` (not in `_tx_attrs`) are skipped; with `guard = false` it is
`findObjPinned`. -/
def findAttrsHeap (guard : Bool) (deref : Nat → Option Obj) : List Attr → String → Option Obj
  | [], _ => none
  | .cont ks :: as, n =>
    match ks.find? (nameIs n) with
    | some o => some o
    | none => findAttrsHeap guard deref as n
  | .ref ts :: as, n =>
    if guard then findAttrsHeap guard deref as n
    else
      match (ts.filterMap deref).find? (nameIs n) with
      | some o => some o
      | none => findAttrsHeap guard deref as n
  | .prim :: as, n => findAttrsHeap guard deref as n

def findObjHeap (guard : Bool) (deref : Nat → Option Obj) (parentOf : Nat → Option Obj) (p : Obj)
    (n : String) : Option Obj :=
  match findAttrsHeap guard deref p.attrs n with
  | some o => some o
  | none =>
    if guard then none
    else
      match parentOf p.id with
      | some q => if nameIs n q then some q else none
      | none => none

def walkHeap (guard : Bool) (deref : Nat → Option Obj) (parentOf : Nat → Option Obj) :
    Obj → List String → Option Obj
  | p, [] => some p
  | p, n :: ns =>
    match findObjHeap guard deref parentOf p n with
    | none => none
    | some o => walkHeap guard deref parentOf o ns
end Link
