import TextxVerif.Link.Tree
/-!
# FQN scope provider (C10) — textx/scoping/providers.py:138-241, after the repair

`findObj`       — `find_obj(parent, name)` without `scope_redirection_logic`: the
                  entries of `parent.__dict__` in order, restricted (repair) to the
                  attributes with containment semantics; in each, the first
                  element with `hasattr(o, "name") and o.name == name`.
`walk`          — the `for n in fqn_name.split(".")` loop of `_find_obj_fqn`.
`findObjFqn`    — `_find_obj_fqn`: the walk, then `textx_isinstance(obj, cls)`.
`pathTo`        — the `parent` links of the referencing object: the objects
                  `[cur, cur.parent, …, model root]`.
`findReferenced`— `_find_referenced_obj`: `_find_obj_fqn` from `cur`, then from each
                  ancestor outward, first hit wins.
`findObjPinned` — the unrepaired `find_obj` (all `__dict__` entries, including
                  `parent` and resolved reference attributes), for the negation
                  witness only.
Conformance is a parameter `conf : Obj → Bool` (the target class is fixed per
reference).  Core Lean only.
-/
namespace Link

def nameIs (n : String) (o : Obj) : Bool := o.name == some n

def findAttrs : List Attr → String → Option Obj
  | [], _ => none
  | .cont ks :: as, n =>
    match ks.find? (nameIs n) with
    | some o => some o
    | none => findAttrs as n
  | .ref _ :: as, n => findAttrs as n
  | .prim :: as, n => findAttrs as n

def findObj (p : Obj) (n : String) : Option Obj := findAttrs p.attrs n

def walk : Obj → List String → Option Obj
  | p, [] => some p
  | p, n :: ns =>
    match findObj p n with
    | none => none
    | some o => walk o ns

def findObjFqn (conf : Obj → Bool) (p : Obj) (parts : List String) : Option Obj :=
  match walk p parts with
  | some o => if conf o then some o else none
  | none => none

def findReferenced (conf : Obj → Bool) (ancs : List Obj) (parts : List String) : Option Obj :=
  ancs.findSome? (fun p => findObjFqn conf p parts)

mutual
  /-- `[target, parent, …, o]` if the object with identity `t` is `o` or inside it -/
  def pathTo (t : Nat) : Obj → Option (List Obj)
    | .mk i c n as =>
      if i = t then some [.mk i c n as]
      else match pathAttrs t as with
        | some p => some (p ++ [.mk i c n as])
        | none => none
  def pathAttrs (t : Nat) : List Attr → Option (List Obj)
    | [] => none
    | .cont ks :: as =>
      match pathKids t ks with
      | some p => some p
      | none => pathAttrs t as
    | .ref _ :: as => pathAttrs t as
    | .prim :: as => pathAttrs t as
  def pathKids (t : Nat) : List Obj → Option (List Obj)
    | [] => none
    | k :: ks =>
      match pathTo t k with
      | some p => some p
      | none => pathKids t ks
end

/-- the provider called for a reference made by the object with identity `cur` -/
def fqn (conf : Obj → Bool) (root : Obj) (cur : Nat) (parts : List String) : Option Obj :=
  match pathTo cur root with
  | some ancs => findReferenced conf ancs parts
  | none => none

/-! ## specification -/

/-- `Chain p parts o`: `parts` match a chain of named objects, each contained in
the previous one, the first in `p`, ending in `o` -/
inductive Chain : Obj → List String → Obj → Prop
  | nil (p : Obj) : Chain p [] p
  | cons {p k o : Obj} {n : String} {ns : List String} :
      k ∈ p.children → k.name = some n → Chain k ns o → Chain p (n :: ns) o

/-- the named objects directly contained in `p` have pairwise different names -/
def UniqueNames (p : Obj) : Prop :=
  p.children.Pairwise (fun a b => a.name.isSome → a.name ≠ b.name)

/-- "sibling names are unique" everywhere below `root` -/
def SiblingNamesUnique (root : Obj) : Prop := ∀ q, Desc root q → UniqueNames q

/-! ## the pinned (unrepaired) attribute walk, over a heap view

`deref` maps identities to objects (references and `parent` hold identities in
the tree representation); `parentOf` is the `parent` entry of `__dict__`, which
comes last. -/
def findAttrsPinned (deref : Nat → Option Obj) : List Attr → String → Option Obj
  | [], _ => none
  | .cont ks :: as, n =>
    match ks.find? (nameIs n) with
    | some o => some o
    | none => findAttrsPinned deref as n
  | .ref ts :: as, n =>
    match (ts.filterMap deref).find? (nameIs n) with
    | some o => some o
    | none => findAttrsPinned deref as n
  | .prim :: as, n => findAttrsPinned deref as n

def findObjPinned (deref : Nat → Option Obj) (parentOf : Nat → Option Obj) (p : Obj) (n : String) :
    Option Obj :=
  match findAttrsPinned deref p.attrs n with
  | some o => some o
  | none =>
    match parentOf p.id with
    | some q => if nameIs n q then some q else none
    | none => none

def walkPinned (deref : Nat → Option Obj) (parentOf : Nat → Option Obj) : Obj → List String → Option Obj
  | p, [] => some p
  | p, n :: ns =>
    match findObjPinned deref parentOf p n with
    | none => none
    | some o => walkPinned deref parentOf o ns

end Link

namespace Link
/-! ## erasing everything that is not containment (for the independence theorem) -/
mutual
  def strip : Obj → Obj
    | .mk i c n as => .mk i c n (stripAttrs as)
  def stripAttrs : List Attr → List Attr
    | [] => []
    | .cont ks :: as => .cont (stripKids ks) :: stripAttrs as
    | .ref _ :: as => stripAttrs as
    | .prim :: as => stripAttrs as
  def stripKids : List Obj → List Obj
    | [] => []
    | k :: ks => strip k :: stripKids ks
end

/-- `IsPath t o p`: `p = [x, parent x, …, o]` where `x` has identity `t` -/
inductive IsPath (t : Nat) : Obj → List Obj → Prop
  | here {o : Obj} : o.id = t → IsPath t o [o]
  | inside {o k : Obj} {p : List Obj} : k ∈ o.children → IsPath t k p → IsPath t o (p ++ [o])
end Link
