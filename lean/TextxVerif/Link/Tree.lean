/-!
# Object trees of a loaded textX model (shared by C07 / C10)

An object is what `process_node` builds for a common rule: a Python identity
(`id`), its class, the value of its `name` attribute (`none` = the class has no
`name` attribute or it is not a string matching any reference text) and its
attribute dictionary in order.  An attribute is a containment attribute
(`cont`, single-valued = list of length ≤ 1), a non-containment reference
(`ref`, the identities of the targets) or primitive.
Core Lean only.
-/
namespace Link

mutual
  inductive Obj where
    | mk (id : Nat) (cls : Nat) (name : Option String) (attrs : List Attr)
  inductive Attr where
    | cont (kids : List Obj)
    | ref (tgts : List Nat)
    | prim
end

namespace Obj
def id : Obj → Nat | .mk i _ _ _ => i
def cls : Obj → Nat | .mk _ c _ _ => c
def name : Obj → Option String | .mk _ _ n _ => n
def attrs : Obj → List Attr | .mk _ _ _ as => as
end Obj

def Attr.kids : Attr → List Obj
  | .cont ks => ks
  | _ => []

/-- objects directly contained in `o`, in attribute order -/
def Obj.children (o : Obj) : List Obj := o.attrs.flatMap Attr.kids

/-! ## containment pre-order -/
mutual
  def preorder : Obj → List Obj
    | .mk i c n as => .mk i c n as :: preAttrs as
  def preAttrs : List Attr → List Obj
    | [] => []
    | .cont ks :: as => preKids ks ++ preAttrs as
    | .ref _ :: as => preAttrs as
    | .prim :: as => preAttrs as
  def preKids : List Obj → List Obj
    | [] => []
    | k :: ks => preorder k ++ preKids ks
end

/-- `Desc r o`: `o` is `r` or contained in it, directly or indirectly -/
inductive Desc : Obj → Obj → Prop
  | refl (r : Obj) : Desc r r
  | step {r k o : Obj} : k ∈ r.children → Desc k o → Desc r o

/-- every object of the tree is a distinct Python object -/
def DistinctIds (r : Obj) : Prop := ((preorder r).map Obj.id).Nodup

end Link
