import TextxVerif.Link.Tree
/-!
# Default reference resolution (C07)

`follow` / `getChildren`  — `textx.model.get_children` (model.py:106-161) with
    `children_first=False` and the default `should_follow`: depth-first over the
    containment attributes in `_tx_attrs` order; `collected_ids` (the identities
    of the objects collected so far) stops a second visit.
`plainName`  — `PlainName.__call__` (scoping/providers.py:88-110,
    `multi_metamodel_support=True`, the default): all objects of the model with
    `name == obj_name` conforming to the target class; exactly one → it, several
    → "not unique" error, none → `None`.
`resolveRef` — the part of `ReferenceResolver.resolve_one_step`
    (model.py:1141-1204) after the provider returned: builtins fallback, then the
    "Unknown object" error.
`resolveAll` — the pass over `parser._crossrefs` in order (the default provider
    never postpones): the first failing reference aborts the load; otherwise
    every reference is stored (single attribute: `setattr`; list attribute: in
    reference order).
Conformance (`textx_isinstance`) is a parameter `conf objCls targetCls`.
Names: `Obj.name` / `Ref.name` / the builtins keys stand for the *values* the match rules
    produced (`name=ID|STRING|INT|FLOAT|BOOL|NUMBER|user match rule`, `[T|Rule]`): the code
    compares them with `==` and never looks at their truth value, so the model compares
    strings.  The correspondence check (harness/props/c07.py `nkey`) maps values to strings
    injectively modulo Python equality; `some ""`, the key of `0` … are ordinary names.
Core Lean only.
-/
namespace Link

mutual
  /-- `follow(elem)`; the accumulator is `collected` (`collected_ids` = its ids) -/
  def follow (sel : Obj → Bool) : Obj → List Obj → List Obj
    | .mk i c n as, acc =>
      if acc.any (fun x => x.id == i) then acc
      else followAttrs sel as (if sel (.mk i c n as) then acc ++ [.mk i c n as] else acc)
  def followAttrs (sel : Obj → Bool) : List Attr → List Obj → List Obj
    | [], acc => acc
    | .cont ks :: as, acc => followAttrs sel as (followKids sel ks acc)
    | .ref _ :: as, acc => followAttrs sel as acc
    | .prim :: as, acc => followAttrs sel as acc
  def followKids (sel : Obj → Bool) : List Obj → List Obj → List Obj
    | [], acc => acc
    | k :: ks, acc => followKids sel ks (follow sel k acc)
end

def getChildren (sel : Obj → Bool) (root : Obj) : List Obj := follow sel root []

/-- the selector of the PlainName provider:
`hasattr(x, "name") and x.name == obj_name and textx_isinstance(x, cls)` -/
def isMatch (conf : Nat → Nat → Bool) (name : String) (tcls : Nat) (x : Obj) : Bool :=
  x.name == some name && conf x.cls tcls

inductive Hit where
  | one (o : Obj)
  | many
  | none

def plainName (conf : Nat → Nat → Bool) (root : Obj) (name : String) (tcls : Nat) : Hit :=
  match getChildren (isMatch conf name tcls) root with
  | [x] => .one x
  | [] => .none
  | _ :: _ :: _ => .many

/-- an entry of `metamodel.builtins`: identity and class of the stored object -/
structure Builtin where
  id : Nat
  cls : Nat
deriving Repr, DecidableEq

/-- what a reference ends up as -/
inductive Outcome where
  | obj (o : Obj)          -- an object of the model
  | builtin (b : Builtin)  -- the builtins entry of that name
  | unknown                -- TextXSemanticError, err_type "Unknown object"
  | notUnique              -- TextXSemanticError "name … is not unique."

def resolveRef (conf : Nat → Nat → Bool) (root : Obj) (builtins : List (String × Builtin))
    (name : String) (tcls : Nat) : Outcome :=
  match plainName conf root name tcls with
  | .many => .notUnique
  | .one o => .obj o
  | .none =>
    match builtins.lookup name with
    | some b => if conf b.cls tcls then .builtin b else .unknown
    | none => .unknown

/-- a cross-reference as collected by `process_node`, in `parser._crossrefs` order -/
structure Ref where
  name : String
  tcls : Nat
  owner : Nat   -- identity of the referencing object
  attr : Nat    -- which of its attributes
deriving Repr, DecidableEq

/-- a resolved target (object of the model or builtins entry) -/
inductive Target where
  | obj (o : Obj)
  | builtin (b : Builtin)

inductive Failure where
  | unknown (idx : Nat)    -- index of the offending reference
  | notUnique (idx : Nat)

/-- the single pass of `resolve_one_step`; `i` = index of the next reference -/
def resolveFrom (conf : Nat → Nat → Bool) (root : Obj) (builtins : List (String × Builtin)) :
    Nat → List Ref → Except Failure (List (Ref × Target))
  | _, [] => .ok []
  | i, r :: rs =>
    match resolveRef conf root builtins r.name r.tcls with
    | .unknown => .error (.unknown i)
    | .notUnique => .error (.notUnique i)
    | .obj o =>
      match resolveFrom conf root builtins (i + 1) rs with
      | .ok ts => .ok ((r, .obj o) :: ts)
      | .error e => .error e
    | .builtin b =>
      match resolveFrom conf root builtins (i + 1) rs with
      | .ok ts => .ok ((r, .builtin b) :: ts)
      | .error e => .error e

def resolveAll (conf : Nat → Nat → Bool) (root : Obj) (builtins : List (String × Builtin))
    (refs : List Ref) : Except Failure (List (Ref × Target)) :=
  resolveFrom conf root builtins 0 refs

/-- final value of attribute `attr` of object `owner` (a single-valued attribute
holds the one element) -/
def attrValue (res : List (Ref × Target)) (owner attr : Nat) : List Target :=
  (res.filter (fun p => p.1.owner == owner && p.1.attr == attr)).map (·.2)

end Link
