/-!
# Regular expressions as Python's `re` runs them (the fragment textX uses)

`R`      regex AST.  `harness/translate_re.py` produces it from Python's own
         `re._parser` parse of the live pattern strings (base types of
         `textx/lang.py`, the keyword regex of `TextXVisitor`, the `lit\b`
         patterns built by `visit_str_match`).  Capturing groups are dropped
         (they do not influence what is matched); `x?`, `x+`, `x{m,n}` are
         expanded into `alt` / `seq` / `star`.
`m`      backtracking matcher in *list of successes* form: all ways to match
         a prefix of the input, in the priority order of a backtracking engine
         (left alternative first, greedy loops longest first).  The head of the
         list is what `pattern.match(text, pos)` returns.
`St`     a position of the subject string: the character before it (needed by
         `\b` and the one-character look-behinds) and the rest of the input.

A loop iteration has to consume at least one character (an empty iteration
ends a loop in `sre`; no loop body of the translated patterns matches empty),
so `rest.length` iterations are always enough and no fuel shows up in the
interface.  Unicode classification (`\d`, `\w`, `\s`, case folding) is a
parameter `cc`; theorems are stated for every `cc` with the few sanity facts
they use.  Model file: core Lean only.
-/
namespace Re

/-- what Python knows about characters: `\d`, `\w`, `\s`, simple case folding -/
structure CharClasses where
  isDigit : Char → Bool
  isWord : Char → Bool
  isSpace : Char → Bool
  fold : Char → Char

inductive Cat | digit | word | space
deriving DecidableEq, Repr

/-- member of a `[...]` set -/
inductive CItem
  | chr (c : Char)
  | range (lo hi : Char)
  | cat (k : Cat) (neg : Bool)       -- `\d \w \s` and `\D \W \S`
deriving DecidableEq, Repr

inductive R
  | eps
  | chr (c : Char)                    -- LITERAL
  | chrI (c : Char)                   -- LITERAL under IGNORECASE
  | cls (neg : Bool) (items : List CItem)   -- IN / NOT_LITERAL / CATEGORY
  | seq (a b : R)
  | alt (a b : R)                     -- BRANCH (left first)
  | star (greedy : Bool) (r : R)      -- MAX_REPEAT / MIN_REPEAT 0..∞
  | wordB (neg : Bool)                -- `\b` / `\B`
  | ahead (neg : Bool) (r : R)        -- `(?=r)` / `(?!r)`
  | behind (neg : Bool) (cneg : Bool) (items : List CItem)  -- `(?<=[...])` / `(?<![...])`, one character
deriving DecidableEq, Repr

/-- previous character (none at the start of the string) and remaining input -/
abbrev St := Option Char × List Char

def Cat.test (cc : CharClasses) : Cat → Char → Bool
  | .digit, c => cc.isDigit c
  | .word, c => cc.isWord c
  | .space, c => cc.isSpace c

def CItem.test (cc : CharClasses) : CItem → Char → Bool
  | .chr d, c => c == d
  | .range lo hi, c => decide (lo.val ≤ c.val) && decide (c.val ≤ hi.val)
  | .cat k neg, c => k.test cc c != neg

def clsTest (cc : CharClasses) (neg : Bool) (items : List CItem) (c : Char) : Bool :=
  items.any (fun i => i.test cc c) != neg

/-- consume one character satisfying `p` -/
def step (p : Char → Bool) : St → List St
  | (_, d :: t) => if p d then [(some d, t)] else []
  | (_, []) => []

def isWordO (cc : CharClasses) : Option Char → Bool
  | some c => cc.isWord c
  | none => false

/-- `\b` holds: exactly one of the neighbours is a word character -/
def atBoundary (cc : CharClasses) (s : St) : Bool :=
  isWordO cc s.1 != isWordO cc s.2.head?

/-- the loop of `star`: every iteration must make progress -/
def starLoop (greedy : Bool) (f : St → List St) : Nat → St → List St
  | 0, s => [s]
  | n+1, s =>
      let more := ((f s).filter (fun t => t.2.length < s.2.length)).flatMap (starLoop greedy f n)
      if greedy then more ++ [s] else s :: more

/-- all ways to match `r` at `s`, best first; a result is the position after the match -/
def m (cc : CharClasses) : R → St → List St
  | .eps, s => [s]
  | .chr c, s => step (fun d => d == c) s
  | .chrI c, s => step (fun d => cc.fold d == cc.fold c) s
  | .cls neg items, s => step (clsTest cc neg items) s
  | .seq a b, s => (m cc a s).flatMap (m cc b)
  | .alt a b, s => m cc a s ++ m cc b s
  | .star g r, s => starLoop g (m cc r) s.2.length s
  | .wordB neg, s => if atBoundary cc s != neg then [s] else []
  | .ahead neg r, s => if (m cc r s).isEmpty == neg then [s] else []
  | .behind neg cneg items, s =>
      match s.1 with
      | some p => if clsTest cc cneg items p != neg then [s] else []
      | none => if neg then [s] else []

/-- `re.compile(r).match(text, pos)`: position after the match (`pos` is described by `prev` and `rest`) -/
def pyMatchSt (cc : CharClasses) (r : R) (s : St) : Option St := (m cc r s).head?

/-- `re.compile(r).match(text, pos)`: length of the match -/
def pyMatch (cc : CharClasses) (r : R) (prev : Option Char) (rest : List Char) : Option Nat :=
  (pyMatchSt cc r (prev, rest)).map (fun t => rest.length - t.2.length)

/-- the character before the position reached by reading `l` from a position after `p` -/
def lastOr (p : Option Char) : List Char → Option Char
  | [] => p
  | c :: cs => lastOr (some c) cs

/-! Arpeggio's whitespace skipping (default set: tab, newline, carriage return, space) -/
def isWs (c : Char) : Bool := c == ' ' || c == '\t' || c == '\n' || c == '\r'

def skipWsAux : Option Char → List Char → St
  | p, c :: cs => if isWs c then skipWsAux (some c) cs else (p, c :: cs)
  | p, [] => (p, [])

def skipWs (s : St) : St := skipWsAux s.1 s.2

/-! shorthands used by the translator -/
def R.opt (r : R) : R := .alt r .eps            -- `r?` (greedy)
def R.plus (r : R) : R := .seq r (.star true r) -- `r+` (greedy)
/-- the characters of `l` in a row -/
def R.lits : List Char → R
  | [] => .eps
  | c :: cs => .seq (.chr c) (R.lits cs)
def R.litsI : List Char → R
  | [] => .eps
  | c :: cs => .seq (.chrI c) (R.litsI cs)

/-! ## ASCII character tables (the driver extends them by tables computed by Python) -/
def asciiDigit (c : Char) : Bool := decide ('0'.val ≤ c.val) && decide (c.val ≤ '9'.val)
def asciiAlpha (c : Char) : Bool :=
  (decide ('a'.val ≤ c.val) && decide (c.val ≤ 'z'.val)) || (decide ('A'.val ≤ c.val) && decide (c.val ≤ 'Z'.val))
def asciiWord (c : Char) : Bool := asciiDigit c || asciiAlpha c || c == '_'
def asciiSpace (c : Char) : Bool :=
  c == ' ' || c == '\t' || c == '\n' || c == '\r' || c == Char.ofNat 11 || c == Char.ofNat 12 ||
    (decide (28 ≤ c.val.toNat) && decide (c.val.toNat ≤ 31))
def asciiFold (c : Char) : Char :=
  if decide ('A'.val ≤ c.val) && decide (c.val ≤ 'Z'.val) then Char.ofNat (c.val.toNat + 32) else c

/-- classification with explicit tables for the non-ASCII characters of a test case -/
def tableCC (digits words spaces : List Char) (folds : List (Char × Char)) : CharClasses where
  isDigit c := if c.toNat < 128 then asciiDigit c else digits.contains c
  isWord c := if c.toNat < 128 then asciiWord c else (words.contains c || digits.contains c)
  isSpace c := if c.toNat < 128 then asciiSpace c else spaces.contains c
  fold c := if c.toNat < 128 then asciiFold c else
    match folds.find? (fun p => p.1 == c) with
    | some p => p.2
    | none => c

def asciiCC : CharClasses := tableCC [] [] [] []

end Re
