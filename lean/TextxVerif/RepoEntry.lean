import TextxVerif.Repo
/-!
# The other entry points of a multi-file load (C17)

`Repo.loadMain` is `metamodel.model_from_file(f)`.  A load can also enter textX through

* `metamodel.model_from_str(text, file_name=f)` — `internal_model_from_file(f, model_str=text)`:
  the very same code as `model_from_file`, only the text of the main model is not read
  from the file.  It *is* `loadMain`; the entry of the main file in the read log
  (`St.reads` = the texts parsed) then stands for the parse of the string.
* `metamodel.model_from_str(text)` — a main model **without file name** (`loadStr`).
  There is no cache check and no callback of the metamodel: the model gets its
  repository from `ImportURI.load_models` (sharing `all_models` of the metamodel's
  global repository, if there is one) and is stored in `all_models` under an
  invented name `anonymous{k}` by `update_model_in_repo_based_on_filename` — only
  when it issues a `load_model` call at all.
* `GlobalRepo.load_models_in_model_repo(repo)` (`preload`): every file the
  registered patterns denote that is not yet in `repo` is loaded as a main model
  whose `pre_ref_resolution_callback` is the one of `repo`
  (`GlobalModelRepository.load_model(…, is_main_model=True)` with `model=None`).
  `repo` is the metamodel's global repository or a fresh repository (no global
  repository): in both cases the machine runs with `S.glob = true` on `repo`'s dict.

Invented names are file numbers beyond the real files: `anonymous{k}` = `a0 + k`.
Core Lean only.
-/
namespace Repo

/-- `i = 0; while f"anonymous{i}" in all_models: i += 1` (after the `fix:` of
`update_model_in_repo_based_on_filename`), counting from the name `a` -/
def anonFrom (d : Dict) : Nat → File → File
  | 0, a => a
  | fuel + 1, a => if d.has a then anonFrom d fuel (a + 1) else a

/-- the invented name of the next model without file name (`a0` = `anonymous0`) -/
def anonKey (a0 : File) (d : Dict) : File := anonFrom d (d.length + 1) a0

/-- `metamodel.model_from_str(text)`; `a` is the invented name of the model (its text is
what `S` says about `a`); no file is opened, the parse of the text is logged as `a`. -/
def loadStr (S : Spec) (fuel : Nat) (st0 : St) (a : File) : St × Res × Inst :=
  -- `ImportURI.load_models`: the repository of the metamodel, or a fresh one
  let st0 := if S.glob then st0 else { st0 with all := [] }
  let before := st0.all.vals
  let st := { st0 with reads := a :: st0.reads }
  if S.syntaxErr a then (st, .fail .syntax, 0) else
  let j := st.next
  -- no callback: the model is not in `all` until its first `load_model` call registers it
  let st := st.alloc S a
  match loadCalls (internal S fuel) j st (S.calls a) with
  | (st1, .fuel) => (st1, .fuel, 0)
  | (st1, .fail k) => (cleanupA st1 j, .fail k, 0)
  | (st1, .ok) =>
    let models := (included st1 j).filter st1.constr
    if models.any (fun m => (resolveAll S st1 m).any (·.isNone)) then
      (cleanupA (removeFromRepos st1 models models) j, .fail .semantic, 0)
    else
      let st2 := (st1.setTargets S models).endConstruction models
      if models.any (fun m => S.objFault (st2.fileOf m)) then
        (cleanupA (removeFromRepos st2 models models) j, .fail .objproc, 0)
      else if S.modFault a then (removeNew S.glob st2 before, .fail .modproc, 0)
      else (st2, .ok, j)

/-- `GlobalRepo.load_models_in_model_repo`: the `load_model(…, is_main_model=True)` calls
of the registered patterns in order (`none`: a pattern that matches no file → `OSError`),
on the dict of the repository (`S.glob = true`) -/
def preload (S : Spec) (fuel : Nat) : St → List (Option File) → St × Res
  | st, [] => (st, .ok)
  | st, none :: _ => (st, .fail .io)
  | st, some g :: cs =>
    if st.all.has g then preload S fuel st cs
    else
      match loadMain S fuel st g with
      | (st1, .ok, _) => preload S fuel st1 cs
      | (st1, r, _) => (st1, r)

/-! ## histories: one load after the other on the same metamodel -/

/-- one load of a history, the way the harness (and a user) starts it -/
inductive Op
  /-- `model_from_file(f)` / `model_from_str(text, file_name=f)` -/
  | file (f : File)
  /-- `model_from_str(text)`: the invented name is `anonymous{k}` = `a0 + k`, `k` the smallest unused -/
  | str (a0 : File)
  /-- `GlobalRepo.load_models_in_model_repo`: into the metamodel's global repository, or into a fresh
  repository when the metamodel has none (the machine then runs with a global repository on that dict) -/
  | preload (calls : List (Option File))

def Op.run (S : Spec) (fuel : Nat) (st : St) : Op → St × Res × Inst
  | .file f => loadMain S fuel st f
  | .str a0 => loadStr S fuel st (anonKey a0 (if S.glob then st.all else []))
  | .preload calls =>
    let r := Repo.preload { S with glob := true } fuel (if S.glob then st else { st with all := [] }) calls
    (r.1, r.2, 0)

/-- a history: per load the files as they are then (`Spec`), the fuel and the entry point -/
def runOps : List (Spec × Nat × Op) → St → St
  | [], st => st
  | (S, fuel, op) :: rest, st => runOps rest (op.run S fuel st).1

/-! ## which references have a visible definition (C18 "the repaired load succeeds") -/

/-- the definitions a load finds in file `h`: those of the cached model when `h` is cached in the dict the
load starts from (`b`), the ones in the file otherwise -/
def defsNow (S : Spec) (b : St) (h : File) : List Name :=
  match b.all.get? h with
  | some x => b.defsOf x
  | none => S.defs h

/-- name `n`, referenced in file `g`, has a visible definition: in `g` itself, in a file `g` asks
`load_model` for, or in a builtin model -/
def visible (S : Spec) (b : St) (g : File) (n : Name) : Bool :=
  (S.defs g).contains n || ((S.calls g).filterMap id).any (fun h => (defsNow S b h).contains n) ||
    S.builtins.any (·.contains n)

/-- the references of the files `gs` without visible definition -/
def unresolved (S : Spec) (b : St) (gs : List File) : List (File × Name) :=
  gs.flatMap fun g => ((S.refs g).filter fun n => !visible S b g n).map fun n => (g, n)

end Repo
