/-!
# `Imp` — grammar-import namespaces (C25)

Executable mirror of the namespace machinery of `textx/metamodel.py`
(`_enter_namespace`, `_leave_namespace`, `_new_import`, `_new_class` /
`_init_class` / `_cls_fqn`, `__getitem__`) and of the places in `textx/lang.py`
that call it while a grammar file is loaded (`visit_import_stm`,
`visit_rule_name`, `_resolve_rule_refs`, `_resolve_cls_refs`).

* A namespace name (`"a.b.c"`) is the list of its segments.  The file of a
  namespace is `root_path/a/b/c.tx`; the file system is a function from
  namespace names to file contents.
* `namespaces` / `_imported_namespaces` are dictionaries; they are modelled by
  functions (the code never depends on their iteration order for the
  observables of C25).  `_imported_namespaces[ns]` holds *references* to
  namespace dictionaries: it is modelled by the list of their names and
  dereferenced at lookup time, which is what makes an import of a file that is
  still being loaded see an empty dictionary.
* A class is identified by its creation index (`St.classes` is the creation
  log; an entry is the pair the class reports as `_tx_fqn`).
* Loading one file: import statements first (each one loads the imported file
  completely, unless its namespace already exists), then one class per rule,
  then the second pass which resolves every rule reference of the file through
  `__getitem__` in the file's namespace.
* Fuel: `loadFile` recurses through imports; the fuel only bounds the nesting
  depth and `Proofs/Imp.lean` shows that `|files| + 1` is always enough.
Core Lean only.
-/
namespace Imp

abbrev Seg := String
/-- namespace name `a.b.c` = `["a","b","c"]` -/
abbrev Ns := List Seg
abbrev Name := String

/-- A rule reference as written in a grammar: `X` or `a.b.X`. -/
structure Ref where
  qual : Option Ns
  name : Name
deriving DecidableEq, Repr

structure Rule where
  name : Name
  refs : List Ref
deriving DecidableEq, Repr

structure File where
  /-- import statements as written (relative dotted names), in order -/
  imports : List Ns
  rules : List Rule
deriving DecidableEq, Repr

/-- the file system below `root_path`: namespace name ↦ grammar file -/
abbrev FS := Ns → Option File

/-- what a name resolves to: a class (creation index) or a base type -/
inductive Target
  | cls (id : Nat)
  | base (name : Name)
deriving DecidableEq, Repr

inductive Err
  | fuel
  | missing (ns : Ns)          -- open() fails: FileNotFoundError
  | unexisting (ns : Ns) (r : Ref)  -- TextXSemanticError "Unexisting rule" / "Unknown class/rule"
  | nostack
deriving DecidableEq, Repr

/-- one record per rule, written by the second pass -/
structure ResEntry where
  cls : Nat
  ns : Ns
  /-- namespaces that were still being loaded (below `ns` on the stack) -/
  anc : List Ns
  rule : Rule
  targets : List Target
deriving DecidableEq, Repr

/-- names of the `__base__` namespace -/
def baseNames : List Name :=
  ["ID", "STRING", "BOOL", "INT", "FLOAT", "STRICTFLOAT", "NUMBER", "BASETYPE", "OBJECT"]

def upd {α β} [DecidableEq α] (f : α → β) (k : α) (v : β) : α → β :=
  fun x => if x = k then v else f x

structure St where
  /-- `self.namespaces` (without `__base__`): namespace ↦ {rule name ↦ class} -/
  nss : Ns → Option (Name → Option Nat)
  /-- `self._imported_namespaces` without the leading `__base__` entry -/
  imps : Ns → List Ns
  /-- `self._namespace_stack`, top first -/
  stack : List Ns
  /-- creation log of classes: what each reports as `_tx_fqn` -/
  classes : List (Ns × Name)
  resolved : List ResEntry
  /-- log of the files handed to `metamodel_from_file` -/
  opened : List Ns

def St.empty : St :=
  { nss := fun _ => none, imps := fun _ => [], stack := [], classes := [], resolved := [], opened := [] }

/-- `_enter_namespace` -/
def enter (st : St) (ns : Ns) : St :=
  let st1 : St :=
    if (st.nss ns).isSome then st
    else { st with nss := upd st.nss ns (some fun _ => none), imps := upd st.imps ns [] }
  { st1 with stack := ns :: st1.stack }

/-- `_leave_namespace` -/
def leave (st : St) : St := { st with stack := st.stack.tail }

/-- `_new_import`, name computation: relative to the directory of the current file
(`if "." in current_namespace: import_name = root_namespace + "." + import_name`). -/
def absImport (cur : Ns) (imp : Ns) : Ns := cur.dropLast ++ imp

/-- first namespace of the list whose dictionary has `n` -/
def firstIn (st : St) (n : Name) : List Ns → Option Nat
  | [] => none
  | i :: is =>
    match (st.nss i).bind (· n) with
    | some c => some c
    | none => firstIn st n is

/-- `TextXMetaModel.__getitem__` (without referenced languages) -/
def getItem (st : St) (r : Ref) : Option Target :=
  match r.qual with
  | some q => ((st.nss q).bind (· r.name)).map Target.cls
  | none =>
    match st.stack with
    | [] => none
    | cur :: _ =>
      match (st.nss cur).bind (· r.name) with
      | some c => some (.cls c)
      | none =>
        if r.name ∈ baseNames then some (.base r.name)
        else (firstIn st r.name (st.imps cur)).map Target.cls

/-- `self._imported_namespaces[current_namespace].append(self.namespaces[import_name])` -/
def addImp (s : St) (cur name : Ns) : St :=
  { s with imps := upd s.imps cur (s.imps cur ++ [name]) }

/-- `_new_import` for one import statement; `load` is "load that file with its
namespace entered" (`metamodel_from_file(import_file_name, metamodel=self)`). -/
def newImport (load : Ns → St → Except Err St) (st : St) (imp : Ns) : Except Err St :=
  match st.stack with
  | [] => .error .nostack
  | cur :: _ =>
    let name := absImport cur imp
    if (st.nss name).isSome then .ok (addImp st cur name)
    else
      match load name (enter st name) with
      | .error e => .error e
      | .ok s => .ok (addImp (leave s) cur name)

def importAll (load : Ns → St → Except Err St) : List Ns → St → Except Err St
  | [], st => .ok st
  | i :: is, st =>
    match newImport load st i with
    | .error e => .error e
    | .ok s => importAll load is s

/-- `visit_rule_name` → `_new_class` → `_init_class`: the class is pushed into the
namespace on top of the stack and takes its `_tx_fqn` from it. -/
def newClass (st : St) (name : Name) : St :=
  match st.stack with
  | [] => st
  | cur :: _ =>
    { st with
      classes := st.classes ++ [(cur, name)]
      nss := upd st.nss cur ((st.nss cur).map fun d => upd d name (some st.classes.length)) }

def createAll (st : St) : List Rule → St
  | [] => st
  | r :: rs => createAll (newClass st r.name) rs

def resolveRefs (st : St) (ns : Ns) : List Ref → Except Err (List Target)
  | [] => .ok []
  | r :: rs =>
    match getItem st r with
    | none => .error (.unexisting ns r)
    | some t =>
      match resolveRefs st ns rs with
      | .error e => .error e
      | .ok ts => .ok (t :: ts)

def logRes (st : St) (e : ResEntry) : St := { st with resolved := st.resolved ++ [e] }

def logOpen (st : St) (ns : Ns) : St := { st with opened := st.opened ++ [ns] }

/-- second pass of one grammar file (`_resolve_rule_refs`, `_resolve_cls_refs`):
every reference of every rule goes through `__getitem__` while the file's
namespace is on top of the stack. -/
def secondPass (st : St) : List Rule → Except Err St
  | [] => .ok st
  | r :: rs =>
    match st.stack with
    | [] => .error .nostack
    | cur :: anc =>
      match getItem st ⟨none, r.name⟩ with
      | some (.cls c) =>
        match resolveRefs st cur r.refs with
        | .error e => .error e
        | .ok ts => secondPass (logRes st ⟨c, cur, anc, r, ts⟩) rs
      | _ => .error (.unexisting cur ⟨none, r.name⟩)

/-- `metamodel_from_file(file of ns, metamodel=self)` with `ns` entered. -/
def loadFile (fs : FS) : Nat → Ns → St → Except Err St
  | fuel, ns, st =>
    match fs ns with
    | none => .error (.missing ns)
    | some f =>
      match fuel with
      | 0 => .error .fuel
      | fuel + 1 =>
        match importAll (loadFile fs fuel) f.imports (logOpen st ns) with
        | .error e => .error e
        | .ok s => secondPass (createAll s f.rules) f.rules

/-- `metamodel_from_file(root_path/main.tx)`: `__init__` enters the namespace of
the main file (its base name) and never leaves it. -/
def loadMain (fs : FS) (fuel : Nat) (main : Seg) : Except Err St :=
  loadFile fs fuel [main] (enter St.empty [main])

/-! ## the documented resolution, stated on the files alone -/

def File.defines (f : File) (n : Name) : Bool := f.rules.any (·.name == n)

/-- direct imports of the file `ns`, as namespace names, in import order -/
def absImports (ns : Ns) (f : File) : List Ns := f.imports.map (absImport ns)

def fsDefines (fs : FS) (i : Ns) (n : Name) : Bool :=
  match fs i with
  | some f => f.defines n
  | none => false

inductive SpecTarget
  | rule (ns : Ns) (name : Name)
  | base (name : Name)
deriving DecidableEq, Repr

/-- Resolution of a reference used in file `ns`.  `skip` lists namespaces whose
rules are not visible to an unqualified name (none in the documented reading;
the files still being loaded in the mirror).  Unqualified: own file, (base
types,) first import in order defining the name.  Qualified: the rule of the
named file. -/
def specResolve (fs : FS) (ns : Ns) (skip : List Ns) (r : Ref) : Option SpecTarget :=
  match r.qual with
  | some q => if fsDefines fs q r.name then some (.rule q r.name) else none
  | none =>
    match fs ns with
    | none => none
    | some f =>
      if f.defines r.name then some (.rule ns r.name)
      else if r.name ∈ baseNames then some (.base r.name)
      else ((absImports ns f).find? fun i => decide (i ∉ skip) && fsDefines fs i r.name).map
        fun i => .rule i r.name

/-- the documented resolution: nothing is skipped -/
def docResolve (fs : FS) (ns : Ns) (r : Ref) : Option SpecTarget := specResolve fs ns [] r

/-- a model-side target denotes a spec-side target, given the class creation log -/
def Denotes (classes : List (Ns × Name)) : Target → SpecTarget → Prop
  | .cls c, .rule ns n => classes[c]? = some (ns, n)
  | .base a, .base b => a = b
  | _, _ => False

/-! ## does a tree of grammar files load?  (files-only criterion, see `C25_loads`) -/

/-- Reference `r` written in file `x` (= `f`) is resolvable by the documentation: an unqualified
name has a documented resolution; a qualified name names the file itself or one of its direct
imports, and that file defines the rule. -/
def docResolvable (fs : FS) (x : Ns) (f : File) (r : Ref) : Bool :=
  match r.qual with
  | none => (docResolve fs x r).isSome
  | some q => (decide (q = x) || (absImports x f).contains q) && fsDefines fs q r.name

/-- every import statement of a file of `S` names a member of `S` -/
def closedUnder (fs : FS) (S : List Ns) : Bool :=
  S.all fun a =>
    match fs a with
    | none => true
    | some f => (absImports a f).all fun b => S.contains b

/-- `S` contains the main file and everything it imports, all those files exist and every rule
reference in them is `docResolvable` -/
def docLoadable (fs : FS) (S : List Ns) (main : Seg) : Bool :=
  S.contains [main] && closedUnder fs S &&
    S.all fun x =>
      match fs x with
      | none => false
      | some f => f.rules.all fun rule => rule.refs.all (docResolvable fs x f)

/-! ## histories: one process builds several meta-models, the grammar files change in between -/

/-- One step of a history: the grammar files as they are on disk at the moment
`metamodel_from_file(root_path/main.tx)` is called. -/
structure Step where
  fs : FS
  main : Seg

/-- What a process obtains that builds one meta-model per step (files rewritten, removed, added or
replaced by another tree at the same paths in between; another main file; earlier loads that
failed): `TextXMetaModel.__init__` starts from empty `namespaces` / `_imported_namespaces` and
`metamodel_from_file` reads every file again, so nothing of an earlier step takes part. -/
def loadHistory (fuel : Nat) : List Step → List (Except Err St)
  | [] => []
  | s :: rest => loadMain s.fs fuel s.main :: loadHistory fuel rest

end Imp
