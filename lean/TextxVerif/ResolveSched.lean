import TextxVerif.Resolve
/-!
# The resolver loop under an arbitrary postponement schedule (C08, C09)

`Resolve.Provider` is a *monotone function of the resolved set*.  A scope provider of
textX is an arbitrary Python callable: it may count its calls, keep state, answer
`Postponed` on whichever rounds it likes.  `Oracle` covers all of that: the answer
to a call may depend on the whole history of provider calls made so far in this load
(`hist`, most recent first — a deterministic provider is a function of what it has
been asked), on the references resolved so far and on the reference asked about.

`stepO` / `loopO` are `Resolve.step` / `Resolve.loop` (`resolve_one_step` and the
`while unresolved_count > 0 and resolved_count > 0` loop of `textx/model.py`) with
such an oracle; `Proofs/ResolveSched.lean` shows `loop P = loopO (fun _ => P.ready)`.
`countOracle` = the schedule used by the C08 correspondence: reference `r` is
answered `Postponed` on its first `wait r` calls.
`depOracle` = `countOracle` plus providers that *ask the resolver* about another
reference (`needs_to_be_resolved`: RREL expressions walking over `~attr`,
`RelativeName`, …) — expressed as a function of the call history alone.
Model file: core Lean only.
-/
namespace Resolve

/-- any provider behaviour: call history → resolved references → reference → "not Postponed" -/
abbrev Oracle := List Ref → List Ref → Ref → Bool

/-- one pass of `resolve_one_step`; third component = the call history afterwards -/
def stepO (O : Oracle) : List Ref → List Ref → List Ref → List Ref × List Ref × List Ref
  | hist, [], res => ([], res, hist)
  | hist, r :: rs, res =>
      if O hist res r then stepO O (r :: hist) rs (r :: res)
      else
        let (p, res', hist') := stepO O (r :: hist) rs res
        (r :: p, res', hist')

/-- rounds until nothing is pending or a round resolved nothing -/
def loopO (O : Oracle) : Nat → List Ref → List Ref → List Ref → List Ref × List Ref
  | 0, _, p, res => (p, res)
  | n+1, hist, p, res =>
      let (p', res', hist') := stepO O hist p res
      if p' = [] ∨ p'.length = p.length then (p', res') else loopO O n hist' p' res'

/-- `Postponed` on the first `wait r` calls for reference `r` -/
def countOracle (wait : Ref → Nat) : Oracle := fun hist _ r => decide (wait r ≤ hist.count r)

/-- Counting schedule plus dependencies decided the way `needs_to_be_resolved` decides them.
`dep r` = the references whose attribute the provider of `r` has to walk over (same model file).
`has_unresolved_crossrefs` scans `parser._crossrefs`, which is replaced only at the END of a
pass: a dependency resolved earlier in the *same* pass is still reported unresolved (cf.
`ResolveQuery.stepQ`).  Every pending reference is asked exactly once per round, so at a call
for `r` the current round is `hist.count r` and a resolved `d` got resolved in round
`hist.count d - 1`: "`d` was resolved in an earlier round" = `d ∈ res ∧ hist.count d ≤ hist.count r`. -/
def depOracle (wait : Ref → Nat) (dep : Ref → List Ref) : Oracle := fun hist res r =>
  decide (wait r ≤ hist.count r) && (dep r).all (fun d => decide (d ∈ res) && decide (hist.count d ≤ hist.count r))

end Resolve
