import TextxVerif.Resolve
/-!
# The resolver loop under an arbitrary postponement schedule (C08, C09)

`Resolve.Provider` is a *monotone function of the resolved set*.  A scope provider of
textX is an arbitrary Python callable: it may count its calls, keep state, answer
`Postponed` on whichever rounds it likes.  `Oracle` covers all of that: the answer
to a call may depend on the whole history of provider calls made so far in this load
(`hist`, most recent first — a deterministic provider is a function of what it has
been asked), on the references resolved so far and on the reference asked about.

`stepO` / `loopO` are `Resolve.step` / `Resolve.loop` (`resolve_one_step` and the
`while unresolved_count > 0 and resolved_count > 0` loop of `textx/model.py`) with
such an oracle; `Proofs/ResolveSched.lean` shows `loop P = loopO (fun _ => P.ready)`.
`countOracle` = the schedule used by the C08 correspondence: reference `r` is
answered `Postponed` on its first `wait r` calls.
Model file: core Lean only.
-/
namespace Resolve

/-- any provider behaviour: call history → resolved references → reference → "not Postponed" -/
abbrev Oracle := List Ref → List Ref → Ref → Bool

/-- one pass of `resolve_one_step`; third component = the call history afterwards -/
def stepO (O : Oracle) : List Ref → List Ref → List Ref → List Ref × List Ref × List Ref
  | hist, [], res => ([], res, hist)
  | hist, r :: rs, res =>
      if O hist res r then stepO O (r :: hist) rs (r :: res)
      else
        let (p, res', hist') := stepO O (r :: hist) rs res
        (r :: p, res', hist')

/-- rounds until nothing is pending or a round resolved nothing -/
def loopO (O : Oracle) : Nat → List Ref → List Ref → List Ref → List Ref × List Ref
  | 0, _, p, res => (p, res)
  | n+1, hist, p, res =>
      let (p', res', hist') := stepO O hist p res
      if p' = [] ∨ p'.length = p.length then (p', res') else loopO O n hist' p' res'

/-- `Postponed` on the first `wait r` calls for reference `r` -/
def countOracle (wait : Ref → Nat) : Oracle := fun hist _ r => decide (wait r ≤ hist.count r)

end Resolve
