import TextxVerif.Resolve
/-!
# Resolution orders and the round over several model files (C08, C09)

`ValidOrder P σ` = the literal wording of C09's success clause: `σ` is an order of
resolving references in which every reference resolves *given the ones resolved
before it* (the provider is asked with exactly the earlier references resolved).
`validOrder` = the same as an executable check (a single left-to-right scan that
carries the resolved references along, most recent first, like `res` of `step`),
used by the driver to check resolution sequences observed on the implementation.

`roundFiles` / `loopFiles` = the round-robin of `parse_tree_to_objgraph`
(`textx/model.py`) at the level of the model files:

    while unresolved_count > 0 and resolved_count > 0:
        resolved_count = 0; unresolved_count = 0
        for m in models:
            n, delayed = m._tx_reference_resolver.resolve_one_step()
            resolved_count += n; unresolved_count += len(delayed)

every file keeps its own pending list (`parser._crossrefs`), the passes of a round
run file after file and see what the earlier passes of the same round resolved.
`Proofs/ResolveOrder.lean` shows that this is `Resolve.loop` on the concatenation
of the pending lists.
Model file: core Lean only.
-/
namespace Resolve

/-- "every reference resolves given the ones resolved before it" -/
def ValidOrder (P : Provider) (σ : List Ref) : Prop :=
  ∀ i (h : i < σ.length), P.ready (σ.take i) σ[i] = true

/-- scan of an order with the references resolved so far (most recent first) -/
def validOrderFrom (P : Provider) : List Ref → List Ref → Bool
  | _, [] => true
  | S, r :: rs => P.ready S r && validOrderFrom P (r :: S) rs

/-- executable form of `ValidOrder` -/
def validOrder (P : Provider) (σ : List Ref) : Bool := validOrderFrom P [] σ

/-- one round: the files are stepped one after the other -/
def roundFiles (P : Provider) : List (List Ref) → List Ref → List (List Ref) × List Ref
  | [], res => ([], res)
  | f :: fs, res =>
      let (p, res1) := step P f res
      let (ps, res2) := roundFiles P fs res1
      (p :: ps, res2)

/-- rounds until nothing is pending in any file or a round resolved nothing -/
def loopFiles (P : Provider) : Nat → List (List Ref) → List Ref → List (List Ref) × List Ref
  | 0, fs, res => (fs, res)
  | n+1, fs, res =>
      let (fs', res') := roundFiles P fs res
      if fs'.flatten = [] ∨ fs'.flatten.length = fs.flatten.length then (fs', res')
      else loopFiles P n fs' res'

/-- the pinned (unrepaired) list branch of `resolve_one_step`, statement by statement:
`attr_value.append(resolved)` for every reference in the order it resolves
(`Resolve.listAfterAppend` is its closed form) -/
def listAfterPinned (seq : List LRef) : List LRef := seq.foldl (fun acc r => acc ++ [r]) []

end Resolve
