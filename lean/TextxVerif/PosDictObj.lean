import TextxVerif.Obj.Build
import TextxVerif.PosDict
/-!
# The object tree of a built model (C34 ← C05 / C06)

`PosDict.ONode` is the object tree the position map is computed from.  `toONode` reads it off a
heap of `Obj.build` (the model of `process_node`): identity = heap index, span =
(`_tx_position`, `_tx_position_end`), children = the objects held by the containment attributes,
in `_tx_attrs` / list order.  Core Lean only (used by the driver).
-/
namespace PosDict
open Obj

/-- (`_tx_position`, `_tx_position_end`) of object `x` ((0, 0) when there is no such object) -/
def spanD (h : Heap) (x : Nat) : Nat × Nat :=
  match h.get x with
  | some o => (o.pos, o.posEnd)
  | none => (0, 0)

/-- the containment tree below `x`, unfolded `fuel` levels deep (`fuel = |h|` unfolds all of it:
containers are older than their contents) -/
def toONode (h : Heap) : Nat → Nat → ONode
  | 0, x => .mk x (spanD h x).1 (spanD h x).2 []
  | f + 1, x => .mk x (spanD h x).1 (spanD h x).2 ((contIds h x).map (toONode h f))

end PosDict
