/-!
# Error locations and editor-support reference positions during model loading

Mirrors (after the `fix:` commits of branch `fix/C28`)

* `arpeggio.Parser.pos_to_linecol`                          → `posToLineCol`
* `textx/model.py` `TextXModelParser._parse` (syntax error)  → `parseFile`
* `textx/model.py` `ReferenceResolver.resolve_one_step`      → `stepRefs`, `resolveOneStep`
  (unknown-object error, `RefRulePosition` collection)
* `textx/scoping/providers.py` `PlainName.__call__` (name not unique) → `errNotUnique`
* `textx/model.py` `parse_tree_to_objgraph` main-model loop and the
  "Unresolvable cross references" error                     → `stepModels`, `resolveLoop`, `errUnresolvable`

Every model file has its own parser (a clone of the blueprint) which keeps the
text (`input`) and the file name; positions stored in cross-references are
offsets into the text of the parser that produced them.  Python object
references to parsers are modelled by value (`PInfo`: the two fields that never
change after `parse`).

Scope providers are exogenous: `ans k id` is what the provider answers when the
reference `id` is asked for the `(k+1)`-th time (= in round `k`, every pending
reference is asked once per round).  Quantifying over all `ans` covers every
provider, schedule and history.

The position of a syntax error is Arpeggio's furthest-failure record; it is an
input of this model (`FileSpec.nm`).
Model file: core Lean only.
-/
namespace LinkLoc

/-! ## `Parser.pos_to_linecol` -/

/-- `line_ends`: offsets of all `'\n'`, ascending (offset of the head is `i`) -/
def lineEndsFrom (i : Nat) : List Char → List Nat
  | [] => []
  | c :: cs => if c = '\n' then i :: lineEndsFrom (i + 1) cs else lineEndsFrom (i + 1) cs

def lineEnds (input : List Char) : List Nat := lineEndsFrom 0 input

/-- `bisect.bisect_left` on an ascending list: number of leading elements `< p` -/
def bisectLeft : List Nat → Nat → Nat
  | [], _ => 0
  | x :: xs, p => if x < p then bisectLeft xs p + 1 else 0

/-- `Parser.pos_to_linecol(pos)`; the column is computed with Python integers -/
def posToLineCol (input : List Char) (pos : Nat) : Nat × Int :=
  let les := lineEnds input
  let line := bisectLeft les pos
  let col : Int :=
    if line > 0 then
      let le := les.getD (line - 1) 0
      let c : Int := (pos : Int) - (le : Int)
      if input.getD le ' ' = '\n' ∨ input.getD le ' ' = '\r' then c - 1 else c
    else (pos : Int)
  (line + 1, col + 1)

/-- Specification: read `n` characters starting at `(line, col)`; a newline
starts the next line at column 1, any other character advances the column. -/
def walk : List Char → Nat → Nat × Nat → Nat × Nat
  | _, 0, lc => lc
  | [], _ + 1, lc => lc
  | c :: cs, n + 1, (l, k) => if c = '\n' then walk cs n (l + 1, 1) else walk cs n (l, k + 1)

/-- line and column (1-based) of offset `pos` of `input` -/
def lineColSpec (input : List Char) (pos : Nat) : Nat × Nat := walk input pos (1, 1)

/-! ## data -/

inductive Kind | syntax | unknown | unresolvable | notUnique
deriving DecidableEq, Repr

/-- `TextXError.filename / line / col` -/
structure Err where
  kind : Kind
  filename : Option String
  line : Nat
  col : Int
deriving DecidableEq, Repr

/-- the fields of a parser that are fixed by `parse(text, file_name)` -/
structure PInfo where
  fileName : Option String
  input : List Char
deriving DecidableEq, Repr

/-- a resolved object as far as `RefRulePosition` looks at it:
`get_model(resolved)._tx_filename`, `_tx_position`, `_tx_position_end` -/
structure Target where
  file : Option String
  s : Nat
  e : Nat
deriving DecidableEq, Repr

/-- what a scope provider can do with one reference -/
inductive Answer
  | resolved (t : Target)
  | postponed
  | unknown                    -- returns None (and no builtin matches)
  | notUnique (root : Nat)     -- PlainName found several objects while searching model `root`
deriving DecidableEq, Repr

/-- `(obj, attr, ObjCrossRef)`: `owner` = index of `get_model(obj)`, `pos`/`posEnd` =
`ObjCrossRef.position/position_end`, `parser` = `ObjCrossRef.parser` -/
structure XRef where
  id : Nat
  owner : Nat
  pos : Nat
  posEnd : Nat
  parser : PInfo
deriving DecidableEq, Repr

/-- `RefRulePosition` (`name` = the reference, identified by its id) -/
structure Entry where
  ref : Nat
  refStart : Nat
  refEnd : Nat
  defFile : Option String
  defStart : Nat
  defEnd : Nat
deriving DecidableEq, Repr

/-- a model under construction: `_tx_filename`, `_tx_parser` (= the resolver's
parser), the parser's `_crossrefs`, the resolver's `delayed_crossrefs`, and the
tool-support list `_pos_crossref_list` -/
structure MRec where
  idx : Nat
  filename : Option String
  parser : PInfo
  crossrefs : List XRef
  delayed : List XRef
  posList : List Entry
deriving DecidableEq, Repr

inductive Outcome
  | ok (models : List MRec)
  | err (e : Err)
  | crash          -- a non-textX exception (unpacking `None`); shown unreachable
  | fuel
deriving DecidableEq, Repr

/-! ## the four error constructions -/

/-- model.py `_parse`: `TextXSyntaxError(line=e.line, col=e.col, filename=e.parser.file_name)`
with `e.line, e.col = e.parser.pos_to_linecol(e.position)`; `p` is the parser that was parsing -/
def errSyntax (p : PInfo) (nmPos : Nat) : Err :=
  let lc := posToLineCol p.input nmPos
  ⟨.syntax, p.fileName, lc.1, lc.2⟩

/-- model.py `resolve_one_step`: `self.parser.pos_to_linecol(crossref.position)`,
`filename=self.model._tx_filename` -/
def errUnknown (m : MRec) (x : XRef) : Err :=
  let lc := posToLineCol m.parser.input x.pos
  ⟨.unknown, m.filename, lc.1, lc.2⟩

/-- providers.py `PlainName.__call__` (repaired): located through the parser the reference came from -/
def errNotUnique (x : XRef) : Err :=
  let lc := posToLineCol x.parser.input x.pos
  ⟨.notUnique, x.parser.fileName, lc.1, lc.2⟩

/-- first delayed reference, models in loop order -/
def firstDelayed : List MRec → Option (MRec × XRef)
  | [] => none
  | m :: ms =>
    match m.delayed with
    | x :: _ => some (m, x)
    | [] => firstDelayed ms

/-- model.py main loop (repaired): position through the parser of the model holding
the reference, its file name, first unresolvable reference -/
def errUnresolvable (ms : List MRec) : Option Err :=
  match firstDelayed ms with
  | some (m, x) =>
    let lc := posToLineCol m.parser.input x.pos
    some ⟨.unresolvable, m.filename, lc.1, lc.2⟩
  | none => none

/-! pinned (unrepaired) constructions, for the negation witnesses -/

def lastDelayed (ms : List MRec) : Option XRef := (ms.flatMap (·.delayed)).getLast?

/-- pinned: main model's parser for every position, last reference, no file name -/
def errUnresolvablePinned (main : PInfo) (ms : List MRec) : Option Err :=
  match lastDelayed ms with
  | some x =>
    let lc := posToLineCol main.input x.pos
    some ⟨.unresolvable, none, lc.1, lc.2⟩
  | none => none

/-- pinned: parser and file name of the model that was searched (`root`) -/
def errNotUniquePinned (ms : List MRec) (root : Nat) (x : XRef) : Option Err :=
  match ms[root]? with
  | some r =>
    let lc := posToLineCol r.parser.input x.pos
    some ⟨.notUnique, r.filename, lc.1, lc.2⟩
  | none => none

/-! ## `resolve_one_step` -/

/-- `RefRulePosition(...)` (repaired: end of the reference text) -/
def mkEntry (x : XRef) (t : Target) : Entry :=
  ⟨x.id, x.pos, x.posEnd, t.file, t.s, t.e⟩

/-- pinned: `ref_pos_end = position + len(resolved.name)` -/
def mkEntryPinned (x : XRef) (t : Target) (nameLen : Nat) : Entry :=
  ⟨x.id, x.pos, x.pos + nameLen, t.file, t.s, t.e⟩

/-- `bisect` on the start positions followed by `insert` on both lists, fused (repaired) -/
def insertEntry (e : Entry) : List Entry → List Entry
  | [] => [e]
  | y :: ys => if e.refStart < y.refStart then e :: y :: ys else y :: insertEntry e ys

/-- the `for obj, attr, crossref in current_crossrefs` loop of model `m` in round `k`.
Result: `new_crossrefs`, `delayed_crossrefs`, `resolved_crossref_count`, tool list. -/
def stepRefs (ans : Nat → Nat → Answer) (k : Nat) (m : MRec) :
    List XRef → List Entry → Except Err (List XRef × List XRef × Nat × List Entry)
  | [], pl => .ok ([], [], 0, pl)
  | x :: xs, pl =>
    if x.owner = m.idx then
      match ans k x.id with
      | .notUnique _ => .error (errNotUnique x)
      | .unknown => .error (errUnknown m x)
      | .postponed =>
        match stepRefs ans k m xs pl with
        | .error e => .error e
        | .ok (nc, dl, c, pl') => .ok (x :: nc, x :: dl, c, pl')
      | .resolved t =>
        match stepRefs ans k m xs (insertEntry (mkEntry x t) pl) with
        | .error e => .error e
        | .ok (nc, dl, c, pl') => .ok (nc, dl, c + 1, pl')
    else
      match stepRefs ans k m xs pl with
      | .error e => .error e
      | .ok (nc, dl, c, pl') => .ok (x :: nc, dl, c, pl')

def resolveOneStep (ans : Nat → Nat → Answer) (k : Nat) (m : MRec) : Except Err (MRec × Nat) :=
  match stepRefs ans k m m.crossrefs m.posList with
  | .error e => .error e
  | .ok (nc, dl, c, pl) => .ok ({ m with crossrefs := nc, delayed := dl, posList := pl }, c)

/-- `for m in models: … resolve_one_step()`; result: models, resolved_count, unresolved_count -/
def stepModels (ans : Nat → Nat → Answer) (k : Nat) : List MRec → Except Err (List MRec × Nat × Nat)
  | [] => .ok ([], 0, 0)
  | m :: ms =>
    match resolveOneStep ans k m with
    | .error e => .error e
    | .ok (m', c) =>
      match stepModels ans k ms with
      | .error e => .error e
      | .ok (ms', rc, uc) => .ok (m' :: ms', c + rc, m'.delayed.length + uc)

/-- `while unresolved_count > 0 and resolved_count > 0` (both start at 1) and what follows it -/
def resolveLoop (ans : Nat → Nat → Answer) : Nat → Nat → List MRec → Outcome
  | 0, _, _ => .fuel
  | n + 1, k, ms =>
    match stepModels ans k ms with
    | .error e => .err e
    | .ok (ms', rc, uc) =>
      if uc > 0 ∧ rc > 0 then resolveLoop ans n (k + 1) ms'
      else if uc > 0 then
        match errUnresolvable ms' with
        | some e => .err e
        | none => .crash
      else .ok ms'

/-! ## loading -/

structure RefSpec where
  id : Nat
  pos : Nat
  posEnd : Nat
deriving DecidableEq, Repr

/-- one model file (`name = none`: a string).  `refs`: the cross-references
`process_node` finds, in text order.  `nm`: Arpeggio's furthest failure when the
text does not parse. -/
structure FileSpec where
  name : Option String
  text : List Char
  refs : List RefSpec
  nm : Option Nat
deriving DecidableEq, Repr

def mkXRef (idx : Nat) (p : PInfo) (r : RefSpec) : XRef := ⟨r.id, idx, r.pos, r.posEnd, p⟩

/-- `clone()`, `parse(text, file_name)`, `parse_tree_to_objgraph` up to the resolver creation -/
def parseFile (idx : Nat) (f : FileSpec) : Except Err MRec :=
  let p : PInfo := { fileName := f.name, input := f.text }
  match f.nm with
  | some pos => .error (errSyntax p pos)
  | none =>
    .ok { idx := idx, filename := f.name, parser := p, crossrefs := f.refs.map (mkXRef idx p),
          delayed := [], posList := [] }

/-- files in load order (main model first) -/
def loadFrom (i : Nat) : List FileSpec → Except Err (List MRec)
  | [] => .ok []
  | f :: fs =>
    match parseFile i f with
    | .error e => .error e
    | .ok m =>
      match loadFrom (i + 1) fs with
      | .error e => .error e
      | .ok ms => .ok (m :: ms)

/-- loading a model and the models it imports -/
def run (files : List FileSpec) (ans : Nat → Nat → Answer) (fuel : Nat) : Outcome :=
  match loadFrom 0 files with
  | .error e => .err e
  | .ok ms => resolveLoop ans fuel 0 ms

/-- number of rounds that always suffices -/
def enoughFuel (files : List FileSpec) : Nat := (files.map (·.refs.length)).sum + 1

end LinkLoc
