/-!
# Reference lists under a history of model loads (C08)

Mirror of the list branch of `ReferenceResolver.resolve_one_step`
(`textx/model.py`) at the level of the data the code really keeps:

* `_list_ref_positions : {(id(obj), attr.name): [positions, sorted]}` — one
  dictionary per `ReferenceResolver`, i.e. per model file of a load, created
  empty in `ReferenceResolver.__init__`;
* the attribute value `getattr(obj, attr.name)` — a Python list that starts
  empty (`_init_obj_attrs`) because the objects of a load are new.

For a resolved reference the code does

    positions = self._list_ref_positions.setdefault((id(obj), attr.name), [])
    idx = bisect(positions, crossref.position)
    positions.insert(idx, crossref.position)
    attr_value.insert(idx, resolved)

`resolve` is this statement sequence, `run` one resolver fed with the sequence
in which the scope providers let its references resolve (any order: it is the
postponement schedule that decides it), `history` a sequence of such runs with
ONE metamodel: every run starts from `State.init`.  Keys are plain numbers: the
same key may occur in several runs (`id()` of a collected object is reused by
CPython; two files of one load have two resolvers) and positions start at 0.

`historyShared` is the variant in which the position dictionary survives from
one run to the next (a dictionary kept on the parser blueprint / the metamodel
instead of the resolver); `Props/C08.lean` shows that it breaks the property.
Model file: core Lean only.
-/
namespace RefList

/-- key of `_list_ref_positions`: `(id(obj), attribute)` -/
abbrev Key := Nat × Nat

/-- a reference written in a list attribute: the attribute it belongs to, its
text position (`crossref.position`, 0-based offset) and the object the scope
provider finally returns for it -/
structure KRef where
  key : Key
  pos : Nat
  tgt : Nat
deriving Repr, DecidableEq

/-- `bisect.bisect(positions, p)` (`bisect_right`) on a sorted list: the number
of leading entries `≤ p` -/
def bisect : List Nat → Nat → Nat
  | [], _ => 0
  | x :: xs, p => if p < x then 0 else bisect xs p + 1

/-- `list.insert(i, x)`: an index beyond the end appends (Python clamps it) -/
def pyInsert {α : Type} (i : Nat) (x : α) (l : List α) : List α := l.take i ++ x :: l.drop i

/-- what one resolver run reads and writes -/
structure State where
  /-- `_list_ref_positions.get(key, [])` -/
  positions : Key → List Nat
  /-- `getattr(obj, attr.name)` of the attribute behind `key` -/
  values : Key → List Nat

/-- a new `ReferenceResolver` and new objects -/
def State.init : State := ⟨fun _ => [], fun _ => []⟩

/-- the list branch of `resolve_one_step` for one resolved reference -/
def resolve (st : State) (r : KRef) : State :=
  let ps := st.positions r.key
  let idx := bisect ps r.pos
  { positions := fun k => if k = r.key then pyInsert idx r.pos ps else st.positions k
    values := fun k => if k = r.key then pyInsert idx r.tgt (st.values r.key) else st.values k }

/-- one resolver whose references get resolved in the order `seq` -/
def run (seq : List KRef) : State := seq.foldl resolve State.init

/-- model loads one after the other with one metamodel: each load has its own
resolver(s) and its own objects -/
def history (runs : List (List KRef)) : List State := runs.map run

/-- the references of `refs` (textual order) written in the attribute `k` -/
def ofKey (k : Key) (refs : List KRef) : List KRef := refs.filter (fun r => r.key = k)

/-- variant: the position dictionary is inherited from the previous run (only
the objects, hence the attribute values, are new) -/
def runFrom (book : Key → List Nat) (seq : List KRef) : State :=
  seq.foldl resolve ⟨book, fun _ => []⟩

def historyShared : (Key → List Nat) → List (List KRef) → List State
  | _, [] => []
  | book, s :: rest =>
      let st := runFrom book s
      st :: historyShared st.positions rest

/-- variant: a reference at offset 0 is taken for one without a position and
filed behind the references resolved so far (`crossref.position or …`) -/
def resolveFalsy (st : State) (r : KRef) : State :=
  let ps := st.positions r.key
  let p := if r.pos = 0 then ps.getLast?.getD 0 else r.pos
  let idx := bisect ps p
  { positions := fun k => if k = r.key then pyInsert idx p ps else st.positions k
    values := fun k => if k = r.key then pyInsert idx r.tgt (st.values r.key) else st.values k }

end RefList
