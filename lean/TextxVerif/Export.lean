import TextxVerif.Dot
/-!
# The exports (C29): `model_export_to_file`, `metamodel_export_tofile` with the DOT and
PlantUML renderers (`textx/export.py:166-324, 413-520`, after the `fix:` commits)

The exports are modelled as producers of *statements* (`Stmt`) that are rendered to
text by fixed templates (`renderStmt`, the f-strings of the source).  The data the
exports read — object graph with `_tx_attrs` order, attribute meta data, `id()`s,
`get_children` lists, file names, the unified class list — is the input.
-/
namespace Dot

def digits (n : Nat) : Str := Nat.toDigits 10 n

/-! ## 1. Statements and their templates -/

inductive Stmt
  /-- `{src} -> {dst} [label="{label}" {endmark}]\n` -/
  | edgeObj (src dst : Nat) (label : Str) (cont : Bool)
  /-- `{src} -> "{dst}" [label="{label}" {endmark}]\n` -/
  | edgePrim (src : Nat) (dst : Str) (label : Str) (cont : Bool)
  /-- model object: `{id}[label="{{{name}|{attrs}}}"]\n`; class (`mm`): `{id}[ label="{{{name}|{attrs}}}"]\n\n` -/
  | node (mm : Bool) (id : Nat) (name attrs : Str)
  /-- `_export_subgraph` -/
  | cluster (fname : Str) (kids : List Nat)
  /-- `{src} -> {dst}[{arrowtail}headlabel="{label}"]\n` -/
  | link (src dst : Nat) (cont : Bool) (label : Str)
  /-- `{base} -> {special} [dir=back]\n` -/
  | inh (base special : Nat)
  /-- `"\n\n"` between the class nodes and the links -/
  | blank
  /-- `match_rules [ shape=plaintext, label=< {table} >]\n\n` -/
  | matchTable (rows : List (Str × Str))
  deriving DecidableEq, Repr

def endmark (cont : Bool) : Str := if cont then cl!"arrowtail=diamond dir=both" else []

def tableRow (r : Str × Str) : Str :=
  cl!"\t<tr>\n" ++ cl!"\t\t<td><b>" ++ r.1 ++ cl!"</b></td><td>" ++ htmlEscape r.2
    ++ cl!"</td>\n" ++ cl!"\t</tr>\n"

def tableText (rows : List (Str × Str)) : Str :=
  cl!"<table>\n" ++ rows.flatMap tableRow ++ cl!"</table>"

def clusterHead (fname : Str) : Str :=
  cl!"subgraph \"cluster_" ++ fname ++ cl!"\" {\n"
    ++ cl!"\n        penwidth=2.0\n        color=darkorange4;\n        label = \"" ++ fname
    ++ cl!"\";\n                    "

def renderStmt : Stmt → Str
  | .edgeObj s d l c =>
    digits s ++ cl!" -> " ++ digits d ++ cl!" [label=\"" ++ l ++ cl!"\" " ++ endmark c ++ cl!"]\n"
  | .edgePrim s d l c =>
    digits s ++ cl!" -> \"" ++ d ++ cl!"\" [label=\"" ++ l ++ cl!"\" " ++ endmark c ++ cl!"]\n"
  | .node false i n a => digits i ++ cl!"[label=\"{" ++ n ++ ['|'] ++ a ++ cl!"}\"]\n"
  | .node true i n a => digits i ++ cl!"[ label=\"{" ++ n ++ ['|'] ++ a ++ cl!"}\"]\n\n"
  | .cluster f ks =>
    clusterHead f ++ ks.flatMap (fun k => digits k ++ cl!";\n") ++ cl!"\n}\n"
  | .link s d c l =>
    digits s ++ cl!" -> " ++ digits d ++ ['[']
      ++ (if c then cl!"arrowtail=diamond, dir=both, " else []) ++ cl!"headlabel=\"" ++ l ++ cl!"\"]\n"
  | .inh b s => digits b ++ cl!" -> " ++ digits s ++ cl!" [dir=back]\n"
  | .blank => cl!"\n\n"
  | .matchTable rows =>
    cl!"match_rules [ shape=plaintext, label=< " ++ tableText rows ++ cl!" >]\n\n"

/-- header, statements, closing brace -/
def renderDoc (ss : List Stmt) : Str :=
  Gen.Dot.header ++ ss.flatMap renderStmt ++ cl!"\n}\n"

/-! the tokens and the recognised statements of one `Stmt` -/

def endmarkAttrs (cont : Bool) : List (Tok × Tok) :=
  if cont then [((Tok.id cl!"arrowtail"), (Tok.id cl!"diamond")), ((Tok.id cl!"dir"), (Tok.id cl!"both"))] else []

def recordLabel (n a : Str) : Str := '{' :: n ++ '|' :: a ++ ['}']

def stmtEvs : Stmt → List Ev
  | .edgeObj s d l c => [.edge (.num (digits s)) (.num (digits d)) (((Tok.id cl!"label"), .qstr l) :: endmarkAttrs c)]
  | .edgePrim s d l c => [.edge (.num (digits s)) (.qstr d) (((Tok.id cl!"label"), .qstr l) :: endmarkAttrs c)]
  | .node _ i n a => [.node (.num (digits i)) [((Tok.id cl!"label"), .qstr (recordLabel n a))]]
  | .cluster f ks =>
    [.sub (some (.qstr (cl!"cluster_" ++ f))), .assign ((Tok.id cl!"penwidth")) (.num cl!"2.0"),
     .assign ((Tok.id cl!"color")) ((Tok.id cl!"darkorange4")), .assign ((Tok.id cl!"label")) (.qstr f)]
      ++ ks.map (fun k => .node (.num (digits k)) []) ++ [.close]
  | .link s d c l =>
    [.edge (.num (digits s)) (.num (digits d)) (endmarkAttrs c ++ [((Tok.id cl!"headlabel"), .qstr l)])]
  | .inh b s => [.edge (.num (digits b)) (.num (digits s)) [((Tok.id cl!"dir"), (Tok.id cl!"back"))]]
  | .blank => []
  | .matchTable rows =>
    [.node ((Tok.id cl!"match_rules")) [((Tok.id cl!"shape"), (Tok.id cl!"plaintext")),
      ((Tok.id cl!"label"), .html (' ' :: tableText rows ++ [' ']))]]

/-! ## 2. `model_export_to_file` -/

inductive Prim
  | str (s : Str)                -- a Python `str`
  | lit (ty : Str) (text : Str)  -- `int`, `float`, `bool`: `type(x).__name__`, `str(x)`
  deriving DecidableEq, Repr

inductive Item
  | none
  | prim (p : Prim)
  | obj (id : Nat)
  deriving DecidableEq, Repr

inductive Val
  | none                   -- attribute value `None`
  | one (p : Prim)         -- scalar multiplicity, primitive value
  | ref (id : Nat)         -- scalar multiplicity, any other object
  | many (xs : List Item)  -- multiplicity `*` / `+`
  deriving DecidableEq, Repr

structure AttrV where
  name : Str
  cont : Bool
  req : Bool      -- `attr.mult in [MULT_ONE, MULT_ONEORMORE]`
  val : Val
  deriving DecidableEq, Repr

structure Obj where
  id : Nat
  cls : Str
  attrs : Option (List AttrV)   -- `none`: the class has no `_tx_attrs`
  deriving DecidableEq, Repr

abbrev Heap := List Obj

def Heap.get (h : Heap) (i : Nat) : Option Obj := h.find? (·.id = i)

structure ESt where
  processed : List Nat
  out : List Stmt      -- reversed
  deriving DecidableEq, Repr

def ESt.emit (s : ESt) (x : Stmt) : ESt := { s with out := x :: s.out }

def Prim.ty : Prim → Str
  | .str _ => cl!"str"
  | .lit t _ => t

/-- `str(x)` -/
def Prim.text : Prim → Str
  | .str s => s
  | .lit _ t => t

/-- `dot_repr(x)` -/
def Prim.repr : Prim → Str
  | .str s => dotRepr s
  | .lit _ t => t

/-- the quoted node name of a primitive list item: `"{dot_escape(str(x))}:{type(x).__name__}"` -/
def Prim.nodeText (p : Prim) : Str := dotEscape p.text ++ ':' :: p.ty

/-- the `name` part of an object label -/
def Prim.nameText : Prim → Str
  | .str s => dotEscape s
  | .lit _ t => t

def Item.isPrim : Item → Bool
  | .prim _ => true
  | _ => false

def Item.repr : Item → Str
  | .prim p => p.repr
  | _ => []

def join (sep : Str) : List Str → Str
  | [] => []
  | [x] => x
  | x :: y :: r => x ++ sep ++ join sep (y :: r)

def reqMark (r : Bool) : Str := if r then ['+'] else []

/-- the non-primitive branch of a list attribute: one edge per item that is not `None` -/
def exportItems (rec : ESt → Nat → Option ESt) (src : Nat) (aname : Str) (cont : Bool) :
    Nat → List Item → ESt → Option ESt
  | _, [], st => some st
  | idx, .none :: its, st => exportItems rec src aname cont (idx + 1) its st
  | idx, .prim p :: its, st =>
    exportItems rec src aname cont (idx + 1) its
      (st.emit (.edgePrim src p.nodeText (aname ++ ':' :: digits idx) cont))
  | idx, .obj t :: its, st =>
    match rec (st.emit (.edgeObj src t (aname ++ ':' :: digits idx) cont)) t with
    | none => none
    | some st' => exportItems rec src aname cont (idx + 1) its st'

/-- the loop over `_tx_attrs`; accumulates the `name` and the `attrs` text -/
def exportAttrs (rec : ESt → Nat → Option ESt) (src : Nat) :
    List AttrV → Str × Str → ESt → Option ((Str × Str) × ESt)
  | [], acc, st => some (acc, st)
  | a :: as, (nm, tx), st =>
    match a.val with
    | .none => exportAttrs rec src as (nm, tx) st
    | .many xs =>
      if xs.all Item.isPrim then
        exportAttrs rec src as
          (nm, tx ++ reqMark a.req ++ a.name ++ cl!":list=[" ++ join [','] (xs.map Item.repr) ++ cl!"]\\l") st
      else
        match exportItems rec src a.name a.cont 0 xs st with
        | none => none
        | some st' => exportAttrs rec src as (nm, tx) st'
    | .one p =>
      if a.name = cl!"name" then exportAttrs rec src as (p.nameText, tx) st
      else
        exportAttrs rec src as
          (nm, tx ++ reqMark a.req ++ a.name ++ ':' :: p.ty ++ '=' :: p.repr ++ cl!"\\l") st
    | .ref t =>
      match rec (st.emit (.edgeObj src t a.name a.cont)) t with
      | none => none
      | some st' => exportAttrs rec src as (nm, tx) st'

/-- `_export(obj)`; `fuel` bounds the nesting depth of the recursion -/
def exportObj (h : Heap) : Nat → ESt → Nat → Option ESt
  | 0, _, _ => none
  | fuel + 1, st, i =>
    if i ∈ st.processed then some st
    else
      match h.get i with
      | none => none
      | some o =>
        let st1 : ESt := { st with processed := i :: st.processed }
        match o.attrs with
        | none => some (st1.emit (.node false i (':' :: o.cls) []))
        | some as =>
          match exportAttrs (exportObj h fuel) i as ([], []) st1 with
          | none => none
          | some ((nm, tx), st2) => some (st2.emit (.node false i (nm ++ ':' :: o.cls) tx))

/-- what the top level of `model_export_to_file` does with one model -/
inductive Root
  | plain (i : Nat)                                  -- `_export(model)`
  | sub (fname : Str) (kids : List Nat) (i : Nat)    -- `_export_subgraph(m); _export(m)`
  deriving DecidableEq, Repr

def exportRoots (h : Heap) (fuel : Nat) : List Root → ESt → Option ESt
  | [], st => some st
  | .plain i :: rs, st =>
    match exportObj h fuel st i with
    | none => none
    | some st' => exportRoots h fuel rs st'
  | .sub f ks i :: rs, st =>
    match exportObj h fuel (st.emit (.cluster (dotEscape f) ks)) i with
    | none => none
    | some st' => exportRoots h fuel rs st'

def exportModelStmts (h : Heap) (roots : List Root) : Option (List Stmt) :=
  (exportRoots h (h.length + 1) roots { processed := [], out := [] }).map (·.out.reverse)

/-- the text written by `model_export_to_file` -/
def exportModel (h : Heap) (roots : List Root) : Option Str :=
  (exportModelStmts h roots).map renderDoc

/-- the same walk with the escaping of the pinned revision (none for `name`, list items
and file names) — only used for the negative witness -/
def unfixedNode (i : Nat) (rawName cls : Str) : Stmt := .node false i (rawName ++ ':' :: cls) []

/-! ## 3. `metamodel_export_tofile` -/

inductive Typ | common | abstract | «match»
  deriving DecidableEq, Repr

structure MAttr where
  name : Str
  clsId : Nat
  clsName : Str
  clsFqn : Str
  mult : Str
  cont : Bool
  ref : Bool
  deriving DecidableEq, Repr

structure MCls where
  id : Nat
  name : Str
  fqn : Str
  typ : Typ
  attrs : List MAttr
  inhBy : List Nat
  matchStr : Str      -- `dot_match_str(cls, match_rules)`, opaque
  deriving DecidableEq, Repr

/-- what the walk of `metamodel_export_tofile` hands to the renderer, in order -/
inductive MItem
  | cls (c : MCls)
  | blank
  | link (c : MCls) (a : MAttr)
  | inh (b s : MCls)
  deriving DecidableEq, Repr

def findCls (all : List MCls) (i : Nat) : Option MCls := all.find? (·.id = i)

def attrItems (all classes : List MCls) (c : MCls) : List MAttr → Option (List MItem)
  | [] => some []
  | a :: as =>
    match attrItems all classes c as with
    | none => none
    | some rest =>
      let l : List MItem := if a.ref && a.clsName != cl!"OBJECT" then [.link c a] else []
      if classes.any (·.id = a.clsId) then some (l ++ rest)
      else
        match findCls all a.clsId with
        | none => none
        | some ac => some (l ++ .cls ac :: rest)

def inhItems (all : List MCls) (c : MCls) : List Nat → Option (List MItem)
  | [] => some []
  | i :: is =>
    match findCls all i, inhItems all c is with
    | some s, some rest => some (.inh c s :: rest)
    | _, _ => none

def linkItems (all classes : List MCls) : List MCls → Option (List MItem)
  | [] => some []
  | c :: cs =>
    match attrItems all classes c c.attrs, inhItems all c c.inhBy, linkItems all classes cs with
    | some a, some i, some rest => some (a ++ i ++ rest)
    | _, _, _ => none

/-- `all`: the unified classes; `allNames`: `ALL_TYPE_NAMES` -/
def mmItems (all : List MCls) (allNames : List Str) : Option (List MItem) :=
  let classes := all.filter (fun c => !allNames.contains c.fqn)
  match linkItems all classes classes with
  | none => none
  | some ls =>
    some ((classes.filter (fun c => !allNames.contains c.name)).map .cls ++ .blank :: ls)

def multRequired (m : Str) : Bool := m = cl!"1" || m = cl!"1..*"
def multList (m : Str) : Bool := m = cl!"0..*" || m = cl!"1..*"

def attrType (a : MAttr) : Str :=
  if multList a.mult then cl!"list[" ++ a.clsName ++ [']'] else a.clsName

def isPlainAttr (a : MAttr) : Bool := !(a.ref && a.clsName != cl!"OBJECT")

/-- `DotRenderer.render_class`, the attribute lines -/
def dotAttrLine (a : MAttr) : Str :=
  a.name ++ cl!": "
    ++ (if multRequired a.mult then attrType a else cl!"optional\\<" ++ attrType a ++ cl!"\\>")
    ++ cl!"\\l"

def dotClassAttrs (c : MCls) : Str :=
  if c.typ = .abstract then [] else (c.attrs.filter isPlainAttr).flatMap dotAttrLine

/-- the match rules the renderer collects: match classes that are not base types, first
occurrence order, no duplicates -/
def collectMatch (baseNames : List Str) : List MItem → List MCls → List MCls
  | [], acc => acc
  | .cls c :: r, acc =>
    if c.typ = .match && !baseNames.contains c.name && !acc.any (·.fqn = c.fqn)
    then collectMatch baseNames r (acc ++ [c]) else collectMatch baseNames r acc
  | _ :: r, acc => collectMatch baseNames r acc

def strLt : Str → Str → Bool
  | [], [] => false
  | [], _ :: _ => true
  | _ :: _, [] => false
  | a :: as, b :: bs => a.toNat < b.toNat || (a = b && strLt as bs)

def strLe (a b : Str) : Bool := !strLt b a

def dotItem : MItem → List Stmt
  | .cls c =>
    if c.typ = .match then []
    else [.node true c.id (if c.typ = .abstract then '*' :: c.name else c.name) (dotClassAttrs c)]
  | .blank => [.blank]
  | .link c a => [.link c.id a.clsId a.cont (a.name ++ ' ' :: (if a.mult = cl!"1" then [] else a.mult))]
  | .inh b s => [.inh b.id s.id]

def mmDotStmts (all : List MCls) (baseNames : List Str) : Option (List Stmt) :=
  match mmItems all (baseNames ++ [cl!"OBJECT"]) with
  | none => none
  | some items =>
    let rules := (collectMatch baseNames items []).mergeSort (fun a b => strLe a.fqn b.fqn)
    some (items.flatMap dotItem
      ++ (if rules.isEmpty then [] else [.matchTable (rules.map fun c => (c.name, c.matchStr))]))

/-- the text written by `metamodel_export_tofile(mm, f)` (DotRenderer) -/
def mmDot (all : List MCls) (baseNames : List Str) : Option Str :=
  (mmDotStmts all baseNames).map renderDoc

/-! ## 4. PlantUML renderer, by lines -/

def typName : Typ → Str
  | .common => cl!"common"
  | .abstract => cl!"abstract"
  | .match => cl!"match"

def pumlAttrLine (a : MAttr) : Str :=
  cl!"  " ++ a.name ++ cl!" : "
    ++ (if multRequired a.mult then attrType a else cl!"optional<" ++ attrType a ++ ['>'])

def pumlClassLines (c : MCls) : List Str :=
  let stereo : Str := if c.typ = .common then [] else cl!"<<" ++ typName c.typ ++ cl!">>"
  let attrs : List Str := if c.typ = .common then (c.attrs.filter isPlainAttr).map pumlAttrLine else []
  [[], [], cl!"class " ++ c.fqn ++ ' ' :: stereo ++ cl!" {"] ++ attrs ++ [cl!"}"]

def pumlItem : MItem → List Str
  | .cls c => if c.typ = .match then [] else pumlClassLines c
  | .blank => [[], []]
  | .link c a =>
    [c.fqn ++ ' ' :: (if a.cont then cl!"*-->" else cl!"-->") ++ ' '
      :: (if a.mult = cl!"1" then [] else '"' :: a.mult ++ ['"']) ++ ' ' :: a.clsFqn ++ cl!": " ++ a.name]
  | .inh b s => [b.fqn ++ cl!" <|-- " ++ s.fqn]

def pumlLegend (rules : List MCls) : List Str :=
  if rules.isEmpty then []
  else
    [[], cl!"legend", cl!"  Match rules:", cl!"  |= Name  |= Rule details |"]
      ++ rules.map (fun c => cl!"  | " ++ c.name ++ cl!" | " ++ dotEscape c.matchStr ++ cl!" |")
      ++ [cl!"end legend", []]

def pumlHeader (linetype : Option Str) : List Str :=
  [cl!"@startuml", cl!"set namespaceSeparator .",
   (match linetype with | some l => cl!"skinparam linetype " ++ l | none => [])]

/-- the lines written by `metamodel_export_tofile(mm, f, PlantUmlRenderer(linetype))`; each is
followed by a newline in the file (`blank` contributes two newlines: its two lines are
glued to the preceding one).  Legend rows in `rules` order (the source iterates a set). -/
def mmPumlLines (all : List MCls) (baseNames : List Str) (linetype : Option Str) : Option (List Str) :=
  match mmItems all (baseNames ++ [cl!"OBJECT"]) with
  | none => none
  | some items =>
    let rules := (collectMatch baseNames items []).mergeSort (fun a b => strLe a.fqn b.fqn)
    some (pumlHeader linetype ++ items.flatMap pumlItem ++ pumlLegend rules ++ [cl!"@enduml"])

def unlines (ls : List Str) : Str := ls.flatMap (· ++ ['\n'])

def mmPuml (all : List MCls) (baseNames : List Str) (linetype : Option Str) : Option Str :=
  (mmPumlLines all baseNames linetype).map unlines

/-! ### PlantUML recogniser (line based) -/

def splitLines : Str → Str → List Str
  | acc, [] => [acc.reverse]
  | acc, c :: cs => if c = '\n' then acc.reverse :: splitLines [] cs else splitLines (c :: acc) cs

inductive UMode | u0 | top | inClass | inLegend | done
  deriving DecidableEq, Repr

structure UState where
  mode : UMode
  classes : List Str   -- reversed
  deriving DecidableEq, Repr

def startsWith (p s : Str) : Bool := p.isPrefixOf s
def endsWith (p s : Str) : Bool := p.reverse.isPrefixOf s.reverse

def hasBrace (s : Str) : Bool := s.any (fun c => c = '{' || c = '}')

def isInfix (p : Str) : Str → Bool
  | [] => p.isEmpty
  | c :: cs => p.isPrefixOf (c :: cs) || isInfix p cs

/-- the first word after `class ` -/
def className (l : Str) : Str := (l.drop 6).takeWhile (· ≠ ' ')

def ustep (s : UState) (l : Str) : Option UState :=
  match s.mode with
  | .u0 => if l = cl!"@startuml" then some { s with mode := .top } else none
  | .top =>
    if l = [] then some s
    else if l = cl!"@enduml" then some { s with mode := .done }
    else if l = cl!"legend" then some { s with mode := .inLegend }
    else if startsWith cl!"class " l then
      if endsWith cl!" {" l && !hasBrace (l.dropLast) then
        some { mode := .inClass, classes := className l :: s.classes }
      else none
    else if hasBrace l then none
    else if startsWith cl!"set " l || startsWith cl!"skinparam " l then some s
    else if isInfix cl!"-->" l || isInfix cl!"<|--" l then some s
    else none
  | .inClass =>
    if l = cl!"}" then some { s with mode := .top }
    else if startsWith cl!"  " l && !hasBrace l then some s
    else none
  | .inLegend => if l = cl!"end legend" then some { s with mode := .top } else some s
  | .done => if l = [] then some s else none

def usteps : UState → List Str → Option UState
  | s, [] => some s
  | s, l :: ls =>
    match ustep s l with
    | none => none
    | some s' => usteps s' ls

/-- balanced PlantUML document: `@startuml … @enduml`, every `class … {` closed by `}`,
`legend … end legend`; returns the declared class names in order -/
def pumlRecognise (text : Str) : Option (List Str) :=
  match usteps { mode := .u0, classes := [] } (splitLines [] text) with
  | some s => if s.mode = .done then some s.classes.reverse else none
  | none => none

/-! ## 5. Domain of the theorems, as executable checks (used by the driver to report
whether a case lies inside the hypotheses of the property theorems) -/

def safeB (s : Str) : Bool := scan isSpecial false s == some false

def primOkB : Prim → Bool
  | .str _ => true
  | .lit ty t => safeB ty && safeB t

def itemOkB : Item → Bool
  | .prim p => primOkB p
  | _ => true

def valOkB : Val → Bool
  | .one p => primOkB p
  | .many xs => xs.all itemOkB
  | _ => true

def objOkB (o : Obj) : Bool :=
  safeB o.cls && (match o.attrs with
    | none => true
    | some as => as.all fun a => safeB a.name && valOkB a.val)

def heapOkB (h : Heap) : Bool := h.all objOkB

def itemRefs : Item → List Nat
  | .obj t => [t]
  | _ => []

def valRefs : Val → List Nat
  | .ref t => [t]
  | .many xs => xs.flatMap itemRefs
  | _ => []

def objRefs (o : Obj) : List Nat :=
  match o.attrs with
  | none => []
  | some as => as.flatMap (fun a => valRefs a.val)

def rootId : Root → Nat
  | .plain i => i
  | .sub _ _ i => i

def closedB (h : Heap) (roots : List Root) : Bool :=
  (h.all fun o => (objRefs o).all fun t => (h.get t).isSome) && roots.all fun r => (h.get (rootId r)).isSome

def noAngleB (s : Str) : Bool := s.all fun c => c != '<' && c != '>'

def clsOkB (c : MCls) : Bool :=
  safeB c.name && noAngleB c.name && c.attrs.all fun a => safeB a.name && safeB a.clsName && safeB a.mult

/-- the class table is closed: every class an attribute (`attr.cls`) or an `inh_by` entry points to
is in the table (what `get_unified_classes` builds: both are looked up in `new_classes`) -/
def mmClosedB (all : List MCls) : Bool :=
  all.all fun c =>
    (c.attrs.all fun a => (findCls all a.clsId).isSome) && c.inhBy.all fun i => (findCls all i).isSome

/-- the ids (`id(cls)`) identify the classes -/
def distinctB : List Nat → Bool
  | [] => true
  | x :: xs => !xs.contains x && distinctB xs

def mmIdsDistinctB (all : List MCls) : Bool := distinctB (all.map (·.id))

/-- no attribute of a walked class (fqn not in `allNames`) points to a class outside the walk that is
not a match rule (in textX: no attribute refers to `OBJECT`) — then no class is rendered twice -/
def noOuterClassB (all : List MCls) (allNames : List Str) : Bool :=
  (all.filter fun c => !allNames.contains c.fqn).all fun c => c.attrs.all fun a =>
    match findCls all a.clsId with
    | none => true
    | some d => !allNames.contains d.fqn || decide (d.typ = .match)

def nameOkB (n : Str) : Bool := n.all fun c => c != '\n' && c != ' ' && c != '{' && c != '}'

def pclsOkB (c : MCls) : Bool :=
  nameOkB c.fqn && c.fqn != cl!"class" && nameOkB c.name &&
    c.attrs.all fun a => nameOkB a.name && nameOkB a.clsName && nameOkB a.clsFqn && nameOkB a.mult

def linetypeOkB : Option Str → Bool
  | none => true
  | some l => (l.all fun c => c != '\n') && !hasBrace l

end Dot
