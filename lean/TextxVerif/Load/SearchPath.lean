/-!
# Which files a load reads: `importURI` resolution through a search path (C16)

`textx/scoping/providers.py`, `ImportURI._load_referenced_models`, for every object with an `importURI`
attribute of a freshly parsed model, in textual order:

```python
if self.search_path is not None:
    my_search_path = [dirname(model._tx_filename)] + self.search_path      # a NEW list per import
    loaded_model = model._tx_model_repository.load_model_using_search_path(
        self.importURI_converter(obj.importURI), model=model, search_path=my_search_path, ...)
else:
    basedir = dirname(model._tx_filename)                                   # the importing file's directory only
    ... load_models_using_filepattern(abspath(join(basedir, importURI)) ...)
```

`load_model_using_search_path` takes the first directory of the list in which the file exists
(`OSError(ENOENT)` when there is none); `load_model` parses a file at most once per load
(`all_models.has_model`), and a parsed model loads its own imports (`pre_ref_resolution_callback`) before
the importing model goes on with its next import: depth first, textual order.

The only thing that survives a load here is the provider object with its `search_path` list (`sp`).
The code as it is never writes to that list.  `Alias` is the variant in which the per-import list is the
provider's own list with the importer's directory pushed in front (`my_search_path = self.search_path;
my_search_path.insert(0, dirname(...))`): every directory a model was ever loaded from stays on the path.
-/
namespace History

/-- one model file: directory (a number), base name, the `importURI` strings in textual order -/
structure FileEnt where
  dir : Nat
  name : String
  imps : List String
deriving Repr, DecidableEq, Inhabited

abbrev FSys := Array FileEnt

/-- index of the file `name` in directory `dir` (`exists(join(the_path, filename))`) -/
def findIn (fs : FSys) (dir : Nat) (name : String) : Option Nat :=
  (List.range fs.size).find? fun i => match fs[i]? with
    | some e => e.dir == dir && e.name == name
    | none => false

/-- `load_model_using_search_path`: the first directory of the path that has the file -/
def resolveIn (fs : FSys) (path : List Nat) (name : String) : Option Nat :=
  path.findSome? fun d => findIn fs d name

/-- the provider: `none` = created without `search_path` -/
abbrev SPath := Option (List Nat)

/-- directories searched for an import written in a file of directory `d`, and the provider's list afterwards -/
def searchDirs (alias : Bool) (d : Nat) : SPath → List Nat × SPath
  | none => ([d], none)
  | some sp => if alias then (d :: sp, some (d :: sp)) else (d :: sp, some sp)

/-- the load as a work list: pending imports `(directory of the importing file, importURI)`, the files parsed
so far in parse order, the provider's list.  Result: files parsed, `false` when an import was not found
(the load ends with `FileNotFoundError`) or the fuel ran out, the provider's list afterwards. -/
def dfs (alias : Bool) (fs : FSys) : Nat → List (Nat × String) → List Nat → SPath → List Nat × Bool × SPath
  | 0, _, acc, sp => (acc, false, sp)
  | _ + 1, [], acc, sp => (acc, true, sp)
  | fuel + 1, (d, n) :: todo, acc, sp =>
    let (path, sp) := searchDirs alias d sp
    match resolveIn fs path n with
    | none => (acc, false, sp)
    | some f =>
      if acc.contains f then dfs alias fs fuel todo acc sp
      else match fs[f]? with
        | none => (acc, false, sp)
        | some e => dfs alias fs fuel (e.imps.map (fun i => (e.dir, i)) ++ todo) (acc ++ [f]) sp

/-- enough fuel: every import statement of every file is looked at at most once, plus the final empty list -/
def orderFuel (fs : FSys) : Nat := (fs.toList.map fun e => e.imps.length).sum + fs.size + 2

/-- `model_from_file(main)`: the files parsed, in order; complete?; the provider's list afterwards -/
def loadOrder (alias : Bool) (fs : FSys) (main : Nat) (sp : SPath) : List Nat × Bool × SPath :=
  match fs[main]? with
  | none => ([], false, sp)
  | some e => dfs alias fs (orderFuel fs) (e.imps.map fun i => (e.dir, i)) [main] sp

/-- a history of file loads through one provider: what each load read, the provider's list at the end -/
def runOrders (alias : Bool) (fs : FSys) : List Nat → SPath → List (List Nat × Bool) × SPath
  | [], sp => ([], sp)
  | m :: ms, sp =>
    let (o, ok, sp) := loadOrder alias fs m sp
    let (os, sp) := runOrders alias fs ms sp
    ((o, ok) :: os, sp)

end History
