import TextxVerif.Peg.Arp
/-!
# Load histories: the state that survives a model load (C16)

A *world* is a pool of metamodels (their compiled Arpeggio parser models live in one
node table, so rule objects shared between metamodels — textX's base-type rules
`NUMBER`, `BASETYPE`, … of `textx/lang.py:247-277` — are the same node).  A *history* is a
sequence of operations: `new k` (create metamodel `k`: `metamodel_from_str`) and
`load k files` (`model_from_str` / `model_from_file`; `files` = the main text followed by the
texts of the imported files in the order textX parses them).

`Hidden` is everything the code keeps between two operations:

* `cache`     — the `_result_cache` dictionaries of *all* rule objects (Arpeggio memoization;
                written and read only by parsers with `memoization=True`, they live on the rule
                objects, hence are shared by every clone of a parser and, for base-type rules,
                by every metamodel);
* `heap`, `blue` — the parser blueprint of each metamodel (`metamodel._parser_blueprint`) with the
                six per-parse containers `_inst_stack`, `_instances`, `_crossrefs`, `comments`,
                `comment_positions`, `sem_actions` as *references* into a heap: `clone()` is a
                shallow `copy.copy`, so a container that is not replaced in the clone is the very
                object of the blueprint (`textx/model.py:356-378`);
* `instr`, `objAttrs` — `_tx_instrumented` and `len(_tx_obj_attrs)` of the user classes of each
                metamodel (`_replace_user_attr_methods` / `_restore_user_attr_methods` with the
                `_user_attr_methods_replaced` flag, `_discard_user_obj_attrs`);
* `gp`        — `textx.lang.textX_parsers`: grammar parsers cached by the debug flag only, each
                remembering the memoization flag of the metamodel that created it (`lang.py:1088-1128`);
* `baseOwner` — the metamodel whose classes the `_tx_class` back-pointers of the shared base-type
                rules point to (`metamodel.py:_init_class`, overwritten by every `TextXMetaModel()`).

Parsing is *computed* by the Arpeggio mirror `Peg.parse` (started on the surviving cache).  The
semantic phases of textX (model construction, reference resolution, user `__init__`, processors)
are a parameter `Sem`: arbitrary functions of exactly the values the code reads from the state
(`Reads`), so whatever they compute can depend on the history only through those reads.

`Variant` switches off individual resets (used for the negation witnesses in `Props/C16.lean`);
`real` is the code as it is with "clear the caches" read as "drop every entry"; `realWalk` clears them
the way Arpeggio does, by walking the parser model (the two are proved equal).
-/
namespace History
open Peg

abbrev Cache := List ((Nat × Nat) × (Option Val × Nat))

/-- static configuration of one metamodel of the pool -/
structure MM where
  top : Nat
  comments : Option Nat
  memo : Bool
  skipws : Bool
  ws : List Char
  debug : Bool := false
deriving Repr, Inhabited

structure World where
  nodes : Array Node
  mms : List MM

/-- one text to be parsed (token matching is an input table, as in `Peg.Grammar`) -/
structure Inp where
  input : Array Char
  toks : Array (Array (Option Nat))
  fuel : Nat

/-- a `TextXModelParser` object: the addresses of its six per-parse containers -/
structure PObj where
  conts : List Nat
deriving Repr, DecidableEq, Inhabited

def upd {α : Type} (f : Nat → α) (k : Nat) (v : α) : Nat → α := fun i => if i = k then v else f i

structure Hidden where
  cache : Cache := []
  heap : List (List Nat) := []
  blue : Nat → Option PObj := fun _ => none
  instr : Nat → Nat := fun _ => 0
  objAttrs : Nat → Nat := fun _ => 0
  gp : List (Bool × Bool) := []
  baseOwner : Option Nat := none

/-- which resets the code performs -/
structure Variant where
  resets : List Bool   -- `clone()`: container `i` is replaced by a fresh one
  clear : Bool         -- `Parser.parse`: `finally: if self.memoization: self._clear_caches()`
  /-- how `_clear_caches` finds the caches: `false` = every entry of every rule object is dropped
  (the abstraction the history theorems are proved for), `true` = as Arpeggio does it, by walking the
  parser model and the comments model along `ParsingExpression.nodes` (`walkClear` below).
  `Proofs/HistoryReach.lean` proves that the two agree (`run realWalk = run real`). -/
  walk : Bool := false

def real : Variant := { resets := [true, true, true, true, true, true], clear := true }

/-- the code as it is, with Arpeggio's own way of clearing the memo caches -/
def realWalk : Variant := { real with walk := true }

/-! ### `ParsingExpression._clear_cache`: the walk over the parser model

```python
def _clear_cache(self, processed=None):
    self._result_cache = {}
    if not processed:
        processed = set()
    for node in self.nodes:
        if node not in processed:
            processed.add(node)
            node._clear_cache(processed)
```
The walk follows `nodes` (the model's `kids`) only — **not** `Repetition.sep`, which Arpeggio keeps in a
separate attribute.  `Parser._clear_caches` starts it at `parser_model` and at `comments_model`. -/

def kidsOf (nodes : Array Node) (i : Nat) : List Nat :=
  match nodes[i]? with
  | some nd => nd.kids
  | none => []

/-- the recursion of `_clear_cache` with an explicit stack: `todo` = nodes still to be looked at,
`done` = the set `processed`.  One unit of fuel per node taken from the stack. -/
def walk (nodes : Array Node) : Nat → List Nat → List Nat → List Nat
  | 0, _, done => done
  | _+1, [], done => done
  | f+1, x :: todo, done =>
    if x ∈ done then walk nodes f todo done
    else walk nodes f (kidsOf nodes x ++ todo) (x :: done)

/-- number of `nodes` references in the whole table: a node is expanded at most once, so
`1 + edges` units of fuel always suffice (`Proofs/HistoryReach.lean`, `walk_closed`) -/
def edges (nodes : Array Node) : Nat := ((List.range nodes.size).map fun i => (kidsOf nodes i).length).sum

/-- the rule objects whose `_result_cache` a `_clear_cache()` call on `root` empties -/
def walkFrom (nodes : Array Node) (root : Nat) : List Nat := walk nodes (edges nodes + 1) [root] []

/-- `Parser._clear_caches`: the parser model, then the comments model -/
def clearedBy (nodes : Array Node) (top : Nat) (comments : Option Nat) : List Nat :=
  walkFrom nodes top ++ (match comments with | some c => walkFrom nodes c | none => [])

/-- what is left in the pool-wide cache after `_clear_caches` -/
def walkClear (nodes : Array Node) (top : Nat) (comments : Option Nat) (cache : Cache) : Cache :=
  let cl := clearedBy nodes top comments
  cache.filter fun e => !cl.contains e.1.1

/-- a `Match` object (`StrMatch`, `RegExMatch`, `EndOfFile`): `Match.parse` does not memoize.
(A dangling index behaves the same: nothing is parsed, nothing stored.) -/
def isTerm (nodes : Array Node) (i : Nat) : Bool :=
  match nodes[i]? with
  | none => true
  | some nd => match nd.kind with
    | .str | .re | .eof => true
    | _ => false

/-- the separator of node `i`, if it has one, is a `Match` object -/
def sepTerm (nodes : Array Node) (i : Nat) : Bool :=
  match nodes[i]? with
  | some nd => match nd.sep with
    | some sp => isTerm nodes sp
    | none => true
  | none => true

/-- every repetition the walk of this parser reaches has a `Match` separator (textX's grammar language
only allows string and regex matches as separators: `lang.py` `repeat_modifiers`).  The premise of
"walking clears everything"; the driver evaluates it on every dumped parser model. -/
def walkOK (nodes : Array Node) (top : Nat) (comments : Option Nat) : Bool :=
  (clearedBy nodes top comments).all (sepTerm nodes)

def rd (H : Hidden) (a : Nat) : List Nat := H.heap.getD a []
def wr (H : Hidden) (a : Nat) (v : List Nat) : Hidden := { H with heap := H.heap.set a v }

/-- `TextXModelParser.clone`: `copy.copy(self)` then fresh objects for the parse-dependent data -/
def clone (v : Variant) (b : PObj) (H : Hidden) : PObj × Hidden :=
  let n := H.heap.length
  ({ conts := (List.range 6).map fun i => if v.resets.getD i true then n + i else b.conts.getD i 0 },
   { H with heap := H.heap ++ List.replicate 6 [] })

/-- `metamodel_from_str` for slot `k`: grammar parser looked up / cached by the debug flag only,
`TextXMetaModel.__init__` re-points the shared base-type rules, `language_from_str` stores a new
parser blueprint (its `__init__` creates six empty containers) -/
def create (W : World) (k : Nat) (H : Hidden) : Hidden :=
  match W.mms[k]? with
  | none => H
  | some m =>
    let gp := if H.gp.any (fun e => e.1 == m.debug) then H.gp else H.gp ++ [(m.debug, m.memo)]
    let n := H.heap.length
    { H with gp := gp, baseOwner := some k,
             heap := H.heap ++ List.replicate 6 [],
             blue := upd H.blue k (some { conts := (List.range 6).map fun i => n + i }) }

/-- what the semantic phases read from the surviving state -/
structure Reads where
  tree : Val               -- the parse tree
  stack0 : List Nat        -- contents of the clone's `_inst_stack`, `_instances`, `_crossrefs`
  instances0 : List Nat    --   when model construction starts
  crossrefs0 : List Nat
  baseIsMatch : Bool       -- `node.rule._tx_class._tx_type` of a shared base-type rule: every owner's
                           --   base-type class is a match rule, so only "has an owner" matters
deriving Repr, Inhabited

/-- result of `process_node` over one file -/
structure FileSem where
  ok : Bool                -- no semantic error while building
  dump : Nat               -- abstract error dump when not ok
  allocs : Nat             -- user-class objects allocated = entries put into `_tx_obj_attrs`
  stack : List Nat         -- what the build leaves in the clone's containers
  instances : List Nat
  crossrefs : List Nat
deriving Repr, Inhabited

/-- how the phases after construction end -/
inductive Fin
  | ok | resolve | init (j : Nat) | objproc | modelproc
deriving Repr, DecidableEq, Inhabited

structure Sem where
  file : Nat → Reads → FileSem
  /-- resolution … model processors of the whole load, given the reads of every file and, for each
  model, the instrumentation count its user classes still have while its attributes are applied
  and `__init__` runs (`_end_model_construction`) -/
  final : Nat → List Reads → List Nat → Fin × Nat

inductive Phase
  | ok | skip | parse (i : Nat) | build (i : Nat) | resolve | init (j : Nat) | objproc | modelproc
deriving Repr, DecidableEq, Inhabited

/-- the observable outcome of one load -/
structure Out where
  parses : List Outcome    -- parse outcome of every file parsed, in order
  stores : List Nat        -- memo-cache entries written by each parse (before the `finally`)
  phase : Phase
  dump : Nat               -- abstract structural dump of the model, or of the error
  initCounts : List Nat    -- instrumentation count seen while the objects of each model are initialised
deriving Repr, Inhabited

/-- a parser taking part in the load in progress -/
structure Live where
  replaced : Bool          -- `_user_attr_methods_replaced`: holds one count on every user class
  allocated : Nat          -- `len(_user_class_allocated)`: entries of `_tx_obj_attrs` it owns
deriving Repr, DecidableEq, Inhabited

/-- `Parser.parse(text)` of a clone: the Arpeggio mirror runs on the surviving memo cache; the
`finally` block clears the caches iff the parser memoizes -/
def parseText (v : Variant) (W : World) (m : MM) (x : Inp) (cache : Cache) : Outcome × Nat × Cache :=
  let g : Grammar := { nodes := W.nodes, comments := m.comments, memo := m.memo, input := x.input, toks := x.toks }
  let s0 : PState := { initState m.skipws m.ws with cache := cache }
  let (r, s1) := parse g x.fuel m.top s0
  let o : Outcome := match r with
    | .ok t => .tree t
    | .nomatch => .noMatch (s1.nm.getD 0)
    | .fuel => .fuel
    | .bad => .bad
  (o, s1.cache.length,
   if m.memo && v.clear then (if v.walk then walkClear W.nodes m.top m.comments s1.cache else []) else s1.cache)

/-- `_restore_user_attr_methods` (does something only if this parser holds a count) followed by
`_discard_user_obj_attrs` / the pops of `_end_model_construction` -/
def giveBack (k : Nat) (p : Live) (H : Hidden) : Hidden :=
  let H := if p.replaced then { H with instr := upd H.instr k (H.instr k - 1) } else H
  { H with objAttrs := upd H.objAttrs k (H.objAttrs k - p.allocated) }

/-- `_abort_model_construction` / the loop over `_end_model_construction` -/
def giveBackAll (k : Nat) (ps : List Live) (H : Hidden) : Hidden := ps.foldl (fun H p => giveBack k p H) H

/-- the load in progress -/
structure Prog where
  lives : List Live := []
  reads : List Reads := []
  parses : List Outcome := []
  stores : List Nat := []

/-- `clone().get_model_from_str(text)` up to the end of `process_node` for one text (the main text
or an imported one).  `some (phase, dump)` when this file fails. -/
def oneFile (v : Variant) (W : World) (sem : Sem) (k : Nat) (m : MM) (b : PObj) (x : Inp) (H : Hidden) (pr : Prog) :
    Option (Phase × Nat) × Hidden × Prog :=
  -- self._parser_blueprint.clone()
  let (c, H) := clone v b H
  -- self.parse(model_str, file_name=file_name)
  let (o, st, cache) := parseText v W m x H.cache
  let H := { H with cache := cache }
  let pr := { pr with parses := pr.parses ++ [o], stores := pr.stores ++ [st] }
  match o with
  | .tree t =>
    -- self._replace_user_attr_methods(): one count on every user class of the metamodel
    let H := { H with instr := upd H.instr k (H.instr k + 1) }
    -- parse_tree_to_objgraph: process_node reads and fills the clone's containers
    let r : Reads := { tree := t, stack0 := rd H (c.conts.getD 0 0), instances0 := rd H (c.conts.getD 1 0),
                       crossrefs0 := rd H (c.conts.getD 2 0), baseIsMatch := H.baseOwner.isSome }
    let fs := sem.file k r
    let H := wr (wr (wr H (c.conts.getD 0 0) fs.stack) (c.conts.getD 1 0) fs.instances) (c.conts.getD 2 0) fs.crossrefs
    let H := { H with objAttrs := upd H.objAttrs k (H.objAttrs k + fs.allocs) }
    let pr := { pr with lives := pr.lives ++ [{ replaced := true, allocated := fs.allocs }], reads := pr.reads ++ [r] }
    (if fs.ok then none else some (.build (pr.parses.length - 1), fs.dump), H, pr)
  | _ => (some (.parse (pr.parses.length - 1), 0), H, pr)

/-- the main text, then every imported text, until one fails -/
def loadFiles (v : Variant) (W : World) (sem : Sem) (k : Nat) (m : MM) (b : PObj) :
    List Inp → Hidden → Prog → Option (Phase × Nat) × Hidden × Prog
  | [], H, pr => (none, H, pr)
  | x :: xs, H, pr =>
    match oneFile v W sem k m b x H pr with
    | (none, H, pr) => loadFiles v W sem k m b xs H pr
    | r => r

/-- instrumentation counts seen by the models in `_end_model_construction` order: each model's
parser gives its count back first, then its objects are initialised -/
def initCounts : Nat → List Live → List Nat
  | _, [] => []
  | c, p :: ps => let c' := if p.replaced then c - 1 else c
                  c' :: initCounts c' ps

def finPhase : Fin → Phase
  | .ok => .ok | .resolve => .resolve | .init j => .init j | .objproc => .objproc | .modelproc => .modelproc

/-- one `model_from_str` / `model_from_file` on metamodel `k` -/
def load (v : Variant) (W : World) (sem : Sem) (k : Nat) (files : List Inp) (H : Hidden) : Out × Hidden :=
  match W.mms[k]?, H.blue k with
  | some m, some b =>
    match loadFiles v W sem k m b files H {} with
    | (some (ph, d), H, pr) =>
      -- every except / abort handler on the way out: each parser gives back what it took
      ({ parses := pr.parses, stores := pr.stores, phase := ph, dump := d, initCounts := [] },
       giveBackAll k pr.lives H)
    | (none, H, pr) =>
      let counts := initCounts (H.instr k) pr.lives
      let (f, d) := sem.final k pr.reads counts
      ({ parses := pr.parses, stores := pr.stores, phase := finPhase f, dump := d,
         initCounts := match f with
           | .ok | .objproc | .modelproc => counts
           | .init j => counts.take (j + 1)
           | .resolve => [] },
       giveBackAll k pr.lives H)
  | _, _ => ({ parses := [], stores := [], phase := .skip, dump := 0, initCounts := [] }, H)

inductive Op
  | new (k : Nat)
  | load (k : Nat) (files : List Inp)

def step (v : Variant) (W : World) (sem : Sem) (op : Op) (H : Hidden) : Option Out × Hidden :=
  match op with
  | .new k => (none, create W k H)
  | .load k files => let (o, H) := load v W sem k files H; (some o, H)

/-- run a history, collecting the outcome of every operation -/
def run (v : Variant) (W : World) (sem : Sem) : List Op → Hidden → List (Option Out) × Hidden
  | [], H => ([], H)
  | op :: ops, H =>
    let (o, H) := step v W sem op H
    let (os, H) := run v W sem ops H
    (o :: os, H)

/-- the process state right after `import textx` -/
def empty : Hidden := {}

/-- `walkOK` for every metamodel of the pool -/
def World.walkOK (W : World) : Bool := W.mms.all fun m => History.walkOK W.nodes m.top m.comments

end History
