import TextxVerif.Proofs.Kwd
import TextxVerif.Proofs.KwdSrc
import TextxVerif.Proofs.CaseKw
/-!
# C21 — autokwd matches keyword-like literals only on word boundaries

`Gen.Regexes.keyword` (the detection regex of `TextXVisitor.__init__`) and
`Gen.Regexes.kwProbe*` (what `visit_str_match` builds for a probe literal) are
regenerated from `textx/lang.py` on every run; `Kwd.compileLit` /
`Kwd.isKeywordLike` / `Kwd.kwRe` are stated over them (`keyword_shape`,
`kwProbe_shape`, `kwProbeI_shape` in `Proofs/Kwd.lean` are `rfl`).

`Kwd.tokMatch cc ug tok (p, s)` is one terminal match at a position with previous
character `p` and remaining input `s` (`StrMatch._parse` / `RegExMatch._parse`): new
position, the terminal's value and the value `process_node` hands to the object graph
(`ug` = `use_regexp_group`: group 1 of a regex match with exactly one group);
`Kwd.parse` / `Kwd.parseText` run a PEG (sequence, ordered choice, `*`, `?`,
`!`, literals, ID, INT, user regex matches with and without a group; `+`, `&` and
separator repetitions as derived forms) with Arpeggio's whitespace skipping over such
tokens.  All theorems hold for every other option value (`Opts`): any whitespace set
(`ws`, empty = `skipws=False`) and `use_regexp_group` on or off.
With `ignore_case` the theorems assume that characters that are equal up to case
are both word characters or both not (`FoldWord`), as is true of Python's tables.
-/
namespace Kwd
open Re

/-- case folding respects `\w` (only needed with ignore_case) -/
def FoldWord (cc : CharClasses) (ic : Bool) : Prop :=
  ic = true → ∀ a b, cc.fold a = cc.fold b → cc.isWord a = cc.isWord b

/-- **Detection.** A literal is treated as a keyword exactly when it looks like an identifier:
non-empty, first character a word character that is no digit, all others word characters
(digits, underscores and Unicode letters included; any symbol excludes it). -/
theorem C21_keywordlike_iff (cc : CharClasses) (ic : Bool) (l : List Char) :
    isKeywordLike cc ic l = true ↔
      ∃ c cs, l = c :: cs ∧ cc.isWord c = true ∧ cc.isDigit c = false ∧ ∀ x ∈ cs, cc.isWord x = true := by
  rw [isKeywordLike_eq]
  cases l with
  | nil => simp
  | cons c cs =>
    simp only [Bool.and_eq_true, Bool.not_eq_true', List.all_eq_true, List.cons.injEq]
    constructor
    · intro h; exact ⟨c, cs, ⟨rfl, rfl⟩, h.1.1, h.1.2, h.2⟩
    · rintro ⟨c', cs', ⟨rfl, rfl⟩, h1, h2, h3⟩; exact ⟨⟨h1, h2⟩, h3⟩

/-- **Boundary.** With autokwd a keyword-like literal matches at a position iff the literal is
there (up to case under ignore_case) *and* the next input character is not a word character;
the terminal then ends right after the literal and carries the literal as its value — also as the
value that reaches the object graph, with and without `use_regexp_group` (never the input's spelling). -/
theorem C21_boundary (cc : CharClasses) (ic : Bool) (hfw : FoldWord cc ic) (l : List Char)
    (hk : isKeywordLike cc ic l = true) (ug : Bool) (p : Option Char) (s : List Char) :
    litTok cc ⟨true, ic⟩ ug l (p, s) =
      if litMatch cc ic l s = true ∧ NextNotWord cc (s.drop l.length)
      then some ((lastOr p (s.take l.length), s.drop l.length), (l, l)) else none := by
  simp only [litTok, compileLit, hk, Bool.and_self, if_true]
  exact tokMatch_kw cc ic hfw l hk ug p s

/-- in particular it never matches when the next input character is a word character -/
theorem C21_never_glued (cc : CharClasses) (ic : Bool) (hfw : FoldWord cc ic) (l : List Char)
    (hk : isKeywordLike cc ic l = true) (ug : Bool) (p : Option Char) (s : List Char) (c : Char)
    (hnext : (s.drop l.length).head? = some c) (hc : cc.isWord c = true) :
    litTok cc ⟨true, ic⟩ ug l (p, s) = none := by
  rw [C21_boundary cc ic hfw l hk ug p s]
  have : ¬ NextNotWord cc (s.drop l.length) := by simp [NextNotWord, hnext, isWordO, hc]
  simp [this]

/-- **Other literals.** A literal that does not look like an identifier compiles to the same
string match with and without autokwd. -/
theorem C21_non_kwd_unchanged (cc : CharClasses) (ic : Bool) (l : List Char)
    (hk : isKeywordLike cc ic l = false) : compileLit cc ⟨true, ic⟩ l = compileLit cc ⟨false, ic⟩ l := by
  simp [compileLit, hk]

/-- no keyword-like literal of the grammar occurs in the text immediately followed by a word character -/
def NoGluedKeyword (cc : CharClasses) (ic : Bool) (g : PE) (text : List Char) : Prop :=
  ∀ l ∈ g.lits, isKeywordLike cc ic l = true → ∀ sfx, sfx <:+ text → litMatch cc ic l sfx = true →
    NextNotWord cc (sfx.drop l.length)

/-- at a position where no keyword is glued, the two configurations produce the same terminal -/
theorem C21_token_agree (cc : CharClasses) (ic : Bool) (hfw : FoldWord cc ic) (l : List Char) (ug : Bool)
    (p : Option Char) (s : List Char)
    (h : isKeywordLike cc ic l = true → litMatch cc ic l s = true → NextNotWord cc (s.drop l.length)) :
    litTok cc ⟨true, ic⟩ ug l (p, s) = litTok cc ⟨false, ic⟩ ug l (p, s) := by
  by_cases hk : isKeywordLike cc ic l = true
  · rw [C21_boundary cc ic hfw l hk ug p s]
    have hoff : litTok cc ⟨false, ic⟩ ug l (p, s) = tokMatch cc ug (.str l ic) (p, s) := by
      simp [litTok, compileLit]
    rw [hoff, tokMatch_str]
    by_cases hm : litMatch cc ic l s = true
    · have hn := h hk hm
      rw [if_pos ⟨hm, hn⟩, if_pos hm]
    · rw [if_neg (fun hh => hm hh.1), if_neg hm]
  · have hk' : isKeywordLike cc ic l = false := by simpa using hk
    simp only [litTok, C21_non_kwd_unchanged cc ic l hk']

/-- **Same model.** For every grammar of the PEG fragment, every value of the other options (whitespace
set / `skipws`, `use_regexp_group`) and every text in which no keyword-like literal is immediately
followed by a word character, parsing with autokwd gives exactly the result of parsing without it:
same acceptance, same terminals at the same offsets with the same values and the same values for the
object graph. -/
theorem C21_same_model (cc : CharClasses) (ic : Bool) (hfw : FoldWord cc ic) (o : Opts) (g : PE) (text : List Char)
    (h : NoGluedKeyword cc ic g text) :
    parseText cc ⟨true, ic⟩ o g text = parseText cc ⟨false, ic⟩ o g text := by
  have key : parse cc o (litTok cc ⟨true, ic⟩ o.useGroup) g (none, text) =
      parse cc o (litTok cc ⟨false, ic⟩ o.useGroup) g (none, text) := by
    apply parse_congr cc o _ _ (litTok_rightward cc ⟨true, ic⟩ o.useGroup) g (none, text)
    intro l hl t ht
    obtain ⟨p, s⟩ := t
    exact C21_token_agree cc ic hfw l o.useGroup p s (fun hk hm => h l hl hk s ht hm)
  simp only [parseText, key]

theorem compileLit_cases (cc : CharClasses) (cfg : Cfg) (l : List Char) :
    compileLit cc cfg l = .re (kwRe cfg.icase l) (some l) ∨ compileLit cc cfg l = .str l cfg.icase := by
  unfold compileLit; split <;> simp

/-- `use_regexp_group` is about user regexes with one group only: a terminal compiled from a grammar
*literal* (string match or keyword match, any configuration) hands its terminal value on to the object
graph unchanged, and the option does not influence whether and where it matches. -/
theorem C21_literal_value (cc : CharClasses) (cfg : Cfg) (ug : Bool) (l : List Char) (s u : St) (v a : List Char)
    (h : litTok cc cfg ug l s = some (u, (v, a))) :
    a = v ∧ v = l ∧ litTok cc cfg (!ug) l s = some (u, (v, a)) := by
  unfold litTok at h ⊢
  rcases compileLit_cases cc cfg l with hc | hc <;> rw [hc] at h ⊢
  · simp only [tokMatch] at h ⊢
    cases hm : pyMatchSt cc (kwRe cfg.icase l) s with
    | none => simp [hm] at h
    | some t =>
      simp only [hm] at h ⊢
      by_cases hn : s.2.length - t.2.length = 0
      · simp [hn] at h
      · simp only [hn, if_false, Option.getD_some, Option.some.injEq, Prod.mk.injEq] at h ⊢
        obtain ⟨rfl, rfl, rfl⟩ := h
        simp
  · simp only [tokMatch] at h ⊢
    by_cases hm : litMatch cc cfg.icase l s.2 = true
    · simp only [hm, if_true, Option.some.injEq, Prod.mk.injEq] at h ⊢
      obtain ⟨rfl, rfl, rfl⟩ := h
      simp
    · simp [hm] at h
/-- The hypothesis is needed, and autokwd does what it is for: `'ab' ID` accepts "abx" without
autokwd (`ab`, `x`) and rejects it with autokwd. -/
theorem C21_glued_differs :
    parseText asciiCC ⟨false, false⟩ ⟨defaultWs, false⟩ (.seq (.lit ['a', 'b']) .ident) ['a', 'b', 'x'] =
      some [(0, ['a', 'b'], ['a', 'b']), (2, ['x'], ['x'])] ∧
    parseText asciiCC ⟨true, false⟩ ⟨defaultWs, false⟩ (.seq (.lit ['a', 'b']) .ident) ['a', 'b', 'x'] = none := by
  constructor <;> decide +kernel

/-! ### non-vacuity -/
example : FoldWord asciiCC false := by intro h; cases h
example : isKeywordLike asciiCC false ['b', 'e', 'g', 'i', 'n', '_', '1'] = true := by decide +kernel
example : isKeywordLike asciiCC false ['1', 'a'] = false := by decide +kernel
example : isKeywordLike asciiCC false ['+', '='] = false := by decide +kernel
example : NoGluedKeyword asciiCC false (.seq (.lit ['a', 'b']) .ident) ['a', 'b', ' ', 'x'] := by
  intro l hl hk sfx hs hm
  simp [PE.lits] at hl
  subst hl
  have : sfx = ['a', 'b', ' ', 'x'] ∨ sfx = ['b', ' ', 'x'] ∨ sfx = [' ', 'x'] ∨ sfx = ['x'] ∨ sfx = [] := by
    obtain ⟨pre, hpre⟩ := hs
    match pre, hpre with
    | [], h => simp at h; simp [h]
    | [_], h => simp at h; simp [h.2]
    | [_, _], h => simp at h; simp [h.2.2]
    | [_, _, _], h => simp at h; simp [h.2.2.2]
    | [_, _, _, _], h => simp at h; simp [h.2.2.2]
    | _ :: _ :: _ :: _ :: _ :: _, h => simp at h
  rcases this with h | h | h | h | h <;> subst h <;> revert hm <;> decide +kernel
example : parseText asciiCC ⟨true, false⟩ ⟨defaultWs, false⟩ (.seq (.lit ['a', 'b']) .ident) ['a', 'b', ' ', 'x'] =
    some [(0, ['a', 'b'], ['a', 'b']), (3, ['x'], ['x'])] := by decide +kernel
/-- ignore_case + use_regexp_group: the keyword reaches the object graph in the grammar's spelling, the
user regex `/#(\w+)/` contributes its group -/
example : parseText asciiCC ⟨true, true⟩ ⟨defaultWs, true⟩
    (.seq (.lit ['a', 'b']) (.rx (.chr '#') (some (R.plus W)))) ['A', 'B', ' ', '#', 't', '1'] =
    some [(0, ['a', 'b'], ['a', 'b']), (3, ['#', 't', '1'], ['t', '1'])] := by decide +kernel
/-- `skipws=False`: nothing is skipped -/
example : parseText asciiCC ⟨true, false⟩ ⟨[], false⟩ (.seq (.lit ['a', 'b']) .ident) ['a', 'b', ' ', 'x'] = none := by
  decide +kernel
/-- separator repetition `ID+['and']` under autokwd; a separator whose element fails stays in the parse tree
(`x and .`: the position returns to before `and`) -/
example : parseText asciiCC ⟨true, false⟩ ⟨defaultWs, false⟩
    (.seq (.sepPlus .ident (.lit ['a', 'n', 'd'])) (.seq (.lit ['a', 'n', 'd']) (.lit ['.'])))
    ['x', ' ', 'a', 'n', 'd', ' ', '.'] =
    some [(0, ['x'], ['x']), (2, ['a', 'n', 'd'], ['a', 'n', 'd']), (2, ['a', 'n', 'd'], ['a', 'n', 'd']),
      (6, ['.'], ['.'])] := by decide +kernel
example : parseText asciiCC ⟨true, false⟩ ⟨defaultWs, false⟩ (.sepPlus .ident (.lit ['a', 'n', 'd']))
    ['x', ' ', 'a', 'n', 'd', ' ', 'y'] =
    some [(0, ['x'], ['x']), (2, ['a', 'n', 'd'], ['a', 'n', 'd']), (6, ['y'], ['y'])] := by decide +kernel

/-! ### non-vacuity of `FoldWord` under ignore_case -/
/-- the ASCII tables: characters equal up to case are both word characters or both not -/
example : FoldWord asciiCC true := fun _ => foldWordAll_ascii
/-- … so `C21_boundary` applies with `ignore_case`: `begin` matches `BeGiN` before `(` and not before `x` -/
example : litTok asciiCC ⟨true, true⟩ false "begin".toList (none, "BeGiN(".toList) =
    some ((some 'N', ['(']), ("begin".toList, "begin".toList)) := by
  rw [C21_boundary asciiCC true (fun _ => foldWordAll_ascii) _ (by decide +kernel)]
  decide +kernel
example : litTok asciiCC ⟨true, true⟩ false "begin".toList (none, "BeGiNx".toList) = none :=
  C21_never_glued asciiCC true (fun _ => foldWordAll_ascii) _ (by decide +kernel) false none _ 'x' (by decide +kernel)
    (by decide +kernel)

/-! ### literals as written in the grammar: quotes and escape sequences

`visitStrMatch` is `visit_str_match` on the string token with its quotes; `litOfSrc` / `decodeEscapes` are
`children[0][1:-1]` + `decode_escapes` (`Names` = Python's table for `\N{…}`, given as data). -/

/-- **Written literals.** Whatever the spelling of a grammar literal (either quote, any escape
sequences), the match object is the one of the *decoded* literal: keyword-likeness is decided on the
literal that is matched, not on the text between the quotes. -/
theorem C21_written_literal (cc : CharClasses) (names : Names) (cfg : Cfg) (tok l : List Char)
    (hd : decodeEscapes names (unquote tok) = .ok l) :
    visitStrMatch cc names cfg tok = .ok (compileLit cc cfg l) := by
  simp [visitStrMatch, litOfSrc_eq, hd, Except.map]

/-- two spellings of the same literal (or of the same decoding error) compile alike -/
theorem C21_spelling_irrelevant (cc : CharClasses) (names : Names) (cfg : Cfg) (tok₁ tok₂ : List Char)
    (h : decodeEscapes names (unquote tok₁) = decodeEscapes names (unquote tok₂)) :
    visitStrMatch cc names cfg tok₁ = visitStrMatch cc names cfg tok₂ := by
  simp [visitStrMatch, litOfSrc_eq, h]

/-- a literal written without a backslash between any two quote characters denotes the text between them -/
theorem C21_plain_spelling (names : Names) (q q' : Char) (body : List Char) (h : '\\' ∉ body) :
    litOfSrc names (q :: (body ++ [q'])) = .ok body := by
  rw [litOfSrc_eq]
  have : unquote (q :: (body ++ [q'])) = body := by simp [unquote]
  rw [this, decodeEscapes_plain names body h]

/-- **Never glued, as written.** With autokwd, a grammar literal — however it is written — whose decoded value
looks like an identifier compiles to a match that never matches when the next input character is a word
character. -/
theorem C21_never_glued_written (cc : CharClasses) (ic : Bool) (hfw : FoldWord cc ic) (names : Names)
    (tok l : List Char) (hd : decodeEscapes names (unquote tok) = .ok l)
    (hk : isKeywordLike cc ic l = true) (ug : Bool) (p : Option Char) (s : List Char) (c : Char)
    (hnext : (s.drop l.length).head? = some c) (hc : cc.isWord c = true) :
    ∃ t, visitStrMatch cc names ⟨true, ic⟩ tok = .ok t ∧ tokMatch cc ug t (p, s) = none :=
  ⟨_, C21_written_literal cc names ⟨true, ic⟩ tok l hd, C21_never_glued cc ic hfw l hk ug p s c hnext hc⟩

/-- a literal whose decoded value does not look like an identifier compiles alike with and without autokwd,
and an invalid escape sequence is refused alike -/
theorem C21_non_kwd_unchanged_written (cc : CharClasses) (ic : Bool) (names : Names) (tok : List Char)
    (h : ∀ l, decodeEscapes names (unquote tok) = .ok l → isKeywordLike cc ic l = false) :
    visitStrMatch cc names ⟨true, ic⟩ tok = visitStrMatch cc names ⟨false, ic⟩ tok := by
  simp only [visitStrMatch, litOfSrc_eq]
  cases hd : decodeEscapes names (unquote tok) with
  | error e => rfl
  | ok l => simp [Except.map, C21_non_kwd_unchanged cc ic l (h l hd)]

/-- the decoder never runs out of fuel -/
theorem C21_decode_total (names : Names) (s : List Char) : decodeEscapes names s ≠ .error .fuel :=
  decodeEscapes_ne_fuel names s

/-! non-vacuity: `'café'`, `'\x62egin'`, `"en\144"`, `'na\N{…}ve'` are the keywords café, begin, end, naïve -/
def eCC : CharClasses := tableCC [] ['é', 'ï'] [] []
local instance decEqExcept {ε α : Type} [DecidableEq ε] [DecidableEq α] : DecidableEq (Except ε α)
  | .ok a, .ok b => if h : a = b then isTrue (by rw [h]) else isFalse (by intro e; injection e with e; exact h e)
  | .error a, .error b => if h : a = b then isTrue (by rw [h]) else isFalse (by intro e; injection e with e; exact h e)
  | .ok _, .error _ => isFalse (by intro e; cases e)
  | .error _, .ok _ => isFalse (by intro e; cases e)
example : litOfSrc [] "'caf\\u00e9'".toList = .ok "café".toList := by decide +kernel
example : litOfSrc [] "'\\x62egin'".toList = .ok "begin".toList := by decide +kernel
example : litOfSrc [] "\"en\\144\"".toList = .ok "end".toList := by decide +kernel
example : litOfSrc [("LATIN SMALL LETTER I WITH DIAERESIS".toList, 'ï')]
    "'na\\N{LATIN SMALL LETTER I WITH DIAERESIS}ve'".toList = .ok "naïve".toList := by decide +kernel
example : litOfSrc [] "'a\\\\\\'\\tb\\d'".toList = .ok "a\\'\tb\\d".toList := by decide +kernel
example : litOfSrc [] "'\\xZZ'".toList = .error .invalid := by decide +kernel
example : litOfSrc [] "'\\N{NO SUCH NAME}'".toList = .error .invalid := by decide +kernel
example : litOfSrc [] "'\\U00110000'".toList = .error .invalid := by decide +kernel
example : litOfSrc [] "'\\ud800'".toList = .error .surrogate := by decide +kernel
example : litOfSrc [] "'\\x4'".toList = .ok "\\x4".toList := by decide +kernel
example : visitStrMatch eCC [] ⟨true, false⟩ "'caf\\u00e9'".toList =
    .ok (.re (kwRe false "café".toList) (some "café".toList)) := by decide +kernel
/-- … and through the theorem: the token of `'café'` does not match in `caféteria` -/
example : ∃ t, visitStrMatch eCC [] ⟨true, false⟩ "'caf\\u00e9'".toList = .ok t ∧
    tokMatch eCC false t (none, "caféteria".toList) = none :=
  C21_never_glued_written eCC false (by intro h; cases h) [] _ "café".toList (by decide +kernel) (by decide +kernel)
    false none _ 't' (by decide +kernel) (by decide +kernel)
/-- a literal that is not keyword-like although it is written with an escape: `'a\tb'` -/
example : visitStrMatch asciiCC [] ⟨true, false⟩ "'a\\tb'".toList = .ok (.str "a\tb".toList false) := by decide +kernel

end Kwd

/-! ## the full Arpeggio mirror: rule references, recursion, memoization, comments, modifiers

`Kwd.PE` is a small fragment.  The statement "same model when no keyword is glued" is lifted here to the
mirror of Arpeggio's interpreter (`Peg.Arp`, the one C20 runs on the *dumped real parser models*):
`Peg.Case.Lang` is a parser model with its tokens, `Lang.autokwd` is what `autokwd=True` changes in it (the
`StrMatch` of a keyword-like literal becomes a `KeywordMatch`: a regex match node for `keyword\b` whose value is
still the grammar literal), `kwRx` runs those patterns on the Lean regex engine. -/
namespace Peg.Case
open Re

/-- `Lang.autokwd` is `visit_str_match` token by token: the token of `Kwd.compileLit` (the function the C21
correspondence compares with the live `visit_str_match` for every literal) -/
def ofKwdTok : Kwd.Tok → Tok
  | .str l ic => .str l ic
  | .re _ (some l) => .kw l
  | _ => .re

theorem C21_autokwdTok_compileLit (cc : CharClasses) (ic : Bool) (l : List Char) :
    autokwdTok cc ic (.str l ic) = ofKwdTok (Kwd.compileLit cc ⟨true, ic⟩ l) ∧
      Tok.str l ic = ofKwdTok (Kwd.compileLit cc ⟨false, ic⟩ l) := by
  simp only [autokwdTok, Kwd.compileLit, Bool.true_and, Bool.false_and]
  constructor
  · split <;> rfl
  · rfl

/-- **Token tables.**  On an input in which no keyword-like literal is immediately followed by a word
character, the token table of the `autokwd` meta-model — keyword rows computed by the regex engine on
`keyword\b` (`C21_boundary`) — is the token table of the meta-model without `autokwd`. -/
theorem C21_same_tokTable (cc : CharClasses) (ic : Bool) (hfw : Kwd.FoldWord cc ic) (rx0 : Rx) (toks : Array Tok)
    (hu : UniformIc ic toks) (inp : Array Char) (h : NoGluedKeywordIn cc ic toks inp) :
    tokTable cc.fold (kwRx cc ic toks rx0) (toks.map (autokwdTok cc ic)) inp = tokTable cc.fold rx0 toks inp :=
  tokTable_autokwd cc ic hfw rx0 toks hu inp h

/-- **Same model, full interpreter.**  For every parser model `L` (any rule graph: references, recursion,
repetitions with separators, unordered groups, predicates, rule modifiers `ws` / `skipws` / `eolterm` /
suppress, a comment model, memoization on or off), every regex engine `rx0` for its other regex tokens and
every input without a glued keyword, `parser.parse` of the `autokwd` meta-model has the same outcome as
without `autokwd`: the same parse tree (node identities, positions, lengths) or the same furthest-failure
position, for every fuel; and the terminal values read off any tree are the same. -/
theorem C21_same_run (cc : CharClasses) (ic : Bool) (hfw : Kwd.FoldWord cc ic) (rx0 : Rx) (L : Lang)
    (hu : UniformIc ic L.toks) (inp : Array Char) (h : NoGluedKeywordIn cc ic L.toks inp) (fuel : Nat) :
    (L.autokwd cc ic).run cc.fold (kwRx cc ic L.toks rx0) inp fuel = L.run cc.fold rx0 inp fuel ∧
      ∀ v, values (L.autokwd cc ic).toks inp v = values L.toks inp v := by
  refine ⟨?_, fun v => ?_⟩
  · exact Peg.run_congrK (similarK_autokwd cc ic hfw rx0 L hu inp h) ⟨fun _ _ => trivial, fun _ _ _ _ _ => trivial⟩
      L.top L.skipws trivial fuel
  · unfold values
    apply List.map_congr_left
    intro x _
    exact termValue_autokwd cc ic L.toks inp x.1 x.2.1 x.2.2

/-- furthest-failure position of a rejected input -/
def _root_.Peg.Outcome.failPos : Outcome → Option Nat
  | .noMatch p => some p
  | _ => none

/-! ### non-vacuity: `Model: 'ab' n=ID;` in the mirror, ID run by the regex engine -/

def abLang : Lang :=
  { nodes := #[{ kind := .seq, kids := [1, 2], root := true }, { kind := .str, tok := 1 }, { kind := .re, tok := 2 }],
    comments := none, memo := true, toks := #[.other, .str "ab".toList false, .re],
    top := 0, skipws := true, ws := [' ', '\n'] }

def idRx : Rx := fun _ inp p => reRx asciiCC Gen.Regexes.ID inp p

/-- `autokwd` turns the literal into a keyword match -/
example : (abLang.autokwd asciiCC false).toks = #[.other, .kw "ab".toList, .re] ∧
    ((abLang.autokwd asciiCC false).nodes.map (·.kind)) = #[.seq, .re, .re] := by
  constructor <;> decide +kernel

theorem abLang_uniform : UniformIc false abLang.toks := uniformIc_sound (by decide)

theorem ab_x_noGlued : NoGluedKeywordIn asciiCC false abLang.toks "ab x".toList.toArray :=
  noGluedKeywordInB_sound (by decide +kernel)

/-- through the theorem … -/
example : (abLang.autokwd asciiCC false).run asciiCC.fold (kwRx asciiCC false abLang.toks idRx) "ab x".toList.toArray 5 =
    abLang.run asciiCC.fold idRx "ab x".toList.toArray 5 :=
  (C21_same_run asciiCC false (fun h => nomatch h) idRx abLang abLang_uniform _ ab_x_noGlued 5).1

/-- … about a successful parse -/
example : (abLang.run asciiCC.fold idRx "ab x".toList.toArray 5).leaves = some [(1, 0, 2), (2, 3, 1)] := by
  decide +kernel

/-- The hypothesis is needed in the mirror as well: `abx` is accepted without `autokwd` (`ab`, `x`) and
rejected with it. -/
theorem C21_run_glued_differs :
    (abLang.run asciiCC.fold idRx "abx".toList.toArray 5).leaves = some [(1, 0, 2), (2, 2, 1)] ∧
    ((abLang.autokwd asciiCC false).run asciiCC.fold (kwRx asciiCC false abLang.toks idRx)
      "abx".toList.toArray 5).failPos = some 0 := by
  constructor <;> decide +kernel

end Peg.Case
