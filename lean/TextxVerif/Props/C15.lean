import TextxVerif.Proofs.LoadTreeFrame
import TextxVerif.Proofs.LoadTreeHist
import TextxVerif.LoadTreePinned
/-!
# C15 — a failed load leaves nothing behind

Model: `TextxVerif/LoadTree.lean` (see `Props/C14.lean`).  What textX and the user
classes keep referencing after a load, as far as this machine is concerned, is the
instrumentation state of the classes (`Sh.core`: counter, replaced methods — closures
over the class —, cached originals) and the per-object storage `_tx_obj_attrs`
(`Sh.attrs`: its entries hold the collected attribute values of an object, i.e. its
parent and children).  Model repositories are the subject of C17 / C18
(`Load.Repo`), reference counting and the cyclic collector are CPython's.

`runF table n L sh`: the attempt `L` with loads nested in its user code to any depth;
every theorem holds for all load trees, fault placements and nestings.
-/
namespace LoadTree

variable {α : Type}

/-- **No key of the attempt is left in any per-object storage** — whatever the outcome.  Objects
created by the attempt have ids `≥ sh.next`: afterwards no such key is stored (after a success they
were popped one by one right before their `__init__`, after a failure discarded by the handlers). -/
theorem C15_no_key_left (table : List Load) (n : Nat) (L : Load) (sh : Sh α) (hg : Good sh) :
    ∀ p, p ∈ (runF table n L sh).1.attrs → p.2 < sh.next := by
  intro p hp
  rw [(runF_frame table n L sh hg).2.1] at hp
  exact hg.lt p hp

/-- **Nothing of the attempt stays reachable from the classes.** Objects created by the
attempt have ids `≥ sh.next`: after a failed attempt no such key is left in any
per-object storage, so the classes reference no part of the partially built models.
(Corollary of `C15_no_key_left`, which does not need the failure.) -/
theorem C15_unreachable (table : List Load) (n : Nat) (L : Load) (sh : Sh α) (hg : Good sh)
    (_hfail : (runF table n L sh).2 = false) :
    ∀ p, p ∈ (runF table n L sh).1.attrs → p.2 < sh.next :=
  C15_no_key_left table n L sh hg

/-- **No parser of a failed attempt stays registered.** When the attempt of a main model fails — at
whatever point, with whatever user code (`env` arbitrary) — the list of parsers (models) of the
attempt that are still registered, and through which `_tx_parser` / the collected attributes could be
reached, is empty: every one went through `_abort_model_construction` or the handler of
`get_model_from_str` (`failOuter`).  Independent of `Good`. -/
theorem C15_nothing_registered (env : Env α) (L : Load) (sh : Sh α) (left : List PRec)
    (hfail : (node env true L [] sh).2 = .error left) : left = [] :=
  node_main_left env L sh left hfail

/-- the hypothesis of `C15_nothing_registered` is what `runF … = false` means -/
theorem C15_fail_iff (table : List Load) (n : Nat) (L : Load) (sh : Sh α) :
    (runF table (n + 1) L sh).2 = false ↔
      (node (tableEnv (runF table n) table) true L [] sh).2 = .error [] := by
  simp only [runF, runMain]
  constructor
  · intro h
    cases hr : (node (tableEnv (runF table n) table) true L [] sh).2 with
    | ok _ => rw [hr] at h; simp at h
    | error left => rw [node_main_left _ L sh left hr]
  · intro h; rw [h]

/-- **User classes are left uninstrumented.** Classes that were untouched before a
failing attempt are untouched after it: no counter, the original methods, no cache,
no per-object storage entries. -/
theorem C15_uninstrumented (table : List Load) (n : Nat) (L : Load) (orig : ClassId → α)
    (next : Nat) (log own : List Ev) :
    let sh : Sh α := ⟨fun c => ⟨0, .real (orig c), none⟩, [], next, log, own⟩
    (runF table n L sh).2 = false →
      (runF table n L sh).1.attrs = [] ∧
      ∀ c, (runF table n L sh).1.core c = ⟨0, .real (orig c), none⟩ := by
  intro sh _
  have hg : Good sh := ⟨fun c => ⟨orig c, 0, rfl⟩, List.nodup_nil, fun p hp => by simp [sh] at hp⟩
  obtain ⟨h1, h2, _⟩ := runF_frame table n L sh hg
  exact ⟨h2, fun c => by rw [h1]⟩

/-- **A subsequent load behaves as with a fresh metamodel.** Whatever attempt `L` ran
before (failing or not), a later attempt `L'` started with the classes in the state
the first one left them gives the same outcome, the same calls of user code with the
same instrumentation snapshots, and the same final state as when it is started with
the classes in their state before `L` (allocator state `m` and logs being equal). -/
theorem C15_same_as_fresh (table : List Load) (n k : Nat) (L L' : Load) (sh : Sh α) (hg : Good sh)
    (m : Nat) :
    runF table k L' ⟨(runF table n L sh).1.core, (runF table n L sh).1.attrs, m, [], []⟩ =
      runF table k L' ⟨sh.core, sh.attrs, m, [], []⟩ := by
  obtain ⟨h1, h2, _⟩ := runF_frame table n L sh hg
  rw [h1, h2]

/-- **History form.** Any sequence of load attempts on the same classes — failing at any point or
succeeding, each with its own nested loads to any depth — leaves every class (counter, methods,
cache) and the stored keys exactly as the first attempt found them; the allocator only moved
forward and the state is again one in which the theorems apply (`Good`), so the next attempt starts
as the first one did. -/
theorem C15_history (hist : List (List Load × Nat × Load)) (sh : Sh α) (hg : Good sh) :
    (runHist hist sh).core = sh.core ∧ (runHist hist sh).attrs = sh.attrs ∧
      sh.next ≤ (runHist hist sh).next ∧ Good (runHist hist sh) :=
  ⟨(runHist_frame hist sh hg).1.core, (runHist_frame hist sh hg).1.attrs, (runHist_frame hist sh hg).1.next,
   (runHist_frame hist sh hg).2⟩

/-- after any history of attempts that started with untouched classes, the classes are untouched -/
theorem C15_history_clean (hist : List (List Load × Nat × Load)) (orig : ClassId → α)
    (next : Nat) (log own : List Ev) :
    let sh : Sh α := ⟨fun c => ⟨0, .real (orig c), none⟩, [], next, log, own⟩
    (runHist hist sh).attrs = [] ∧ ∀ c, (runHist hist sh).core c = ⟨0, .real (orig c), none⟩ := by
  intro sh
  have hg : Good sh := ⟨fun c => ⟨orig c, 0, rfl⟩, List.nodup_nil, fun p hp => by simp [sh] at hp⟩
  obtain ⟨h1, h2, _⟩ := C15_history hist sh hg
  exact ⟨h2, fun c => by rw [h1]⟩

/-- **A subsequent load behaves as with a fresh metamodel, after any history.**  `runNext` = an
attempt with its own event lists on the classes as the history left them: outcome, calls of user
code with their instrumentation snapshots and final class states equal those of the same attempt
on the classes as they were before the whole history (allocator state being equal: it is
CPython's). -/
theorem C15_same_as_fresh_history (hist : List (List Load × Nat × Load)) (table : List Load) (k : Nat)
    (L' : Load) (sh : Sh α) (hg : Good sh) :
    runNext table k L' (runHist hist sh) =
      runNext table k L' { sh with next := (runHist hist sh).next } := by
  obtain ⟨h1, h2, _⟩ := C15_history hist sh hg
  simp only [runNext, h1, h2]

/-- the allocator only moves forward: ids of the failed attempt are not handed out again -/
theorem C15_ids_not_reused (table : List Load) (n : Nat) (L : Load) (sh : Sh α) (hg : Good sh) :
    sh.next ≤ (runF table n L sh).1.next :=
  (runF_frame table n L sh hg).2.2

/-- Without the discard on failure (the pinned behaviour: entries are removed only
right before `__init__`) a key of the failed attempt stays: the model's `alloc`
without `discard` leaves `(c, next)` stored. -/
theorem C15_no_discard_false :
    ∃ (sh : Sh Nat) (P : PRec), sh.attrs = [] ∧ (alloc 0 P sh).1.attrs ≠ [] ∧
      (discard (alloc 0 P sh).2.1 (alloc 0 P sh).1).1.attrs = [] :=
  ⟨⟨fun c => ⟨0, .real c, none⟩, [], 0, [], []⟩, newRec 1 [0] [] false [], rfl, by decide, by decide⟩

namespace PinnedWit
def clean : Sh Nat := ⟨fun c => ⟨0, .real c, none⟩, [], 0, [], []⟩
def h0 (lab : Nat) : Hook := ⟨lab, [], false⟩
/-- single file, two nested user objects, the constructor of the inner one raises -/
def one : Load := .mk 1 [0] true (.obj (some 0) (h0 10) [.obj (some 0) ⟨11, [], true⟩ []]) none [] [] false [] (h0 10)
def imp : Load := .mk 2 [0] true (.obj (some 0) (h0 20) []) none [] [] false [] (h0 20)
/-- two files, an unresolvable reference in the main file -/
def two : Load := .mk 1 [0] true (.obj (some 0) (h0 10) []) none [imp] [] true [] (h0 10)
/-- a file with a syntax error -/
def bad : Load := .mk 3 [0] false (.obj (some 0) (h0 30) []) none [] [] false [] (h0 30)
/-- a match-rule processor loads `bad` and swallows the error; another match-rule processor follows -/
def outer : Load := .mk 1 [0] true (.obj (some 0) (h0 10) [.conv ⟨11, [(1, true)], false⟩, .conv (h0 13)])
  none [] [] false [] (h0 10)
end PinnedWit

open PinnedWit in
/-- **The pinned code, as a whole machine, breaks the property** (`LoadTreePinned.lean`: the same walk
with the pinned handlers — restore without a per-parser flag, no discard, no abort of imported
parsers; compared with the pinned tree, see `notes/C15.md`).  (1) `one`: the key of the outer object stays in
`_tx_obj_attrs` after the failure; (2) `two`: the imported file's parser never gives back its count,
the class stays instrumented after the failure; (3) `outer`: the failing nested load un-instruments
the outer load, the next match-rule processor of the outer load already sees the class restored
(`(0, false, false, 1)`: one object under construction, its attributes no longer collected).
The repaired machine ends clean on (1), (2) and keeps the class instrumented in (3). -/
theorem C15_pinned_false :
    (Pinned.runFP [] 1 one clean).2 = false ∧ (Pinned.runFP [] 1 one clean).1.attrs = [(0, 0)] ∧
    (runF [] 1 one clean).1.attrs = [] ∧
    (Pinned.runFP [] 1 two clean).2 = false ∧
    (Pinned.runFP [] 1 two clean).1.core 0 = ⟨1, .instr, some (.real 0)⟩ ∧
    (runF [] 1 two clean).1.core 0 = ⟨0, .real 0, none⟩ ∧
    ((Pinned.runFP [outer, bad] 2 outer clean).1.own.filter (·.kind == 0)).map (·.snap) =
      [[(1, true, true, 1)], [(0, false, false, 1)]] ∧
    ((runF [outer, bad] 2 outer clean).1.own.filter (·.kind == 0)).map (·.snap) =
      [[(1, true, true, 1)], [(1, true, true, 1)]] := by
  decide

/-! non-vacuity: failing attempts of every phase leave the clean state -/
section
private def h0 (lab : Nat) : Hook := ⟨lab, [], false⟩
private def hx (lab : Nat) : Hook := ⟨lab, [], true⟩
private def clean : Sh Nat := ⟨fun c => ⟨0, .real c, none⟩, [], 0, [], []⟩
private def child (res : Hook) (init : Hook) (ok : Bool) : Load :=
  .mk 2 [0] ok (.obj (some 0) init [.obj (some 0) (h0 21) []]) none [] [res] false [h0 21, h0 20] (h0 20)
private def main (c : Load) (op : Hook) : Load :=
  .mk 1 [0] true (.obj (some 0) (h0 10) [.conv (h0 11)]) none [c] [] false [op] (h0 10)

/-- syntax error in the imported file / provider raises / constructor raises / object processor raises -/
example : (runF [] 1 (main (child (h0 22) (h0 20) false) (h0 10)) clean).2 = false := by decide
example : (runF [] 1 (main (child (hx 22) (h0 20) true) (h0 10)) clean).2 = false := by decide
example : (runF [] 1 (main (child (h0 22) (hx 20) true) (h0 10)) clean).2 = false := by decide
example : (runF [] 1 (main (child (h0 22) (h0 20) true) (hx 10)) clean).2 = false := by decide
/-- the constructor of the imported root raised after three objects were initialised -/
example : (runF [] 1 (main (child (h0 22) (hx 20) true) (h0 10)) clean).1.own.map Ev.key =
    [(0, 1, 11), (5, 2, 20), (2, 2, 22), (3, 1, 10), (3, 2, 21), (3, 2, 20)] := by decide
example : (runF [] 1 (main (child (h0 22) (hx 20) true) (h0 10)) clean).1.attrs = [] := by decide
/-- a history: three failing attempts (the second with a load nested in user code that fails too),
then the repaired tree: it succeeds with the events of a load on fresh classes -/
private def mainN (c : Load) : Load :=
  .mk 1 [0] true (.obj (some 0) (h0 10) [.conv ⟨11, [(0, true)], false⟩]) none [c] [] false [h0 10] (h0 10)
private def bad1 : Load := main (child (hx 22) (h0 20) true) (h0 10)
private def bad2 : Load := mainN (child (h0 22) (hx 20) true)
private def good : Load := main (child (h0 22) (h0 20) true) (h0 10)
private def hist3 : List (List Load × Nat × Load) := [([], 1, bad1), ([bad1], 2, bad2), ([], 1, main (child (h0 22) (h0 20) false) (h0 10))]
example : hist3.map (fun x => (runF x.1 x.2.1 x.2.2 clean).2) = [false, false, false] := by decide
example : (runNext [] 1 good (runHist hist3 clean)).2 = true := by decide
example : (runNext [] 1 good (runHist hist3 clean)).1.own = (runNext [] 1 good { clean with next := (runHist hist3 clean).next }).1.own := by decide +kernel
example : (runHist hist3 clean).next = 10 := by decide
/-- `C15_nothing_registered` is not vacuous: a failing main attempt -/
example : (node (tableEnv (runF [] 0) []) true bad1 [] clean).2 = .error [] :=
  (C15_fail_iff [] 0 bad1 clean).1 (by decide)
end

end LoadTree
