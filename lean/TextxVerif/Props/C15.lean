import TextxVerif.Proofs.LoadTreeFrame
/-!
# C15 — a failed load leaves nothing behind

Model: `TextxVerif/LoadTree.lean` (see `Props/C14.lean`).  What textX and the user
classes keep referencing after a load, as far as this machine is concerned, is the
instrumentation state of the classes (`Sh.core`: counter, replaced methods — closures
over the class —, cached originals) and the per-object storage `_tx_obj_attrs`
(`Sh.attrs`: its entries hold the collected attribute values of an object, i.e. its
parent and children).  Model repositories are the subject of C17 / C18
(`Load.Repo`), reference counting and the cyclic collector are CPython's.

`runF table n L sh`: the attempt `L` with loads nested in its user code to any depth;
every theorem holds for all load trees, fault placements and nestings.
-/
namespace LoadTree

variable {α : Type}

/-- **Nothing of the attempt stays reachable from the classes.** Objects created by the
attempt have ids `≥ sh.next`: after a failed attempt no such key is left in any
per-object storage, so the classes reference no part of the partially built models. -/
theorem C15_unreachable (table : List Load) (n : Nat) (L : Load) (sh : Sh α) (hg : Good sh)
    (_hfail : (runF table n L sh).2 = false) :
    ∀ p, p ∈ (runF table n L sh).1.attrs → p.2 < sh.next := by
  intro p hp
  rw [(runF_frame table n L sh hg).2.1] at hp
  exact hg.lt p hp

/-- **User classes are left uninstrumented.** Classes that were untouched before a
failing attempt are untouched after it: no counter, the original methods, no cache,
no per-object storage entries. -/
theorem C15_uninstrumented (table : List Load) (n : Nat) (L : Load) (orig : ClassId → α)
    (next : Nat) (log own : List Ev) :
    let sh : Sh α := ⟨fun c => ⟨0, .real (orig c), none⟩, [], next, log, own⟩
    (runF table n L sh).2 = false →
      (runF table n L sh).1.attrs = [] ∧
      ∀ c, (runF table n L sh).1.core c = ⟨0, .real (orig c), none⟩ := by
  intro sh _
  have hg : Good sh := ⟨fun c => ⟨orig c, 0, rfl⟩, List.nodup_nil, fun p hp => by simp [sh] at hp⟩
  obtain ⟨h1, h2, _⟩ := runF_frame table n L sh hg
  exact ⟨h2, fun c => by rw [h1]⟩

/-- **A subsequent load behaves as with a fresh metamodel.** Whatever attempt `L` ran
before (failing or not), a later attempt `L'` started with the classes in the state
the first one left them gives the same outcome, the same calls of user code with the
same instrumentation snapshots, and the same final state as when it is started with
the classes in their state before `L` (allocator state `m` and logs being equal). -/
theorem C15_same_as_fresh (table : List Load) (n k : Nat) (L L' : Load) (sh : Sh α) (hg : Good sh)
    (m : Nat) :
    runF table k L' ⟨(runF table n L sh).1.core, (runF table n L sh).1.attrs, m, [], []⟩ =
      runF table k L' ⟨sh.core, sh.attrs, m, [], []⟩ := by
  obtain ⟨h1, h2, _⟩ := runF_frame table n L sh hg
  rw [h1, h2]

/-- the allocator only moves forward: ids of the failed attempt are not handed out again -/
theorem C15_ids_not_reused (table : List Load) (n : Nat) (L : Load) (sh : Sh α) (hg : Good sh) :
    sh.next ≤ (runF table n L sh).1.next :=
  (runF_frame table n L sh hg).2.2

/-- Without the discard on failure (the pinned behaviour: entries are removed only
right before `__init__`) a key of the failed attempt stays: the model's `alloc`
without `discard` leaves `(c, next)` stored. -/
theorem C15_no_discard_false :
    ∃ (sh : Sh Nat) (P : PRec), sh.attrs = [] ∧ (alloc 0 P sh).1.attrs ≠ [] ∧
      (discard (alloc 0 P sh).2.1 (alloc 0 P sh).1).1.attrs = [] :=
  ⟨⟨fun c => ⟨0, .real c, none⟩, [], 0, [], []⟩, newRec 1 [0] [] false [], rfl, by decide, by decide⟩

/-! non-vacuity: failing attempts of every phase leave the clean state -/
section
private def h0 (lab : Nat) : Hook := ⟨lab, [], false⟩
private def hx (lab : Nat) : Hook := ⟨lab, [], true⟩
private def clean : Sh Nat := ⟨fun c => ⟨0, .real c, none⟩, [], 0, [], []⟩
private def child (res : Hook) (init : Hook) (ok : Bool) : Load :=
  .mk 2 [0] ok (.obj (some 0) init [.obj (some 0) (h0 21) []]) none [] [res] false [h0 21, h0 20] (h0 20)
private def main (c : Load) (op : Hook) : Load :=
  .mk 1 [0] true (.obj (some 0) (h0 10) [.conv (h0 11)]) none [c] [] false [op] (h0 10)

/-- syntax error in the imported file / provider raises / constructor raises / object processor raises -/
example : (runF [] 1 (main (child (h0 22) (h0 20) false) (h0 10)) clean).2 = false := by decide
example : (runF [] 1 (main (child (hx 22) (h0 20) true) (h0 10)) clean).2 = false := by decide
example : (runF [] 1 (main (child (h0 22) (hx 20) true) (h0 10)) clean).2 = false := by decide
example : (runF [] 1 (main (child (h0 22) (h0 20) true) (hx 10)) clean).2 = false := by decide
/-- the constructor of the imported root raised after three objects were initialised -/
example : (runF [] 1 (main (child (h0 22) (hx 20) true) (h0 10)) clean).1.own.map Ev.key =
    [(0, 1, 11), (5, 2, 20), (2, 2, 22), (3, 1, 10), (3, 2, 21), (3, 2, 20)] := by decide
example : (runF [] 1 (main (child (h0 22) (hx 20) true) (h0 10)) clean).1.attrs = [] := by decide
end

end LoadTree
