import TextxVerif.Proofs.GramLoadClass
/-!
# C23 — invalid grammars are always reported as textX errors

`GramLoad.compile env g` is the outcome of `metamodel_from_str` on a grammar text
whose parse tree is `g` (`GramLoad.parseFailed` when the grammar parser rejects the
text), in an error monad whose errors are the four textX error classes and
`py e` for every other Python exception.  `env` describes the registered
languages a `reference` statement can name.

The theorems hold for every parse tree (no bound on the number of rules, the
nesting, the names) and every environment.  What they do not cover is stated
in notes/C23.md: the CPython stack (deep nesting, known finding KF-C23-1), and
that regex compilation / escape decoding fail only with exceptions the visitor's
handlers catch.
-/
namespace GramLoad

/-- **C23**: without an `import` statement, loading a grammar ends with a
meta-model or with a textX error (`TextXSyntaxError`, `TextXSemanticError`,
`TextXRegistrationError`, `TextXError`) — never with another exception: no
`KeyError` from `_tx_attrs[...]` / `metamodel[...]`, no `AttributeError` from
`_attr_name` / `_tx_class` / `nodes`, no `TypeError` from a valueless `ws`, no
`re.error` / `OverflowError` / … of the regex engine, no `UnicodeDecodeError`, no
`RecursionError` from rule aliases. -/
theorem C23_total (env : Env) (g : Grammar) (h : Stm.imp ∉ g.stms) :
    ∀ e, compile env g = .error e → e.isTx = true := by
  intro e he
  unfold compile at he
  rcases bind_err.mp he with h1 | ⟨st, hst, h2⟩
  · exact firstPass_tx g h e h1
  · rcases bind_err.mp h2 with h3 | ⟨hc, _, h4⟩
    · obtain ⟨b, hb⟩ := commentsModel_ok env st
      rw [hb] at h3
      cases h3
    · exact secondPass_tx env (firstPass_inv hst) hc e h4

/-- the only non-textX exception is the documented one: the assertion of
`_new_import`, and only for a grammar with an `import` statement -/
theorem C23_only_import (env : Env) (g : Grammar) (e : PyExc) (h : compile env g = .error (.py e)) :
    e = .assertionError ∧ Stm.imp ∈ g.stms := by
  by_cases hi : Stm.imp ∈ g.stms
  · refine ⟨?_, hi⟩
    unfold compile firstPass at h
    rw [visitStms_imp _ _ hi] at h
    have h' : (Except.error (.py .assertionError) : M Unit) = .error (.py e) := h
    cases h'
    rfl
  · have := C23_total env g hi (.py e) h
    cases this

/-- a grammar given as a string with an `import` statement stops at that
statement (the documented exception), whatever follows -/
theorem C23_import (env : Env) (g : Grammar) (h : Stm.imp ∈ g.stms) :
    compile env g = .error (.py .assertionError) := by
  unfold compile firstPass
  rw [visitStms_imp _ _ h]
  rfl

/-- the same for every order in which the second pass can meet the rule
references and attribute types: each possible outcome is a meta-model or a
textX error -/
theorem C23_any_order (env : Env) (g : Grammar) (h : Stm.imp ∉ g.stms) :
    ∀ o, o ∈ outcomes env g → ∀ e, o = .error e → e.isTx = true := by
  intro o ho e he
  subst he
  unfold outcomes at ho
  cases hfp : firstPass g with
  | error e' =>
      rw [hfp] at ho
      have : e = e' := by
        have h1 := List.mem_singleton.mp ho
        cases h1
        rfl
      exact this ▸ firstPass_tx g h e' hfp
  | ok st =>
      rw [hfp] at ho
      have hok := firstPass_inv hfp
      obtain ⟨hc, hhc⟩ := commentsModel_ok env st
      have ho' : Except.error e ∈ outcomes2 env st hc := by
        simp only [hhc] at ho
        exact ho
      unfold outcomes2 at ho'
      rw [refreshComments_ok, stage3_ok hok] at ho'
      rcases mem_errsOr ho' with h1 | ⟨e', he', heq⟩
      · rcases mem_errsOr h1 with h2 | ⟨e', he', heq⟩
        · have h3 := List.mem_singleton.mp h2
          cases h3
        · have : e = e' := by cases heq; rfl
          exact this ▸ candidates4_tx he'
      · have : e = e' := by cases heq; rfl
        exact this ▸ candidates2_tx he'

/-- the outcome in namespace order is one of them -/
theorem C23_compile_in_outcomes (env : Env) (g : Grammar) : compile env g ∈ outcomes env g := by
  unfold compile outcomes
  cases hfp : firstPass g with
  | error e => exact List.mem_singleton.mpr rfl
  | ok st =>
      rw [ok_bind]
      obtain ⟨hc, hhc⟩ := commentsModel_ok env st
      show (commentsModel env st >>= fun hc => secondPass env st hc) ∈
        (match commentsModel env st with
         | .error e => [Except.error e]
         | .ok hc => outcomes2 env st hc)
      rw [hhc, ok_bind]
      show secondPass env st hc ∈ outcomes2 env st hc
      unfold secondPass outcomes2
      cases h2 : stage2 env st with
      | error e =>
          rw [error_bind]
          exact mem_errsOr_of_mem (stage2_err h2)
      | ok u =>
          rw [ok_bind, errsOr_nil (stage2_okc h2), refreshComments_ok, ok_bind]
          show (stage3 st >>= fun _ => stage4 env st) ∈
            (match stage3 st with
             | .error e => [Except.error e]
             | .ok _ => errsOr (candidates4 env st) [Except.ok ()])
          cases h3 : stage3 st with
          | error e =>
              rw [error_bind]
              exact List.mem_singleton.mpr rfl
          | ok u3 =>
              rw [ok_bind]
              cases h4 : stage4 env st with
              | error e => exact mem_errsOr_of_mem (stage4_err h4)
              | ok u4 =>
                  rw [errsOr_nil (stage4_okc h4)]
                  exact List.mem_singleton.mpr rfl

/-- following rules whose body is a single rule reference needs at most
`len(namespace) + 1` nested calls of `_resolve_rule`: a cycle is reported as
`TextXSemanticError` before the stack is exhausted -/
theorem C23_alias_fuel (env : Env) (st : St) (name : String) :
    resolveCross env st (st.ns.length + 1) [] name ≠ .error (.py .recursionError) := by
  intro h
  have := resolveCross_top_tx env st name _ h
  cases this

/-- the fuel is immaterial: with *any* larger stack the walk along the aliases gives the
same result as with `len(namespace) + 1` — the outcome the model computes is the outcome of
the unbounded recursion of `_resolve_rule`, not an artefact of the bound -/
theorem C23_alias_fuel_irrelevant (env : Env) (st : St) (name : String) (k : Nat) :
    resolveCross env st (st.ns.length + 1 + k) [] name = resolveCross env st (st.ns.length + 1) [] name :=
  resolveCross_stable env st _ [] name (C23_alias_fuel env st name) k

/-- `A: B; B: C; C: 'x';` with a stack of 1000 frames: as with 4 -/
example (env : Env) : resolveCross env
    { ns := [{ name := "A", attrs := [], peg := .cross "B" false }, { name := "B", attrs := [], peg := .cross "C" false },
             { name := "C", attrs := [], peg := mkMatch }], refs := [], top := .cross "B" false } 1000 [] "A" = .ok () := by
  rfl

/-- a text the grammar parser rejects is reported as `TextXSyntaxError` -/
theorem C23_parse_failure : parseFailed = .error .syntax := rfl

/-- before the fix (`A: A;`): without the record of the references being followed
the stack is exhausted whatever its size -/
theorem C23_unfixed_alias_false (env : Env) :
    ∀ f, resolveCrossUnfixed env selfAlias f "A" = .error (.py .recursionError) := by
  intro f
  induction f with
  | zero => rfl
  | succ f ih =>
      unfold resolveCrossUnfixed
      have hc : contains env selfAlias "A" = .ok true := rfl
      have hg : getitem env selfAlias "A" = .ok (.loc { name := "A", attrs := [], peg := .cross "A" false }) := rfl
      rw [hc, ok_bind]
      simp only [Bool.not_true, Bool.false_eq_true, if_false]
      rw [hg, ok_bind]
      exact ih

/-- a regex match the regex engine refuses is a `TextXSyntaxError` whatever
exception class the engine uses for the refusal (`re.error`, `OverflowError` for a
repetition count beyond its limit, `RecursionError`, `ValueError`, …): the handler
of `visit_re_match` is `except Exception` -/
theorem C23_regex_any_exception (e : PyExc) : visitLit (.re (some e)) = .error .syntax := rfl

/-- with the handler narrowed to `except re.error` (seeded change C23-2) the
`OverflowError` of `/a{4294967296}/` leaves the visitor -/
theorem C23_narrow_handler_false :
    visitReNarrow (some .overflowError) = .error (.py .overflowError) := rfl

/-- remembering only the reference the walk started from (seeded change C23-1)
is not enough: on `A: B; B: C; C: B;` the walk from `A` never meets `A` again and
exhausts every stack -/
theorem C23_start_only_alias_false (env : Env) :
    ∀ f, resolveCrossStartOnly env rhoAlias f none "A" = .error (.py .recursionError) := by
  have hcA : contains env rhoAlias "A" = .ok true := rfl
  have hcB : contains env rhoAlias "B" = .ok true := rfl
  have hcC : contains env rhoAlias "C" = .ok true := rfl
  have hgA : getitem env rhoAlias "A" = .ok (.loc { name := "A", attrs := [], peg := .cross "B" false }) := rfl
  have hgB : getitem env rhoAlias "B" = .ok (.loc { name := "B", attrs := [], peg := .cross "C" false }) := rfl
  have hgC : getitem env rhoAlias "C" = .ok (.loc { name := "C", attrs := [], peg := .cross "B" false }) := rfl
  have loop : ∀ f, resolveCrossStartOnly env rhoAlias f (some "A") "B" = .error (.py .recursionError)
      ∧ resolveCrossStartOnly env rhoAlias f (some "A") "C" = .error (.py .recursionError) := by
    intro f
    induction f with
    | zero => exact ⟨rfl, rfl⟩
    | succ f ih =>
        constructor
        · unfold resolveCrossStartOnly
          rw [hcB, ok_bind]
          simp only [Bool.not_true, Bool.false_eq_true, if_false]
          rw [hgB, ok_bind]
          exact ih.2
        · unfold resolveCrossStartOnly
          rw [hcC, ok_bind]
          simp only [Bool.not_true, Bool.false_eq_true, if_false]
          rw [hgC, ok_bind]
          exact ih.1
  intro f
  cases f with
  | zero => rfl
  | succ f =>
      unfold resolveCrossStartOnly
      rw [hcA, ok_bind]
      simp only [Bool.not_true, Bool.false_eq_true, if_false]
      rw [hgA, ok_bind]
      exact (loop f).1

/-- the repaired code reports the same grammar: the chain `[A, B, C]` meets `B` again -/
example (env : Env) : resolveCross env rhoAlias (rhoAlias.ns.length + 1) [] "A" = .error .semantic := rfl

/-! ## the comments model (fix f957bf6: refreshed after the rule references are resolved) -/

/-- `"Comment" in metamodel` and `metamodel["Comment"]._tx_peg_rule` — in `visit_textx_model`
and again in `second_textx_model` — never fail, whatever the namespace and the referenced
languages are: the name has no dot, so no language is consulted and a missing class is the
`KeyError` that `__contains__` turns into `False` -/
theorem C23_comments_model_total (env : Env) (st : St) (hc : Bool) :
    (∃ b, commentsModel env st = .ok b) ∧ refreshComments env st hc = .ok () :=
  ⟨commentsModel_ok env st, refreshComments_ok env st hc⟩

/-! ## which error classes: the two classes the property statement does not name -/

/-- every possible outcome (any order of the second pass): a `TextXRegistrationError`
needs a `reference` statement naming a language that is not registered, a plain
`TextXError` needs a rule parameter written without the string value it needs (`ws`, `nows`,
`split`, `nosplit` without a value, `split=''`) -/
theorem C23_classified (env : Env) (g : Grammar) : ∀ o, o ∈ outcomes env g →
    (o = .error .registration → g.hasUnregistered env = true) ∧
    (o = .error .txerror → g.hasBadParam = true) :=
  outcomes_classified env g

/-- the registration error, spelled out on the parse tree -/
theorem C23_registration_needs_unregistered (env : Env) (g : Grammar)
    (h : compile env g = .error .registration) :
    ∃ l a, Stm.reference l a ∈ g.stms ∧ env.langs l = none := by
  have hu := (C23_classified env g _ (C23_compile_in_outcomes env g)).1 h
  unfold Grammar.hasUnregistered at hu
  rw [List.any_eq_true] at hu
  obtain ⟨s, hs, hv⟩ := hu
  cases s with
  | imp => cases hv
  | reference l a => exact ⟨l, a, hs, by simpa using hv⟩

/-- without `reference` statements there is no registration error (the reviewer's
statement; a corollary of `C23_registration_needs_unregistered`) -/
theorem C23_registration_only_reference (env : Env) (g : Grammar)
    (h : ∀ l a, Stm.reference l a ∉ g.stms) : compile env g ≠ .error .registration := by
  intro hc
  obtain ⟨l, a, hm, _⟩ := C23_registration_needs_unregistered env g hc
  exact h l a hm

/-- the plain `TextXError`, spelled out on the parse tree -/
theorem C23_txerror_needs_bad_param (env : Env) (g : Grammar) (h : compile env g = .error .txerror) :
    ∃ r, r ∈ g.first :: g.rest ∧ ∃ ps, r.params = some ps ∧ ∃ p, p ∈ ps ∧ badParamValue p = true := by
  have hb := (C23_classified env g _ (C23_compile_in_outcomes env g)).2 h
  unfold Grammar.hasBadParam at hb
  rw [List.any_eq_true] at hb
  obtain ⟨r, hr, hv⟩ := hb
  refine ⟨r, hr, ?_⟩
  unfold Rule.hasBadParam at hv
  cases hps : r.params with
  | none => rw [hps] at hv; cases hv
  | some ps =>
      rw [hps] at hv
      exact ⟨ps, rfl, List.any_eq_true.mp hv⟩

/-- the condition is about the grammar text; it is exactly the condition on the value
`visit_rule_param` hands to `visit_rule_params` (a bool for `ws` / `split`, or an empty
string for `split`) -/
theorem C23_bad_param_value_spec (p : String × Option String) :
    badPVal (visitParam p) = badParamValue p := badPVal_visitParam p

/-- sufficiency in the simplest position: no `import`, the first rule has a legal name and
its first parameter lacks its string value ⇒ `TextXError` -/
theorem C23_txerror_first_param (env : Env) (g : Grammar) (hi : Stm.imp ∉ g.stms)
    (hn : isAsgnName g.first.name = false) (p : String × Option String)
    (ps : List (String × Option String)) (hp : g.first.params = some (p :: ps))
    (hb : badParamValue p = true) : compile env g = .error .txerror := by
  unfold compile
  rw [firstPass_bad_first_param hi hn hp hb, error_bind]

/-- **the classes the statement names**: no `import`, every referenced language
registered, no rule parameter without its value ⇒ every possible outcome is a meta-model,
a `TextXSyntaxError` or a `TextXSemanticError` -/
theorem C23_named_classes (env : Env) (g : Grammar) (hi : Stm.imp ∉ g.stms)
    (hr : g.hasUnregistered env = false) (hp : g.hasBadParam = false) :
    ∀ o, o ∈ outcomes env g → o = .ok () ∨ o = .error .syntax ∨ o = .error .semantic := by
  intro o ho
  have hcl := C23_classified env g o ho
  cases o with
  | ok u => exact Or.inl rfl
  | error e =>
      have htx := C23_any_order env g hi _ ho e rfl
      cases e with
      | py p => cases htx
      | registration => rw [hcl.1 rfl] at hr; cases hr
      | txerror => rw [hcl.2 rfl] at hp; cases hp
      | «syntax» => exact Or.inr (Or.inl rfl)
      | semantic => exact Or.inr (Or.inr rfl)

/-- the same for the outcome in namespace order -/
theorem C23_named_classes_compile (env : Env) (g : Grammar) (hi : Stm.imp ∉ g.stms)
    (hr : g.hasUnregistered env = false) (hp : g.hasBadParam = false) :
    compile env g = .ok () ∨ compile env g = .error .syntax ∨ compile env g = .error .semantic :=
  C23_named_classes env g hi hr hp _ (C23_compile_in_outcomes env g)

/-! ## the handlers are Python's `try … except H` with the class the code names -/

/-- `visit_str_match` is `try: decode_escapes(..) except ValueError`, `visit_re_match`
`try: regex.compile() except Exception`, `__contains__` `try: self[name] except KeyError`,
`_resolve_cls` `try: metamodel[cls_name] except KeyError`, and the seeded variant C23-2
`except re.error` — with `tryExcept` and the subclass table `PyExc.isa` (compared with
`issubclass` of the running interpreter by the check).  `C23_regex_any_exception` and
`C23_narrow_handler_false` are what these handlers do with the classes of the table. -/
theorem C23_handlers_spec :
    (∀ ok, visitLit (.str ok) = tryExcept (decodeEscapes ok) .valueError (throw .syntax)) ∧
    (∀ r, visitLit (.re r) = tryExcept (reCompile r) .exception (throw .syntax)) ∧
    (∀ env st name, contains env st name =
        tryExcept (getitem env st name >>= fun _ => pure true) .keyError (pure false)) ∧
    (∀ env st a, resolveAttr env st a =
        tryExcept (getitem env st a.clsName >>= fun _ => pure ()) .keyError (throw .semantic)) ∧
    (∀ r, visitReNarrow r = tryExcept (reCompile r) .reError (throw .syntax)) :=
  ⟨visitLit_str_spec, visitLit_re_spec, contains_spec, resolveAttr_spec, visitReNarrow_spec⟩

/-- every class of the table is an `Exception`; a handler for `Exception` therefore turns
whatever `body` raises into the handler's outcome -/
theorem C23_except_exception_catches_all {α : Type} (body handler : M α) (e : Exc)
    (h : body = .error e) : tryExcept body .exception handler = handler := by
  subst h
  cases e <;> first | rfl | (rename_i p; cases p <;> rfl)

/-! ## non-vacuity: the model distinguishes the outcome classes on concrete grammars -/

def noLangs : Env := { langs := fun _ => none }

/-- a string match (the text itself is not part of the tree) -/
def lit (_s : String) : RExpr := .mk (.lit none (.str true)) none false
def seq1 (x : RExpr) : Choice := .one (.one x)
def ref (n : String) : RExpr := .mk (.ref none n) none false
def asgn (a : String) (op : AOp) (rhs : Rhs) : RExpr := .mk (.asgn a op rhs none) none false

/-- `A: 'x';` loads -/
example : compile noLangs { stms := [], first := ⟨"A", none, seq1 (lit "x")⟩, rest := [] } = .ok () := by rfl

/-- `Model: a=A b=[A]; A: name=ID;` loads -/
example : compile noLangs
    { stms := [], first := ⟨"Model", none, .one (.cons (asgn "a" .eq (.ref "A")) (.one (asgn "b" .eq (.obj "A" none false))))⟩,
      rest := [⟨"A", none, seq1 (asgn "name" .eq (.ref "ID"))⟩] } = .ok () := by rfl

/-- `A: A;` and `A: B; B: A;` are semantic errors (alias cycle) -/
example : compile noLangs { stms := [], first := ⟨"A", none, seq1 (ref "A")⟩, rest := [] } = .error .semantic := by rfl
example : compile noLangs { stms := [], first := ⟨"A", none, seq1 (ref "B")⟩, rest := [⟨"B", none, seq1 (ref "A")⟩] }
    = .error .semantic := by rfl

/-- `Model: x=A; A: B; B: C; C: B;` and `A: B; B: C; C: D; D: C;` (a tail of alias
rules leading into a cycle that does not contain the rule the walk starts from) are
semantic errors -/
example : compile noLangs
    { stms := [], first := ⟨"Model", none, seq1 (asgn "x" .eq (.ref "A"))⟩,
      rest := [⟨"A", none, seq1 (ref "B")⟩, ⟨"B", none, seq1 (ref "C")⟩, ⟨"C", none, seq1 (ref "B")⟩] }
    = .error .semantic := by rfl
example : compile noLangs
    { stms := [], first := ⟨"A", none, seq1 (ref "B")⟩,
      rest := [⟨"B", none, seq1 (ref "C")⟩, ⟨"C", none, seq1 (ref "D")⟩, ⟨"D", none, seq1 (ref "C")⟩] }
    = .error .semantic := by rfl

/-- `A: B; B: C; C: 'x';` (an alias chain that ends) loads -/
example : compile noLangs
    { stms := [], first := ⟨"A", none, seq1 (ref "B")⟩,
      rest := [⟨"B", none, seq1 (ref "C")⟩, ⟨"C", none, seq1 (lit "x")⟩] } = .ok () := by rfl

/-- `A: /(/;` is a syntax error; `A[ws]: 'a';` a TextXError; `A[foo]: 'a';` a syntax error -/
example : compile noLangs { stms := [], first := ⟨"A", none, seq1 (.mk (.lit none (.re (some .reError))) none false)⟩, rest := [] }
    = .error .syntax := by rfl
/-- `A: /a{4294967296}/;` (the regex engine answers with `OverflowError`) is a syntax error too -/
example : compile noLangs { stms := [], first := ⟨"A", none, seq1 (.mk (.lit none (.re (some .overflowError))) none false)⟩, rest := [] }
    = .error .syntax := by rfl
example : compile noLangs { stms := [], first := ⟨"A", some [("ws", none)], seq1 (lit "a")⟩, rest := [] }
    = .error .txerror := by rfl
example : compile noLangs { stms := [], first := ⟨"A", some [("foo", none)], seq1 (lit "a")⟩, rest := [] }
    = .error .syntax := by rfl

/-- `A: INT#;` loads (C02 fix); `__asgn_x: 'a';` is a semantic error; `A: (a?=INT)*;` too -/
example : compile noLangs { stms := [], first := ⟨"A", none, seq1 (.mk (.ref none "INT") (some ⟨.hash, none⟩) false)⟩, rest := [] }
    = .ok () := by rfl
example : compile noLangs { stms := [], first := ⟨"__asgn_x", none, seq1 (lit "a")⟩, rest := [] } = .error .semantic := by rfl
example : compile noLangs
    { stms := [],
      first := ⟨"A", none, seq1 (.mk (.group none (seq1 (asgn "a" .opt (.ref "INT")))) (some ⟨.star, none⟩) false)⟩,
      rest := [] } = .error .semantic := by rfl

/-- `reference foo  A: a=[foo.B];` with `foo` not registered is a registration
error; together with an unknown class the second pass has two possible outcomes -/
example : compile noLangs
    { stms := [.reference "foo" none],
      first := ⟨"A", none, seq1 (asgn "a" .eq (.obj "foo.B" none false))⟩, rest := [] } = .error .registration := by rfl
example : outcomes noLangs
    { stms := [.reference "foo" none],
      first := ⟨"A", none, .one (.cons (asgn "a" .eq (.obj "foo.B" none false)) (.one (asgn "b" .eq (.obj "Nope" none false))))⟩,
      rest := [] } = [.error .registration, .error .semantic] := by rfl

/-- `import x  A: 'a';` is the documented exception -/
example : compile noLangs { stms := [.imp], first := ⟨"A", none, seq1 (lit "a")⟩, rest := [] }
    = .error (.py .assertionError) := by rfl

/-! ## non-vacuity of the classification theorems -/

def oneLang : Env := { langs := fun n => if n == "foo" then some ["B"] else none }

/-- `reference foo  A: a=[foo.B];` with `foo` unregistered: the condition of
`C23_classified` holds and the outcome is the registration error -/
example : Grammar.hasUnregistered noLangs
    { stms := [.reference "foo" none], first := ⟨"A", none, seq1 (asgn "a" .eq (.obj "foo.B" none false))⟩, rest := [] }
    = true := by rfl

/-- the same grammar with `foo` registered (class `B`): hypotheses of `C23_named_classes`
hold (with a `reference` statement present), the grammar loads; with the unknown class
`foo.C` it is a semantic error -/
example : Grammar.hasUnregistered oneLang
    { stms := [.reference "foo" none], first := ⟨"A", none, seq1 (asgn "a" .eq (.obj "foo.B" none false))⟩, rest := [] }
    = false := by rfl
example : compile oneLang
    { stms := [.reference "foo" none], first := ⟨"A", none, seq1 (asgn "a" .eq (.obj "foo.B" none false))⟩, rest := [] }
    = .ok () := by rfl
example : compile oneLang
    { stms := [.reference "foo" none], first := ⟨"A", none, seq1 (asgn "a" .eq (.obj "foo.C" none false))⟩, rest := [] }
    = .error .semantic := by rfl

/-- an unregistered language that no name uses does no harm: the condition is necessary, not sufficient -/
example : compile noLangs
    { stms := [.reference "foo" none], first := ⟨"A", none, seq1 (lit "a")⟩, rest := [] } = .ok () := by rfl

/-- `A[nosplit]: 'a';`, `A[split='']: 'a';` (hypotheses of `C23_txerror_first_param`) -/
example : badParamValue ("nosplit", none) = true ∧ badParamValue ("split", some "") = true ∧
    badParamValue ("nows", none) = true ∧ badParamValue ("ws", some " ") = false ∧
    badParamValue ("noskipws", none) = false ∧ isAsgnName "A" = false := by decide
example : compile noLangs { stms := [], first := ⟨"A", some [("split", some "")], seq1 (lit "a")⟩, rest := [] }
    = .error .txerror := by rfl
example : Grammar.hasBadParam { stms := [], first := ⟨"A", some [("split", some "")], seq1 (lit "a")⟩, rest := [] }
    = true := by rfl

/-- `A[foo, ws]: 'a';`: a parameter without its value behind an unknown parameter — the
syntax error comes first (`hasBadParam` is necessary, not sufficient) -/
example : compile noLangs { stms := [], first := ⟨"A", some [("foo", none), ("ws", none)], seq1 (lit "a")⟩, rest := [] }
    = .error .syntax := by rfl

/-- hypotheses of `C23_named_classes` on a grammar with rule parameters -/
example : Grammar.hasBadParam
    { stms := [], first := ⟨"A", some [("noskipws", none), ("ws", some " ")], seq1 (lit "a")⟩, rest := [] } = false := by rfl

/-- `Model: 'a'; Comment: Line; Line: /x/;` (the comments model is a reference that the
second pass resolves) loads; `Comment: Nope;` is a semantic error -/
example : compile noLangs
    { stms := [], first := ⟨"Model", none, seq1 (lit "a")⟩,
      rest := [⟨"Comment", none, seq1 (ref "Line")⟩, ⟨"Line", none, seq1 (.mk (.lit none (.re none)) none false)⟩] }
    = .ok () := by rfl
example : compile noLangs
    { stms := [], first := ⟨"Model", none, seq1 (lit "a")⟩, rest := [⟨"Comment", none, seq1 (ref "Nope")⟩] }
    = .error .semantic := by rfl

/-- the subclass table: `UnicodeDecodeError` is a `ValueError`, `OverflowError` is not a `re.error` -/
example : PyExc.isa .unicodeDecodeError .valueError = true ∧ PyExc.isa .overflowError .reError = false ∧
    PyExc.isa .recursionError .exception = true ∧ PyExc.isa .keyError .valueError = false := by decide

end GramLoad
