import TextxVerif.Proofs.GramLoad
/-!
# C23 — invalid grammars are always reported as textX errors

`GramLoad.compile env g` is the outcome of `metamodel_from_str` on a grammar text
whose parse tree is `g` (`GramLoad.parseFailed` when the grammar parser rejects the
text), in an error monad whose errors are the four textX error classes and
`py e` for every other Python exception.  `env` describes the registered
languages a `reference` statement can name.

The theorems hold for every parse tree (no bound on the number of rules, the
nesting, the names) and every environment.  What they do not cover is stated
in notes/C23.md: the CPython stack (deep nesting, known finding KF-C23-1), and
that regex compilation / escape decoding fail only with exceptions the visitor's
handlers catch.
-/
namespace GramLoad

/-- **C23**: without an `import` statement, loading a grammar ends with a
meta-model or with a textX error (`TextXSyntaxError`, `TextXSemanticError`,
`TextXRegistrationError`, `TextXError`) — never with another exception: no
`KeyError` from `_tx_attrs[...]` / `metamodel[...]`, no `AttributeError` from
`_attr_name` / `_tx_class` / `nodes`, no `TypeError` from a valueless `ws`, no
`re.error` / `UnicodeDecodeError`, no `RecursionError` from rule aliases. -/
theorem C23_total (env : Env) (g : Grammar) (h : Stm.imp ∉ g.stms) :
    ∀ e, compile env g = .error e → e.isTx = true := by
  intro e he
  unfold compile at he
  rcases bind_err.mp he with h1 | ⟨st, hst, h2⟩
  · exact firstPass_tx g h e h1
  · exact secondPass_tx env (firstPass_inv hst) e h2

/-- the only non-textX exception is the documented one: the assertion of
`_new_import`, and only for a grammar with an `import` statement -/
theorem C23_only_import (env : Env) (g : Grammar) (e : PyExc) (h : compile env g = .error (.py e)) :
    e = .assertionError ∧ Stm.imp ∈ g.stms := by
  by_cases hi : Stm.imp ∈ g.stms
  · refine ⟨?_, hi⟩
    unfold compile firstPass at h
    rw [visitStms_imp _ _ hi] at h
    have h' : (Except.error (.py .assertionError) : M Unit) = .error (.py e) := h
    cases h'
    rfl
  · have := C23_total env g hi (.py e) h
    cases this

/-- a grammar given as a string with an `import` statement stops at that
statement (the documented exception), whatever follows -/
theorem C23_import (env : Env) (g : Grammar) (h : Stm.imp ∈ g.stms) :
    compile env g = .error (.py .assertionError) := by
  unfold compile firstPass
  rw [visitStms_imp _ _ h]
  rfl

/-- the same for every order in which the second pass can meet the rule
references and attribute types: each possible outcome is a meta-model or a
textX error -/
theorem C23_any_order (env : Env) (g : Grammar) (h : Stm.imp ∉ g.stms) :
    ∀ o, o ∈ outcomes env g → ∀ e, o = .error e → e.isTx = true := by
  intro o ho e he
  subst he
  unfold outcomes at ho
  cases hfp : firstPass g with
  | error e' =>
      rw [hfp] at ho
      have : e = e' := by
        have h1 := List.mem_singleton.mp ho
        cases h1
        rfl
      exact this ▸ firstPass_tx g h e' hfp
  | ok st =>
      rw [hfp] at ho
      have hok := firstPass_inv hfp
      have ho' : Except.error e ∈ outcomes2 env st := ho
      unfold outcomes2 at ho'
      rw [stage3_ok hok] at ho'
      rcases mem_errsOr ho' with h1 | ⟨e', he', heq⟩
      · rcases mem_errsOr h1 with h2 | ⟨e', he', heq⟩
        · have h3 := List.mem_singleton.mp h2
          cases h3
        · have : e = e' := by cases heq; rfl
          exact this ▸ candidates4_tx he'
      · have : e = e' := by cases heq; rfl
        exact this ▸ candidates2_tx he'

/-- the outcome in namespace order is one of them -/
theorem C23_compile_in_outcomes (env : Env) (g : Grammar) : compile env g ∈ outcomes env g := by
  unfold compile outcomes
  cases hfp : firstPass g with
  | error e => exact List.mem_singleton.mpr rfl
  | ok st =>
      rw [ok_bind]
      show secondPass env st ∈ outcomes2 env st
      unfold secondPass outcomes2
      cases h2 : stage2 env st with
      | error e =>
          rw [error_bind]
          exact mem_errsOr_of_mem (stage2_err h2)
      | ok u =>
          rw [ok_bind, errsOr_nil (stage2_okc h2)]
          cases h3 : stage3 st with
          | error e =>
              rw [error_bind]
              exact List.mem_singleton.mpr rfl
          | ok u3 =>
              rw [ok_bind]
              cases h4 : stage4 env st with
              | error e => exact mem_errsOr_of_mem (stage4_err h4)
              | ok u4 =>
                  rw [errsOr_nil (stage4_okc h4)]
                  exact List.mem_singleton.mpr rfl

/-- following rules whose body is a single rule reference needs at most
`len(namespace) + 1` nested calls of `_resolve_rule`: a cycle is reported as
`TextXSemanticError` before the stack is exhausted -/
theorem C23_alias_fuel (env : Env) (st : St) (name : String) :
    resolveCross env st (st.ns.length + 1) [] name ≠ .error (.py .recursionError) := by
  intro h
  have := resolveCross_top_tx env st name _ h
  cases this

/-- a text the grammar parser rejects is reported as `TextXSyntaxError` -/
theorem C23_parse_failure : parseFailed = .error .syntax := rfl

/-- before the fix (`A: A;`): without the record of the references being followed
the stack is exhausted whatever its size -/
theorem C23_unfixed_alias_false (env : Env) :
    ∀ f, resolveCrossUnfixed env selfAlias f "A" = .error (.py .recursionError) := by
  intro f
  induction f with
  | zero => rfl
  | succ f ih =>
      unfold resolveCrossUnfixed
      have hc : contains env selfAlias "A" = .ok true := rfl
      have hg : getitem env selfAlias "A" = .ok (.loc { name := "A", attrs := [], peg := .cross "A" false }) := rfl
      rw [hc, ok_bind]
      simp only [Bool.not_true, Bool.false_eq_true, if_false]
      rw [hg, ok_bind]
      exact ih

/-! ## non-vacuity: the model distinguishes the outcome classes on concrete grammars -/

def noLangs : Env := { langs := fun _ => none }

/-- a string match (the text itself is not part of the tree) -/
def lit (_s : String) : RExpr := .mk (.lit none (.str true)) none false
def seq1 (x : RExpr) : Choice := .one (.one x)
def ref (n : String) : RExpr := .mk (.ref none n) none false
def asgn (a : String) (op : AOp) (rhs : Rhs) : RExpr := .mk (.asgn a op rhs none) none false

/-- `A: 'x';` loads -/
example : compile noLangs { stms := [], first := ⟨"A", none, seq1 (lit "x")⟩, rest := [] } = .ok () := by rfl

/-- `Model: a=A b=[A]; A: name=ID;` loads -/
example : compile noLangs
    { stms := [], first := ⟨"Model", none, .one (.cons (asgn "a" .eq (.ref "A")) (.one (asgn "b" .eq (.obj "A" none false))))⟩,
      rest := [⟨"A", none, seq1 (asgn "name" .eq (.ref "ID"))⟩] } = .ok () := by rfl

/-- `A: A;` and `A: B; B: A;` are semantic errors (alias cycle) -/
example : compile noLangs { stms := [], first := ⟨"A", none, seq1 (ref "A")⟩, rest := [] } = .error .semantic := by rfl
example : compile noLangs { stms := [], first := ⟨"A", none, seq1 (ref "B")⟩, rest := [⟨"B", none, seq1 (ref "A")⟩] }
    = .error .semantic := by rfl

/-- `A: B; B: C; C: 'x';` (an alias chain that ends) loads -/
example : compile noLangs
    { stms := [], first := ⟨"A", none, seq1 (ref "B")⟩,
      rest := [⟨"B", none, seq1 (ref "C")⟩, ⟨"C", none, seq1 (lit "x")⟩] } = .ok () := by rfl

/-- `A: /(/;` is a syntax error; `A[ws]: 'a';` a TextXError; `A[foo]: 'a';` a syntax error -/
example : compile noLangs { stms := [], first := ⟨"A", none, seq1 (.mk (.lit none (.re false)) none false)⟩, rest := [] }
    = .error .syntax := by rfl
example : compile noLangs { stms := [], first := ⟨"A", some [("ws", none)], seq1 (lit "a")⟩, rest := [] }
    = .error .txerror := by rfl
example : compile noLangs { stms := [], first := ⟨"A", some [("foo", none)], seq1 (lit "a")⟩, rest := [] }
    = .error .syntax := by rfl

/-- `A: INT#;` loads (C02 fix); `__asgn_x: 'a';` is a semantic error; `A: (a?=INT)*;` too -/
example : compile noLangs { stms := [], first := ⟨"A", none, seq1 (.mk (.ref none "INT") (some ⟨.hash, none⟩) false)⟩, rest := [] }
    = .ok () := by rfl
example : compile noLangs { stms := [], first := ⟨"__asgn_x", none, seq1 (lit "a")⟩, rest := [] } = .error .semantic := by rfl
example : compile noLangs
    { stms := [],
      first := ⟨"A", none, seq1 (.mk (.group none (seq1 (asgn "a" .opt (.ref "INT")))) (some ⟨.star, none⟩) false)⟩,
      rest := [] } = .error .semantic := by rfl

/-- `reference foo  A: a=[foo.B];` with `foo` not registered is a registration
error; together with an unknown class the second pass has two possible outcomes -/
example : compile noLangs
    { stms := [.reference "foo" none],
      first := ⟨"A", none, seq1 (asgn "a" .eq (.obj "foo.B" none false))⟩, rest := [] } = .error .registration := by rfl
example : outcomes noLangs
    { stms := [.reference "foo" none],
      first := ⟨"A", none, .one (.cons (asgn "a" .eq (.obj "foo.B" none false)) (.one (asgn "b" .eq (.obj "Nope" none false))))⟩,
      rest := [] } = [.error .registration, .error .semantic] := by rfl

/-- `import x  A: 'a';` is the documented exception -/
example : compile noLangs { stms := [.imp], first := ⟨"A", none, seq1 (lit "a")⟩, rest := [] }
    = .error (.py .assertionError) := by rfl

end GramLoad
