import TextxVerif.Proofs.Link.PlainName
import TextxVerif.Proofs.Link.Store
import TextxVerif.Props.C03
import TextxVerif.Link.Conf
/-!
# C07 — default reference resolution finds the unique matching object

Model: `Link.getChildren` (= `get_children`), `Link.plainName` (= the default
`PlainName` provider), `Link.resolveRef` (builtins fallback and errors in
`resolve_one_step`), `Link.resolveAll` (the pass over all references) in
`TextxVerif/Link/PlainName.lean`.

* the model of a loaded textX model is any object tree `root` whose objects are
  distinct Python objects (`DistinctIds`); "contained in the same model" is
  `Desc root o` (reflexive–transitive containment);
* conformance (`textx_isinstance`) is an arbitrary relation `conf objCls targetCls`
  given by the metamodel — nothing is assumed about it;
* `builtins` is an arbitrary association list (Python dict).

`Matches` is the statement's "name equals the reference text and type conforms".
Only property theorems and non-vacuity examples live here.
-/
namespace Link

/-- name equals the reference text and the class conforms to the target rule -/
def Matches (conf : Nat → Nat → Bool) (name : String) (tcls : Nat) (o : Obj) : Prop :=
  o.name = some name ∧ conf o.cls tcls = true

theorem isMatch_iff (conf : Nat → Nat → Bool) (name : String) (tcls : Nat) (o : Obj) :
    isMatch conf name tcls o = true ↔ Matches conf name tcls o := by
  simp [isMatch, Matches]

section
variable (conf : Nat → Nat → Bool) (root : Obj) (builtins : List (String × Builtin))
  (name : String) (tcls : Nat)

/-- **Candidates.** `get_children` with its identity set returns exactly the
selected objects of the containment pre-order (each once, parents first). -/
theorem C07_candidates (h : DistinctIds root) (sel : Obj → Bool) :
    getChildren sel root = (preorder root).filter sel :=
  getChildren_eq_filter sel root h

/-- **Clause 1 + identity.** The reference resolves to the object `o` of the model
iff `o` is contained in the model, matches, and is the only such object. The
result *is* that object (not a copy: any object of the tree with its identity is `o`,
see `C07_identity`). -/
theorem C07_found_iff (h : DistinctIds root) (o : Obj) :
    resolveRef conf root builtins name tcls = .obj o ↔
      Desc root o ∧ Matches conf name tcls o ∧
        ∀ o', Desc root o' → Matches conf name tcls o' → o' = o := by
  have key := plainName_one_iff conf root name tcls h o
  simp only [mem_preorder_iff_desc, isMatch_iff] at key
  rw [← key]
  unfold resolveRef
  cases hp : plainName conf root name tcls with
  | one x => simp
  | many => simp
  | none =>
    simp only [reduceCtorEq, iff_false]
    cases builtins.lookup name with
    | none => simp
    | some b => by_cases hc : conf b.cls tcls = true <;> simp [hc]

theorem C07_identity (h : DistinctIds root) (o o' : Obj)
    (ho : resolveRef conf root builtins name tcls = .obj o) (h' : Desc root o') (hid : o'.id = o.id) :
    o' = o :=
  eq_of_id_eq h ((mem_preorder_iff_desc _ _).2 h')
    ((mem_preorder_iff_desc _ _).2 ((C07_found_iff conf root builtins name tcls h o).1 ho).1) hid

/-- no object of the model matches -/
def NoMatch : Prop := ∀ o, Desc root o → ¬ Matches conf name tcls o

theorem plainName_none_iff' (h : DistinctIds root) :
    plainName conf root name tcls = .none ↔ NoMatch conf root name tcls := by
  rw [plainName_none_iff conf root name tcls h]
  unfold NoMatch
  constructor
  · intro hall o ho hm
    have := hall o ((mem_preorder_iff_desc _ _).2 ho)
    rw [(isMatch_iff conf name tcls o).2 hm] at this
    cases this
  · intro hall o ho
    cases hm : isMatch conf name tcls o with
    | false => rfl
    | true => exact absurd ((isMatch_iff conf name tcls o).1 hm) (hall o ((mem_preorder_iff_desc _ _).1 ho))

/-- **Clause 2.** The builtins entry is used iff no object of the model matches,
the dictionary has an entry of that name, and its type conforms. -/
theorem C07_builtin_iff (h : DistinctIds root) (b : Builtin) :
    resolveRef conf root builtins name tcls = .builtin b ↔
      NoMatch conf root name tcls ∧ builtins.lookup name = some b ∧ conf b.cls tcls = true := by
  rw [← plainName_none_iff' conf root name tcls h]
  unfold resolveRef
  cases hp : plainName conf root name tcls with
  | one x => simp
  | many => simp
  | none =>
    cases hl : builtins.lookup name with
    | none => simp
    | some b' =>
      by_cases hc : conf b'.cls tcls = true
      · simp only [hc, if_true, Outcome.builtin.injEq, true_and, Option.some.injEq]
        constructor
        · rintro rfl; exact ⟨rfl, hc⟩
        · exact fun hh => hh.1
      · simp only [hc, reduceCtorEq, true_and, Option.some.injEq, false_iff, Bool.false_eq_true, if_false]
        rintro ⟨rfl, hc'⟩; exact hc hc'

/-- **Clause 3.** "Unknown object" iff no object of the model matches and there is
no conforming builtins entry of that name. -/
theorem C07_unknown_iff (h : DistinctIds root) :
    resolveRef conf root builtins name tcls = .unknown ↔
      NoMatch conf root name tcls ∧ ∀ b, builtins.lookup name = some b → conf b.cls tcls = false := by
  rw [← plainName_none_iff' conf root name tcls h]
  unfold resolveRef
  cases hp : plainName conf root name tcls with
  | one x => simp
  | many => simp
  | none =>
    cases hl : builtins.lookup name with
    | none => simp
    | some b' => by_cases hc : conf b'.cls tcls = true <;> simp [hc]

/-- **Clause 4.** "not unique" iff two different objects of the model match
(whatever the builtins say). -/
theorem C07_notUnique_iff (h : DistinctIds root) :
    resolveRef conf root builtins name tcls = .notUnique ↔
      ∃ a b, Desc root a ∧ Desc root b ∧ a ≠ b ∧
        Matches conf name tcls a ∧ Matches conf name tcls b := by
  have key := plainName_many_iff conf root name tcls h
  simp only [mem_preorder_iff_desc, isMatch_iff] at key
  rw [← key]
  unfold resolveRef
  cases hp : plainName conf root name tcls with
  | one x => simp
  | many => simp
  | none =>
    simp only [reduceCtorEq, iff_false]
    cases builtins.lookup name with
    | none => simp
    | some b => by_cases hc : conf b.cls tcls = true <;> simp [hc]

end

/-! ## all references of a model: single-valued and list attributes -/

/-- the target a reference resolves to, if it does -/
def refTarget (conf : Nat → Nat → Bool) (root : Obj) (builtins : List (String × Builtin)) (r : Ref) :
    Option Target :=
  match resolveRef conf root builtins r.name r.tcls with
  | .obj o => some (.obj o)
  | .builtin b => some (.builtin b)
  | .unknown => none
  | .notUnique => none

section
variable (conf : Nat → Nat → Bool) (root : Obj) (builtins : List (String × Builtin))

theorem resolveFrom_ok_iff (i : Nat) (refs : List Ref) (res : List (Ref × Target)) :
    resolveFrom conf root builtins i refs = .ok res ↔
      refs.map (fun r => (refTarget conf root builtins r).map (fun t => (r, t))) = res.map some := by
  induction refs generalizing i res with
  | nil => cases res <;> simp [resolveFrom]
  | cons r rs ih =>
    simp only [resolveFrom, refTarget, List.map_cons]
    cases hr : resolveRef conf root builtins r.name r.tcls with
    | unknown => cases res <;> simp
    | notUnique => cases res <;> simp
    | obj o =>
      cases hrest : resolveFrom conf root builtins (i + 1) rs with
      | error e =>
        have hn : ∀ res' : List (Ref × Target), ¬ (rs.map (fun r => (refTarget conf root builtins r).map (fun t => (r, t))) =
            res'.map some) := fun res' hc => by
          have := (ih (i + 1) res').2 hc
          rw [hrest] at this
          cases this
        cases res with
        | nil => simp
        | cons p ps =>
          simp only [reduceCtorEq, Option.map_some, List.map_cons, List.cons.injEq, false_iff, not_and]
          exact fun _ => hn ps
      | ok ts =>
        have hts := (ih (i + 1) ts).1 hrest
        cases res with
        | nil => simp
        | cons p ps =>
          simp only [Except.ok.injEq, List.cons.injEq, Option.map_some, List.map_cons, Option.some.injEq]
          constructor
          · rintro ⟨rfl, rfl⟩; exact ⟨rfl, hts⟩
          · rintro ⟨rfl, hps⟩
            refine ⟨rfl, ?_⟩
            have := (ih (i + 1) ps).2 hps
            rw [hrest] at this
            exact Except.ok.inj this
    | builtin b =>
      cases hrest : resolveFrom conf root builtins (i + 1) rs with
      | error e =>
        have hn : ∀ res' : List (Ref × Target), ¬ (rs.map (fun r => (refTarget conf root builtins r).map (fun t => (r, t))) =
            res'.map some) := fun res' hc => by
          have := (ih (i + 1) res').2 hc
          rw [hrest] at this
          cases this
        cases res with
        | nil => simp
        | cons p ps =>
          simp only [reduceCtorEq, Option.map_some, List.map_cons, List.cons.injEq, false_iff, not_and]
          exact fun _ => hn ps
      | ok ts =>
        have hts := (ih (i + 1) ts).1 hrest
        cases res with
        | nil => simp
        | cons p ps =>
          simp only [Except.ok.injEq, List.cons.injEq, Option.map_some, List.map_cons, Option.some.injEq]
          constructor
          · rintro ⟨rfl, rfl⟩; exact ⟨rfl, hts⟩
          · rintro ⟨rfl, hps⟩
            refine ⟨rfl, ?_⟩
            have := (ih (i + 1) ps).2 hps
            rw [hrest] at this
            exact Except.ok.inj this

/-- **Success.** Loading succeeds with result `res` iff every reference resolves
and `res` pairs every reference, in order, with its own target. -/
theorem C07_all_ok_iff (refs : List Ref) (res : List (Ref × Target)) :
    resolveAll conf root builtins refs = .ok res ↔
      refs.map (fun r => (refTarget conf root builtins r).map (fun t => (r, t))) = res.map some :=
  resolveFrom_ok_iff conf root builtins 0 refs res

theorem resolveFrom_error (i : Nat) (refs : List Ref) (f : Failure) :
    resolveFrom conf root builtins i refs = .error f →
      ∃ pre r post, refs = pre ++ r :: post ∧
        (∀ q, q ∈ pre → (refTarget conf root builtins q).isSome) ∧
        ((f = .unknown (i + pre.length) ∧ resolveRef conf root builtins r.name r.tcls = .unknown) ∨
         (f = .notUnique (i + pre.length) ∧ resolveRef conf root builtins r.name r.tcls = .notUnique)) := by
  induction refs generalizing i with
  | nil => simp [resolveFrom]
  | cons r rs ih =>
    simp only [resolveFrom]
    cases hr : resolveRef conf root builtins r.name r.tcls with
    | unknown =>
      intro h
      refine ⟨[], r, rs, rfl, by simp, Or.inl ⟨?_, hr⟩⟩
      simpa using (Except.error.inj h).symm
    | notUnique =>
      intro h
      refine ⟨[], r, rs, rfl, by simp, Or.inr ⟨?_, hr⟩⟩
      simpa using (Except.error.inj h).symm
    | obj o =>
      cases hrest : resolveFrom conf root builtins (i + 1) rs with
      | ok ts => simp
      | error e =>
        intro h
        have he : e = f := Except.error.inj h
        subst he
        obtain ⟨pre, r', post, hsplit, hpre, hf⟩ := ih (i + 1) hrest
        refine ⟨r :: pre, r', post, by simp [hsplit], ?_, ?_⟩
        · intro q hq
          rcases List.mem_cons.1 hq with rfl | hq
          · simp [refTarget, hr]
          · exact hpre q hq
        · simpa [Nat.add_assoc, Nat.add_comm 1] using hf
    | builtin b =>
      cases hrest : resolveFrom conf root builtins (i + 1) rs with
      | ok ts => simp
      | error e =>
        intro h
        have he : e = f := Except.error.inj h
        subst he
        obtain ⟨pre, r', post, hsplit, hpre, hf⟩ := ih (i + 1) hrest
        refine ⟨r :: pre, r', post, by simp [hsplit], ?_, ?_⟩
        · intro q hq
          rcases List.mem_cons.1 hq with rfl | hq
          · simp [refTarget, hr]
          · exact hpre q hq
        · simpa [Nat.add_assoc, Nat.add_comm 1] using hf

/-- **Failure.** When loading fails, the error is the verdict of the *first*
reference (in textual order) that does not resolve; everything before it resolves. -/
theorem C07_first_failure (refs : List Ref) (f : Failure)
    (h : resolveAll conf root builtins refs = .error f) :
    ∃ pre r post, refs = pre ++ r :: post ∧
      (∀ q, q ∈ pre → (refTarget conf root builtins q).isSome) ∧
      ((f = .unknown pre.length ∧ resolveRef conf root builtins r.name r.tcls = .unknown) ∨
       (f = .notUnique pre.length ∧ resolveRef conf root builtins r.name r.tcls = .notUnique)) := by
  have := resolveFrom_error conf root builtins 0 refs f h
  simpa using this

/-- **Single and list attributes.** After a successful load the value of
attribute `attr` of object `owner` consists of the targets of exactly that
attribute's references, in textual order — one element for a single-valued
attribute, the whole list for a list attribute. -/
theorem C07_single_and_list (refs : List Ref) (res : List (Ref × Target))
    (h : resolveAll conf root builtins refs = .ok res) (owner attr : Nat) :
    (attrValue res owner attr).map some =
      (refs.filter (fun r => r.owner == owner && r.attr == attr)).map (refTarget conf root builtins) := by
  have h' := (C07_all_ok_iff conf root builtins refs res).1 h
  unfold attrValue
  clear h
  induction refs generalizing res with
  | nil => cases res <;> simp_all
  | cons r rs ih =>
    cases res with
    | nil => simp at h'
    | cons p ps =>
      simp only [List.map_cons, List.cons.injEq] at h'
      obtain ⟨hp, hps⟩ := h'
      have ih' := ih ps hps
      cases ht : refTarget conf root builtins r with
      | none => simp [ht] at hp
      | some t =>
        simp only [ht, Option.map_some, Option.some.injEq] at hp
        subst hp
        by_cases hc : (r.owner == owner && r.attr == attr) = true
        · simp only [List.filter_cons, hc, if_true, List.map_cons, ih', ht]
        · simp only [List.filter_cons, hc, Bool.false_eq_true, if_false, ih']

end

/-! ## the state of the reference attributes does not matter (one fixed `root` is justified)

The clause theorems above speak about one tree `root`.  While the pass runs, the code
stores every resolved target into the referencing object before the next reference is
looked up, so the next `get_children` runs over a *changed* model.  `strip` erases every
non-containment attribute (reference and primitive attributes): two trees with the same
`strip` are the same model in two states of its reference attributes. -/

/-- **Frame.** Two states of the same model (same containment skeleton, arbitrarily
different reference / primitive attribute values) give every reference the same
verdict, by identity.  No `DistinctIds` needed. -/
theorem C07_no_ref (conf : Nat → Nat → Bool) (r₁ r₂ : Obj) (hs : strip r₁ = strip r₂)
    (builtins : List (String × Builtin)) (name : String) (tcls : Nat) :
    outcomeId (resolveRef conf r₁ builtins name tcls) =
      outcomeId (resolveRef conf r₂ builtins name tcls) :=
  resolveRef_frame conf r₁ r₂ hs builtins name tcls

/-- the candidates themselves: `get_children` of the stripped model is the stripped
candidate list, for every selector that does not look at non-containment attributes -/
theorem C07_candidates_no_ref (sel : Obj → Bool) (hsel : ∀ x, sel (strip x) = sel x) (r₁ r₂ : Obj)
    (hs : strip r₁ = strip r₂) :
    (getChildren sel r₁).map strip = (getChildren sel r₂).map strip := by
  rw [← getChildren_strip sel hsel r₁, ← getChildren_strip sel hsel r₂, hs]

/-- the store of a resolved reference (`setattr` / `list.insert`) changes no containment
attribute, identity, class or name -/
theorem C07_store_skeleton (single : Ref → Bool) (root : Obj) (r : Ref) (t : Target) :
    strip (storeRef single root r t) = strip root :=
  strip_storeRef single root r t

/-- **The pass with its stores = the pass over the tree as parsed.**  For every store
that leaves the containment skeleton alone (`C07_store_skeleton`: the real one does),
the pass that resolves reference `i` against the tree in which references `0..i-1` are
already stored succeeds / fails exactly like `resolveAll` on the initial tree, with the
same targets by identity resp. the same failure; the final tree is the same model. -/
theorem C07_pass_frame (st : Obj → Ref → Target → Obj)
    (hst : ∀ root r t, strip (st root r t) = strip root)
    (conf : Nat → Nat → Bool) (root : Obj) (builtins : List (String × Builtin)) (refs : List Ref) :
    match resolveAllSt st conf root builtins refs with
    | .ok (ts, root') =>
      strip root' = strip root ∧
        ∃ ts0, resolveAll conf root builtins refs = .ok ts0 ∧ resIds ts = resIds ts0
    | .error e => resolveAll conf root builtins refs = .error e :=
  resolveFromSt_frame st hst conf builtins root refs 0 root rfl

/-- `C07_pass_frame` read from the other side: whatever `resolveAll` says about the
initial tree is what the pass with stores does. -/
theorem C07_pass_frame_iff (st : Obj → Ref → Target → Obj)
    (hst : ∀ root r t, strip (st root r t) = strip root)
    (conf : Nat → Nat → Bool) (root : Obj) (builtins : List (String × Builtin)) (refs : List Ref) :
    (∀ e, resolveAll conf root builtins refs = .error e ↔
        resolveAllSt st conf root builtins refs = .error e) ∧
    (∀ ts0, resolveAll conf root builtins refs = .ok ts0 →
        ∃ ts root', resolveAllSt st conf root builtins refs = .ok (ts, root') ∧
          resIds ts = resIds ts0 ∧ strip root' = strip root) := by
  have h := C07_pass_frame st hst conf root builtins refs
  cases hst' : resolveAllSt st conf root builtins refs with
  | error e =>
    rw [hst'] at h
    simp only at h
    refine ⟨fun e' => ?_, fun ts0 h0 => ?_⟩
    · rw [h]; constructor <;> (intro hh; cases hh; rfl)
    · rw [h] at h0; cases h0
  | ok p =>
    obtain ⟨ts, root'⟩ := p
    rw [hst'] at h
    simp only at h
    obtain ⟨hs, ts0, h0, hids⟩ := h
    refine ⟨fun e' => ?_, fun ts0' h0' => ?_⟩
    · rw [h0]; constructor <;> intro hh <;> cases hh
    · rw [h0] at h0'
      cases h0'
      exact ⟨ts, root', rfl, hids, hs⟩

/-! ## what the referencing objects hold after the pass (the model's final state)

`C07_single_and_list` speaks about `attrValue`, a function of the result list.  The two
theorems below speak about the *tree*: `readObj owner attr root'` is `getattr(owner, attr)`
in the final state `root'` produced by the pass with the real store `storeRef`.  `single`
tells which attributes are single-valued; it is a property of the attribute, so it is
constant on the references of one attribute (hypothesis `hl`). -/

/-- **List attribute, final state.** The list attribute holds what it held before
(`init`: the empty list when the model comes from the parser) followed by the identities
of the targets of exactly its references, in textual order. -/
theorem C07_stored_list (single : Ref → Bool) (conf : Nat → Nat → Bool) (root : Obj)
    (builtins : List (String × Builtin)) (refs : List Ref) (res : List (Ref × Target)) (root' : Obj)
    (h : resolveAllSt (storeRef single) conf root builtins refs = .ok (res, root'))
    (owner attr : Nat) (hl : ∀ r : Ref, r.owner = owner → r.attr = attr → single r = false)
    (init : List Nat) (hinit : readObj owner attr root = some init) :
    readObj owner attr root' = some (init ++ (attrValue res owner attr).map Target.pyId) := by
  rw [resolveFromSt_read single conf builtins owner attr refs 0 root res root' h, hinit]
  simp [applyStores_list single owner attr hl]

/-- **Single-valued attribute, final state.** The attribute holds the identity of the
target of its (last) reference; without any reference it is untouched. -/
theorem C07_stored_single (single : Ref → Bool) (conf : Nat → Nat → Bool) (root : Obj)
    (builtins : List (String × Builtin)) (refs : List Ref) (res : List (Ref × Target)) (root' : Obj)
    (h : resolveAllSt (storeRef single) conf root builtins refs = .ok (res, root'))
    (owner attr : Nat) (hl : ∀ r : Ref, r.owner = owner → r.attr = attr → single r = true)
    (init : List Nat) (hinit : readObj owner attr root = some init) :
    readObj owner attr root' =
      some (match (attrValue res owner attr).getLast? with
        | some t => [t.pyId]
        | none => init) := by
  rw [resolveFromSt_read single conf builtins owner attr refs 0 root res root' h, hinit]
  simp only [Option.map_some, applyStores_single single owner attr hl]
  cases (attrValue res owner attr).getLast? <;> rfl

/-- the attribute of an object that is not in the tree, or that is not a reference
attribute, stays unreadable: the pass creates no attribute -/
theorem C07_stored_none (single : Ref → Bool) (conf : Nat → Nat → Bool) (root : Obj)
    (builtins : List (String × Builtin)) (refs : List Ref) (res : List (Ref × Target)) (root' : Obj)
    (h : resolveAllSt (storeRef single) conf root builtins refs = .ok (res, root'))
    (owner attr : Nat) (hinit : readObj owner attr root = none) :
    readObj owner attr root' = none := by
  rw [resolveFromSt_read single conf builtins owner attr refs 0 root res root' h, hinit]
  rfl

/-! ## conformance instantiated with the `textx_isinstance` model of C03

Every theorem above holds for an arbitrary relation `conf`.  `confOfGrammar g` (Link/Conf.lean) is the
relation `textx_isinstance` computes for the grammar `g` — the C03 model
(`RuleTypes.isInstance`: depth-first search over the `_tx_inh_by` lists with a visited
set) — and `C03_isinstance` says what it is: same rule, `OBJECT`, or reachable through
abstract-rule alternatives. -/

open RuleTypes in
/-- **Clause 1 with `textx_isinstance` spelled out** (C07 ∘ C03). -/
theorem C07_found_iff_isinstance (g : Gram) (hwf : WF g)
    (hdoc : ∀ rule ∈ g, rule.body.documented = true) (objectCls : Nat)
    (root : Obj) (builtins : List (String × Builtin)) (name : String) (tcls : Nat)
    (h : DistinctIds root) (o : Obj) :
    let Conforms : Obj → Prop := fun x =>
      tcls = objectCls ∨ x.cls = tcls ∨ Reach g (kindsOf g) tcls x.cls
    resolveRef (confOfGrammar g objectCls) root builtins name tcls = .obj o ↔
      Desc root o ∧ (o.name = some name ∧ Conforms o) ∧
        ∀ o', Desc root o' → o'.name = some name → Conforms o' → o' = o := by
  intro Conforms
  have hconf : ∀ x : Obj, confOfGrammar g objectCls x.cls tcls = true ↔ Conforms x := by
    intro x
    unfold confOfGrammar
    rw [C03_isinstance g hwf hdoc]
    by_cases ht : tcls = objectCls
    · simp [ht, Conforms]
    · simp only [ht, if_false, Cls.rule.injEq, reduceCtorEq, false_or, Conforms]
      constructor
      · rintro (h1 | ⟨R, hR, hr⟩)
        · exact Or.inl h1.symm
        · exact Or.inr (hR ▸ hr)
      · rintro (h1 | h1)
        · exact Or.inl h1.symm
        · exact Or.inr ⟨tcls, rfl, h1⟩
  rw [C07_found_iff _ root builtins name tcls h o]
  simp only [Matches, hconf]
  constructor
  · rintro ⟨hd, hm, hu⟩
    exact ⟨hd, hm, fun o' ho' hn hc => hu o' ho' ⟨hn, hc⟩⟩
  · rintro ⟨hd, hm, hu⟩
    exact ⟨hd, hm, fun o' ho' hm' => hu o' ho' hm'.1 hm'.2⟩

/-! ## non-vacuity: two unrelated classes share a name, an abstract target, builtins -/

/-- classes: 0 = L0, 1 = L1, 2 = L2, 10 = abstract `A: L0 | L1`, 99 foreign -/
def exConf : Nat → Nat → Bool := fun c t => c == t || (t == 10 && (c == 0 || c == 1))

/-- `l0 x { l1 y  l2 x }  l2 y` -/
def exRoot : Obj :=
  .mk 0 7 none [.cont [.mk 1 0 (some "x") [.cont [.mk 2 1 (some "y") [], .mk 3 2 (some "x") []]],
                       .mk 4 2 (some "y") []], .ref [2]]

def exBuiltins : List (String × Builtin) := [("int", ⟨100, 0⟩), ("x", ⟨101, 2⟩)]

example : DistinctIds exRoot := by unfold DistinctIds; decide
example : ∃ o, resolveRef exConf exRoot exBuiltins "x" 10 = .obj o ∧ o.id = 1 := ⟨_, rfl, rfl⟩
example : resolveRef exConf exRoot exBuiltins "y" 2 = .obj (.mk 4 2 (some "y") []) := rfl
example : resolveRef exConf exRoot exBuiltins "int" 10 = .builtin ⟨100, 0⟩ := rfl
example : resolveRef exConf exRoot exBuiltins "int" 2 = .unknown := rfl
example : resolveRef exConf exRoot exBuiltins "zz" 10 = .unknown := rfl
example : resolveRef (fun _ _ => true) exRoot exBuiltins "x" 10 = .notUnique := rfl
example : resolveRef (fun _ _ => true) exRoot exBuiltins "y" 10 = .notUnique := rfl

/-! ## non-vacuity: falsy names

Names are compared as values (`x.name == obj_name`); nothing in the model (as nothing in
the code) looks at the truth value of a name.  The correspondence check encodes the name
values of the loaded model injectively modulo Python equality (`"s:"++text` for strings,
`"n:"++value` for numbers); the theorems above hold for every string, so in particular for
the empty one and for the keys of `""`, `0`, `0.0` and `False`. -/

/-- `l0 ""  l0 0 { l1 0 }` -/
def exRoot0 : Obj :=
  .mk 0 7 none [.cont [.mk 1 0 (some "") [], .mk 2 0 (some "n:0") [.cont [.mk 3 1 (some "n:0") []]]]]

def exBuiltins0 : List (String × Builtin) := [("", ⟨100, 0⟩), ("n:0", ⟨101, 0⟩), ("s:", ⟨102, 1⟩)]

example : DistinctIds exRoot0 := by unfold DistinctIds; decide
/-- the object named by the empty text is found, the builtins entry of that name is not used -/
example : resolveRef exConf exRoot0 exBuiltins0 "" 0 = .obj (.mk 1 0 (some "") []) := rfl
example : resolveRef exConf exRoot0 exBuiltins0 "" 10 = .obj (.mk 1 0 (some "") []) := rfl
/-- two objects named 0 → not unique (not "unknown", not the builtins entry) -/
example : resolveRef exConf exRoot0 exBuiltins0 "n:0" 10 = .notUnique := rfl
example : ∃ o, resolveRef exConf exRoot0 exBuiltins0 "n:0" 1 = .obj o ∧ o.id = 3 := ⟨_, rfl, rfl⟩
/-- no object named so: the builtins entry with the falsy key is used when it conforms -/
example : resolveRef exConf exRoot0 exBuiltins0 "s:" 1 = .builtin ⟨102, 1⟩ := rfl
example : resolveRef exConf exRoot0 exBuiltins0 "s:" 0 = .unknown := rfl

/-! ## non-vacuity of the frame theorems: `exRoot` with its reference attribute in another state -/

/-- `exRoot` after the store of a reference made by object 0 (attribute 1) to object 4 -/
def exRoot' : Obj := storeRef (fun _ => false) exRoot ⟨"y", 2, 0, 1⟩ (.obj (.mk 4 2 (some "y") []))

example : exRoot' =
    .mk 0 7 none [.cont [.mk 1 0 (some "x") [.cont [.mk 2 1 (some "y") [], .mk 3 2 (some "x") []]],
                         .mk 4 2 (some "y") []], .ref [2, 4]] := rfl
example : strip exRoot' = strip exRoot := rfl
example : readObj 0 1 exRoot = some [2] ∧ readObj 0 1 exRoot' = some [2, 4] := ⟨rfl, rfl⟩
/-- the real store satisfies the hypothesis of `C07_pass_frame` -/
example : ∀ root r t, strip (storeRef (fun r => r.attr == 0) root r t) = strip root :=
  C07_store_skeleton _
/-- the pass with stores on the example: two references of a list attribute, one single -/
example : (match resolveAllSt (storeRef (fun r => r.attr == 0)) exConf
      (.mk 0 7 none [.cont [.mk 1 0 (some "x") [.ref [], .ref []], .mk 4 2 (some "y") []]])
      exBuiltins [⟨"y", 2, 1, 1⟩, ⟨"x", 10, 1, 1⟩, ⟨"int", 10, 1, 0⟩] with
    | .ok (_, root') => (readObj 1 0 root', readObj 1 1 root')
    | .error _ => (none, none)) = (some [100], some [4, 1]) := rfl

/-! ## non-vacuity of the `textx_isinstance` instance -/

/-- `A: L0 | L1;  L0: name=ID;  L1: name=ID;  L2: name=ID;` — rules 0..3, `OBJECT` = 99 -/
def exGram : RuleTypes.Gram :=
  [⟨false, .choice [.ref 1, .ref 2]⟩, ⟨true, .lit⟩, ⟨true, .lit⟩, ⟨true, .lit⟩]
example : RuleTypes.WF exGram := by decide
example : ∀ rule ∈ exGram, rule.body.documented = true := by decide
example : confOfGrammar exGram 99 1 0 = true ∧ confOfGrammar exGram 99 3 0 = false ∧
    confOfGrammar exGram 99 3 99 = true := by decide
/-- `l0 x { l2 x }`: `[A] x` finds the `L0`, `[L2] x` the `L2`, `[OBJECT] x` is ambiguous -/
def exTreeG : Obj := .mk 0 7 none [.cont [.mk 1 1 (some "x") [.cont [.mk 2 3 (some "x") []]]]]
example : outcomeId (resolveRef (confOfGrammar exGram 99) exTreeG [] "x" 0) = .obj 1 ∧
    outcomeId (resolveRef (confOfGrammar exGram 99) exTreeG [] "x" 3) = .obj 2 ∧
    outcomeId (resolveRef (confOfGrammar exGram 99) exTreeG [] "x" 99) = .notUnique ∧
    outcomeId (resolveRef (confOfGrammar exGram 99) exTreeG [] "x" 2) = .unknown := by decide

end Link
