import TextxVerif.Proofs.RepoLookup
/-!
# C18 — a failing multi-file load leaves the model repositories clean

Model: `Repo.loadMain` with its failure paths (TextxVerif/Repo.lean): a syntax
error or a missing import target in any file, an unresolvable reference, an
object processor error (main-model phase), a model processor error in an
imported file (raised inside the importing model's loader) or on the main model
(after construction; cleaned by `_call_model_processors` — the `fix:` commit).
Each enclosing `parse_tree_to_objgraph` frame runs
`_remove_all_affected_models_in_construction`; the main frame additionally
`remove_models_from_repositories(models, models)`.

The theorems quantify over every `Spec` (import graph, fault placement: any
file, any phase, several faults at once) and every well-formed state.
-/
namespace Repo

/-- **Clean global repository.**  If a load fails — whichever file fails in
whichever phase — the metamodel's global repository afterwards is *equal* to
the one before (same files, same instances, same order): nothing of the attempt
stays, everything cached by earlier loads stays.  The state is well formed
again, i.e. ready for the next load. -/
theorem C18_clean (S : Spec) (fuel : Nat) (st0 : St) (f : File) (st' : St) (k : Kind) (j : Inst)
    (hwf : WF st0) (hg : S.glob = true) (h : loadMain S fuel st0 f = (st', .fail k, j)) :
    st'.all = st0.all ∧ WF st' := by
  obtain ⟨hI, hall, hS⟩ := loadMain_fail S fuel st0 f (hwf.base S) h
  have hb : base S st0 = st0 := by simp [base, hg]
  rw [hb] at hI hall hS
  have hall' := hall hg
  refine ⟨hall', ?_⟩
  exact
  { nodup := by rw [hall']; exact hwf.nodup
    lt := fun e he => by rw [hall'] at he; exact Nat.lt_of_lt_of_le (hwf.lt e he) hS.next
    file := fun e he => by
      rw [hall'] at he
      rw [hS.fileOf _ (hwf.lt e he)]; exact hwf.file e he
    locIn := fun e he x hx => by
      rw [hall'] at he ⊢
      rw [hI.frame _ (hwf.lt e he)] at hx
      exact hwf.locIn e he x hx
    noConstr := fun e he => by rw [hall'] at he; exact hI.oldc e he }

/-- **Surviving repositories.**  With or without a global repository, a failing
load changes nothing in any model that existed before: its `local_models`, its
file and its content are what they were. -/
theorem C18_survivors (S : Spec) (fuel : Nat) (st0 : St) (f : File) (st' : St) (k : Kind) (j : Inst)
    (hwf : WF st0) (h : loadMain S fuel st0 f = (st', .fail k, j)) :
    ∀ i, i < st0.next → st'.loc i = st0.loc i ∧ st'.fileOf i = st0.fileOf i ∧ st'.defsOf i = st0.defsOf i := by
  obtain ⟨hI, _, hS⟩ := loadMain_fail S fuel st0 f (hwf.base S) h
  intro i hi
  have hi' : i < (base S st0).next := by rw [base_next]; exact hi
  refine ⟨?_, ?_, ?_⟩
  · rw [hI.frame i hi', base_loc]
  · rw [hS.fileOf i hi']; unfold base; split <;> rfl
  · rw [hS.defsOf i hi']; unfold base; split <;> rfl

/-- **Repair.**  After a failed load, load again with the files as they are then
(`S'`, any main file): if no file has a fault any more the load can only fail at
a reference without visible definition; and when it succeeds, all C17 guarantees
hold and no model instance of the failed attempt is in the repository — every
instance is either one cached before the failure or one created by the new
load. -/
theorem C18_repair (S S' : Spec) (fuel fuel' : Nat) (st0 : St) (f f' : File) (st' : St) (k : Kind) (j : Inst)
    (hwf : WF st0) (hg : S.glob = true) (h : loadMain S fuel st0 f = (st', .fail k, j)) :
    (NoFault S' → (loadMain S' fuel' st' f').2.1 = .ok ∨ (loadMain S' fuel' st' f').2.1 = .fail .semantic ∨
        (loadMain S' fuel' st' f').2.1 = .fuel) ∧
      (∀ st'' j', S'.glob = true → loadMain S' fuel' st' f' = (st'', .ok, j') →
        WF st'' ∧ (∀ e ∈ st''.all, e ∈ st0.all ∨ st'.next ≤ e.2) ∧ (∀ e ∈ st0.all, e ∈ st''.all)) := by
  obtain ⟨hall, hwf'⟩ := C18_clean S fuel st0 f st' k j hwf hg h
  refine ⟨fun hS' => loadMain_nofault S' hS' fuel' st' f', ?_⟩
  intro st'' j' hg' h'
  have hok := loadMain_ok S' fuel' st' f' (hwf'.base S') h'
  have hb : base S' st' = st' := by simp [base, hg']
  rw [hb] at hok
  obtain ⟨N, hN, hge⟩ := hok.invW.split
  refine ⟨hok.wf, ?_, ?_⟩
  · intro e he
    rw [hN] at he
    rcases List.mem_append.1 he with h1 | h1
    · left; rw [← hall]; exact h1
    · right; exact hge e h1
  · intro e he
    rw [hN]; exact List.mem_append_left _ (by rw [hall]; exact he)

/-! ## non-vacuity: every phase failing in an imported file and in the main file -/

/-- file 0 imports 1 and 2, file 1 imports 2 and 0; the fault sits in file `v` -/
def exF (phase : Nat) (v : File) : Spec where
  calls := fun f => match f with
    | 0 => [some 1, some 2] | 1 => [some 2, some 0] | 3 => [some 3] | _ => []
  defs := fun f => match f with | 0 => [5] | 1 => [6] | 2 => [7] | _ => []
  refs := fun f => (match f with | 0 => [6, 7] | 1 => [5] | _ => []) ++ (if phase = 1 ∧ f = v then [99] else [])
  syntaxErr := fun f => phase = 0 ∧ f = v
  objFault := fun f => phase = 2 ∧ f = v
  modFault := fun f => phase = 3 ∧ f = v
  builtins := []
  glob := true

/-- a state with file 3 cached by an earlier successful load -/
def exSt : St := (loadMain (exF 9 0) 4 St.init 3).1

example : exSt.all = [(3, 0)] := by decide
example : (loadMain (exF 0 2) 4 exSt 0).2.1 = .fail .syntax ∧ (loadMain (exF 0 2) 4 exSt 0).1.all = [(3, 0)] := by decide
example : (loadMain (exF 1 1) 4 exSt 0).2.1 = .fail .semantic ∧ (loadMain (exF 1 1) 4 exSt 0).1.all = [(3, 0)] := by decide
example : (loadMain (exF 2 2) 4 exSt 0).2.1 = .fail .objproc ∧ (loadMain (exF 2 2) 4 exSt 0).1.all = [(3, 0)] := by decide
example : (loadMain (exF 3 1) 4 exSt 0).2.1 = .fail .modproc ∧ (loadMain (exF 3 1) 4 exSt 0).1.all = [(3, 0)] := by decide
example : (loadMain (exF 3 0) 4 exSt 0).2.1 = .fail .modproc ∧ (loadMain (exF 3 0) 4 exSt 0).1.all = [(3, 0)] := by decide
/-- the repaired reload succeeds and uses fresh instances 4, 5, 6 next to the cached one -/
example : (loadMain (exF 9 0) 4 (loadMain (exF 3 0) 4 exSt 0).1 0).2.1 = .ok ∧
    (loadMain (exF 9 0) 4 (loadMain (exF 3 0) 4 exSt 0).1 0).1.all = [(3, 0), (0, 4), (1, 5), (2, 6)] := by decide

end Repo
