import TextxVerif.Proofs.RepoRepair
/-!
# C18 — a failing multi-file load leaves the model repositories clean

Model: `Repo.loadMain` with its failure paths (TextxVerif/Repo.lean): a syntax
error or a missing import target in any file, an unresolvable reference, an
object processor error (main-model phase), a model processor error in an
imported file (raised inside the importing model's loader) or on the main model
(after construction; cleaned by `_call_model_processors` — the `fix:` commit).
Each enclosing `parse_tree_to_objgraph` frame runs
`_remove_all_affected_models_in_construction`; the main frame additionally
`remove_models_from_repositories(models, models)`.

The theorems quantify over every `Spec` (import graph, fault placement: any
file, any phase, several faults at once) and every well-formed state.

`C18_clean` / `C18_survivors` / `C18_repair` are about `model_from_file` (and
`model_from_str(text, file_name=f)`, which is the same `loadMain`).  The second
half covers the other entry points of a load (TextxVerif/RepoEntry.lean): a main
model **without file name** (`loadStr`: registered under an invented name
`anonymous{k}` by its first `load_model` call, not at all when it issues none) in
`C18_entry_*` — one statement for both kinds of main model, so that the failing
load and the repaired reload may use different entry points —, and the explicit
pre-load `GlobalRepo.load_models_in_model_repo` (`C18_preload_fail`).
-/
namespace Repo

/-- **Clean global repository.**  If a load fails — whichever file fails in
whichever phase — the metamodel's global repository afterwards is *equal* to
the one before (same files, same instances, same order): nothing of the attempt
stays, everything cached by earlier loads stays.  The state is well formed
again, i.e. ready for the next load. -/
theorem C18_clean (S : Spec) (fuel : Nat) (st0 : St) (f : File) (st' : St) (k : Kind) (j : Inst)
    (hwf : WF st0) (hg : S.glob = true) (h : loadMain S fuel st0 f = (st', .fail k, j)) :
    st'.all = st0.all ∧ WF st' := by
  obtain ⟨hI, hall, hS⟩ := loadMain_fail S fuel st0 f (hwf.base S) h
  have hb : base S st0 = st0 := by simp [base, hg]
  rw [hb] at hI hall hS
  have hall' := hall hg
  refine ⟨hall', ?_⟩
  exact
  { nodup := by rw [hall']; exact hwf.nodup
    lt := fun e he => by rw [hall'] at he; exact Nat.lt_of_lt_of_le (hwf.lt e he) hS.next
    file := fun e he => by
      rw [hall'] at he
      rw [hS.fileOf _ (hwf.lt e he)]; exact hwf.file e he
    locIn := fun e he x hx => by
      rw [hall'] at he ⊢
      rw [hI.frame _ (hwf.lt e he)] at hx
      exact hwf.locIn e he x hx
    noConstr := fun e he => by rw [hall'] at he; exact hI.oldc e he }

/-- **Surviving repositories.**  With or without a global repository, a failing
load changes nothing in any model that existed before: its `local_models`, its
file and its content are what they were. -/
theorem C18_survivors (S : Spec) (fuel : Nat) (st0 : St) (f : File) (st' : St) (k : Kind) (j : Inst)
    (hwf : WF st0) (h : loadMain S fuel st0 f = (st', .fail k, j)) :
    ∀ i, i < st0.next → st'.loc i = st0.loc i ∧ st'.fileOf i = st0.fileOf i ∧ st'.defsOf i = st0.defsOf i := by
  obtain ⟨hI, _, hS⟩ := loadMain_fail S fuel st0 f (hwf.base S) h
  intro i hi
  have hi' : i < (base S st0).next := by rw [base_next]; exact hi
  refine ⟨?_, ?_, ?_⟩
  · rw [hI.frame i hi', base_loc]
  · rw [hS.fileOf i hi']; unfold base; split <;> rfl
  · rw [hS.defsOf i hi']; unfold base; split <;> rfl

/-- **Repair.**  After a failed load, load again with the files as they are then
(`S'`, any main file): if no file has a fault any more the load can only fail at
a reference without visible definition; and when it succeeds, all C17 guarantees
hold and no model instance of the failed attempt is in the repository — every
instance is either one cached before the failure or one created by the new
load. -/
theorem C18_repair (S S' : Spec) (fuel fuel' : Nat) (st0 : St) (f f' : File) (st' : St) (k : Kind) (j : Inst)
    (hwf : WF st0) (hg : S.glob = true) (h : loadMain S fuel st0 f = (st', .fail k, j)) :
    (NoFault S' → (loadMain S' fuel' st' f').2.1 = .ok ∨ (loadMain S' fuel' st' f').2.1 = .fail .semantic ∨
        (loadMain S' fuel' st' f').2.1 = .fuel) ∧
      (∀ st'' j', S'.glob = true → loadMain S' fuel' st' f' = (st'', .ok, j') →
        WF st'' ∧ (∀ e ∈ st''.all, e ∈ st0.all ∨ st'.next ≤ e.2) ∧ (∀ e ∈ st0.all, e ∈ st''.all)) := by
  obtain ⟨hall, hwf'⟩ := C18_clean S fuel st0 f st' k j hwf hg h
  refine ⟨fun hS' => loadMain_nofault S' hS' fuel' st' f', ?_⟩
  intro st'' j' hg' h'
  have hok := loadMain_ok S' fuel' st' f' (hwf'.base S') h'
  have hb : base S' st' = st' := by simp [base, hg']
  rw [hb] at hok
  obtain ⟨N, hN, hge⟩ := hok.invW.split
  refine ⟨hok.wf, ?_, ?_⟩
  · intro e he
    rw [hN] at he
    rcases List.mem_append.1 he with h1 | h1
    · left; rw [← hall]; exact h1
    · right; exact hge e h1
  · intro e he
    rw [hN]; exact List.mem_append_left _ (by rw [hall]; exact he)

/-! ## the other entry points: a main model without file name, the explicit pre-load -/

/-- The name textX invents for a model without file name (`anonymous{k}`, smallest unused `k`,
counted from `a0`) is admissible: the hypothesis `he` of the `C18_entry_*` theorems holds for it. -/
theorem C18_str_name_admissible (S : Spec) (st : St) (a0 : File) :
    (Entry.str (anonKey a0 (base S st).all)).Admissible S st :=
  anonKey_fresh a0 (base S st).all

/-- **Clean global repository, any entry point.**  A failing load of a main model with file name
(`Entry.file`) or without (`Entry.str`, whatever invented name it would have been registered under)
leaves the metamodel's global repository *equal* to the one before, and the state well formed. -/
theorem C18_entry_clean (S : Spec) (fuel : Nat) (st0 : St) (e : Entry) (st' : St) (k : Kind) (j : Inst)
    (hwf : WF st0) (hg : S.glob = true) (he : e.Admissible S st0) (h : e.run S fuel st0 = (st', .fail k, j)) :
    st'.all = st0.all ∧ WF st' := by
  obtain ⟨hI, hall, hS⟩ := Entry.run_fail S fuel st0 e (hwf.base S) he h
  exact clean_of_fail hwf hg hI hall hS

/-- **Surviving repositories, any entry point**, with or without a global repository. -/
theorem C18_entry_survivors (S : Spec) (fuel : Nat) (st0 : St) (e : Entry) (st' : St) (k : Kind) (j : Inst)
    (hwf : WF st0) (he : e.Admissible S st0) (h : e.run S fuel st0 = (st', .fail k, j)) :
    ∀ i, i < st0.next → st'.loc i = st0.loc i ∧ st'.fileOf i = st0.fileOf i ∧ st'.defsOf i = st0.defsOf i := by
  obtain ⟨hI, _, hS⟩ := Entry.run_fail S fuel st0 e (hwf.base S) he h
  exact survivors_of_fail hI hS

/-- **Repair, any entry points.**  After a load through `e` failed, load again through any entry point
`e'` (the same or another one) with the files as they are then: without faults the load can only fail
at a reference without visible definition; when it succeeds the state is well formed, every repository
entry is one cached before the failure or an instance created by the new load — nothing of the failed
attempt, in particular no half-constructed model under an invented name —, and everything cached
before is still there. -/
theorem C18_entry_repair (S S' : Spec) (fuel fuel' : Nat) (st0 : St) (e e' : Entry) (st' : St) (k : Kind) (j : Inst)
    (hwf : WF st0) (hg : S.glob = true) (he : e.Admissible S st0) (h : e.run S fuel st0 = (st', .fail k, j)) :
    (NoFault S' → (e'.run S' fuel' st').2.1 = .ok ∨ (e'.run S' fuel' st').2.1 = .fail .semantic ∨
        (e'.run S' fuel' st').2.1 = .fuel) ∧
      (∀ st'' j', S'.glob = true → e'.Admissible S' st' → e'.run S' fuel' st' = (st'', .ok, j') →
        WF st'' ∧ (∀ x ∈ st''.all, x ∈ st0.all ∨ st'.next ≤ x.2) ∧ (∀ x ∈ st0.all, x ∈ st''.all)) := by
  obtain ⟨hall, hwf'⟩ := C18_entry_clean S fuel st0 e st' k j hwf hg he h
  refine ⟨fun hS' => Entry.run_nofault S' hS' fuel' st' e', ?_⟩
  intro st'' j' hg' he' h'
  obtain ⟨f', hok⟩ := Entry.run_ok S' fuel' st' e' (hwf'.base S') he' h'
  have hb : base S' st' = st' := by simp [base, hg']
  rw [hb] at hok
  obtain ⟨N, hN, hge⟩ := hok.invW.split
  refine ⟨hok.wf, ?_, ?_⟩
  · intro x hx
    rw [hN] at hx
    rcases List.mem_append.1 hx with h1 | h1
    · left; rw [← hall]; exact h1
    · right; exact hge x h1
  · intro x hx
    rw [hN]; exact List.mem_append_left _ (by rw [hall]; exact hx)

/-- **Failing pre-load** (`GlobalRepo.load_models_in_model_repo` into the global repository; every
`load_model(…, is_main_model=True)` of it is a load of its own).  The pre-load had completed the main
loads of the calls `cs1` before the failing one; the failing call is a pattern without file or a main
load that failed — and left the dict exactly as the completed loads had left it.  Everything cached
before the pre-load is still there (same instances, same order), the state is well formed. -/
theorem C18_preload_fail (S : Spec) (hg : S.glob = true) (fuel : Nat) (calls : List (Option File))
    (st0 st' : St) (k : Kind) (hwf : WF st0) (h : preload S fuel st0 calls = (st', .fail k)) :
    WF st' ∧ (∃ N, st'.all = st0.all ++ N) ∧
      ∃ cs1 c cs2 st1, calls = cs1 ++ c :: cs2 ∧ preload S fuel st0 cs1 = (st1, .ok) ∧ st'.all = st1.all ∧
        ((c = none ∧ st' = st1) ∨ ∃ g j, c = some g ∧ loadMain S fuel st1 g = (st', .fail k, j)) :=
  preload_fail S hg fuel calls st0 st' k hwf h

/-! ## "after the failing file is corrected, the next load succeeds" -/

/-- name `n`, referenced in file `g`, has a **visible definition** for a load that starts from the dict of
`b`: it is defined in `g` itself, or in a file `g` asks `load_model` for — as that file is cached in `b`,
or, when it is not cached, as it is on disk now —, or in a builtin model.  (`visible` is the executable
version the driver reports; the harness compares it with the outcome of the real load.) -/
def Visible (S : Spec) (b : St) (g : File) (n : Name) : Prop :=
  n ∈ S.defs g ∨ (∃ h, some h ∈ S.calls g ∧ n ∈ defsNow S b h) ∨ ∃ bl ∈ S.builtins, n ∈ bl

theorem C18_visible_iff (S : Spec) (b : St) (g : File) (n : Name) : visible S b g n = true ↔ Visible S b g n := by
  unfold visible Visible
  simp only [Bool.or_eq_true, List.any_eq_true, List.mem_filterMap, id, List.contains_iff_mem, or_assoc]
  constructor
  · rintro (h | ⟨h', ⟨c, hc, rfl⟩, hn⟩ | h)
    · exact Or.inl h
    · exact Or.inr (Or.inl ⟨_, hc, hn⟩)
    · exact Or.inr (Or.inr h)
  · rintro (h | ⟨h', hc, hn⟩ | h)
    · exact Or.inl h
    · exact Or.inr (Or.inl ⟨h', ⟨some h', hc, rfl⟩, hn⟩)
    · exact Or.inr (Or.inr h)

/-- **Why a load fails at reference resolution.**  Whatever the files and faults, a load (either kind of
main model) that ends with an unresolvable-reference error has, in the non-cached import closure of its
main model, a file with a reference that has no visible definition.  No other cause exists: not a model
left over from a failed attempt, not a second instance of a file. -/
theorem C18_semantic_cause (S : Spec) (fuel : Nat) (st0 : St) (e : Entry) (st' : St) (j : Inst)
    (hwf : WF st0) (he : e.Admissible S st0) (h : e.run S fuel st0 = (st', .fail .semantic, j)) :
    ∃ g n, Reach S (base S st0).all.keys e.main g ∧ n ∈ S.refs g ∧ ¬ Visible S (base S st0) g n := by
  obtain ⟨g, n, hr, hn, hv⟩ := Entry.run_semantic S fuel st0 e (hwf.base S) he h
  refine ⟨g, n, hr, hn, fun hV => ?_⟩
  rw [(C18_visible_iff S _ g n).2 hV] at hv
  cases hv

/-- **The repaired load succeeds.**  In a well-formed state (in particular the state a failed load leaves,
`C18_entry_clean`), a load whose files have no fault any more, with fuel for a set of files closed under
imports, and in which every reference of every file of the non-cached import closure has a visible
definition, ends `ok` (and then `C18_entry_repair` / the C17 theorems describe the result). -/
theorem C18_repair_succeeds (S' : Spec) (fuel' : Nat) (st' : St) (e' : Entry) (hwf : WF st')
    (he : e'.Admissible S' st') (hS : NoFault S') (U : List File)
    (hU : ∀ h ∈ U, ∀ x, some x ∈ S'.calls h → x ∈ U) (hmU : e'.main ∈ U) (hn : U.length ≤ fuel')
    (hv : ∀ g, Reach S' (base S' st').all.keys e'.main g → ∀ n ∈ S'.refs g, Visible S' (base S' st') g n) :
    (e'.run S' fuel' st').2.1 = .ok :=
  Entry.run_succeeds S' hS U hU fuel' st' e' hmU (hwf.base S') he hn
    (fun g hr n hn' => (C18_visible_iff S' _ g n).2 (hv g hr n hn'))

/-- **Fail, repair, succeed** in one statement: after a load failed (any entry point, any phase, with or
without a global repository), the next load with corrected files succeeds as soon as every reference in
its closure has a visible definition. -/
theorem C18_fail_then_repair (S S' : Spec) (fuel fuel' : Nat) (st0 : St) (e e' : Entry) (st' : St) (k : Kind) (j : Inst)
    (hwf : WF st0) (hgg : S'.glob = S.glob) (he : e.Admissible S st0) (h : e.run S fuel st0 = (st', .fail k, j))
    (he' : e'.Admissible S' st') (hS : NoFault S') (U : List File)
    (hU : ∀ h ∈ U, ∀ x, some x ∈ S'.calls h → x ∈ U) (hmU : e'.main ∈ U) (hn : U.length ≤ fuel')
    (hv : ∀ g, Reach S' (base S' st').all.keys e'.main g → ∀ n ∈ S'.refs g, Visible S' (base S' st') g n) :
    (e'.run S' fuel' st').2.1 = .ok := by
  have hwf' : WF (base S' st') := by
    cases hg : S.glob with
    | false => exact wf_base_noGlob S' st' (by rw [hgg, hg])
    | true =>
      rw [base_of_glob S' st' (by rw [hgg, hg])]
      exact (C18_entry_clean S fuel st0 e st' k j hwf hg he h).2
  exact Entry.run_succeeds S' hS U hU fuel' st' e' hmU hwf' he' hn
    (fun g hr n hn' => (C18_visible_iff S' _ g n).2 (hv g hr n hn'))

/-- the same with decidable hypotheses: a set `U` of files closed under imports (`closedB`) all of whose
references are visible (`visible`) -/
theorem C18_repair_succeeds_univ (S' : Spec) (fuel' : Nat) (st' : St) (e' : Entry) (hwf : WF st')
    (he : e'.Admissible S' st') (hS : NoFault S') (U : List File) (hU : closedB S' U = true) (hmU : e'.main ∈ U)
    (hn : U.length ≤ fuel') (hv : unresolved S' (base S' st') U = []) :
    (e'.run S' fuel' st').2.1 = .ok := by
  refine Entry.run_succeeds S' hS U (closedB_spec hU) fuel' st' e' hmU (hwf.base S') he hn ?_
  intro g hr n hn'
  have hgU := Reach.mem_closed (closedB_spec hU) hmU hr
  cases hvis : visible S' (base S' st') g n with
  | true => rfl
  | false =>
    exfalso
    have : (g, n) ∈ unresolved S' (base S' st') U := by
      unfold unresolved
      refine List.mem_flatMap.2 ⟨g, hgU, List.mem_map.2 ⟨n, List.mem_filter.2 ⟨hn', by simp [hvis]⟩, rfl⟩⟩
    rw [hv] at this
    cases this

/-- **Only the closure matters.**  `NoFault` speaks about every file; this is the same statement with the
hypothesis restricted to a set `U` of files that contains the main model and is closed under imports
(`NoFaultOn S' U`): files outside may be broken in any way.  (`C18_repair_succeeds` is the instance
`NoFault.on`.) -/
theorem C18_repair_succeeds_on (S' : Spec) (fuel' : Nat) (st' : St) (e' : Entry) (hwf : WF st')
    (he : e'.Admissible S' st') (U : List File) (hU : ∀ h ∈ U, ∀ x, some x ∈ S'.calls h → x ∈ U)
    (hS : NoFaultOn S' U) (hmU : e'.main ∈ U) (hn : U.length ≤ fuel')
    (hv : ∀ g, Reach S' (base S' st').all.keys e'.main g → ∀ n ∈ S'.refs g, Visible S' (base S' st') g n) :
    (e'.run S' fuel' st').2.1 = .ok :=
  Entry.run_succeedsU S' U hU hS fuel' st' e' hmU (hwf.base S') he hn
    (fun g hr n hn' => (C18_visible_iff S' _ g n).2 (hv g hr n hn'))

/-- all hypotheses decidable: `closedB`, `noFaultB`, `unresolved … = []` on a list of files `U` -/
theorem C18_repair_succeeds_dec (S' : Spec) (fuel' : Nat) (st' : St) (e' : Entry) (hwf : WF st')
    (he : e'.Admissible S' st') (U : List File) (hU : closedB S' U = true) (hS : noFaultB S' U = true)
    (hmU : e'.main ∈ U) (hn : U.length ≤ fuel') (hv : unresolved S' (base S' st') U = []) :
    (e'.run S' fuel' st').2.1 = .ok := by
  refine Entry.run_succeedsU S' U (closedB_spec hU) (noFaultB_spec hS) fuel' st' e' hmU (hwf.base S') he hn ?_
  intro g hr n hn'
  have hgU := Reach.mem_closed (closedB_spec hU) hmU hr
  cases hvis : visible S' (base S' st') g n with
  | true => rfl
  | false =>
    exfalso
    have : (g, n) ∈ unresolved S' (base S' st') U := by
      unfold unresolved
      refine List.mem_flatMap.2 ⟨g, hgU, List.mem_map.2 ⟨n, List.mem_filter.2 ⟨hn', by simp [hvis]⟩, rfl⟩⟩
    rw [hv] at this
    cases this

/-- **The repaired pre-load succeeds** (`GlobalRepo.load_models_in_model_repo` into the global repository,
e.g. after `C18_preload_fail`): every registered pattern denotes a file, the files of an import-closed set
`U` containing them have no fault and enough fuel, and every reference in them has a visible definition
⇒ the pre-load ends `ok` (and `C17_preload` describes the result). -/
theorem C18_preload_repair_succeeds (S : Spec) (hg : S.glob = true) (fuel : Nat) (calls : List (Option File))
    (st : St) (hwf : WF st) (U : List File) (hU : ∀ h ∈ U, ∀ x, some x ∈ S.calls h → x ∈ U)
    (hS : NoFaultOn S U) (hn : U.length ≤ fuel) (hnone : none ∉ calls) (hc : ∀ c, some c ∈ calls → c ∈ U)
    (hv : ∀ g ∈ U, ∀ n ∈ S.refs g, Visible S st g n) : (preload S fuel st calls).2 = .ok :=
  preload_succeeds S hg U hU hS fuel hn calls st hwf hnone hc
    (fun g hgU n hn' => (C18_visible_iff S st g n).2 (hv g hgU n hn'))

/-! ## histories: what an earlier successful load cached stays -/

/-- **Cached models stay, along any history.**  On a metamodel with a global repository, whatever loads
follow (`ops2`: any entry points, files and faults, failing in any phase or succeeding), the global
repository after them starts with the repository as it was (`ops1`): same files, same instances, same
order — entries are only ever appended (by successful loads, `C18_entry_clean`: a failing load appends
nothing). -/
theorem C18_history_cache_stays (ops1 ops2 : List (Spec × Nat × Op)) (h : HistOK true (ops1 ++ ops2) St.init) :
    ∃ N, (runOps (ops1 ++ ops2) St.init).all = (runOps ops1 St.init).all ++ N := by
  obtain ⟨h1, h2⟩ := histOK_append true ops1 ops2 St.init h
  rw [runOps_append]
  refine runOps_prefix ops2 _ ?_ h2
  let T : Spec := { calls := fun _ => [], defs := fun _ => [], refs := fun _ => [], syntaxErr := fun _ => false,
                    objFault := fun _ => false, modFault := fun _ => false, builtins := [], glob := true }
  have := runOps_wf true ops1 St.init (fun T _ => WF.init.base T) h1 T rfl
  rw [base_of_glob T _ rfl] at this
  exact this

/-- one failing step in the middle of a history: the repository after it is the repository before it -/
theorem C18_history_fail_step (ops : List (Spec × Nat × Op)) (S : Spec) (fuel : Nat) (f : File)
    (h : HistOK true ops St.init) (hg : S.glob = true) (k : Kind)
    (hf : (loadMain S fuel (runOps ops St.init) f).2.1 = .fail k) :
    (runOps (ops ++ [(S, fuel, .file f)]) St.init).all = (runOps ops St.init).all := by
  rw [runOps_append]
  show (loadMain S fuel (runOps ops St.init) f).1.all = _
  let T : Spec := { calls := fun _ => [], defs := fun _ => [], refs := fun _ => [], syntaxErr := fun _ => false,
                    objFault := fun _ => false, modFault := fun _ => false, builtins := [], glob := true }
  have hwf := runOps_wf true ops St.init (fun T _ => WF.init.base T) h T rfl
  rw [base_of_glob T _ rfl] at hwf
  exact (C18_clean S fuel _ f _ k _ hwf hg
    (show loadMain S fuel (runOps ops St.init) f = (_, .fail k, (loadMain S fuel (runOps ops St.init) f).2.2) by
      rw [← hf])).1

/-! ## non-vacuity: every phase failing in an imported file and in the main file -/

/-- file 0 imports 1 and 2, file 1 imports 2 and 0; the fault sits in file `v` -/
def exF (phase : Nat) (v : File) : Spec where
  calls := fun f => match f with
    | 0 => [some 1, some 2] | 1 => [some 2, some 0] | 3 => [some 3] | _ => []
  defs := fun f => match f with | 0 => [5] | 1 => [6] | 2 => [7] | _ => []
  refs := fun f => (match f with | 0 => [6, 7] | 1 => [5] | _ => []) ++ (if phase = 1 ∧ f = v then [99] else [])
  syntaxErr := fun f => phase = 0 ∧ f = v
  objFault := fun f => phase = 2 ∧ f = v
  modFault := fun f => phase = 3 ∧ f = v
  builtins := []
  glob := true

/-- a state with file 3 cached by an earlier successful load -/
def exSt : St := (loadMain (exF 9 0) 4 St.init 3).1

example : exSt.all = [(3, 0)] := by decide
example : (loadMain (exF 0 2) 4 exSt 0).2.1 = .fail .syntax ∧ (loadMain (exF 0 2) 4 exSt 0).1.all = [(3, 0)] := by decide
example : (loadMain (exF 1 1) 4 exSt 0).2.1 = .fail .semantic ∧ (loadMain (exF 1 1) 4 exSt 0).1.all = [(3, 0)] := by decide
example : (loadMain (exF 2 2) 4 exSt 0).2.1 = .fail .objproc ∧ (loadMain (exF 2 2) 4 exSt 0).1.all = [(3, 0)] := by decide
example : (loadMain (exF 3 1) 4 exSt 0).2.1 = .fail .modproc ∧ (loadMain (exF 3 1) 4 exSt 0).1.all = [(3, 0)] := by decide
example : (loadMain (exF 3 0) 4 exSt 0).2.1 = .fail .modproc ∧ (loadMain (exF 3 0) 4 exSt 0).1.all = [(3, 0)] := by decide
/-- the repaired reload succeeds and uses fresh instances 4, 5, 6 next to the cached one -/
example : (loadMain (exF 9 0) 4 (loadMain (exF 3 0) 4 exSt 0).1 0).2.1 = .ok ∧
    (loadMain (exF 9 0) 4 (loadMain (exF 3 0) 4 exSt 0).1 0).1.all = [(3, 0), (0, 4), (1, 5), (2, 6)] := by decide

/-- a GlobalRepo provider over files 0 and 1 (they see each other); 5 is the invented name of a model without
file name that sees both; the fault sits in text `v` -/
def exG (phase : Nat) (v : File) : Spec where
  calls := fun f => match f with
    | 0 => [some 0, some 1] | 1 => [some 0, some 1] | 5 => [some 0, some 1] | 6 => [some 0, some 1] | _ => []
  defs := fun f => match f with | 0 => [5] | 1 => [6] | 5 => [7] | 6 => [7] | _ => []
  refs := fun f => (match f with | 0 => [6] | 1 => [5] | 5 => [5, 7] | 6 => [6, 7] | _ => []) ++
    (if phase = 1 ∧ f = v then [99] else [])
  syntaxErr := fun f => phase = 0 ∧ f = v
  objFault := fun f => phase = 2 ∧ f = v
  modFault := fun f => phase = 3 ∧ f = v
  builtins := []
  glob := true

/-- a model without file name was loaded successfully before: it is cached as `anonymous0` = 5 -/
def exGt : St := (loadStr (exG 9 0) 4 St.init 5).1

example : exGt.all = [(5, 0), (0, 1), (1, 2)] := by decide
example : anonKey 5 exGt.all = 6 := by decide
-- the next model without file name (invented name 6) fails in each phase, in its own text and in a file
example : (loadStr (exG 1 6) 4 St.init 6).2.1 = .fail .semantic ∧ (loadStr (exG 1 6) 4 St.init 6).1.all = [] := by decide
example : (loadStr (exG 0 1) 4 St.init 6).2.1 = .fail .syntax ∧ (loadStr (exG 0 1) 4 St.init 6).1.all = [] := by decide
example : (loadStr (exG 2 6) 4 exGt 6).2.1 = .fail .objproc ∧ (loadStr (exG 2 6) 4 exGt 6).1.all = exGt.all := by decide
example : (loadStr (exG 3 6) 4 exGt 6).2.1 = .fail .modproc ∧ (loadStr (exG 3 6) 4 exGt 6).1.all = exGt.all := by decide
/-- the repaired reload gets the invented name 6 again and links to the cached files -/
example : (loadStr (exG 9 0) 4 (loadStr (exG 1 6) 4 exGt 6).1 6).2.1 = .ok ∧
    (loadStr (exG 9 0) 4 (loadStr (exG 1 6) 4 exGt 6).1 6).1.all = [(5, 0), (0, 1), (1, 2), (6, 4)] := by decide
/-- a failing pre-load: file 1 has a syntax error, nothing stays; a pattern without file after a completed load -/
example : (preload (exG 0 1) 4 St.init [some 0, some 1]).2 = .fail .syntax ∧
    (preload (exG 0 1) 4 St.init [some 0, some 1]).1.all = [] := by decide
example : (preload (exG 9 0) 4 St.init [some 0, none]).2 = .fail .io ∧
    (preload (exG 9 0) 4 St.init [some 0, none]).1.all = [(0, 0), (1, 1)] := by decide

/-! ## non-vacuity of "the repaired load succeeds" -/

/-- the state the failing load leaves (model processor fault on the main file, file 3 cached before) -/
def exSt' : St := (loadMain (exF 3 0) 4 exSt 0).1

theorem exF_nofault : NoFault (exF 9 0) :=
  ⟨fun g => by simp [exF], fun g => by simp [exF], fun g => by simp [exF], fun g => by
    simp only [exF]
    split <;> simp⟩

example : closedB (exF 9 0) [0, 1, 2] = true := by decide
example : unresolved (exF 9 0) (base (exF 9 0) exSt') [0, 1, 2] = [] := by decide
-- while the unrepaired files have a reference without visible definition, and that load fails there
example : unresolved (exF 1 1) (base (exF 1 1) exSt) [0, 1, 2] = [(1, 99)] := by decide
example : Visible (exF 9 0) (base (exF 9 0) exSt') 0 7 := (C18_visible_iff _ _ _ _).1 (by decide)
example : ¬ Visible (exF 1 1) (base (exF 1 1) exSt) 1 99 := fun h => by
  have := (C18_visible_iff _ _ _ _).2 h
  revert this; decide
/-- all hypotheses of `C18_repair_succeeds_univ` hold for the repaired reload after the failure -/
example : (Entry.run (exF 9 0) 4 exSt' (.file 0)).2.1 = .ok :=
  C18_repair_succeeds_univ (exF 9 0) 4 exSt' (.file 0)
    (loadMain_wf (exF 3 0) 4 exSt 0 rfl (loadMain_wf (exF 9 0) 4 St.init 3 rfl WF.init (by decide)) (by decide))
    trivial exF_nofault [0, 1, 2] (by decide) (by decide) (by decide) (by decide)

/-- file 3 still has a model processor fault (`exF 3 3`), but it is outside the closure of file 0: the
load of file 0 succeeds, by `C18_repair_succeeds_dec` with every hypothesis decided -/
example : (Entry.run (exF 3 3) 4 exSt' (.file 0)).2.1 = .ok :=
  C18_repair_succeeds_dec (exF 3 3) 4 exSt' (.file 0)
    (loadMain_wf (exF 3 0) 4 exSt 0 rfl (loadMain_wf (exF 9 0) 4 St.init 3 rfl WF.init (by decide)) (by decide))
    trivial [0, 1, 2] (by decide) (by decide) (by decide) (by decide) (by decide)
example : ¬ NoFault (exF 3 3) := fun h => by have := h.mod 3; revert this; decide

/-- a history: file 3 is cached, a load of file 0 fails (model processor), the repaired load succeeds -/
def exHist : List (Spec × Nat × Op) := [(exF 9 0, 4, .file 3), (exF 3 0, 4, .file 0), (exF 9 0, 4, .file 0)]
example : HistOK true exHist St.init := ⟨rfl, by decide, rfl, by decide, rfl, by decide, trivial⟩
example : (runOps (exHist.take 1) St.init).all = [(3, 0)] := by decide
example : (runOps (exHist.take 2) St.init).all = [(3, 0)] := by decide
example : (runOps exHist St.init).all = [(3, 0), (0, 4), (1, 5), (2, 6)] := by decide

/-- after the failing pre-load of `exG 0 1` (file 1 does not parse) the repaired pre-load succeeds: all
hypotheses of `C18_preload_repair_succeeds` hold (decided) -/
example : (preload (exG 9 0) 4 (preload (exG 0 1) 4 St.init [some 0, some 1]).1 [some 0, some 1]).2 = .ok :=
  C18_preload_repair_succeeds (exG 9 0) rfl 4 [some 0, some 1] _
    (preload_wf (exG 0 1) 4 St.init [some 0, some 1] rfl WF.init (by decide))
    [0, 1] (closedB_spec (by decide)) (noFaultB_spec (by decide)) (by decide) (by decide)
    (fun c hc => by
      have : ∀ x ∈ [some 0, some 1], ∀ c, x = some c → c ∈ [0, 1] := by decide
      exact this _ hc c rfl)
    (fun g hg n hn => (C18_visible_iff _ _ g n).1 (by
      have : ∀ g ∈ [0, 1], ∀ n ∈ (exG 9 0).refs g,
          visible (exG 9 0) (preload (exG 0 1) 4 St.init [some 0, some 1]).1 g n = true := by decide
      exact this g hg n hn))

end Repo
