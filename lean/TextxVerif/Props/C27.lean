import TextxVerif.Proofs.ParamsLoad
import TextxVerif.Gen.CheckParams
/-!
# C27 — model parameters are validated and reach every loaded model

Model: `ParamsLoad.load` (TextxVerif/ParamsLoad.lean).  The body of the
`for k in kwargs` loop of `check_params` is `Gen.checkParamsBody`, regenerated
from textx/model_params.py on every run; the load recursion mirrors
`internal_model_from_file` → ModelLoader providers → `load_model` with
`model_params = model._tx_model_params` read from the importing model.

The theorems hold for every world (any number of files, any import graph —
cycles, diamonds, self imports —, any provider kind), every initial repository
`repo0` (models cached by earlier loads, with arbitrary parameters), every
keyword list and every fuel value.
-/
namespace ParamsLoad

/-- `check_params` as regenerated from the source -/
def checkParams (defs : List String) (names : List String) : Option String :=
  runFor Gen.checkParamsBody defs names

/-- **Tie to the source.** The translated loop raises at the first keyword that
is not declared, and only then. -/
theorem C27_check_params (defs names : List String) :
    checkParams defs names = names.find? (fun k => !defs.contains k) :=
  runFor_spec Gen.checkParamsBody defs (by decide) (by decide) names

/-- **Rejection.** `model_from_str` / `model_from_file` raise the
unknown-parameter error exactly when some keyword argument is not declared in
the entry metamodel's parameter definitions; nothing else in the load — imports,
other metamodels, cached models — can produce or suppress it. -/
theorem C27_reject_iff (W : World) (fuel : Nat) (repo0 : Repo) (rq : Request) :
    (∃ k, load Gen.checkParamsBody W fuel repo0 rq = .error (.unknownParam k)) ↔
      ∃ k, k ∈ rq.kwargs.map (·.1) ∧ k ∉ rq.defs := by
  have hcp := C27_check_params rq.defs (rq.kwargs.map (·.1))
  unfold checkParams at hcp
  constructor
  · rintro ⟨k, h⟩
    unfold load at h
    cases hf : runFor Gen.checkParamsBody rq.defs (rq.kwargs.map (·.1)) with
    | some k' =>
      rw [hcp] at hf
      have hmem := List.mem_of_find?_eq_some hf
      have hp := List.find?_some hf
      exact ⟨k', hmem, by simpa using hp⟩
    | none =>
      simp only [hf] at h
      by_cases hs : rq.isStr = true
      · simp only [hs, Bool.not_true, Bool.false_eq_true, if_false] at h
        by_cases hc : (rq.viaFile && has repo0 rq.file) = true
        · simp [hc] at h
        · simp only [hc, Bool.false_eq_true, if_false] at h
          exact absurd h (loadFile_noParamErr W fuel repo0 rq.file rq.kwargs k)
      · simp [hs] at h
  · rintro ⟨k, hk, hnot⟩
    unfold load
    cases hf : runFor Gen.checkParamsBody rq.defs (rq.kwargs.map (·.1)) with
    | some k' => exact ⟨k', rfl⟩
    | none =>
      rw [hcp, List.find?_eq_none] at hf
      have := hf k hk
      simp at this
      exact absurd this hnot

/-- the keyword named by the error is the first undeclared one in call order -/
theorem C27_first_unknown (W : World) (fuel : Nat) (repo0 : Repo) (rq : Request) (k : String)
    (h : load Gen.checkParamsBody W fuel repo0 rq = .error (.unknownParam k)) :
    (rq.kwargs.map (·.1)).find? (fun k => !rq.defs.contains k) = some k := by
  rw [← C27_check_params]
  unfold load at h
  unfold checkParams
  cases hf : runFor Gen.checkParamsBody rq.defs (rq.kwargs.map (·.1)) with
  | some k' => simp only [hf, Except.error.injEq, Err.unknownParam.injEq] at h; rw [h]
  | none =>
    simp only [hf] at h
    by_cases hs : rq.isStr = true
    · simp only [hs, Bool.not_true, Bool.false_eq_true, if_false] at h
      by_cases hc : (rq.viaFile && has repo0 rq.file) = true
      · simp [hc] at h
      · simp only [hc, Bool.false_eq_true, if_false] at h
        exact absurd h (loadFile_noParamErr W fuel repo0 rq.file rq.kwargs k)
    · simp [hs] at h

/-- **Declared parameters are accepted**: when every keyword is declared the
parameter check lets the load proceed to `internal_model_from_file` unchanged. -/
theorem C27_accept (W : World) (fuel : Nat) (repo0 : Repo) (rq : Request)
    (hall : ∀ k, k ∈ rq.kwargs.map (·.1) → k ∈ rq.defs) (hstr : rq.isStr = true)
    (hnew : has repo0 rq.file = false) :
    load Gen.checkParamsBody W fuel repo0 rq = loadFile W fuel repo0 rq.file rq.kwargs := by
  have hcp := C27_check_params rq.defs (rq.kwargs.map (·.1))
  unfold checkParams at hcp
  unfold load
  have : runFor Gen.checkParamsBody rq.defs (rq.kwargs.map (·.1)) = none := by
    rw [hcp, List.find?_eq_none]
    intro k hk
    simpa using hall k hk
  simp [this, hstr, hnew]

/-- after the parameter check a load either returns the cached main model or runs
`internal_model_from_file` on a file that is not in the repository -/
theorem load_cases (W : World) (fuel : Nat) (repo0 repo' : Repo) (rq : Request)
    (hfresh : rq.viaFile = false → has repo0 rq.file = false)
    (h : load Gen.checkParamsBody W fuel repo0 rq = .ok repo') :
    (rq.viaFile = true ∧ has repo0 rq.file = true ∧ repo' = repo0) ∨
      (has repo0 rq.file = false ∧ loadFile W fuel repo0 rq.file rq.kwargs = .ok repo') := by
  unfold load at h
  cases hf : runFor Gen.checkParamsBody rq.defs (rq.kwargs.map (·.1)) with
  | some k => simp [hf] at h
  | none =>
    simp only [hf] at h
    by_cases hs : rq.isStr = true
    · simp only [hs, Bool.not_true, Bool.false_eq_true, if_false] at h
      by_cases hc : (rq.viaFile && has repo0 rq.file) = true
      · simp only [hc, if_true, Except.ok.injEq] at h
        simp only [Bool.and_eq_true] at hc
        exact Or.inl ⟨hc.1, hc.2, h.symm⟩
      · simp only [hc, Bool.false_eq_true, if_false] at h
        refine Or.inr ⟨?_, h⟩
        cases hv : rq.viaFile
        · exact hfresh hv
        · simpa [hv] using hc
    · simp [hs] at h

/-- **Every created model exposes exactly the given parameters.**  After a
successful load the repository is the old one (cached models untouched, in
place) followed by the models created by this load; each created model has
`_tx_model_params` set, equal to the keyword arguments of the call — main model
and models loaded through imports alike —, and no cached file is created again.
(`hfresh`: a model loaded from a string without file name is a new object, not
one of the cached ones.) -/
theorem C27_all_models (W : World) (fuel : Nat) (repo0 repo' : Repo) (rq : Request)
    (hfresh : rq.viaFile = false → has repo0 rq.file = false)
    (h : load Gen.checkParamsBody W fuel repo0 rq = .ok repo') :
    ∃ created, repo' = repo0 ++ created ∧
      (∀ m, m ∈ created → m.params = some rq.kwargs) ∧
      (∀ m, m ∈ created → has repo0 m.file = false) := by
  rcases load_cases W fuel repo0 repo' rq hfresh h with ⟨_, _, rfl⟩ | ⟨hnew, hl⟩
  · exact ⟨[], by simp, by simp, by simp⟩
  · obtain ⟨c, hc1, hp, _, _, hn, _, _⟩ := loadFile_post W rq.kwargs fuel repo0 rq.file repo' hnew hl
    exact ⟨c, hc1, hp, hn⟩

/-- **…including models loaded through imports.**  The main file is in the
resulting repository, and for every model created by the load every file named
by its import statements (as the active provider reads them, with the
parameters of the call) is in the repository too: by induction along import
paths the whole import closure of the created models is loaded, each file
either cached from before or created with the given parameters. -/
theorem C27_closure (W : World) (fuel : Nat) (repo0 repo' : Repo) (rq : Request)
    (hfresh : rq.viaFile = false → has repo0 rq.file = false)
    (h : load Gen.checkParamsBody W fuel repo0 rq = .ok repo') :
    has repo' rq.file = true ∧
      ∀ m, m ∈ repo' → m ∉ repo0 →
        ∃ spec, W.files[m.file]? = some spec ∧
          ∀ fs, fs ∈ effImports W spec (some rq.kwargs) → ∀ g, g ∈ fs → has repo' g = true := by
  rcases load_cases W fuel repo0 repo' rq hfresh h with ⟨_, hin, rfl⟩ | ⟨hnew, hl⟩
  · exact ⟨hin, fun m hm hn => absurd hm hn⟩
  · obtain ⟨c, rfl, _, hmain, hcl, _, _, _⟩ := loadFile_post W rq.kwargs fuel repo0 rq.file repo' hnew hl
    refine ⟨hmain, ?_⟩
    intro m hm hn
    rcases List.mem_append.1 hm with hm | hm
    · exact absurd hm hn
    · exact hcl m hm

/-- **The recursion ends by itself.**  With one unit of fuel per file of the
world (import targets being files of the world) the load never stops for lack
of fuel — import cycles included: every recursive call adds a file that was not
in the repository. -/
theorem C27_terminates (W : World) (hW : W.WF) (fuel : Nat) (repo0 : Repo) (rq : Request)
    (hfile : rq.file < W.files.length)
    (hfresh : rq.viaFile = false → has repo0 rq.file = false)
    (hfuel : W.files.length ≤ fuel) :
    load Gen.checkParamsBody W fuel repo0 rq ≠ .error .fuel := by
  intro h
  unfold load at h
  cases hf : runFor Gen.checkParamsBody rq.defs (rq.kwargs.map (·.1)) with
  | some k => simp [hf] at h
  | none =>
    simp only [hf] at h
    by_cases hs : rq.isStr = true
    · simp only [hs, Bool.not_true, Bool.false_eq_true, if_false] at h
      by_cases hc : (rq.viaFile && has repo0 rq.file) = true
      · simp [hc] at h
      · simp only [hc, Bool.false_eq_true, if_false] at h
        have hnew : has repo0 rq.file = false := by
          cases hv : rq.viaFile
          · exact hfresh hv
          · simpa [hv] using hc
        have hm : missing W repo0 ≤ fuel := by
          have : missing W repo0 ≤ (List.range W.files.length).length := by
            unfold missing; exact List.length_filter_le _ _
          simp at this; omega
        exact loadFile_noFuel W hW fuel repo0 rq.file rq.kwargs hnew hfile hm h
    · simp [hs] at h

/-- a main model that is cached in the metamodel's repository is returned as it
is: this load creates nothing (its parameters are those of the load that
created it) -/
theorem C27_cached_main (W : World) (fuel : Nat) (repo0 : Repo) (rq : Request)
    (hall : ∀ k, k ∈ rq.kwargs.map (·.1) → k ∈ rq.defs) (hstr : rq.isStr = true)
    (hvia : rq.viaFile = true) (hin : has repo0 rq.file = true) :
    load Gen.checkParamsBody W fuel repo0 rq = .ok repo0 := by
  have hcp := C27_check_params rq.defs (rq.kwargs.map (·.1))
  unfold checkParams at hcp
  unfold load
  have : runFor Gen.checkParamsBody rq.defs (rq.kwargs.map (·.1)) = none := by
    rw [hcp, List.find?_eq_none]
    intro k hk
    simpa using hall k hk
  simp [this, hstr, hvia, hin]

/-! ## the exact set of created models -/

/-- **Exactly the reachable files are created, each once.**  `ReachNC W repo0 kw f g`
(Proofs/ParamsLoad.lean) is defined without any reference to the load machine: `g` is reached
from `f` along the imports the active provider follows (`importsOf`, read with the parameters of
the call), through files that are not cached in `repo0`.  After a successful load the repository
is the old one followed by `created`, where
* every created model exposes exactly the keyword arguments of the call,
* no cached file is created again and no file is created twice (`Nodup`),
* the created files are *exactly* the files reachable from the main file — so neither a
  reachable file is left out (or left without parameters) nor an unrelated file loaded.
Holds for every world, provider kind, repository, keyword list and fuel. -/
theorem C27_created_exact (W : World) (fuel : Nat) (repo0 repo' : Repo) (rq : Request)
    (hfresh : rq.viaFile = false → has repo0 rq.file = false)
    (h : load Gen.checkParamsBody W fuel repo0 rq = .ok repo') :
    ∃ created, repo' = repo0 ++ created ∧
      (∀ m, m ∈ created → m.params = some rq.kwargs) ∧
      (∀ m, m ∈ created → has repo0 m.file = false) ∧
      (created.map (·.file)).Nodup ∧
      ∀ g, g ∈ created.map (·.file) ↔ ReachNC W repo0 rq.kwargs rq.file g := by
  rcases load_cases W fuel repo0 repo' rq hfresh h with ⟨_, hin, rfl⟩ | ⟨hnew, hl⟩
  · refine ⟨[], by simp, by simp, by simp, by simp, ?_⟩
    intro g
    constructor
    · intro hg; simp at hg
    · intro hr
      have := hr.src_new
      rw [hin] at this
      exact absurd this (by simp)
  · obtain ⟨c, rfl, hp, hmain, hcl, hn, hnd, hre⟩ := loadFile_post W rq.kwargs fuel repo0 rq.file repo' hnew hl
    refine ⟨c, rfl, hp, hn, hnd, ?_⟩
    have hin : ∀ x, has (repo0 ++ c) x = true → has repo0 x = false → x ∈ c.map (·.file) := by
      intro x hx hx0
      rw [has_append, hx0, Bool.false_or] at hx
      exact (has_files c x).1 hx
    intro g
    constructor
    · intro hg
      obtain ⟨m, hm, rfl⟩ := List.mem_map.1 hg
      exact hre m hm
    · intro hr
      induction hr with
      | refl hf => exact hin _ hmain hf
      | step _ hi hnew' ih =>
        obtain ⟨m, hm, e⟩ := List.mem_map.1 ih
        obtain ⟨spec, hs, hall⟩ := hcl m hm
        rw [e] at hs
        simp only [importsOf, hs, List.mem_flatten] at hi
        obtain ⟨fs, hfs, hx⟩ := hi
        exact hin _ (hall fs hfs _ hx) hnew'

/-- the same in terms of the two repositories only (the reviewer's wording): a file has a model
that is in the repository after the load and was not there before iff it is reachable from the
main file through files that were not cached -/
theorem C27_created_iff (W : World) (fuel : Nat) (repo0 repo' : Repo) (rq : Request)
    (hfresh : rq.viaFile = false → has repo0 rq.file = false)
    (h : load Gen.checkParamsBody W fuel repo0 rq = .ok repo') (g : Nat) :
    (∃ m, m ∈ repo' ∧ m ∉ repo0 ∧ m.file = g) ↔ ReachNC W repo0 rq.kwargs rq.file g := by
  obtain ⟨c, rfl, _, hn, _, hex⟩ := C27_created_exact W fuel repo0 repo' rq hfresh h
  rw [← hex g, List.mem_map]
  constructor
  · rintro ⟨m, hm, hm0, e⟩
    rcases List.mem_append.1 hm with hm | hm
    · exact absurd hm hm0
    · exact ⟨m, hm, e⟩
  · rintro ⟨m, hm, e⟩
    refine ⟨m, List.mem_append_right _ hm, ?_, e⟩
    intro hm0
    have h1 : has repo0 m.file = true := (has_iff repo0 _).2 ⟨m, hm0, rfl⟩
    rw [hn m hm] at h1
    exact absurd h1 (by simp)

/-- **Transitive closure** (`C27_closure` along whole import paths): every file reachable from
the main file through non-cached files, and every file such a file imports (cached or not), has a
model in the repository; if it was not cached, that model carries the parameters of the call. -/
theorem C27_closure_trans (W : World) (fuel : Nat) (repo0 repo' : Repo) (rq : Request)
    (hfresh : rq.viaFile = false → has repo0 rq.file = false)
    (h : load Gen.checkParamsBody W fuel repo0 rq = .ok repo') (g : Nat)
    (hr : ReachNC W repo0 rq.kwargs rq.file g) :
    (∃ m, m ∈ repo' ∧ m.file = g ∧ m.params = some rq.kwargs) ∧
      ∀ x, x ∈ importsOf W rq.kwargs g →
        ∃ m, m ∈ repo' ∧ m.file = x ∧ (has repo0 x = false → m.params = some rq.kwargs) := by
  obtain ⟨c, rfl, hp, hn, _, hex⟩ := C27_created_exact W fuel repo0 repo' rq hfresh h
  have hcre : ∀ y, ReachNC W repo0 rq.kwargs rq.file y →
      ∃ m, m ∈ repo0 ++ c ∧ m.file = y ∧ m.params = some rq.kwargs := by
    intro y hy
    obtain ⟨m, hm, e⟩ := List.mem_map.1 ((hex y).2 hy)
    exact ⟨m, List.mem_append_right _ hm, e, hp m hm⟩
  refine ⟨hcre g hr, ?_⟩
  intro x hx
  cases hx0 : has repo0 x with
  | false =>
    obtain ⟨m, hm, e, hpm⟩ := hcre x (.step hr hx hx0)
    exact ⟨m, hm, e, fun _ => hpm⟩
  | true =>
    obtain ⟨m, hm, e⟩ := (has_iff repo0 x).1 hx0
    exact ⟨m, List.mem_append_left _ hm, e, fun hc => absurd hc (by simp)⟩

/-! ## the assert of `load_model`, the errors of a load -/

/-- **`assert model_params is not None` never fails** in a load started by `model_from_str` /
`model_from_file`: whenever a provider follows the imports of a model, that model's
`_tx_model_params` has been set (the `noParams` branch of the model is unreachable). -/
theorem C27_assert_holds (W : World) (fuel : Nat) (repo0 : Repo) (rq : Request) :
    load Gen.checkParamsBody W fuel repo0 rq ≠ .error .noParams := by
  intro h
  unfold load at h
  cases hf : runFor Gen.checkParamsBody rq.defs (rq.kwargs.map (·.1)) with
  | some k => simp [hf] at h
  | none =>
    simp only [hf] at h
    by_cases hs : rq.isStr = true
    · simp only [hs, Bool.not_true, Bool.false_eq_true, if_false] at h
      by_cases hc : (rq.viaFile && has repo0 rq.file) = true
      · simp [hc] at h
      · simp only [hc, Bool.false_eq_true, if_false] at h
        rcases loadFile_errs W fuel repo0 rq.file rq.kwargs _ h with e | ⟨_, e⟩ | ⟨_, e⟩ | e <;> cases e
    · simp [hs] at h

/-- **Acceptance, all cases** (generalises `C27_accept` and `C27_cached_main`: no hypothesis on the
kind of entry point or on the cache): when every keyword is declared, the parameter check is
invisible — the load is what it would be without the check. -/
theorem C27_accept_total (W : World) (fuel : Nat) (repo0 : Repo) (rq : Request)
    (hall : ∀ k, k ∈ rq.kwargs.map (·.1) → k ∈ rq.defs) :
    load Gen.checkParamsBody W fuel repo0 rq =
      if !rq.isStr then .error .notString
      else if rq.viaFile && has repo0 rq.file then .ok repo0
      else loadFile W fuel repo0 rq.file rq.kwargs := by
  have hcp := C27_check_params rq.defs (rq.kwargs.map (·.1))
  unfold checkParams at hcp
  unfold load
  have : runFor Gen.checkParamsBody rq.defs (rq.kwargs.map (·.1)) = none := by
    rw [hcp, List.find?_eq_none]
    intro k hk
    simpa using hall k hk
  simp only [this]

/-! ## the result does not depend on the fuel -/

/-- **More fuel changes nothing.**  Once a load did not stop for lack of fuel, every larger fuel
value gives the very same result (repository or error), for every world — no well-formedness
needed. -/
theorem C27_fuel_mono (W : World) (n m : Nat) (hnm : n ≤ m) (repo0 : Repo) (rq : Request)
    (hne : load Gen.checkParamsBody W n repo0 rq ≠ .error .fuel) :
    load Gen.checkParamsBody W m repo0 rq = load Gen.checkParamsBody W n repo0 rq := by
  unfold load at hne ⊢
  cases hf : runFor Gen.checkParamsBody rq.defs (rq.kwargs.map (·.1)) with
  | some k => rfl
  | none =>
    simp only [hf] at hne ⊢
    by_cases hs : rq.isStr = true
    · simp only [hs, Bool.not_true, Bool.false_eq_true, if_false] at hne ⊢
      by_cases hc : (rq.viaFile && has repo0 rq.file) = true
      · simp [hc]
      · simp only [hc, Bool.false_eq_true, if_false] at hne ⊢
        exact loadFile_more W n m hnm repo0 rq.file rq.kwargs hne
    · simp [hs]

/-- **The load is a function of the world**: with at least one unit of fuel per file the result
is the same for all fuel values (the fuel is an artefact of the model, not an input). -/
theorem C27_fuel_indep (W : World) (hW : W.WF) (fuel fuel' : Nat) (repo0 : Repo) (rq : Request)
    (hfile : rq.file < W.files.length)
    (hfresh : rq.viaFile = false → has repo0 rq.file = false)
    (h1 : W.files.length ≤ fuel) (h2 : W.files.length ≤ fuel') :
    load Gen.checkParamsBody W fuel repo0 rq = load Gen.checkParamsBody W fuel' repo0 rq := by
  have hne := C27_terminates W hW W.files.length repo0 rq hfile hfresh (Nat.le_refl _)
  rw [C27_fuel_mono W _ fuel h1 repo0 rq hne, C27_fuel_mono W _ fuel' h2 repo0 rq hne]

/-! ## non-vacuity: a three-file world with an import cycle and a cached model -/

/-- f0 imports f1 and f2; f1 imports f0 (cycle) and f2; f2 imports itself -/
def exWorld : World :=
  { files := [⟨[[1], [2]], true, false⟩, ⟨[[0, 2]], true, false⟩, ⟨[[2]], false, false⟩], prov := .importURI }

def exRq (kw : Params) : Request :=
  { defs := ["project_root", "p"], kwargs := kw, isStr := true, viaFile := true, file := 0 }

example : load Gen.checkParamsBody exWorld 3 [] (exRq [("p", "1")]) =
    .ok [⟨0, some [("p", "1")]⟩, ⟨1, some [("p", "1")]⟩, ⟨2, some [("p", "1")]⟩] := by rfl
example : load Gen.checkParamsBody exWorld 3 [⟨2, some []⟩] (exRq [("p", "1")]) =
    .ok [⟨2, some []⟩, ⟨0, some [("p", "1")]⟩, ⟨1, some [("p", "1")]⟩] := by rfl
example : load Gen.checkParamsBody exWorld 3 [] (exRq [("p", "1"), ("q", "2")]) =
    .error (.unknownParam "q") := by rfl
example : exWorld.WF := by
  refine ⟨?_, ?_⟩
  · decide
  · intro rel hit h; simp [exWorld] at h

/-! non-vacuity of `ReachNC`: with file 2 cached, file 1 is reached from file 0, file 2 is not
(and is not created: second `rfl` example above) -/
example : ReachNC exWorld [⟨2, some []⟩] [("p", "1")] 0 1 := .step (.refl rfl) (by decide) rfl
example : ¬ ReachNC exWorld [⟨2, some []⟩] [("p", "1")] 0 2 := fun h => by
  have := h.tgt_new
  simp [has] at this
/-- nothing is reachable from a cached main file -/
example (g : Nat) : ¬ ReachNC exWorld [⟨0, some []⟩] [("p", "1")] 0 g := fun h => by
  have := h.src_new
  simp [has] at this
/- `hall` of `C27_accept_total` -/
example : ∀ k, k ∈ (exRq [("p", "1")]).kwargs.map (·.1) → k ∈ (exRq [("p", "1")]).defs := by decide

end ParamsLoad
