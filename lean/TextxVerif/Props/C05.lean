import TextxVerif.Obj.Nav
import TextxVerif.Obj.Build
namespace Obj
end Obj
