import TextxVerif.Proofs.ObjBuild
import TextxVerif.Proofs.ObjChildren
import TextxVerif.Proofs.ObjClassTbl
import TextxVerif.Proofs.ObjRefs
/-!
# C05 — containment links and the model navigation API are consistent

Models: `Obj.build` / `processNode` (Obj/Build.lean) mirror `process_node` of
`textx/model.py` (instance stack, allocation, attribute filling, `parent` assignment after
the children are processed); `Obj.getModel`, `getParentOfType`, `getChildren`,
`getChildrenOfType` (Obj/Nav.lean) mirror the navigation API, including the id set of
`get_children` and the `hasattr(p, "parent")` loops (fuel).

Objects may be instances of user classes with their own `__bool__` / `__len__` / `__iter__` /
`__eq__` / `__hash__`.  The navigation functions never consult any of these (identity, `is not
None`, class name), so the heap model needs nothing for them; `process_node` asks an object
for its truth value in one place (the "Multiple assignments" guard), modelled by the parameter
`tr : Heap → Nat → Bool` (`bool(obj)` in the current state) over which the construction
theorems quantify.

`TreeHeap h` says that the containment attributes of a heap form a forest that agrees with
the parent pointers; reference attributes are arbitrary (cycles, back references).
`Reach h fol r x` = `x` is `r` or is reached from `r` through containment attributes, every
object on the way (except `r`) satisfying `fol`.

Histories (Obj/ClassTbl.lean): the navigation functions read `_tx_attrs` from the *class object*
of every element at the time of the call, and class objects outlive meta-models (user classes are
handed to one meta-model after the other, each re-initialising them).  `getChildrenH hist ph …` is
the call after the history `hist` of meta-model constructions on the plain Python objects `ph`;
the `C05_history_*` theorems say that only the construction that set the model's classes up last
counts, so all theorems above (stated for every heap) hold for every model after every history.
-/
namespace Obj

theorem Inv.empty : Inv St.empty := by
  refine ⟨⟨?_, ?_, ?_, ?_⟩, ?_⟩ <;> simp [St.empty, contIds, parentOf, Heap.get]

/-- **Model construction only produces tree-shaped heaps.**  Whatever parse tree
`process_node` is run on (any nesting of objects, abstract / match rule nodes and
assignments, any metamodel, any truthiness `tr` of the objects — falsy user class instances
included), if it finishes, the containment attributes and the `parent`
pointers of the resulting heap form a forest (each contained object points to its unique
container, containers are older than their contents, nothing is contained twice), and the
instance stack is empty again. -/
theorem C05_build_tree (tr : Heap → Nat → Bool) (mm : Nat → List MetaAttr) (root : PT) (v : Val) (s : St)
    (h : build tr mm root = some (v, s)) : TreeHeap s.heap ∧ s.stack = [] := by
  have := (processNode_post tr mm root St.empty v s Inv.empty h).1
  exact ⟨this.inv.tree, this.stack⟩

/-- **Parent links.**  In the heap built for a model whose root is the object `r`: the root has
no parent, and every object held by a containment attribute of an object `p` has
`parent = p`. -/
theorem C05_parent (tr : Heap → Nat → Bool) (mm : Nat → List MetaAttr) (root : PT) (r : Nat) (s : St)
    (h : build tr mm root = some (.obj r, s)) :
    parentOf s.heap r = none ∧ ∀ p c, c ∈ contIds s.heap p → parentOf s.heap c = some p := by
  have hp := processNode_post tr mm root St.empty (.obj r) s Inv.empty h
  refine ⟨?_, hp.1.inv.tree.parent_of_cont⟩
  have := (hp.2 r rfl).parent
  simpa [St.empty] using this

/-- **get_model.**  For every object `x` of the built model that is contained (transitively) in
the root `r` — and for `r` itself — `get_model(x)` is `r` (any fuel above `x` suffices: the
parent chain strictly decreases). -/
theorem C05_get_model (tr : Heap → Nat → Bool) (mm : Nat → List MetaAttr) (root : PT) (r : Nat) (s : St)
    (h : build tr mm root = some (.obj r, s)) (x : Nat) (hx : Reach s.heap (fun _ => true) r x)
    (fuel : Nat) (hf : x < fuel) : getModel s.heap fuel x = some r := by
  have hT := (C05_build_tree tr mm root _ s h).1
  exact getModel_of_reach hT (C05_parent tr mm root r s h).1 hx fuel hf

/-- **get_children returns nothing twice** (any selector, any `should_follow`, both orders,
any root, any fuel). -/
theorem C05_children_once {h : Heap} (T : TreeHeap h) (sel fol : Nat → Bool) (cf : Bool) (fuel root : Nat) :
    (getChildren h sel fol cf fuel root).Nodup := by
  rw [getChildren_eq T]
  exact ((descO_perm h fol cf fuel root).nodup_iff.mpr (desc_nodup T fuel root)).filter _

/-- **get_children returns exactly the contained objects that satisfy the selector**, where
"contained" honours `should_follow`: `x` is returned iff it satisfies `sel` and is the root
or is reached from it through containment attributes along objects satisfying `fol`.
(`h.length ≤ root + fuel`: enough fuel, e.g. `fuel = h.length`.)  Reference attributes play
no role. -/
theorem C05_children_mem {h : Heap} (T : TreeHeap h) (sel fol : Nat → Bool) (cf : Bool) (fuel root : Nat)
    (hf : h.length ≤ root + fuel) (x : Nat) :
    x ∈ getChildren h sel fol cf fuel root ↔ Reach h fol root x ∧ sel x = true := by
  rw [getChildren_eq T, List.mem_filter, mem_descO_iff]
  constructor
  · rintro ⟨h1, h2⟩; exact ⟨desc_reach fuel root x h1, h2⟩
  · rintro ⟨h1, h2⟩; exact ⟨reach_desc T h1 fuel hf, h2⟩

/-- **Order.**  If `a` contains `b` (transitively) and both are returned, `a` comes before `b`
— after it when `children_first` is set. -/
theorem C05_children_order {h : Heap} (T : TreeHeap h) (sel fol : Nat → Bool) (cf : Bool) (fuel root : Nat)
    (a b : Nat) (ha : a ∈ getChildren h sel fol cf fuel root) (hb : b ∈ getChildren h sel fol cf fuel root)
    (hab : Reach h (fun _ => true) a b) (hne : a ≠ b) :
    (if cf then [b, a] else [a, b]).Sublist (getChildren h sel fol cf fuel root) := by
  rw [getChildren_eq T] at ha hb ⊢
  rw [List.mem_filter, mem_descO_iff] at ha hb
  have := (desc_order T cf fuel root a b ha.1 hb.1 (hab.ancS T) hne).filter sel
  cases cf with
  | false => simpa [List.filter_cons, ha.2, hb.2] using this
  | true => simpa [List.filter_cons, ha.2, hb.2] using this

/-- **get_children_of_type**: exactly the contained objects (honouring `should_follow`) whose
class is `typ`, each once. -/
theorem C05_children_of_type {h : Heap} (T : TreeHeap h) (typ : Nat) (fol : Nat → Bool) (cf : Bool)
    (fuel root : Nat) (hf : h.length ≤ root + fuel) :
    (getChildrenOfType h typ fol cf fuel root).Nodup ∧
      ∀ x, x ∈ getChildrenOfType h typ fol cf fuel root ↔ Reach h fol root x ∧ clsOf h x = some typ := by
  unfold getChildrenOfType
  refine ⟨C05_children_once T _ fol cf fuel root, fun x => ?_⟩
  rw [C05_children_mem T _ fol cf fuel root hf x]
  simp

/-- **A type-directed search may skip sub-trees only when they hold no object of the type.**
`get_children_of_type` may be given (or may wrap the caller's `should_follow` in) a predicate
`worth` that refuses objects: Python's `lambda o: worth(o) and should_follow(o)`.  If `worth`
refuses only objects below which (themselves included, following `should_follow`) no object of
class `typ` lives, the result is the same list — same objects, same order, for both orders, any
start object, any fuel.  The hypothesis is about the *model* (the classes of the objects actually
contained), not about what a meta-model declares for an attribute: an attribute assigned from
several rules has the generic meta-class `OBJECT`, its declared type says nothing about the classes
below it. -/
theorem C05_children_of_type_pruned {h : Heap} (typ : Nat) (fol worth : Nat → Bool) (cf : Bool)
    (fuel root : Nat) (T : TreeHeap h)
    (hw : ∀ y, worth y = false → ∀ x, Reach h fol y x → clsOf h x ≠ some typ) :
    getChildrenOfType h typ (fun c => worth c && fol c) cf fuel root
      = getChildrenOfType h typ fol cf fuel root := by
  unfold getChildrenOfType
  rw [getChildren_eq T, getChildren_eq T]
  apply descO_filter_prune
  intro y hy x hx
  simpa using hw y hy x hx

/-- **References never introduce extra children.**  The result of `get_children` depends only
on which objects exist and on the contents of the containment attributes: two heaps that agree
on these (in particular: before / after reference resolution, or with any reference attribute
added, removed or retargeted) give the same result. -/
theorem C05_refs_inert {h h' : Heap} (hex : ∀ x, (h.get x).isSome = (h'.get x).isSome)
    (hc : ∀ x, contIds h x = contIds h' x) (sel fol : Nat → Bool) (cf : Bool) (fuel root : Nat) :
    getChildren h sel fol cf fuel root = getChildren h' sel fol cf fuel root :=
  follow_congr hex hc sel fol cf fuel root []

/-- … and storing anything into a reference (non-containment) attribute is such a change. -/
theorem C05_refs_inert_update (h : Heap) (x a : Nat) (g : AVal → AVal)
    (href : ∀ o m v, h.get x = some o → findAttr a o.attrs = some (m, v) → m.cont = false)
    (sel fol : Nat → Bool) (cf : Bool) (fuel root : Nat) :
    getChildren (h.updAttr x a g) sel fol cf fuel root = getChildren h sel fol cf fuel root := by
  apply C05_refs_inert
  · intro y
    by_cases hy : y = x
    · subst hy
      cases hg : h.get y with
      | none =>
        have : h.updAttr y a g = h := by unfold Heap.updAttr; rw [hg]
        rw [this, hg]
      | some o => simp [updAttr_get_eq hg]
    · rw [updAttr_get_ne hy]
  · intro y
    by_cases hy : y = x
    · subst hy
      cases hg : h.get y with
      | none =>
        have : h.updAttr y a g = h := by unfold Heap.updAttr; rw [hg]
        rw [this]
      | some o =>
        have key : ∀ attrs : List (MetaAttr × AVal),
            (∀ m v, findAttr a attrs = some (m, v) → m.cont = false) →
            contIdsL (updAttrs a g attrs) = contIdsL attrs := by
          intro attrs
          induction attrs with
          | nil => intro _; rfl
          | cons mv rest ih =>
            obtain ⟨m, v⟩ := mv
            intro hh
            unfold updAttrs
            by_cases hn : m.name = a
            · have := hh m v (by simp [findAttr, hn])
              simp [hn, contIdsL, this]
            · simp only [hn, if_false, contIdsL]
              rw [ih (fun m' v' hf => hh m' v' (by simpa [findAttr, hn] using hf))]
        simp only [contIds, updAttr_get_eq hg, hg, HObj.contIds]
        exact key o.attrs (fun m v hf => href o m v hg hf)
    · exact contIds_congr (updAttr_get_ne hy)

/-- **get_parent_of_type returns the nearest ancestor of the given type**: `anc h x` is the
parent chain of `x`, nearest first; the result is the first member of the chain whose class is
`typ`, `None` if there is none. -/
theorem C05_parent_of_type {h : Heap} (T : TreeHeap h) (typ x fuel : Nat) (hf : x < fuel) :
    getParentOfType h typ fuel x = some ((anc h x).find? (fun a => clsOf h a == some typ)) :=
  getParentOfType_eq T.parent_lt typ fuel x hf

/-- … where the parent chain of a contained object is its container followed by the
container's chain, and the chain of a parentless object is empty. -/
theorem C05_ancestors_contained {h : Heap} (T : TreeHeap h) :
    (∀ p c, c ∈ contIds h p → anc h c = p :: anc h p) ∧ (∀ r, parentOf h r = none → anc h r = []) :=
  ⟨fun p c hc => anc_of_parent T.parent_lt (T.parent_of_cont p c hc), fun _ hr => anc_of_root T.parent_lt hr⟩

/-! ## the abstract-rule branch of `process_node` (model.py 671-683) -/

/-- **Which child of an abstract-rule node is the model object.**  `processNode` on an abstract-rule
node with several children is stated here against the Python text, list comprehension by list
comprehension: with `nonterminals = [n for n in node if type(n) is not Terminal]`,
* the first of them whose rule is not a match rule is processed and is the result (match-rule
  `NonTerminal`s in front of it are used only for parsing);
* if all of them are match-rule nodes, the first one is processed (`process_node(nonterminals[0])`);
* if there is none, the result is the joined text (a truthy string), the state is untouched. -/
theorem C05_abstract_selection (tr : Heap → Nat → Bool) (mm : Nat → List MetaAttr) (k k2 : PT) (rest : List PT)
    (s : St) :
    (∀ n, ((k :: k2 :: rest).filter (fun n => !n.isTerm)).find? (fun n => !n.isMatchNT) = some n →
      processNode tr mm (.nt .abs (k :: k2 :: rest)) s = processNode tr mm n s) ∧
    (((k :: k2 :: rest).filter (fun n => !n.isTerm)).find? (fun n => !n.isMatchNT) = none →
      ∀ n, ((k :: k2 :: rest).filter (fun n => !n.isTerm)).head? = some n →
      processNode tr mm (.nt .abs (k :: k2 :: rest)) s = processNode tr mm n s) ∧
    ((k :: k2 :: rest).filter (fun n => !n.isTerm) = [] →
      processNode tr mm (.nt .abs (k :: k2 :: rest)) s = some (.prim true, s)) := by
  have hunf : processNode tr mm (.nt .abs (k :: k2 :: rest)) s
      = processFirstNT tr mm (abstractFallback (k :: k2 :: rest)) (k :: k2 :: rest) s := by
    simp only [processNode]
  refine ⟨?_, ?_, ?_⟩
  · intro n hn
    rw [hunf]
    exact processFirstNT_some tr mm _ s _ n hn
  · intro hnone n hn
    rw [hunf, processFirstNT_none tr mm _ s _ hnone]
    have hall : ∀ n ∈ (k :: k2 :: rest).filter (fun n => !n.isTerm), n.isMatchNT = true := by
      intro x hx
      have := List.find?_eq_none.mp hnone x hx
      simpa using this
    exact ((abstractFallback_spec tr mm s _ hall).1 n hn).symm
  · intro hnil
    have hnone : ((k :: k2 :: rest).filter (fun n => !n.isTerm)).find? (fun n => !n.isMatchNT) = none := by
      rw [hnil]; rfl
    have hall : ∀ n ∈ (k :: k2 :: rest).filter (fun n => !n.isTerm), n.isMatchNT = true := by
      intro x hx; rw [hnil] at hx; cases hx
    rw [hunf, processFirstNT_none tr mm _ s _ hnone, (abstractFallback_spec tr mm s _ hall).2 hnil]

/-- The pinned code took the first `NonTerminal` child whatever its rule (`next(n for n in node if
type(n) is not Terminal)`).  For `Wrapped: Mark Item | …; Mark: '<' '>';` the node of `Wrapped`
has the children [node of the match rule `Mark`, node of the common rule `Item`]: the pinned
selection picks the match-rule node — no object — where the repaired code (and `processNode`)
creates the `Item` object. -/
theorem C05_abstract_pinned_false :
    (([PT.nt (.mat true) [.term 0 1 false true, .term 1 1 false true],
      PT.nt (.obj 1) [.nt (.asgn 2 .plain) [.term 3 1 false true]]].find? (fun n => !n.isTerm)).map PT.isMatchNT
        = some true) ∧
    (processNode (fun _ _ => true) (fun _ => [⟨2, false, true⟩])
        (.nt .abs [.nt (.mat true) [.term 0 1 false true, .term 1 1 false true],
          .nt (.obj 1) [.nt (.asgn 2 .plain) [.term 3 1 false true]]]) St.empty).map (·.1) = some (.obj 0) := by
  decide

/-! ## the navigation API on the finished model: after reference resolution -/

/-- **Reference resolution does not disturb the containment tree.**  `h'`: the heap of a built model
after any number of stores into non-containment attributes (`RefUpdates`: what the reference
resolver does — single references, lists of references, unresolved ones, in any order, any values,
also references pointing back up the tree).  Then `h'` is still a containment tree with the same
parent links and containment lists, the root still has no parent, `get_children` returns what it
returned before resolution and exactly the contained objects satisfying the selector (in the sense
of `h'`), `get_model` is the root for every contained object, `get_parent_of_type` is unchanged. -/
theorem C05_nav_after_refs (tr : Heap → Nat → Bool) (mm : Nat → List MetaAttr) (root : PT) (r : Nat) (s : St)
    (h : build tr mm root = some (.obj r, s)) (h' : Heap) (hu : RefUpdates s.heap h') :
    TreeHeap h' ∧ (∀ x, parentOf h' x = parentOf s.heap x) ∧ (∀ x, contIds h' x = contIds s.heap x) ∧
    parentOf h' r = none ∧
    (∀ sel fol cf fuel rt, getChildren h' sel fol cf fuel rt = getChildren s.heap sel fol cf fuel rt) ∧
    (∀ sel fol cf fuel rt x, h'.length ≤ rt + fuel →
      (x ∈ getChildren h' sel fol cf fuel rt ↔ Reach h' fol rt x ∧ sel x = true)) ∧
    (∀ x fuel, Reach h' (fun _ => true) r x → x < fuel → getModel h' fuel x = some r) ∧
    (∀ typ fuel x, getParentOfType h' typ fuel x = getParentOfType s.heap typ fuel x) := by
  have e := hu.same
  have T := (C05_build_tree tr mm root _ s h).1
  have T' := e.tree T
  have hr : parentOf h' r = none := by rw [e.parent]; exact (C05_parent tr mm root r s h).1
  refine ⟨T', e.parent, e.cont, hr, ?_, ?_, ?_, ?_⟩
  · intro sel fol cf fuel rt
    exact C05_refs_inert e.ex e.cont sel fol cf fuel rt
  · intro sel fol cf fuel rt x hf
    exact C05_children_mem T' sel fol cf fuel rt hf x
  · intro x fuel hx hf
    exact getModel_of_reach T' hr hx fuel hf
  · intro typ fuel x
    exact getParentOfType_congr e.parent e.cls typ fuel x

/-! ## histories of meta-models: class objects that serve several grammars -/

/-- **Only the meta-model that initialised the model's classes last counts.**  `pre`: any
meta-models constructed earlier — with the same user classes set up for *other* grammars (more,
fewer or differently typed containment attributes), with generated classes of the same names, in
any number; `b`: the construction that initialises every class of the objects `ph`; `post`: later
constructions that leave those class objects alone or re-initialise them with the same attribute
list (a second meta-model of the same grammar).  Then the heap the navigation functions operate
on is the one given by `b` alone: nothing of `pre` is visible. -/
theorem C05_history_view (pre post : List MMBuild) (b : MMBuild) (ph : PHeap)
    (hb : ∀ o ∈ ph, o.cls ∈ b.classes)
    (hpost : ∀ b' ∈ post, ∀ o ∈ ph, ∀ as, (o.cls, as) ∈ b' → tblAfter [b] o.cls = some as) :
    ph.view (tblAfter (pre ++ b :: post)) = ph.view (tblAfter [b]) := by
  apply view_congr
  intro o ho
  exact tblAfter_at pre post b (fun c => ∃ o ∈ ph, o.cls = c) (by rintro c ⟨o, ho, rfl⟩; exact hb o ho)
    (by rintro b' hb' c as ⟨o, ho, rfl⟩ hm; exact hpost b' hb' o ho as hm) o.cls ⟨o, ho, rfl⟩

/-- … hence every navigation function returns after the history what it returns in a process in
which `b` is the only meta-model ever built. -/
theorem C05_history_navigation (pre post : List MMBuild) (b : MMBuild) (ph : PHeap)
    (hb : ∀ o ∈ ph, o.cls ∈ b.classes)
    (hpost : ∀ b' ∈ post, ∀ o ∈ ph, ∀ as, (o.cls, as) ∈ b' → tblAfter [b] o.cls = some as) :
    (∀ sel fol cf fuel root, getChildrenH (pre ++ b :: post) ph sel fol cf fuel root = getChildrenH [b] ph sel fol cf fuel root) ∧
    (∀ typ fol cf fuel root, getChildrenOfTypeH (pre ++ b :: post) ph typ fol cf fuel root
        = getChildrenOfTypeH [b] ph typ fol cf fuel root) ∧
    (∀ fuel x, getModelH (pre ++ b :: post) ph fuel x = getModelH [b] ph fuel x) ∧
    (∀ typ fuel x, getParentOfTypeH (pre ++ b :: post) ph typ fuel x = getParentOfTypeH [b] ph typ fuel x) := by
  have e := C05_history_view pre post b ph hb hpost
  refine ⟨?_, ?_, ?_, ?_⟩ <;> intros <;>
    simp only [getChildrenH, getChildrenOfTypeH, getModelH, getParentOfTypeH, e]

/-- **After any history the navigation functions operate on the model as it was built.**  `h`: a
heap whose objects carry the attribute lists that `b` gave their classes (what `process_node` run
with the meta-model `b` produces; attribute names of a class are distinct), `ident`: which class
object serves which rule.  Stripped of all meta data (`Heap.forget`: class identity, `parent`,
instance dictionary — what Python stores) and viewed through the class table after
`pre ++ b :: post`, it is `h` again.  So `C05_children_mem`, `C05_children_order`, … (stated for
every heap) describe the calls after every such history. -/
theorem C05_history_model (pre post : List MMBuild) (b : MMBuild) (ident : Nat → Nat) (h : Heap)
    (hb : ∀ o ∈ h, tblAfter [b] (ident o.cls) = some (o.attrs.map (·.1)))
    (hnd : ∀ o ∈ h, (o.attrs.map (·.1.name)).Nodup)
    (hpost : ∀ b' ∈ post, ∀ o ∈ h, ∀ as, (ident o.cls, as) ∈ b' → as = o.attrs.map (·.1)) :
    (h.forget ident).view (tblAfter (pre ++ b :: post)) = h := by
  have e1 : tblAfter [b] = ClassTbl.empty.build b := by simp [tblAfter]
  rw [C05_history_view pre post b (h.forget ident)]
  · unfold Heap.forget PHeap.view
    rw [List.map_map]
    conv => rhs; rw [← List.map_id h]
    apply List.map_congr_left
    intro o ho
    exact view_forget _ ident o (hb o ho) (hnd o ho)
  · intro o' ho'
    obtain ⟨o, ho, rfl⟩ := List.mem_map.mp ho'
    apply Classical.byContradiction
    intro hn
    have hn' : ident o.cls ∉ b.classes := hn
    have := hb o ho
    rw [e1, build_untouched b _ _ hn'] at this
    simp [ClassTbl.empty] at this
  · intro b' hb' o' ho' as hm
    obtain ⟨o, ho, rfl⟩ := List.mem_map.mp ho'
    have hm' : (ident o.cls, as) ∈ b' := hm
    rw [hpost b' hb' o ho as hm']
    exact hb o ho

/-! non-vacuity: two versions of a language served by the same classes.
v1 `Plan: name=ID tasks+=Task; Task: name=ID ('then' next=Task)?;`
v2 `Plan: name=ID tasks+=Task; Task: name=ID ('then' next=[Task])? ('{' subtasks+=Task '}')?;`
class objects 0 (`Plan`) and 1 (`Task`) are handed to both; attribute names: 0 `name`, 1 `tasks`,
2 `next`, 3 `subtasks`.  The v2 model `build then ship { compile }  ship then build`. -/
def exV1 : MMBuild := [(0, [⟨0, false, true⟩, ⟨1, true, true⟩]), (1, [⟨0, false, true⟩, ⟨2, false, true⟩])]
def exV2 : MMBuild :=
  [(0, [⟨0, false, true⟩, ⟨1, true, true⟩]), (1, [⟨0, false, true⟩, ⟨2, false, false⟩, ⟨3, true, true⟩])]

def exPlan : PHeap :=
  [⟨0, 0, none, 0, 0, [(0, .one (.prim true)), (1, .many [.obj 1, .obj 3])]⟩,
   ⟨1, 1, some 0, 0, 0, [(0, .one (.prim true)), (2, .one (.obj 3)), (3, .many [.obj 2])]⟩,
   ⟨1, 1, some 1, 0, 0, [(0, .one (.prim true)), (2, .one .none), (3, .many [])]⟩,
   ⟨1, 1, some 0, 0, 0, [(0, .one (.prim true)), (2, .one (.obj 1)), (3, .many [])]⟩]

example : exPlan.conforms (tblAfter [exV1, exV2]) = true := by decide
example : getChildrenH [exV1, exV2] exPlan (fun _ => true) (fun _ => true) false 5 0 = [0, 1, 2, 3] := by decide
example : getChildrenH [exV1, exV2] exPlan (fun _ => true) (fun _ => true) true 5 1 = [2, 1] := by decide
example : getChildrenOfTypeH [exV1, exV2] exPlan 1 (fun _ => true) false 5 3 = [3] := by decide
/-- what a traversal driven by the attribute list of v1 (a list cached per class object and not
renewed by the second construction) would return instead: `subtasks` not followed, the reference
`next` followed -/
example : getChildrenH [exV1] exPlan (fun _ => true) (fun _ => true) false 5 0 = [0, 1, 3] := by decide

/-- The hypothesis about `post` in `C05_history_view` cannot be dropped: a later meta-model that
sets the same class objects up for another grammar changes what the navigation functions see of
the earlier model (a class object describes one grammar at a time). -/
theorem C05_history_rebind_false :
    ¬ ∀ (pre post : List MMBuild) (b : MMBuild) (ph : PHeap), (∀ o ∈ ph, o.cls ∈ b.classes) →
      ph.view (tblAfter (pre ++ b :: post)) = ph.view (tblAfter [b]) := by
  intro h
  have := h [] [exV1] exV2 exPlan (by decide)
  revert this
  decide

/-! ## non-vacuity: a concrete model

`Model: 'm' kids+=Kid other=Kid; Kid: name=ID (sub=Kid)?;` — root (class 0) with a list of two
kids (class 1), the first of which contains a third one, and one more kid in `other`. -/
def exMM : Nat → List MetaAttr := fun c =>
  if c = 0 then [⟨0, true, true⟩, ⟨1, false, true⟩, ⟨9, false, false⟩] else [⟨2, false, true⟩, ⟨3, false, true⟩]

def exKid (p : Nat) (sub : List PT) : PT :=
  .nt (.obj 1) (.nt (.asgn 2 .plain) [.term p 1 false true] :: sub)

def exTree : PT :=
  .nt (.obj 0) [.term 0 1 false true,
    .nt (.asgn 0 .many) [exKid 2 [.nt (.asgn 3 .plain) [exKid 4 []]], exKid 6 []],
    .nt (.asgn 1 .plain) [exKid 8 []]]

/-- every object truthy (generic textX classes) -/
def exTruthy : Heap → Nat → Bool := fun _ _ => true

def exHeap : Heap := match build exTruthy exMM exTree with
  | some (_, s) => s.heap
  | none => []

example : (build exTruthy exMM exTree).map (·.1) = some (.obj 0) := by decide
example : (exHeap.map (·.parent)) = [none, some 0, some 1, some 0, some 0] := by decide
example : getChildren exHeap (fun _ => true) (fun _ => true) false 5 0 = [0, 1, 2, 3, 4] := by decide
example : getChildren exHeap (fun x => x != 1) (fun _ => true) true 5 0 = [2, 3, 4, 0] := by decide
example : getChildren exHeap (fun _ => true) (fun x => x != 1) false 5 0 = [0, 3, 4] := by decide
example : getParentOfType exHeap 0 5 2 = some (some 0) := by decide
example : getModel exHeap 5 2 = some 0 := by decide

/-! Falsy objects (a user class with `__bool__` / `__len__`).  A parse tree that assigns the
single-valued containment attribute `other` twice: with truthy kids the "Multiple assignments"
guard stops the load; when `Kid` instances are falsy the guard does not see the first kid, the
second assignment replaces it — the first kid keeps its `parent` but is in no attribute, and
the heap is still a containment tree (`C05_build_tree` covers both). -/
def exTwice : PT :=
  .nt (.obj 0) [.term 0 1 false true, .nt (.asgn 1 .plain) [exKid 2 []], .nt (.asgn 1 .plain) [exKid 4 []]]

/-- instances of class 1 are falsy while their `sub` is empty (container-like `__len__`) -/
def exEmptyFalsy : Heap → Nat → Bool := fun h x =>
  match h.get x with
  | some o => o.cls != 1 || o.attrs.any (fun (m, v) => m.name == 3 && v != .one .none)
  | none => true

example : build exTruthy exMM exTwice = none := by decide
example : (build exEmptyFalsy exMM exTwice).map (fun r => (contIds r.2.heap 0, r.2.heap.map (·.parent)))
    = some ([2], [none, some 0, some 0]) := by decide

/-! reference resolution on the example: the reference attribute 9 of the root is set to the root
itself (a reference back up the tree), then to a list — `RefUpdates` is inhabited beyond `refl` -/
theorem exRefAttr : IsRefAttr exHeap 0 9 := by
  intro o m v ho hf
  have h0 : exHeap.get 0 = some ⟨0, none, 0, 9, [(⟨0, true, true⟩, .many [.obj 1, .obj 3]), (⟨1, false, true⟩, .one (.obj 4)),
      (⟨9, false, false⟩, .one .none)]⟩ := by decide
  rw [h0] at ho
  cases ho
  simp [findAttr] at hf
  rw [← hf.1]

example : RefUpdates exHeap (exHeap.updAttr 0 9 (fun _ => .one (.obj 0))) :=
  .step 0 9 _ (.refl _) exRefAttr
example : getChildren (exHeap.updAttr 0 9 (fun _ => .one (.obj 0))) (fun _ => true) (fun _ => true) false 5 0
    = [0, 1, 2, 3, 4] := by decide

/-! an abstract-rule node whose first `NonTerminal` child comes from a match rule: the object of the
common rule behind it is the result (`C05_abstract_selection`, first clause) -/
example : (build exTruthy exMM (.nt (.obj 0) [.term 0 1 false true,
      .nt (.asgn 1 .plain) [.nt .abs [.nt (.mat true) [.term 2 1 false true, .term 3 1 false true], exKid 4 []]]])).map
      (fun r => (r.1, contIds r.2.heap 0)) = some (.obj 0, [1]) := by decide


/-! ## pruning: the seeded optimisation in miniature

`Config: entries+=Entry; Entry: name=ID (value=List | value=Map | value=Scalar); Scalar: v=INT;` — root (class 0)
holds an entry (class 1) whose single containment attribute (multi-typed in the grammar, meta-class `OBJECT`) holds an
object of class 2. -/
def exPruneMM : Nat → List MetaAttr := fun c => [⟨c, c == 0, true⟩]

def exPruneTree : PT :=
  .nt (.obj 0) [.term 0 1 false true,
    .nt (.asgn 0 .many) [.nt (.obj 1) [.term 2 1 false true,
      .nt (.asgn 1 .plain) [.nt (.obj 2) [.nt (.asgn 2 .plain) [.term 4 1 false true]]]]]]

def exPruneHeap : Heap := match build exTruthy exPruneMM exPruneTree with
  | some (_, s) => s.heap
  | none => []

example : exPruneHeap.map (fun o => (o.cls, o.parent)) = [(0, none), (1, some 0), (2, some 1)] := by decide
example : getChildrenOfType exPruneHeap 2 (fun _ => true) false 3 0 = [2] := by decide
/-- a sound `worth` (refuses nothing that leads to class 2) is inert … -/
example : getChildrenOfType exPruneHeap 1 (fun c => c != 2 && true) true 3 0 = [1] := by decide

theorem exPruneTreeHeap : TreeHeap exPruneHeap := by
  cases hb : build exTruthy exPruneMM exPruneTree with
  | none => exact absurd hb (by decide)
  | some r =>
    have := (C05_build_tree exTruthy exPruneMM exPruneTree r.1 r.2 hb).1
    simpa [exPruneHeap, hb] using this

/-- … and the hypothesis of `C05_children_of_type_pruned` cannot be dropped: a `worth` that refuses the entry
("nothing of class 2 can live below an attribute of type `OBJECT`") loses the object below it. -/
theorem C05_children_of_type_pruned_false :
    ¬ ∀ (h : Heap) (typ : Nat) (fol worth : Nat → Bool) (cf : Bool) (fuel root : Nat), TreeHeap h →
      getChildrenOfType h typ (fun c => worth c && fol c) cf fuel root
        = getChildrenOfType h typ fol cf fuel root := by
  intro hall
  have := hall exPruneHeap 2 (fun _ => true) (fun c => c != 1) false 3 0 exPruneTreeHeap
  revert this
  decide

end Obj
