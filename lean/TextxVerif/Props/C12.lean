import TextxVerif.Proofs.RrelSyntaxRange
import TextxVerif.Proofs.RrelCore
/-!
# C12 — printed RREL expressions re-parse to equivalent expressions

Model (`TextxVerif/RrelSyntax.lean`): `printExpr` mirrors the eight `__repr__`
methods of `textx/scoping/rrel.py` (after the two repairs), `parse` mirrors the
Arpeggio grammar `rrel_standalone` (PEG ordered choice, greedy `(X sep)* X`,
whitespace skipping before each terminal, the terminal regular expressions in
backtracking order) fused with `RRELVisitor` and the constructors' rewrites.

`wfExpr cc e` says that `e` is an RREL expression: flags over `m p`; sequences
and paths non-empty; dots only as first path element, at least one dot; names
and types are identifiers (`rrel_id`); a fixed name sits on a non-consuming
navigation and has a notation (`printable`: it lexes back under `'…'` or `"…"`).
The theorems hold for every such tree and every character classification `cc`
in which the RREL punctuation is not `\w` (`CC.Sane`).
-/
namespace RrelSyntax

/-- **Round trip.** Parsing the printed form of any RREL expression yields the
same tree (structure, names, fixed names, dots, brackets, stars) and the same flags. -/
theorem C12_roundtrip (cc : CC) (hs : cc.Sane) (e : Expr) (hw : wfExpr cc e = true) :
    parse cc (printExpr e) = some e :=
  parse_print hs hw

/-- **Evaluation.** Whatever is computed from an expression (`ev`: any evaluator,
e.g. `rrel.find` on a fixed model and name) gives the same result on the
re-parsed expression. -/
theorem C12_eval {α : Type} (ev : Expr → α) (cc : CC) (hs : cc.Sane) (e : Expr) (hw : wfExpr cc e = true) :
    (parse cc (printExpr e)).map ev = some (ev e) := by
  rw [C12_roundtrip cc hs e hw]; rfl

/-- **Evaluation, concretely** (the statement's second sentence).  `evalExpr H n e o ns cls`
(`TextxVerif/RrelCore.lean`) is `rrel.find(o, ns, e, cls, use_proxy=e.use_proxy)` on the model `H`:
the object tree `e` is read as the evaluation calculus of C11 (`toCore`: brackets, `*`, the
`RRELSequence` / `RRELPath` lists, node identities in preorder), the flags decide whether the
other models are searched (`+m:`, `heapFor`) and whether a proxy with its path is returned
(`+p:`, `answerOf`), and `Rrel.find` is the search the `C11_*` theorems speak about.
For every RREL expression, every model, start object, name, class and fuel: the expression
has an evaluation, and the expression re-parsed from its printed form evaluates to the same
answer (object, proxy path, unknown, postponed). -/
theorem C12_eval_find (cc : CC) (hs : cc.Sane) (e : Expr) (hw : wfExpr cc e = true)
    (H : Rrel.Heap) (n : Nat) (o : Rrel.Obj) (ns : List String) (cls : Option String) :
    ∃ a, evalExpr H n e o ns cls = some a ∧
      (parse cc (printExpr e)).bind (fun e' => evalExpr H n e' o ns cls) = some a := by
  have hc : (toCore e).isSome = true := toCore_isSome (cc := cc) (okf := printable) e (by rw [gwfExpr_printable]; exact hw)
  obtain ⟨ps, hps⟩ := Option.isSome_iff_exists.mp hc
  refine ⟨answerOf e.useProxy (Rrel.find (heapFor H e) n ps o ns cls), by simp [evalExpr, hps], ?_⟩
  rw [C12_roundtrip cc hs e hw]
  simp [evalExpr, hps]

/-- **Evaluation of parsed expressions**: for every text the parser accepts, the expression
re-parsed from the printed form evaluates like the parsed one — provided no fixed name ends
with a backslash (`_partial` for the same reason as `C12_parsed_partial`, C12-KF1). -/
theorem C12_parsed_eval_partial (cc : CC) (hs : cc.Sane) (s : Str) (e : Expr) (hp : parse cc s = some e)
    (hb : ∀ f ∈ fixedNames e, endsWithBackslash f = false)
    (H : Rrel.Heap) (n : Nat) (o : Rrel.Obj) (ns : List String) (cls : Option String) :
    ∃ a, evalExpr H n e o ns cls = some a ∧
      (parse cc (printExpr e)).bind (fun e' => evalExpr H n e' o ns cls) = some a :=
  C12_eval_find cc hs e (wfExpr_of_lexable (parse_sound hp) hb) H n o ns cls

/-- **Core of an expression.** Every RREL expression has a core; it has as many top-level
alternatives as the expression (at least one), and its node identities are pairwise
distinct — the hypothesis `hid` of `C11_complete` / `C11_precedence` / `C11_resolves`. -/
theorem C12_core (cc : CC) (e : Expr) (hw : wfExpr cc e = true) :
    ∃ ps, toCore e = some ps ∧ ps ≠ [] ∧ (ps.flatMap Rrel.E.ids).Nodup := by
  have hc : (toCore e).isSome = true := toCore_isSome (cc := cc) (okf := printable) e (by rw [gwfExpr_printable]; exact hw)
  obtain ⟨ps, hps⟩ := Option.isSome_iff_exists.mp hc
  refine ⟨ps, hps, coreTop_ne_nil e.seq 0 ps hps ?_, toCore_nodup e ps hps⟩
  simp only [wfExpr, wfSeq, Bool.and_eq_true, Bool.not_eq_true', List.isEmpty_eq_false_iff] at hw
  exact hw.2.2

/-- … and so has everything `rrel.parse` returns (fixed names ending with a backslash included). -/
theorem C12_parsed_core (cc : CC) (s : Str) (e : Expr) (hp : parse cc s = some e) :
    ∃ ps, toCore e = some ps ∧ ps ≠ [] ∧ (ps.flatMap Rrel.E.ids).Nodup := by
  have hg := parse_sound hp
  have hc : (toCore e).isSome = true := toCore_isSome e hg
  obtain ⟨ps, hps⟩ := Option.isSome_iff_exists.mp hc
  refine ⟨ps, hps, coreTop_ne_nil e.seq 0 ps hps ?_, toCore_nodup e ps hps⟩
  simp only [gwfExpr, gwfSeq, Bool.and_eq_true, Bool.not_eq_true', List.isEmpty_eq_false_iff] at hg
  exact hg.2.2

/-- **Sub-expressions.** A printed sequence is read back in every context in
which a sequence can stand (end of text or a closing bracket follows), with any
nesting fuel above its bracket depth — the statement the induction runs on. -/
theorem C12_roundtrip_seq (cc : CC) (hs : cc.Sane) (s : Seq) (hw : wfSeq cc s = true) (n : Nat)
    (hn : depthPaths s < n) (rest : Str) (hr : HeadP stopSeq rest) :
    parseSeq cc n (printSeq s ++ rest) = some (s, rest) :=
  good_parseSeq hs n s rest hn hw hr

/-- **Parser range.** Everything `rrel.parse` returns satisfies the shape conditions of
`wfExpr`, with fixed names that have a notation or end with a backslash (`lexable`). -/
theorem C12_parse_range (cc : CC) (s : Str) (e : Expr) (hp : parse cc s = some e) :
    gwfExpr cc lexable e = true :=
  parse_sound hp

/-- **Round trip of parsed expressions** (no well-formedness hypothesis): for every
text `s` the parser accepts, the printed form of the result parses back to the same
expression, provided no fixed name of it ends with a backslash.
`_partial`: the proviso cannot be dropped — `C12_trailing_backslash_false` (open
known finding C12-KF1). -/
theorem C12_parsed_partial (cc : CC) (hs : cc.Sane) (s : Str) (e : Expr) (hp : parse cc s = some e)
    (hb : ∀ f ∈ fixedNames e, endsWithBackslash f = false) : parse cc (printExpr e) = some e :=
  C12_roundtrip cc hs e (wfExpr_of_lexable (parse_sound hp) hb)

/-- `wfExpr` is not narrower than the language: every well-formed tree is the parse of some text. -/
theorem C12_wf_in_range (cc : CC) (hs : cc.Sane) (e : Expr) (hw : wfExpr cc e = true) :
    ∃ s, parse cc s = some e :=
  ⟨printExpr e, C12_roundtrip cc hs e hw⟩

/-- **Printing is unambiguous.** Two RREL expressions with the same printed form are the same
expression: `__repr__` loses no structure, flag, fixed name, dot count, bracket or star. -/
theorem C12_print_injective (cc : CC) (hs : cc.Sane) (e₁ e₂ : Expr)
    (h₁ : wfExpr cc e₁ = true) (h₂ : wfExpr cc e₂ = true) (h : printExpr e₁ = printExpr e₂) : e₁ = e₂ := by
  have a := C12_roundtrip cc hs e₁ h₁
  rw [h, C12_roundtrip cc hs e₂ h₂] at a
  exact (Option.some.inj a).symm

/-- **The printed form is a normal form of the text.** For every accepted text `s` (no fixed
name ending with a backslash, C12-KF1): the printed form of the parse is accepted, it parses
to the same expression, and printing again gives the same string — `print ∘ parse` is
idempotent on texts, whatever whitespace or quoting style `s` used. -/
theorem C12_print_normal_form_partial (cc : CC) (hs : cc.Sane) (s : Str) (e : Expr) (hp : parse cc s = some e)
    (hb : ∀ f ∈ fixedNames e, endsWithBackslash f = false) :
    (parse cc (printExpr e)).map printExpr = some (printExpr e) := by
  rw [C12_parsed_partial cc hs s e hp hb]; rfl

/-- **Equivalent texts.** Two accepted texts have the same printed form exactly when they parse
to the same expression (under the C12-KF1 proviso for both): the printed form identifies the
expression among everything the parser can return. -/
theorem C12_same_print_iff_partial (cc : CC) (hs : cc.Sane) (s₁ s₂ : Str) (e₁ e₂ : Expr)
    (hp₁ : parse cc s₁ = some e₁) (hp₂ : parse cc s₂ = some e₂)
    (hb₁ : ∀ f ∈ fixedNames e₁, endsWithBackslash f = false)
    (hb₂ : ∀ f ∈ fixedNames e₂, endsWithBackslash f = false) :
    printExpr e₁ = printExpr e₂ ↔ e₁ = e₂ :=
  ⟨C12_print_injective cc hs e₁ e₂ (wfExpr_of_lexable (parse_sound hp₁) hb₁)
      (wfExpr_of_lexable (parse_sound hp₂) hb₂), fun h => by rw [h]⟩

/-- the ASCII classification used by the driver satisfies the hypothesis -/
theorem asciiCC_sane : asciiCC.Sane := ⟨by decide⟩

/-! ## negation witnesses -/

/-- `+p:a` -/
def wFlags : Expr := ⟨[[.nav ['a'] true none]], ['p']⟩

/-- The pinned `RRELExpression.__repr__` (flags printed only with `m`) violates the
property: `+p:a` is printed as `a`, which parses without flags. -/
theorem C12_pinned_flags_false :
    wfExpr asciiCC wFlags = true ∧ parse asciiCC (printExprPinned wFlags) = some ⟨wFlags.seq, []⟩ ∧
      (⟨wFlags.seq, []⟩ : Expr).flags ≠ wFlags.flags :=
  ⟨by decide, by rfl, by decide⟩

/-- `"it's"~a` -/
def wQuote : Expr := ⟨[[.nav ['a'] false (some ['i', 't', '\'', 's'])]], []⟩

/-- The pinned `RRELNavigation.__repr__` (always single quotes) violates the
property: `'it's'~a` does not parse, while the repaired printer's form does. -/
theorem C12_pinned_quote_false :
    wfExpr asciiCC wQuote = true ∧
      parse asciiCC ['\'', 'i', 't', '\'', 's', '\'', '~', 'a'] = none ∧
      printExpr wQuote = ['"', 'i', 't', '\'', 's', '"', '~', 'a'] :=
  ⟨by decide, by rfl, by decide⟩

/-- `'a\'~x,"b"~y` -/
def sBackslash : Str := ['\'', 'a', '\\', '\'', '~', 'x', ',', '"', 'b', '"', '~', 'y']
def wBackslash : Expr := ⟨[[.nav ['x'] false (some ['a', '\\'])], [.nav ['y'] false (some ['b'])]], []⟩

/-- The hypothesis `printable` cannot be dropped, not even for trees the parser
itself produces: a fixed name ending with a backslash has no notation that is
independent of what follows (open known finding C12-KF1). -/
theorem C12_trailing_backslash_false :
    parse asciiCC sBackslash = some wBackslash ∧ parse asciiCC (printExpr wBackslash) = none ∧
      wfExpr asciiCC wBackslash = false :=
  ⟨by rfl, by rfl, by decide⟩

/-! ## non-vacuity -/

example : fixedNames wBackslash = [['a', '\\'], ['b']] := by decide

/-- `+mp:..a.(~b,'x y'~c)*.parent(T),(d)` -/
def sample : Expr :=
  ⟨[[.dots 2, .nav ['a'] true none,
      .star [[.nav ['b'] false none], [.nav ['c'] false (some ['x', ' ', 'y'])]], .parent ['T']],
    [.brackets [[.nav ['d'] true none]]]], ['m', 'p']⟩

theorem sample_wf : wfExpr asciiCC sample = true := by decide
example : printExpr sample = "+mp:..a.(~b,'x y'~c)*.parent(T),(d)".toList := by decide
example : parse asciiCC (printExpr sample) = some sample := C12_roundtrip _ asciiCC_sane _ sample_wf
/-- the parser accepts layout the printer never writes; printing normalises it -/
example : (parse asciiCC " +mp: .. a . ( ~ b , 'x y' ~c )* . parent ( T ) , (d) ".toList).map printExpr =
    some "+mp:..a.(~b,'x y'~c)*.parent(T),(d)".toList := by decide +kernel
/-- two spellings of one expression (quoting style, layout) have one printed normal form
(`C12_print_normal_form_partial`, `C12_same_print_iff_partial`) -/
example : (parse asciiCC "a.\"x y\"~b".toList).map printExpr = some "a.'x y'~b".toList := by decide +kernel
example : (parse asciiCC " a . 'x y' ~ b ".toList).map printExpr = some "a.'x y'~b".toList := by decide +kernel
/-- the core of the sample: brackets → two guarded nodes, `*` → `star` over the sequence node,
identities 0 … 10 in preorder; the fixed name becomes a `fixed` step -/
example : toCore sample = some
    [.cat (.atom 0 (.dots 2)) (.cat (.atom 1 (.nav "a" .consume))
      (.cat (.star 2 (.grp 3 (.alt (.atom 4 (.nav "b" .tilde)) (.atom 5 (.nav "c" (.fixed "x y"))))))
        (.atom 6 (.parent "T")))),
     .grp 7 (.grp 8 (.atom 9 (.nav "d" .consume)))] := by decide
example : sample.importURI = true ∧ sample.useProxy = true ∧ wFlags.importURI = false := by decide
/-- not an object tree: no core (never a default) -/
example : toCore ⟨[[]], []⟩ = none ∧ toCore ⟨[[.brackets []]], []⟩ = none ∧
    toCore ⟨[[.nav ['a'] true (some ['x'])]], []⟩ = none := by decide
/-- `+p:a.~r` on a two-object model: the proxy path ends in the target although the last step
is not a name step; without `+p:` the object itself is returned -/
def evH : Rrel.Heap where
  parent o := if o = 0 then none else some 0
  attr o a := if o = 0 ∧ a = "a" then some [1] else if o = 1 ∧ a = "r" then some [2] else some []
  name o := if o = 1 then some "x" else if o = 2 then some "y" else none
  conf _ _ := true
  extra := []
  depth := 3
example : evalExpr evH 9 ⟨[[.nav ['a'] true none, .nav ['r'] false none]], ['p']⟩ 0 ["x"] none
      = some (.proxy [1, 2]) ∧
    evalExpr evH 9 ⟨[[.nav ['a'] true none, .nav ['r'] false none]], []⟩ 0 ["x"] none
      = some (.obj 2) ∧
    evalExpr evH 9 ⟨[[.nav ['a'] true none, .nav ['r'] false none]], []⟩ 0 ["z"] none
      = some .unknown := by decide
/-- `^` is the notation for `(..)*` -/
example : parse asciiCC "^a".toList = some ⟨[[.star [[.dots 2]], .nav ['a'] true none]], []⟩ := by rfl
example : parse asciiCC "a**".toList = none := by rfl

end RrelSyntax
