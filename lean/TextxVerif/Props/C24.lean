import TextxVerif.Proofs.RecSim
import TextxVerif.Proofs.RecUnsep
import TextxVerif.Wire  -- only so that building this module also builds what Drivers/Rec.lean needs
import TextxVerif.Gen.Grammars
/-!
# C24 — the self-hosted textX grammar agrees with the grammar compiler

Objects (all regenerated from the tree under test on every run, `Gen/Grammars.lean`):
`lang` = the Arpeggio parser model `ParserPython` builds from `textx/lang.py:textx_model`,
`tx` = the parser model textX compiles from `textx/textx.tx`, with one common token table.
Semantics: `Rec.parse`, the acceptance-relevant abstraction of the Arpeggio mirror
(`Peg/Rec.lean`); `Rec.accepts g L` / `Rec.rejects g L` = `parser.parse(input)` succeeds / raises
`NoMatch`, for the lexer `L` (input characters and the matched length of every token at every
position).

* `C24_bisim_sound` — soundness of the simulation checker, for **all** pairs of graphs, relations,
  shape tables, lexers, positions and fuel values (proved by induction on fuel, `Proofs/RecSim.lean`).
* `C24_check` — the checker accepts the generated graphs in both directions (kernel evaluation).
* `C24_agree_partial` — hence `lang` and `unsep tx unproved` accept, and reject, exactly the same
  inputs, for every lexer that satisfies the generated hypotheses `hyps`.

* `C24_bisim_sound_sep`, `C24_check_tx`, `C24_check_trap`, `C24_agree_tx_partial`, `C24_agree_tx_run_partial` —
  the step from `unsep tx unproved` to `tx` itself, under the hypothesis that no separator of the two RREL
  repetitions is followed by a non-element: for all positions (`NoTrailingSep`) or, much weaker, on the actual run
  (`CleanRun`, defined by the instrumented graph `trap tx unproved`).  See the section further down.
* `C24_never_bad` — the generated graphs never yield the "malformed model" result.

What is *not* proved (hence `_partial`): `unproved` lists the separator repetitions of `textx.tx`
(`paths+=RRELPath[',']`, `parts+=RRELPathPart['.']`) which `rrel.py` states as `(x sep)* x`.
`x+[sep]` and `(x sep)* x` are different PEG expressions (after `x sep` with no further `x` the
first one backtracks over the separator, the second one fails); they agree in the context of
the textX grammar only because nothing that may follow starts with the separator.  `unsep`
rewrites those nodes into the `rrel.py` formulation; the step from `tx` to `unsep tx unproved` is
covered by correspondence on every generated input (the driver evaluates both), not by proof.
`C24_sep_forms_differ` shows that the two formulations do differ for an abstract lexer.
The lexer hypotheses (`hyps`: which regular expressions never match the empty string, and
`STRING` = first of the two quoted-string regexes, `\w+` = first of builtin-name / `\w+`,
`\+[mp]+:` = first of the multi / proxy flag regexes) are facts about Python's `re`; the harness
checks them on the token tables of every generated input.
-/
namespace Rec
open Gen.Grammars

/-- **Checker soundness** (all graphs, all inputs, all fuel): if both shape tables are inductive,
`check` accepts the relation `R` and the lexer satisfies `H`, then for every pair accepted by `inR`
each result of the left node (success with shape and end position, failure, malformed model) is the
result of the right node for all sufficiently large fuel. -/
theorem C24_bisim_sound (s₁ s₂ : Side) (H : Hyps) (d : Nat) (R : Rel) (L : Lex)
    (hwf₁ : wfSh s₁.g H s₁.sh = true) (hwf₂ : wfSh s₂.g H s₂.sh = true)
    (hchk : check s₁ s₂ H d R = true) (hL : LexOk H L) (x y : Nat) (hxy : inR s₁ s₂ d R x y = true) :
    ∀ n c p, parse s₁.g L n x c p ≠ .fuel →
      ∃ m₀, ∀ m, m₀ ≤ m → parse s₂.g L m y c p = parse s₁.g L n x c p :=
  sim_sound hwf₁ hwf₂ hchk hL hxy

/-- both directions of a checked simulation give equal acceptance and equal rejection -/
theorem C24_accept_iff (s₁ s₂ : Side) (H : Hyps) (d : Nat) (R R' : Rel) (L : Lex)
    (hwf₁ : wfSh s₁.g H s₁.sh = true) (hwf₂ : wfSh s₂.g H s₂.sh = true)
    (h12 : check s₁ s₂ H d R = true) (h21 : check s₂ s₁ H d R' = true) (hL : LexOk H L) :
    (accepts s₁.g L ↔ accepts s₂.g L) ∧ (rejects s₁.g L ↔ rejects s₂.g L) := by
  have t12 := (check_base h12).2.1
  have t21 := (check_base h21).2.1
  constructor
  · constructor
    · rintro ⟨n, v, p, h⟩
      obtain ⟨m, hm⟩ := sim_sound hwf₁ hwf₂ h12 hL t12 n false 0 (by rw [h]; simp)
      exact ⟨m, v, p, by rw [hm m (Nat.le_refl _), h]⟩
    · rintro ⟨n, v, p, h⟩
      obtain ⟨m, hm⟩ := sim_sound hwf₂ hwf₁ h21 hL t21 n false 0 (by rw [h]; simp)
      exact ⟨m, v, p, by rw [hm m (Nat.le_refl _), h]⟩
  · constructor
    · rintro ⟨n, h⟩
      obtain ⟨m, hm⟩ := sim_sound hwf₁ hwf₂ h12 hL t12 n false 0 (by rw [h]; simp)
      exact ⟨m, by rw [hm m (Nat.le_refl _), h]⟩
    · rintro ⟨n, h⟩
      obtain ⟨m, hm⟩ := sim_sound hwf₂ hwf₁ h21 hL t21 n false 0 (by rw [h]; simp)
      exact ⟨m, by rw [hm m (Nat.le_refl _), h]⟩

/-- a parser cannot both accept and reject (results do not depend on the fuel) -/
theorem C24_not_both (g : Graph) (L : Lex) : ¬ (accepts g L ∧ rejects g L) := by
  rintro ⟨⟨n, v, p, h1⟩, ⟨m, h2⟩⟩
  have := parse_det g L (n := n) (m := m) (a := g.top) (c := false) (p := 0) (by rw [h1]; simp) (by rw [h2]; simp)
  rw [h1, h2] at this
  exact absurd this (by simp)

def langSide : Side := ⟨lang, langSh⟩
/-- `textx.tx` with the separator repetitions listed in `unproved` restated as in `rrel.py` -/
def txoSide : Side := ⟨unsep tx unproved, txoSh⟩

/-- the readable node lists of `Gen/Grammars.lean` are the packed tables the theorems are about -/
theorem C24_tables : agree lang langNodes 0 = true ∧ agree tx txNodes 0 = true := by
  constructor <;> decide +kernel

/-- the generated shape tables are inductive and the generated relation (and its converse) passes the
checker — kernel evaluation on the graphs dumped from the tree under test -/
theorem C24_check :
    wfSh langSide.g hyps langSide.sh = true ∧ wfSh txoSide.g hyps txoSide.sh = true ∧
    check langSide txoSide hyps depth rel = true ∧ check txoSide langSide hyps depth relInv = true := by
  refine ⟨?_, ?_, ?_, ?_⟩ <;> decide +kernel

/-- **C24 (partial).**  For every input and every lexer satisfying `hyps`, the grammar compiler's
parser (`lang.py`) and the self-hosted grammar (`textx.tx`, with the RREL separator repetitions in the
`rrel.py` formulation) accept the same inputs and reject the same inputs. -/
theorem C24_agree_partial (L : Lex) (hL : LexOk hyps L) :
    (accepts lang L ↔ accepts (unsep tx unproved) L) ∧ (rejects lang L ↔ rejects (unsep tx unproved) L) :=
  C24_accept_iff langSide txoSide hyps depth rel relInv L C24_check.1 C24_check.2.1 C24_check.2.2.1
    C24_check.2.2.2 hL


/-! ### from `unsep tx unproved` to `tx` itself: the follow-set fact as a checked hypothesis

`NoTrailingSep g i L` (`Peg/RecX.lean`): at the repetition node `i = OneOrMore(k, sep=s)`, whenever the
separator matches right after an element, the element does not fail after it.  Under this hypothesis
`x+[s]` and `(x s)* x` are in simulation (rules `sepC` / `sepD` of `checkX`, proved sound for all graphs in
`Proofs/RecUnsep.lean` by loop invariants relating the separator loop and the star loop). -/

/-- **Soundness of the extended checker** (all graphs, relations, lexers, positions, fuel): as
`C24_bisim_sound`, where the pairs listed in `exC` (`OneOrMore(z, sep=t)` on the left against
`Sequence[ZeroOrMore(Sequence[z, t]), z]` on the right) and `exD` (the converse) are justified by
`NoTrailingSep` at the repetition node. -/
theorem C24_bisim_sound_sep (s₁ s₂ : Side) (H : Hyps) (d : Nat) (R : Rel) (L : Lex) (exC exD : List (Nat × Nat))
    (hwf₁ : wfSh s₁.g H s₁.sh = true) (hwf₂ : wfSh s₂.g H s₂.sh = true)
    (hchk : checkX s₁ s₂ H d R exC exD = true) (hL : LexOk H L)
    (hC : ∀ ab, ab ∈ exC → NoTrailingSep s₁.g ab.1 L) (hD : ∀ ab, ab ∈ exD → NoTrailingSep s₂.g ab.2 L)
    (x y : Nat) (hxy : inR s₁ s₂ d R x y = true) :
    ∀ n c p, parse s₁.g L n x c p ≠ .fuel →
      ∃ m₀, ∀ m, m₀ ≤ m → parse s₂.g L m y c p = parse s₁.g L n x c p :=
  simX_sound hwf₁ hwf₂ hchk hL hC hD hxy

/-- two checked simulations with exceptional pairs give equal acceptance and equal rejection -/
theorem C24_accept_iff_sep (s₁ s₂ : Side) (H : Hyps) (d : Nat) (R R' : Rel) (L : Lex)
    (exC exD exC' exD' : List (Nat × Nat))
    (hwf₁ : wfSh s₁.g H s₁.sh = true) (hwf₂ : wfSh s₂.g H s₂.sh = true)
    (h12 : checkX s₁ s₂ H d R exC exD = true) (h21 : checkX s₂ s₁ H d R' exC' exD' = true) (hL : LexOk H L)
    (hC : ∀ ab, ab ∈ exC → NoTrailingSep s₁.g ab.1 L) (hD : ∀ ab, ab ∈ exD → NoTrailingSep s₂.g ab.2 L)
    (hC' : ∀ ab, ab ∈ exC' → NoTrailingSep s₂.g ab.1 L) (hD' : ∀ ab, ab ∈ exD' → NoTrailingSep s₁.g ab.2 L) :
    (accepts s₁.g L ↔ accepts s₂.g L) ∧ (rejects s₁.g L ↔ rejects s₂.g L) := by
  have t12 := (checkX_base h12).2.1
  have t21 := (checkX_base h21).2.1
  constructor
  · constructor
    · rintro ⟨n, v, p, h⟩
      obtain ⟨m, hm⟩ := simX_sound hwf₁ hwf₂ h12 hL hC hD t12 n false 0 (by rw [h]; simp)
      exact ⟨m, v, p, by rw [hm m (Nat.le_refl _), h]⟩
    · rintro ⟨n, v, p, h⟩
      obtain ⟨m, hm⟩ := simX_sound hwf₂ hwf₁ h21 hL hC' hD' t21 n false 0 (by rw [h]; simp)
      exact ⟨m, v, p, by rw [hm m (Nat.le_refl _), h]⟩
  · constructor
    · rintro ⟨n, h⟩
      obtain ⟨m, hm⟩ := simX_sound hwf₁ hwf₂ h12 hL hC hD t12 n false 0 (by rw [h]; simp)
      exact ⟨m, by rw [hm m (Nat.le_refl _), h]⟩
    · rintro ⟨n, h⟩
      obtain ⟨m, hm⟩ := simX_sound hwf₂ hwf₁ h21 hL hC' hD' t21 n false 0 (by rw [h]; simp)
      exact ⟨m, by rw [hm m (Nat.le_refl _), h]⟩

/-- `textx.tx` as compiled (the shape table of `unsep tx unproved` is also inductive for `tx`) -/
def txSide : Side := ⟨tx, txoSh⟩
/-- the exceptional pairs: every node of `unproved` against itself -/
def unprovedPairs : List (Nat × Nat) := unproved.map fun i => (i, i)

/-- the identity relation on the nodes of `tx` passes the extended checker between `tx` and
`unsep tx unproved` in both directions, the nodes of `unproved` being the only exceptional pairs —
kernel evaluation on the graph dumped from the tree under test -/
theorem C24_check_tx :
    wfSh txSide.g hyps txSide.sh = true ∧
    checkX txSide txoSide hyps 0 (idRel tx.size) unprovedPairs [] = true ∧
    checkX txoSide txSide hyps 0 (idRel tx.size) [] unprovedPairs = true := by
  refine ⟨?_, ?_, ?_⟩ <;> decide +kernel

/-- the rewriting `unsep` preserves acceptance and rejection of `tx` for every lexer without trailing
separators at the rewritten nodes -/
theorem C24_unsep_agree (L : Lex) (hL : LexOk hyps L) (hT : ∀ i, i ∈ unproved → NoTrailingSep tx i L) :
    (accepts tx L ↔ accepts (unsep tx unproved) L) ∧ (rejects tx L ↔ rejects (unsep tx unproved) L) := by
  have hP : ∀ ab, ab ∈ unprovedPairs → NoTrailingSep tx ab.1 L ∧ NoTrailingSep tx ab.2 L := by
    intro ab hab
    simp only [unprovedPairs, List.mem_map] at hab
    obtain ⟨i, hi, rfl⟩ := hab
    exact ⟨hT i hi, hT i hi⟩
  exact C24_accept_iff_sep txSide txoSide hyps 0 (idRel tx.size) (idRel tx.size) L unprovedPairs [] [] unprovedPairs
    C24_check_tx.1 C24_check.2.1 C24_check_tx.2.1 C24_check_tx.2.2 hL
    (fun ab h => (hP ab h).1) (fun _ h => by simp at h) (fun _ h => by simp at h) (fun ab h => (hP ab h).2)

/-- **C24, full statement about `textx.tx` itself** (not proved in this generality): for every lexer
satisfying `hyps`, the grammar compiler's parser and the self-hosted grammar accept the same inputs and
reject the same inputs. -/
def C24_agree_tx_statement : Prop :=
  ∀ L : Lex, LexOk hyps L → (accepts lang L ↔ accepts tx L) ∧ (rejects lang L ↔ rejects tx L)

/-- **C24 for `textx.tx` itself (partial).**  For every lexer satisfying `hyps` and without a trailing
separator at the two RREL repetitions (`NoTrailingSep tx i L` for `i ∈ unproved`: after `path ,` a path
follows, after `part .` a part follows), the grammar compiler's parser (`lang.py`) and the parser
compiled from `textx.tx` accept the same inputs and reject the same inputs.

Missing for `C24_agree_tx_statement`: the inputs on which a separator is followed by something that is
not an element (e.g. `A: b=[B|n|a.];`, see `C24_trailing_example`).  On those the two formulations of
the repetition give different results *locally* (`C24_sep_forms_differ`, `C24_notrail_needed`); that
both parsers nevertheless reject is a follow-set argument about the whole grammar and stays with the
correspondence (the driver evaluates `tx` and `unsep tx unproved` on every generated text). -/
theorem C24_agree_tx_partial (L : Lex) (hL : LexOk hyps L) (hT : ∀ i, i ∈ unproved → NoTrailingSep tx i L) :
    (accepts lang L ↔ accepts tx L) ∧ (rejects lang L ↔ rejects tx L) := by
  have h1 := C24_agree_partial L hL
  have h2 := C24_unsep_agree L hL hT
  exact ⟨h1.1.trans h2.1.symm, h1.2.trans h2.2.symm⟩

/-- the bounded scan of the driver refutes the hypothesis when it evaluates to `false` -/
theorem C24_notrail_scan (g : Graph) (i : Nat) (L : Lex) (F : Nat) (h : noTrailScanB g i L F = false) :
    ¬ NoTrailingSep g i L := fun hn => by
  rw [noTrailScan_of hn F] at h
  exact absurd h (by simp)

/-- the sufficient condition evaluated by the driver and in the examples below implies the hypothesis -/
theorem C24_notrail_table (g : Graph) (i : Nat) (input : Array Char) (tbl : List (Nat × Nat × Nat)) (F : Nat)
    (h : noTrailEndsB g i (Lex.ofTable input tbl) F (tableEnds tbl (sepTok g i)) = true) :
    NoTrailingSep g i (Lex.ofTable input tbl) :=
  noTrailTable_sound h

/-- `lexOkTable` decides the lexer hypotheses for table lexers -/
theorem C24_lexok_table (H : Hyps) (input : Array Char) (tbl : List (Nat × Nat × Nat))
    (h : lexOkTable H input tbl = true) : LexOk H (Lex.ofTable input tbl) :=
  lexOkTable_sound h


/-! ### the hypothesis restricted to the positions the parser really visits

`NoTrailingSep tx i L` quantifies over *all* positions, also those inside comments, strings and regular
expressions of the grammar text, which the RREL rules never see (`C24_unvisited_example`).  The
instrumented graph `trap tx unproved` (`Peg/RecX.lean`) guards each of the two separators by a lookahead
for the element, with a non-terminating alternative: its run terminates iff the actual run of `tx` meets
no trailing separator.  The guarded repetitions satisfy `NoTrailingSep` for *every* lexer
(`trap_notrail`), so the extended checker relates the instrumented graph to `tx` and to
`unsep tx unproved` without any hypothesis on the lexer beyond `hyps`. -/

/-- shape table of `trap tx unproved`: `tx`'s, then per guard `Sequence` (T), `And` (N), `OrderedChoice` (T), `ω` -/
def trapSh : ShTab := fun a =>
  if a < tx.size then txoSh a else
    match (a - tx.size) % 4 with
    | 0 => [.T]
    | 1 => [.N]
    | 2 => [.T]
    | _ => []
def trapSide : Side := ⟨trap tx unproved, trapSh⟩

def sepOf (g : Graph) (i : Nat) : List Nat :=
  match g.get i with
  | some nd => nd.sep.toList
  | none => []

/-- identity on the nodes of `tx`; each guarded separator is related to the plain separator -/
def trapRel : Rel := fun a =>
  if a < tx.size then [a]
  else if (a - tx.size) % 4 = 0 then
    (match unproved[(a - tx.size) / 4]? with
     | some i => sepOf tx i
     | none => [])
  else []

/-- kernel evaluation on the generated graph: the instrumented graph is well formed, its repetitions
are guarded, and it is related by the extended checker to `tx` (no exceptional pair) and to
`unsep tx unproved` (exceptional pairs: the guarded repetitions, for which `NoTrailingSep` is a theorem) -/
theorem C24_check_trap :
    wfSh trapSide.g hyps trapSide.sh = true ∧ (unproved.all fun i => trapOk trapSide i) = true ∧
    checkX trapSide txSide hyps 0 trapRel [] [] = true ∧
    checkX trapSide txoSide hyps 0 trapRel unprovedPairs [] = true := by
  refine ⟨?_, ?_, ?_, ?_⟩ <;> decide +kernel

/-- the actual run of `tx` on this input meets no trailing separator at the nodes of `unproved`:
the instrumented graph terminates -/
def CleanRun (L : Lex) : Prop :=
  ∃ n, parse (trap tx unproved) L n (trap tx unproved).top false 0 ≠ .fuel

theorem same_result {g₁ g₂ : Graph} {L : Lex} {r : Res} (hr : r ≠ .fuel)
    (h1 : ∃ m, parse g₁ L m g₁.top false 0 = r) (h2 : ∃ m, parse g₂ L m g₂.top false 0 = r) :
    (accepts g₁ L ↔ accepts g₂ L) ∧ (rejects g₁ L ↔ rejects g₂ L) := by
  have key : ∀ (g : Graph), (∃ m, parse g L m g.top false 0 = r) →
      (accepts g L ↔ ∃ v p, r = .ok v p) ∧ (rejects g L ↔ r = .fail) := by
    intro g ⟨m, hm⟩
    constructor
    · constructor
      · rintro ⟨n, v, p, h⟩
        have := parse_det g L (n := n) (m := m) (a := g.top) (c := false) (p := 0) (by rw [h]; simp) (by rw [hm]; exact hr)
        rw [h, hm] at this
        exact ⟨v, p, this.symm⟩
      · rintro ⟨v, p, h⟩
        exact ⟨m, v, p, by rw [hm, h]⟩
    · constructor
      · rintro ⟨n, h⟩
        have := parse_det g L (n := n) (m := m) (a := g.top) (c := false) (p := 0) (by rw [h]; simp) (by rw [hm]; exact hr)
        rw [h, hm] at this
        exact this.symm
      · intro h
        exact ⟨m, by rw [hm, h]⟩
  have k1 := key g₁ h1
  have k2 := key g₂ h2
  exact ⟨k1.1.trans k2.1.symm, k1.2.trans k2.2.symm⟩

/-- **C24 for `textx.tx` itself (partial, run-level hypothesis).**  For every lexer satisfying `hyps`
such that the actual run of the `textx.tx` parser meets no trailing RREL separator (`CleanRun L`:
the instrumented graph terminates — only positions the parser really visits count), the grammar
compiler's parser (`lang.py`) and the parser compiled from `textx.tx` accept the same inputs and
reject the same inputs.

Missing for `C24_agree_tx_statement`: the inputs on which the run does meet a trailing separator
(`A: b=[B|n|a.];`); both parsers reject those (correspondence on every generated text), but the proof
of that is a follow-set argument about the whole grammar. -/
theorem C24_agree_tx_run_partial (L : Lex) (hL : LexOk hyps L) (hrun : CleanRun L) :
    (accepts lang L ↔ accepts tx L) ∧ (rejects lang L ↔ rejects tx L) := by
  obtain ⟨n, hne⟩ := hrun
  have hs : trapSide.Ok hyps L := ⟨C24_check_trap.1, hL⟩
  have hT : ∀ ab, ab ∈ unprovedPairs → NoTrailingSep trapSide.g ab.1 L := by
    intro ab hab
    simp only [unprovedPairs, List.mem_map] at hab
    obtain ⟨i, hi, rfl⟩ := hab
    exact trap_notrail hs (List.all_eq_true.mp C24_check_trap.2.1 i hi)
  have t1 := simX_sound C24_check_trap.1 C24_check_tx.1 C24_check_trap.2.2.1 hL (fun _ h => by simp at h)
    (fun _ h => by simp at h) (checkX_base C24_check_trap.2.2.1).2.1 n false 0 hne
  have t2 := simX_sound C24_check_trap.1 C24_check.2.1 C24_check_trap.2.2.2 hL hT
    (fun _ h => by simp at h) (checkX_base C24_check_trap.2.2.2).2.1 n false 0 hne
  obtain ⟨m1, hm1⟩ := t1
  obtain ⟨m2, hm2⟩ := t2
  have h12 := same_result (g₁ := tx) (g₂ := unsep tx unproved) hne ⟨m1, hm1 m1 (Nat.le_refl _)⟩
    ⟨m2, hm2 m2 (Nat.le_refl _)⟩
  have h0 := C24_agree_partial L hL
  exact ⟨h0.1.trans h12.1.symm, h0.2.trans h12.2.symm⟩


/-- none of the generated graphs is malformed: `Rec.parse` never yields `.bad` on them — every run ends in
acceptance, rejection or `.fuel` (kernel evaluation of `noBadB`, then `parse_ne_bad` for all lexers,
nodes, positions and fuel) -/
theorem C24_never_bad (L : Lex) (n a : Nat) (c : Bool) (p : Nat) :
    (a < lang.size → parse lang L n a c p ≠ .bad) ∧ (a < tx.size → parse tx L n a c p ≠ .bad) ∧
    (a < (unsep tx unproved).size → parse (unsep tx unproved) L n a c p ≠ .bad) ∧
    (a < (trap tx unproved).size → parse (trap tx unproved) L n a c p ≠ .bad) :=
  ⟨parse_ne_bad (by decide +kernel) n a c p, parse_ne_bad (by decide +kernel) n a c p,
   parse_ne_bad (by decide +kernel) n a c p, parse_ne_bad (by decide +kernel) n a c p⟩

/-! ### why the RREL separator repetitions are left to correspondence: the two formulations differ -/

/-- `x+[s] s` as a parser model: 0 = Sequence[1, 3], 1 = OneOrMore(2, sep=3), 2 = 'x', 3 = 's' -/
def sepGraph : Graph :=
  { size := 4, top := 0, comments := none, skipws := false, ws := [],
    node := fun i => match i with
      | 0 => some { kind := .seq, kids := [1, 3] }
      | 1 => some { kind := .plus, kids := [2], sep := some 3 }
      | 2 => some { kind := .str, tok := 0 }
      | 3 => some { kind := .str, tok := 1 }
      | _ => none }

/-- the input `xs` -/
def sepLex : Lex :=
  { input := #['x', 's'], tok := fun t p => if (t = 0 ∧ p = 0) ∨ (t = 1 ∧ p = 1) then some 1 else none }

/-- `x+[s] s` accepts `xs` (the repetition gives the separator back), `(x s)* x s` does not: `unsep` is
not semantics preserving in general, so the agreement of `tx` with `unsep tx unproved` needs the
context of the grammar and is not claimed by `C24_agree_partial`. -/
theorem C24_sep_forms_differ : accepts sepGraph sepLex ∧ rejects (unsepNode sepGraph 1) sepLex ∧
    ¬ accepts (unsepNode sepGraph 1) sepLex := by
  have hr : rejects (unsepNode sepGraph 1) sepLex := ⟨10, by decide⟩
  exact ⟨⟨10, .T, 2, by decide⟩, hr, fun ha => C24_not_both _ _ ⟨ha, hr⟩⟩


/-- the hypothesis `NoTrailingSep` of `C24_agree_tx_partial` cannot be dropped from the checker rule: the
lexer of `C24_sep_forms_differ` violates it, and with it `x+[s] s` and `(x s)* x s` are related by `checkX` -/
theorem C24_notrail_needed : ¬ NoTrailingSep sepGraph 1 sepLex ∧
    checkX ⟨sepGraph, fun _ => [.T]⟩ ⟨unsepNode sepGraph 1, fun a => if a = 4 then [.E, .T] else [.T]⟩ ⟨[], []⟩ 0
      (idRel 4) [(1, 1)] [] = true :=
  ⟨C24_notrail_scan _ _ _ 10 (by decide), by decide⟩

/-! ### non-vacuity: real grammar texts with their real token tables (`Gen/Grammars.lean`) -/

/-- lexer of the text `A: b=[B|n|a.b,^c*]; // x⏎` (token table computed with Python's `re`) -/
def exOkLex : Lex := Lex.ofTable exOkInput exOkTable
/-- lexer of the text `A:b=[B|n|a.];` -/
def exTrailLex : Lex := Lex.ofTable exTrailInput exTrailTable

/-- all hypotheses of `C24_agree_tx_partial` hold for a real grammar text with RREL separator repetitions,
whitespace and a comment, and both graphs accept it (`lang` by kernel evaluation, `tx` by the theorem) -/
theorem C24_accepts_example : LexOk hyps exOkLex ∧ (∀ i, i ∈ unproved → NoTrailingSep tx i exOkLex) ∧
    accepts lang exOkLex ∧ accepts tx exOkLex := by
  have hL : LexOk hyps exOkLex := C24_lexok_table _ _ _ (by decide +kernel)
  have hT : ∀ i, i ∈ unproved → NoTrailingSep tx i exOkLex := by
    have hall : (unproved.all fun i => noTrailEndsB tx i exOkLex 60 (tableEnds exOkTable (sepTok tx i))) = true := by
      decide +kernel
    intro i hi
    exact C24_notrail_table _ _ _ _ 60 (List.all_eq_true.mp hall i hi)
  have ha : accepts lang exOkLex := ⟨400, .T, exOkInput.size, by decide +kernel⟩
  exact ⟨hL, hT, ha, (C24_agree_tx_partial _ hL hT).1.mp ha⟩

/-- a text with a trailing RREL separator: the lexer hypotheses hold, `NoTrailingSep` fails at the
`parts+=RRELPathPart['.']` repetition (so `C24_agree_tx_partial` does not speak about it), and `lang`,
`tx` and `unsep tx unproved` all reject it (kernel evaluation) -/
theorem C24_trailing_example : LexOk hyps exTrailLex ∧ (∃ i, i ∈ unproved ∧ ¬ NoTrailingSep tx i exTrailLex) ∧
    rejects lang exTrailLex ∧ rejects tx exTrailLex ∧ rejects (unsep tx unproved) exTrailLex := by
  refine ⟨C24_lexok_table _ _ _ (by decide +kernel), ?_, ⟨400, by decide +kernel⟩, ⟨400, by decide +kernel⟩,
    ⟨400, by decide +kernel⟩⟩
  have hex : (unproved.any fun i => !noTrailScanB tx i exTrailLex 100) = true := by decide +kernel
  obtain ⟨i, hi, hb⟩ := List.any_eq_true.mp hex
  exact ⟨i, hi, C24_notrail_scan _ _ _ 100 (by simpa using hb)⟩


/-- lexer of the text `A: 'a.';` -/
def exStrLex : Lex := Lex.ofTable exStrInput exStrTable

/-- the run-level hypothesis holds for the real text of `C24_accepts_example` -/
theorem C24_cleanrun_example : LexOk hyps exOkLex ∧ CleanRun exOkLex :=
  ⟨C24_accepts_example.1, 400, by decide +kernel⟩

/-- `A: 'a.';` — inside the string, `a` `.` is followed by a quote: the all-positions hypothesis
`NoTrailingSep` fails at a position the RREL rules never visit, the run-level hypothesis holds, and
`C24_agree_tx_run_partial` applies (both graphs accept) -/
theorem C24_unvisited_example : LexOk hyps exStrLex ∧ (∃ i, i ∈ unproved ∧ ¬ NoTrailingSep tx i exStrLex) ∧
    CleanRun exStrLex ∧ accepts lang exStrLex ∧ accepts tx exStrLex := by
  have hL : LexOk hyps exStrLex := C24_lexok_table _ _ _ (by decide +kernel)
  have hrun : CleanRun exStrLex := ⟨400, by decide +kernel⟩
  have ha : accepts lang exStrLex := ⟨400, .T, exStrInput.size, by decide +kernel⟩
  refine ⟨hL, ?_, hrun, ha, (C24_agree_tx_run_partial _ hL hrun).1.mp ha⟩
  have hex : (unproved.any fun i => !noTrailScanB tx i exStrLex 100) = true := by decide +kernel
  obtain ⟨i, hi, hb⟩ := List.any_eq_true.mp hex
  exact ⟨i, hi, C24_notrail_scan _ _ _ 100 (by simpa using hb)⟩

/-- on the text with a trailing RREL separator the instrumented run does not terminate within fuel 400
(kernel evaluation; the guard diverges) -/
theorem C24_trailing_trap_example :
    parse (trap tx unproved) exTrailLex 400 (trap tx unproved).top false 0 = .fuel := by decide +kernel

/-! ### non-vacuity -/

theorem firstTok_none (p : Nat) (ts : List Nat) : firstTok ⟨#[], fun _ _ => none⟩ p ts = none := by
  induction ts with
  | nil => rfl
  | cons t ts ih => simp only [firstTok]; exact ih

/-- the lexer hypotheses are satisfiable, whatever the generated `hyps` are -/
example (H : Hyps) : LexOk H ⟨#[], fun _ _ => none⟩ :=
  ⟨fun _ _ _ _ h => by simp at h, fun ta _ p => (firstTok_none p ta.2).symm⟩

/-- the hypotheses of `C24_bisim_sound` are met by the generated graphs of the textX language
(141 and 185 nodes, two different formulations of the same language): `C24_check` -/
example : ∃ s₁ s₂ H d R, wfSh s₁.g H s₁.sh = true ∧ wfSh s₂.g H s₂.sh = true ∧ check s₁ s₂ H d R = true ∧
    inR s₁ s₂ d R s₁.g.top s₂.g.top = true :=
  ⟨langSide, txoSide, hyps, depth, rel, C24_check.1, C24_check.2.1, C24_check.2.2.1,
    (check_base C24_check.2.2.1).2.1⟩

/-- the checker is not trivially true: it refuses to relate `x+[s] s` to its `unsep` form -/
example : check ⟨sepGraph, fun _ => [.T]⟩ ⟨unsepNode sepGraph 1, fun _ => [.N, .E, .T]⟩ ⟨[], []⟩ 4
    (fun a => [a]) = false := by decide

end Rec
