import TextxVerif.Proofs.RecSim
import TextxVerif.Wire  -- only so that building this module also builds what Drivers/Rec.lean needs
import TextxVerif.Gen.Grammars
/-!
# C24 — the self-hosted textX grammar agrees with the grammar compiler

Objects (all regenerated from the tree under test on every run, `Gen/Grammars.lean`):
`lang` = the Arpeggio parser model `ParserPython` builds from `textx/lang.py:textx_model`,
`tx` = the parser model textX compiles from `textx/textx.tx`, with one common token table.
Semantics: `Rec.parse`, the acceptance-relevant abstraction of the Arpeggio mirror
(`Peg/Rec.lean`); `Rec.accepts g L` / `Rec.rejects g L` = `parser.parse(input)` succeeds / raises
`NoMatch`, for the lexer `L` (input characters and the matched length of every token at every
position).

* `C24_bisim_sound` — soundness of the simulation checker, for **all** pairs of graphs, relations,
  shape tables, lexers, positions and fuel values (proved by induction on fuel, `Proofs/RecSim.lean`).
* `C24_check` — the checker accepts the generated graphs in both directions (kernel evaluation).
* `C24_agree_partial` — hence `lang` and `unsep tx unproved` accept, and reject, exactly the same
  inputs, for every lexer that satisfies the generated hypotheses `hyps`.

What is *not* proved (hence `_partial`): `unproved` lists the separator repetitions of `textx.tx`
(`paths+=RRELPath[',']`, `parts+=RRELPathPart['.']`) which `rrel.py` states as `(x sep)* x`.
`x+[sep]` and `(x sep)* x` are different PEG expressions (after `x sep` with no further `x` the
first one backtracks over the separator, the second one fails); they agree in the context of
the textX grammar only because nothing that may follow starts with the separator.  `unsep`
rewrites those nodes into the `rrel.py` formulation; the step from `tx` to `unsep tx unproved` is
covered by correspondence on every generated input (the driver evaluates both), not by proof.
`C24_sep_forms_differ` shows that the two formulations do differ for an abstract lexer.
The lexer hypotheses (`hyps`: which regular expressions never match the empty string, and
`STRING` = first of the two quoted-string regexes, `\w+` = first of builtin-name / `\w+`,
`\+[mp]+:` = first of the multi / proxy flag regexes) are facts about Python's `re`; the harness
checks them on the token tables of every generated input.
-/
namespace Rec
open Gen.Grammars

/-- **Checker soundness** (all graphs, all inputs, all fuel): if both shape tables are inductive,
`check` accepts the relation `R` and the lexer satisfies `H`, then for every pair accepted by `inR`
each result of the left node (success with shape and end position, failure, malformed model) is the
result of the right node for all sufficiently large fuel. -/
theorem C24_bisim_sound (s₁ s₂ : Side) (H : Hyps) (d : Nat) (R : Rel) (L : Lex)
    (hwf₁ : wfSh s₁.g H s₁.sh = true) (hwf₂ : wfSh s₂.g H s₂.sh = true)
    (hchk : check s₁ s₂ H d R = true) (hL : LexOk H L) (x y : Nat) (hxy : inR s₁ s₂ d R x y = true) :
    ∀ n c p, parse s₁.g L n x c p ≠ .fuel →
      ∃ m₀, ∀ m, m₀ ≤ m → parse s₂.g L m y c p = parse s₁.g L n x c p :=
  sim_sound hwf₁ hwf₂ hchk hL hxy

/-- both directions of a checked simulation give equal acceptance and equal rejection -/
theorem C24_accept_iff (s₁ s₂ : Side) (H : Hyps) (d : Nat) (R R' : Rel) (L : Lex)
    (hwf₁ : wfSh s₁.g H s₁.sh = true) (hwf₂ : wfSh s₂.g H s₂.sh = true)
    (h12 : check s₁ s₂ H d R = true) (h21 : check s₂ s₁ H d R' = true) (hL : LexOk H L) :
    (accepts s₁.g L ↔ accepts s₂.g L) ∧ (rejects s₁.g L ↔ rejects s₂.g L) := by
  have t12 := (check_base h12).2.1
  have t21 := (check_base h21).2.1
  constructor
  · constructor
    · rintro ⟨n, v, p, h⟩
      obtain ⟨m, hm⟩ := sim_sound hwf₁ hwf₂ h12 hL t12 n false 0 (by rw [h]; simp)
      exact ⟨m, v, p, by rw [hm m (Nat.le_refl _), h]⟩
    · rintro ⟨n, v, p, h⟩
      obtain ⟨m, hm⟩ := sim_sound hwf₂ hwf₁ h21 hL t21 n false 0 (by rw [h]; simp)
      exact ⟨m, v, p, by rw [hm m (Nat.le_refl _), h]⟩
  · constructor
    · rintro ⟨n, h⟩
      obtain ⟨m, hm⟩ := sim_sound hwf₁ hwf₂ h12 hL t12 n false 0 (by rw [h]; simp)
      exact ⟨m, by rw [hm m (Nat.le_refl _), h]⟩
    · rintro ⟨n, h⟩
      obtain ⟨m, hm⟩ := sim_sound hwf₂ hwf₁ h21 hL t21 n false 0 (by rw [h]; simp)
      exact ⟨m, by rw [hm m (Nat.le_refl _), h]⟩

/-- a parser cannot both accept and reject (results do not depend on the fuel) -/
theorem C24_not_both (g : Graph) (L : Lex) : ¬ (accepts g L ∧ rejects g L) := by
  rintro ⟨⟨n, v, p, h1⟩, ⟨m, h2⟩⟩
  have := parse_det g L (n := n) (m := m) (a := g.top) (c := false) (p := 0) (by rw [h1]; simp) (by rw [h2]; simp)
  rw [h1, h2] at this
  exact absurd this (by simp)

def langSide : Side := ⟨lang, langSh⟩
/-- `textx.tx` with the separator repetitions listed in `unproved` restated as in `rrel.py` -/
def txoSide : Side := ⟨unsep tx unproved, txoSh⟩

/-- the readable node lists of `Gen/Grammars.lean` are the packed tables the theorems are about -/
theorem C24_tables : agree lang langNodes 0 = true ∧ agree tx txNodes 0 = true := by
  constructor <;> decide +kernel

/-- the generated shape tables are inductive and the generated relation (and its converse) passes the
checker — kernel evaluation on the graphs dumped from the tree under test -/
theorem C24_check :
    wfSh langSide.g hyps langSide.sh = true ∧ wfSh txoSide.g hyps txoSide.sh = true ∧
    check langSide txoSide hyps depth rel = true ∧ check txoSide langSide hyps depth relInv = true := by
  refine ⟨?_, ?_, ?_, ?_⟩ <;> decide +kernel

/-- **C24 (partial).**  For every input and every lexer satisfying `hyps`, the grammar compiler's
parser (`lang.py`) and the self-hosted grammar (`textx.tx`, with the RREL separator repetitions in the
`rrel.py` formulation) accept the same inputs and reject the same inputs. -/
theorem C24_agree_partial (L : Lex) (hL : LexOk hyps L) :
    (accepts lang L ↔ accepts (unsep tx unproved) L) ∧ (rejects lang L ↔ rejects (unsep tx unproved) L) :=
  C24_accept_iff langSide txoSide hyps depth rel relInv L C24_check.1 C24_check.2.1 C24_check.2.2.1
    C24_check.2.2.2 hL

/-! ### why the RREL separator repetitions are left to correspondence: the two formulations differ -/

/-- `x+[s] s` as a parser model: 0 = Sequence[1, 3], 1 = OneOrMore(2, sep=3), 2 = 'x', 3 = 's' -/
def sepGraph : Graph :=
  { size := 4, top := 0, comments := none, skipws := false, ws := [],
    node := fun i => match i with
      | 0 => some { kind := .seq, kids := [1, 3] }
      | 1 => some { kind := .plus, kids := [2], sep := some 3 }
      | 2 => some { kind := .str, tok := 0 }
      | 3 => some { kind := .str, tok := 1 }
      | _ => none }

/-- the input `xs` -/
def sepLex : Lex :=
  { input := #['x', 's'], tok := fun t p => if (t = 0 ∧ p = 0) ∨ (t = 1 ∧ p = 1) then some 1 else none }

/-- `x+[s] s` accepts `xs` (the repetition gives the separator back), `(x s)* x s` does not: `unsep` is
not semantics preserving in general, so the agreement of `tx` with `unsep tx unproved` needs the
context of the grammar and is not claimed by `C24_agree_partial`. -/
theorem C24_sep_forms_differ : accepts sepGraph sepLex ∧ rejects (unsepNode sepGraph 1) sepLex ∧
    ¬ accepts (unsepNode sepGraph 1) sepLex := by
  have hr : rejects (unsepNode sepGraph 1) sepLex := ⟨10, by decide⟩
  exact ⟨⟨10, .T, 2, by decide⟩, hr, fun ha => C24_not_both _ _ ⟨ha, hr⟩⟩

/-! ### non-vacuity -/

theorem firstTok_none (p : Nat) (ts : List Nat) : firstTok ⟨#[], fun _ _ => none⟩ p ts = none := by
  induction ts with
  | nil => rfl
  | cons t ts ih => simp only [firstTok]; exact ih

/-- the lexer hypotheses are satisfiable, whatever the generated `hyps` are -/
example (H : Hyps) : LexOk H ⟨#[], fun _ _ => none⟩ :=
  ⟨fun _ _ _ _ h => by simp at h, fun ta _ p => (firstTok_none p ta.2).symm⟩

/-- the hypotheses of `C24_bisim_sound` are met by the generated graphs of the textX language
(141 and 185 nodes, two different formulations of the same language): `C24_check` -/
example : ∃ s₁ s₂ H d R, wfSh s₁.g H s₁.sh = true ∧ wfSh s₂.g H s₂.sh = true ∧ check s₁ s₂ H d R = true ∧
    inR s₁ s₂ d R s₁.g.top s₂.g.top = true :=
  ⟨langSide, txoSide, hyps, depth, rel, C24_check.1, C24_check.2.1, C24_check.2.2.1,
    (check_base C24_check.2.2.1).2.1⟩

/-- the checker is not trivially true: it refuses to relate `x+[s] s` to its `unsep` form -/
example : check ⟨sepGraph, fun _ => [.T]⟩ ⟨unsepNode sepGraph 1, fun _ => [.N, .E, .T]⟩ ⟨[], []⟩ 4
    (fun a => [a]) = false := by decide

end Rec
