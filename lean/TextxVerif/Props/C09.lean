import TextxVerif.Proofs.Resolve
import TextxVerif.Proofs.ResolveAttrs
import TextxVerif.Proofs.ResolveQuery
import TextxVerif.Proofs.ResolveOrder
import TextxVerif.Proofs.ResolveSched
import TextxVerif.Proofs.ResolveHist
/-!
# C09 — postponed resolution reaches the right fixpoint and terminates

Model: `Resolve.step` / `Resolve.loop` (TextxVerif/Resolve.lean), mirroring
`textx/model.py:935-968` and `ReferenceResolver.resolve_one_step`.
A scope provider is any function of the currently resolved set that is
monotone (`Provider.mono`): resolving more references never turns a resolvable
reference into a postponed one.  `Derivable P refs r` is the order-free
statement "some order of resolving references lets `r` resolve given the ones
resolved before it".

The *result* of a load is the value of every reference attribute.  A
single-valued attribute holds the target of its one reference as soon as the
reference is in the resolved set.  A list-valued attribute of one object is
described by its references `L` in textual order (`LRef`: id, text position,
target); `attrAfter L seq` is its content after the loop resolved `seq`
(`resolve_one_step` inserts at the `bisect` index of the position, one position
list per object and attribute).

Providers that *ask the resolver* (`textx.scoping.tools.needs_to_be_resolved`,
`ReferenceResolver.has_unresolved_crossrefs`) instead of looking at attribute
values do not see the resolved set itself but the `parser._crossrefs` lists,
which are replaced at the end of a pass only and answer per object and attribute:
`loopQ` (TextxVerif/ResolveQuery.lean) models that, `Wait` is one condition of a
provider, `specP W fs0` what the conditions mean as a function of the resolved
set.  The `C09_query_*` theorems are the property for these providers.

Only property theorems and non-vacuity examples live here; lemmas are in
`Proofs/Resolve.lean`, `Proofs/ResolveAttrs.lean` and `Proofs/ResolveQuery.lean`.
-/
namespace Resolve

/-- **Termination.** The `while` loop leaves by its own exit test ("nothing
pending" or "a round resolved nothing") within `|refs| + 1` rounds: any two fuel
values above `|refs|` give the same result, so the fuel never cuts the loop. -/
theorem C09_terminates (P : Provider) (refs : List Ref) (n m : Nat)
    (hn : refs.length < n) (hm : refs.length < m) :
    loop P n refs [] = loop P m refs [] := by
  rcases Nat.le_total n m with h | h
  · exact (loop_fuel P refs [] n m hn h).symm
  · exact loop_fuel P refs [] m n hm h

/-- …and when it stops, either nothing is pending or no pending reference is
ready: the exit state is a genuine fixpoint of the resolution pass. -/
theorem C09_fixpoint (P : Provider) (refs : List Ref) (n : Nat) (hn : refs.length < n) :
    (loop P n refs []).1 = [] ∨
      ∀ r, r ∈ (loop P n refs []).1 → P.ready (loop P n refs []).2 r = false :=
  loop_fixpoint P n refs [] hn

/-- **Least fixpoint.** The resolved references are exactly the derivable ones. -/
theorem C09_lfp (P : Provider) (refs : List Ref) (n : Nat) (hn : refs.length < n) (x : Ref) :
    x ∈ (loop P n refs []).2 ↔ Derivable P refs x :=
  loop_lfp P refs n hn x

/-- **Success criterion.** Loading succeeds (nothing stays pending) exactly when
every reference is derivable, i.e. some resolution order resolves them all. -/
theorem C09_success_iff (P : Provider) (refs : List Ref) (hnd : refs.Nodup) (n : Nat)
    (hn : refs.length < n) :
    (loop P n refs []).1 = [] ↔ ∀ x, x ∈ refs → Derivable P refs x := by
  constructor
  · intro h x hx
    have := (loop_partition P n refs [] x).1 (Or.inl hx)
    rw [h] at this
    exact (C09_lfp P refs n hn x).1 (by simpa using this)
  · intro h
    cases hp : (loop P n refs []).1 with
    | nil => rfl
    | cons y ys =>
      have hy : y ∈ (loop P n refs []).1 := by simp [hp]
      have hyU := loop_pending_sub P n refs [] y hy
      have hres := (C09_lfp P refs n hn y).2 (h y hyU)
      exact absurd hres (loop_disjoint P n refs [] hnd (by simp) y hy)

/-- **Error exactness.** What stays pending — the references named by the
"Unresolvable cross references" error — is exactly the complement of the least
fixpoint. -/
theorem C09_error_exact (P : Provider) (refs : List Ref) (hnd : refs.Nodup) (n : Nat)
    (hn : refs.length < n) (x : Ref) :
    x ∈ (loop P n refs []).1 ↔ x ∈ refs ∧ ¬ Derivable P refs x := by
  constructor
  · intro hx
    refine ⟨loop_pending_sub P n refs [] x hx, fun hd => ?_⟩
    exact loop_disjoint P n refs [] hnd (by simp) x hx ((C09_lfp P refs n hn x).2 hd)
  · rintro ⟨hU, hnd'⟩
    rcases (loop_partition P n refs [] x).1 (Or.inl hU) with h | h
    · exact h
    · exact absurd ((C09_lfp P refs n hn x).1 h) hnd'

/-- **Order independence.** Any reordering of the references (hence any
round-robin interleaving over model files, which is a reordering of the
concatenated pending list) resolves the same set, and so gives the same
verdict. -/
theorem C09_order_indep (P : Provider) (refs refs' : List Ref) (hperm : refs.Perm refs')
    (n : Nat) (hn : refs.length < n) (x : Ref) :
    x ∈ (loop P n refs' []).2 ↔ x ∈ (loop P n refs []).2 := by
  have hn' : refs'.length < n := by rw [← hperm.length_eq]; exact hn
  rw [C09_lfp P refs n hn, C09_lfp P refs' n hn']
  exact ⟨Derivable.congr P _ _ (fun y hy => hperm.symm.subset hy) x,
         Derivable.congr P _ _ (fun y hy => hperm.subset hy) x⟩

/-- **Result of list-valued references.** Whatever rounds the references of a
list attribute `L` got resolved in, the attribute ends up holding, in the order
they are written, exactly those of its references that are resolved (derivable):
no reference of another object or attribute, no duplicate, no reordering.
(`keep` is the decision "this reference is derivable"; `Derivable` itself is a
proposition, so the filter is stated through a Boolean function equivalent to it.) -/
theorem C09_list_result (P : Provider) (refs : List Ref) (hnd : refs.Nodup) (n : Nat)
    (hn : refs.length < n) (L : List LRef) (hpos : L.Pairwise (fun a b => a.pos < b.pos))
    (hid : L.Pairwise (fun a b => a.id ≠ b.id)) :
    ∃ keep : LRef → Bool, (∀ l, keep l = true ↔ Derivable P refs l.id) ∧
      attrAfter L (loop P n refs []).2.reverse = L.filter keep := by
  refine ⟨fun l => decide (l.id ∈ (loop P n refs []).2), ?_, ?_⟩
  · intro l
    simp only [decide_eq_true_eq]
    exact C09_lfp P refs n hn l.id
  · exact attrAfter_eq_filter L hpos hid _ (loop_res_nodup P n refs [] hnd List.nodup_nil (by simp))

/-- …so on success a list attribute whose references all belong to the loaded
models is exactly its references in textual order. -/
theorem C09_list_success (P : Provider) (refs : List Ref) (hnd : refs.Nodup) (n : Nat)
    (hn : refs.length < n) (L : List LRef) (hpos : L.Pairwise (fun a b => a.pos < b.pos))
    (hid : L.Pairwise (fun a b => a.id ≠ b.id)) (hsub : ∀ l, l ∈ L → l.id ∈ refs)
    (hok : (loop P n refs []).1 = []) :
    attrAfter L (loop P n refs []).2.reverse = L := by
  obtain ⟨keep, hkeep, heq⟩ := C09_list_result P refs hnd n hn L hpos hid
  rw [heq]
  refine List.filter_eq_self.2 ?_
  intro l hl
  exact (hkeep l).2 ((C09_success_iff P refs hnd n hn).1 hok l.id (hsub l hl))

/-- **Order independence of the result.** Any reordering of the references
(any round-robin interleaving over model files, any position of the objects in
the files) leaves every list attribute with the same content. -/
theorem C09_list_order_indep (P : Provider) (refs refs' : List Ref) (hperm : refs.Perm refs')
    (hnd : refs.Nodup) (n : Nat) (hn : refs.length < n) (L : List LRef)
    (hpos : L.Pairwise (fun a b => a.pos < b.pos)) (hid : L.Pairwise (fun a b => a.id ≠ b.id)) :
    attrAfter L (loop P n refs' []).2.reverse = attrAfter L (loop P n refs []).2.reverse := by
  have hn' : refs'.length < n := by rw [← hperm.length_eq]; exact hn
  obtain ⟨k, hk, heq⟩ := C09_list_result P refs hnd n hn L hpos hid
  obtain ⟨k', hk', heq'⟩ := C09_list_result P refs' (hperm.nodup_iff.1 hnd) n hn' L hpos hid
  rw [heq, heq']
  refine List.filter_congr ?_
  intro l _
  have h : k' l = true ↔ k l = true := by
    rw [hk, hk']
    exact ⟨Derivable.congr P _ _ (fun y hy => hperm.symm.subset hy) l.id,
           Derivable.congr P _ _ (fun y hy => hperm.subset hy) l.id⟩
  cases h1 : k' l <;> cases h2 : k l <;> simp_all

/-! ## providers that ask the resolver whether a reference is resolved

`fs0` = the `parser._crossrefs` lists of the model files as parsed (round-robin order),
`W r` = the conditions of the provider of reference `r` (`Wait.val`: an attribute holds its
target; `Wait.qry`: `needs_to_be_resolved(obj, attr)` is false), for all `W`, all files. -/

/-- **Termination.** Stale answers of the resolver never keep the loop running: it leaves
by its own test within `|refs| + 1` rounds (any two fuel values above give the same result). -/
theorem C09_query_terminates (W : Ref → List Wait) (fs0 : List (List CRef)) (n m : Nat)
    (hn : pendingCount fs0 < n) (hm : pendingCount fs0 < m) :
    loopQ W n fs0 [] = loopQ W m fs0 [] := by
  rcases Nat.le_total n m with h | h
  · exact (loopQ_fuel W fs0 [] n m hn h).symm
  · exact loopQ_fuel W fs0 [] m n hm h

/-- …and it does not stop early either: at the exit nothing is pending, or no pending
reference is ready *by the meaning of its conditions* in the final resolved set (the
answers of the resolver are up to date when a round resolved nothing). -/
theorem C09_query_fixpoint (W : Ref → List Wait) (fs0 : List (List CRef)) (hnd : (idsOf fs0).Nodup)
    (n : Nat) (hn : pendingCount fs0 < n) :
    pendingCount (loopQ W n fs0 []).1 = 0 ∨
      ∀ c, c ∈ (loopQ W n fs0 []).1.flatten →
        (specP W fs0).ready (loopQ W n fs0 []).2 c.id = false :=
  (loopQ_start W fs0 hnd n hn).2.2.2

/-- **Least fixpoint.** The resolved references are exactly those that some resolution
order resolves, although every provider only sees the pending lists of the last pass. -/
theorem C09_query_lfp (W : Ref → List Wait) (fs0 : List (List CRef)) (hnd : (idsOf fs0).Nodup)
    (n : Nat) (hn : pendingCount fs0 < n) (x : Ref) :
    x ∈ (loopQ W n fs0 []).2 ↔ Derivable (specP W fs0) (idsOf fs0) x :=
  loopQ_lfp W fs0 hnd n hn x

/-- **Error exactness.** The references left pending (named by the error) are exactly the
references no resolution order resolves. -/
theorem C09_query_error_exact (W : Ref → List Wait) (fs0 : List (List CRef))
    (hnd : (idsOf fs0).Nodup) (n : Nat) (hn : pendingCount fs0 < n) (x : Ref) :
    x ∈ idsOf (loopQ W n fs0 []).1 ↔
      (x ∈ idsOf fs0 ∧ ¬ Derivable (specP W fs0) (idsOf fs0) x) :=
  loopQ_pending W fs0 hnd n hn x

/-- **Success criterion.** Nothing stays pending exactly when every reference is derivable. -/
theorem C09_query_success_iff (W : Ref → List Wait) (fs0 : List (List CRef))
    (hnd : (idsOf fs0).Nodup) (n : Nat) (hn : pendingCount fs0 < n) :
    pendingCount (loopQ W n fs0 []).1 = 0 ↔
      ∀ x, x ∈ idsOf fs0 → Derivable (specP W fs0) (idsOf fs0) x := by
  constructor
  · intro h x hx
    apply Classical.byContradiction
    intro hnd'
    have hp := (C09_query_error_exact W fs0 hnd n hn x).2 ⟨hx, hnd'⟩
    rw [pendingCount_eq_ids] at h
    rw [List.eq_nil_of_length_eq_zero h] at hp
    simp at hp
  · intro h
    rw [pendingCount_eq_ids]
    cases hp : idsOf (loopQ W n fs0 []).1 with
    | nil => rfl
    | cons y ys =>
      have hy : y ∈ idsOf (loopQ W n fs0 []).1 := by simp [hp]
      have := (C09_query_error_exact W fs0 hnd n hn y).1 hy
      exact absurd (h y this.1) this.2

/-- **Same result as with providers that look at the model.** Asking the resolver changes
the rounds in which references resolve, not which references resolve: the outcome is the
one of the loop whose providers see every resolved reference at once. -/
theorem C09_query_same_result (W : Ref → List Wait) (fs0 : List (List CRef))
    (hnd : (idsOf fs0).Nodup) (n : Nat) (hn : pendingCount fs0 < n) (x : Ref) :
    x ∈ (loopQ W n fs0 []).2 ↔ x ∈ (loop (specP W fs0) n (idsOf fs0) []).2 := by
  rw [C09_query_lfp W fs0 hnd n hn, C09_lfp (specP W fs0) (idsOf fs0) n (by rw [← pendingCount_eq_ids]; exact hn)]

/-- **Order independence.** Another distribution of the references over files, another file
order or another order within the files resolves the same set, provided the same
references exist and the conditions mean the same. -/
theorem C09_query_order_indep (W W' : Ref → List Wait) (fs0 fs0' : List (List CRef))
    (hnd : (idsOf fs0).Nodup) (hnd' : (idsOf fs0').Nodup)
    (hids : ∀ x, x ∈ idsOf fs0 ↔ x ∈ idsOf fs0')
    (hsame : ∀ S r, (specP W fs0).ready S r = (specP W' fs0').ready S r)
    (n : Nat) (hn : pendingCount fs0 < n) (hn' : pendingCount fs0' < n) (x : Ref) :
    x ∈ (loopQ W' n fs0' []).2 ↔ x ∈ (loopQ W n fs0 []).2 := by
  rw [C09_query_lfp W fs0 hnd n hn, C09_query_lfp W' fs0' hnd' n hn']
  exact ⟨Derivable.congr_provider _ _ _ _ (fun y hy => (hids y).2 hy) (fun S r h => by rw [hsame]; exact h) x,
         Derivable.congr_provider _ _ _ _ (fun y hy => (hids y).1 hy) (fun S r h => by rw [← hsame]; exact h) x⟩

/-- **Result of list-valued references.** As `C09_list_result`: a list attribute ends up
with its derivable references in the order they are written. -/
theorem C09_query_list_result (W : Ref → List Wait) (fs0 : List (List CRef))
    (hnd : (idsOf fs0).Nodup) (n : Nat) (hn : pendingCount fs0 < n) (L : List LRef)
    (hpos : L.Pairwise (fun a b => a.pos < b.pos)) (hid : L.Pairwise (fun a b => a.id ≠ b.id)) :
    ∃ keep : LRef → Bool, (∀ l, keep l = true ↔ Derivable (specP W fs0) (idsOf fs0) l.id) ∧
      attrAfter L (loopQ W n fs0 []).2.reverse = L.filter keep := by
  refine ⟨fun l => decide (l.id ∈ (loopQ W n fs0 []).2), ?_, ?_⟩
  · intro l
    simp only [decide_eq_true_eq]
    exact C09_query_lfp W fs0 hnd n hn l.id
  · exact attrAfter_eq_filter L hpos hid _ (loopQ_start W fs0 hnd n hn).2.1

/-- …and on success it is exactly its references in textual order. -/
theorem C09_query_list_success (W : Ref → List Wait) (fs0 : List (List CRef))
    (hnd : (idsOf fs0).Nodup) (n : Nat) (hn : pendingCount fs0 < n) (L : List LRef)
    (hpos : L.Pairwise (fun a b => a.pos < b.pos)) (hid : L.Pairwise (fun a b => a.id ≠ b.id))
    (hsub : ∀ l, l ∈ L → l.id ∈ idsOf fs0) (hok : pendingCount (loopQ W n fs0 []).1 = 0) :
    attrAfter L (loopQ W n fs0 []).2.reverse = L := by
  obtain ⟨keep, hkeep, heq⟩ := C09_query_list_result W fs0 hnd n hn L hpos hid
  rw [heq]
  refine List.filter_eq_self.2 ?_
  intro l hl
  exact (hkeep l).2 ((C09_query_success_iff W fs0 hnd n hn).1 hok l.id (hsub l hl))

/-! ## the success clause in its literal wording: a linear order of resolving

`ValidOrder P σ` (TextxVerif/ResolveOrder.lean) = every reference of `σ` resolves when its
provider is asked with exactly the references before it resolved.  `Derivable` (used by the
theorems above) is the tree-shaped form of the same idea; the theorems below show that the
two agree, that the resolver's own resolution sequence is such an order, and that the result
is the same whichever such order is taken. -/

/-- **Success criterion, literal wording.** Loading succeeds exactly when some order of
resolving the references lets every reference resolve given the ones resolved before it.
(→ takes the resolver's own resolution sequence as the order and needs neither `hnd` nor `hn`.) -/
theorem C09_success_iff_order (P : Provider) (refs : List Ref) (hnd : refs.Nodup) (n : Nat)
    (hn : refs.length < n) :
    (loop P n refs []).1 = [] ↔
      ∃ σ : List Ref, σ.Perm refs ∧ ∀ i (h : i < σ.length), P.ready (σ.take i) σ[i] = true := by
  constructor
  · intro hok
    exact ⟨_, loop_seq_perm P n refs hok, loop_validOrder P n refs⟩
  · rintro ⟨σ, hperm, hσ⟩
    refine (C09_success_iff P refs hnd n hn).2 ?_
    intro x hx
    exact validOrder_derivable P refs σ hσ (fun y hy => hperm.subset hy) x (hperm.symm.subset hx)

/-- **The resolver only ever resolves a reference given the ones resolved before it:** its
resolution sequence is a valid order, for every fuel, whether or not loading succeeds. -/
theorem C09_loop_order_valid (P : Provider) (refs : List Ref) (n : Nat) :
    ValidOrder P (loop P n refs []).2.reverse :=
  loop_validOrder P n refs

/-- the executable check used on observed resolution sequences decides `ValidOrder` -/
theorem C09_validOrder_iff (P : Provider) (σ : List Ref) : validOrder P σ = true ↔ ValidOrder P σ :=
  validOrder_iff P σ

/-- **`Derivable` = "on some resolution order".** A reference is derivable exactly when some
order of resolving references of the program, each given the ones before it, reaches it. -/
theorem C09_derivable_iff_order (P : Provider) (refs : List Ref) (r : Ref) :
    Derivable P refs r ↔ ∃ σ : List Ref, (∀ x, x ∈ σ → x ∈ refs) ∧ ValidOrder P σ ∧ r ∈ σ := by
  constructor
  · intro h
    refine ⟨(loop P (refs.length + 1) refs []).2.reverse, ?_, loop_validOrder P _ refs, ?_⟩
    · intro x hx
      have := (loop_partition P (refs.length + 1) refs [] x).2 (Or.inr (List.mem_reverse.1 hx))
      simpa using this
    · exact List.mem_reverse.2 ((C09_lfp P refs _ (Nat.lt_succ_self _) r).2 h)
  · rintro ⟨σ, hU, hσ, hr⟩
    exact validOrder_derivable P refs σ hσ hU r hr

/-- all references derivable ⇔ one order resolves them all -/
theorem C09_all_derivable_iff_order (P : Provider) (refs : List Ref) (hnd : refs.Nodup) :
    (∀ x, x ∈ refs → Derivable P refs x) ↔ ∃ σ : List Ref, σ.Perm refs ∧ ValidOrder P σ := by
  rw [← C09_success_iff P refs hnd (refs.length + 1) (Nat.lt_succ_self _)]
  exact C09_success_iff_order P refs hnd (refs.length + 1) (Nat.lt_succ_self _)

/-- **Error exactness, literal wording.** The references named by the error are exactly
those that no order of resolving references of the program ever reaches. -/
theorem C09_error_exact_order (P : Provider) (refs : List Ref) (hnd : refs.Nodup) (n : Nat)
    (hn : refs.length < n) (x : Ref) :
    x ∈ (loop P n refs []).1 ↔
      x ∈ refs ∧ ¬ ∃ σ : List Ref, (∀ y, y ∈ σ → y ∈ refs) ∧ ValidOrder P σ ∧ x ∈ σ := by
  rw [C09_error_exact P refs hnd n hn x, C09_derivable_iff_order]

/-- **No order resolves more than the resolver does:** whatever order of resolving references
of the program one takes (complete or not), everything on it is resolved by the loop. -/
theorem C09_order_sub_resolved (P : Provider) (refs : List Ref) (n : Nat) (hn : refs.length < n)
    (σ : List Ref) (hU : ∀ x, x ∈ σ → x ∈ refs) (hσ : ValidOrder P σ) :
    ∀ x, x ∈ σ → x ∈ (loop P n refs []).2 :=
  fun x hx => (C09_lfp P refs n hn x).2 (validOrder_derivable P refs σ hσ hU x hx)

/-- **The result does not depend on which such order is taken.** If `σ` is any order that
resolves every reference given the ones before it, then loading succeeds and a list attribute
filled along `σ` has the content the loop gives it — its references in textual order. -/
theorem C09_order_result_indep (P : Provider) (refs : List Ref) (hnd : refs.Nodup) (n : Nat)
    (hn : refs.length < n) (σ : List Ref) (hperm : σ.Perm refs) (hσ : ValidOrder P σ)
    (L : List LRef) (hpos : L.Pairwise (fun a b => a.pos < b.pos))
    (hid : L.Pairwise (fun a b => a.id ≠ b.id)) (hsub : ∀ l, l ∈ L → l.id ∈ refs) :
    (loop P n refs []).1 = [] ∧
      attrAfter L σ = attrAfter L (loop P n refs []).2.reverse ∧ attrAfter L σ = L := by
  have hok : (loop P n refs []).1 = [] := (C09_success_iff_order P refs hnd n hn).2 ⟨σ, hperm, hσ⟩
  have hL := C09_list_success P refs hnd n hn L hpos hid hsub hok
  have hσL : attrAfter L σ = L := by
    have h := attrAfter_eq_filter L hpos hid σ.reverse
      ((List.reverse_perm σ).nodup_iff.2 (hperm.nodup_iff.2 hnd))
    rw [List.reverse_reverse] at h
    rw [h]
    refine List.filter_eq_self.2 ?_
    intro l hl
    simpa using hperm.symm.subset (hsub l hl)
  exact ⟨hok, by rw [hσL, hL], hσL⟩

/-- **Round-robin over model files.** Stepping the files one after the other, each with its
own pending list, round after round (`loopFiles`) is the loop on the concatenation of the
pending lists: same pending references file by file concatenated, same resolution sequence.
So every theorem above about `loop … fs.flatten` is a theorem about the multi-file loop. -/
theorem C09_files_round_robin (P : Provider) (n : Nat) (fs : List (List Ref)) (res : List Ref) :
    ((loopFiles P n fs res).1.flatten, (loopFiles P n fs res).2) = loop P n fs.flatten res :=
  loopFiles_eq P n fs res

/-- …in particular the success clause for any distribution of the references over files. -/
theorem C09_files_success_iff_order (P : Provider) (fs : List (List Ref)) (hnd : fs.flatten.Nodup)
    (n : Nat) (hn : fs.flatten.length < n) :
    (loopFiles P n fs []).1.flatten = [] ↔
      ∃ σ : List Ref, σ.Perm fs.flatten ∧ ValidOrder P σ := by
  have h := loopFiles_eq P n fs []
  have h1 : (loopFiles P n fs []).1.flatten = (loop P n fs.flatten []).1 := by rw [← h]
  rw [h1]
  exact C09_success_iff_order P fs.flatten hnd n hn

/-- **Any interleaving over files.** Two distributions of the same references over model files
(other file order, other grouping, other order inside the files) resolve the same set. -/
theorem C09_files_order_indep (P : Provider) (fs fs' : List (List Ref))
    (hperm : fs.flatten.Perm fs'.flatten) (n : Nat) (hn : fs.flatten.length < n) (x : Ref) :
    x ∈ (loopFiles P n fs' []).2 ↔ x ∈ (loopFiles P n fs []).2 := by
  have h := loopFiles_eq P n fs []
  have h' := loopFiles_eq P n fs' []
  have h2 : (loopFiles P n fs []).2 = (loop P n fs.flatten []).2 := by rw [← h]
  have h2' : (loopFiles P n fs' []).2 = (loop P n fs'.flatten []).2 := by rw [← h']
  rw [h2, h2']
  exact C09_order_indep P fs.flatten fs'.flatten hperm n hn x

/-- **Success criterion, literal wording, for providers that ask the resolver.** -/
theorem C09_query_success_iff_order (W : Ref → List Wait) (fs0 : List (List CRef))
    (hnd : (idsOf fs0).Nodup) (n : Nat) (hn : pendingCount fs0 < n) :
    pendingCount (loopQ W n fs0 []).1 = 0 ↔
      ∃ σ : List Ref, σ.Perm (idsOf fs0) ∧ ValidOrder (specP W fs0) σ := by
  rw [C09_query_success_iff W fs0 hnd n hn]
  exact C09_all_derivable_iff_order (specP W fs0) (idsOf fs0) hnd

/-- **Stale answers never let a reference resolve too early:** the resolution sequence of the
loop whose providers ask the resolver is a valid order by the *meaning* of the conditions. -/
theorem C09_query_order_valid (W : Ref → List Wait) (fs0 : List (List CRef))
    (hnd : (idsOf fs0).Nodup) (n : Nat) :
    ValidOrder (specP W fs0) (loopQ W n fs0 []).2.reverse :=
  loopQ_validOrder W fs0 hnd n

/-! non-vacuity: two files, the main file waits (query) for the imported one, whose reference
waits (query) for a reference of its own file — three rounds; a list attribute of which one
reference waits for itself, and a reference waiting for the list by a query -/

def exW3 : Ref → List Wait
  | 0 => [.qry 1 1 (some 0)] | 1 => [.qry 1 2 (some 0)] | _ => []

example : loopQ exW3 4 [[⟨0, 0, 0⟩], [⟨1, 1, 0⟩, ⟨2, 2, 0⟩]] [] = ([[], []], [0, 1, 2]) := by decide
example : (idsOf [[⟨0, 0, 0⟩], [⟨1, 1, 0⟩, ⟨2, 2, 0⟩]]).Nodup ∧
    pendingCount [[⟨0, 0, 0⟩], [⟨1, 1, 0⟩, ⟨2, 2, 0⟩]] < 4 := by decide

def exW4 : Ref → List Wait
  | 1 => [.val 1] | 2 => [.qry 0 0 (some 0)] | _ => []

example : loopQ exW4 4 [[⟨0, 0, 0⟩, ⟨1, 0, 0⟩, ⟨2, 1, 0⟩]] [] = ([[⟨1, 0, 0⟩, ⟨2, 1, 0⟩]], [0]) := by decide
/-- the same conditions read from the model (`val`) let reference 2 resolve in the first pass,
the query lets it wait for the whole list -/
example : (specP exW4 [[⟨0, 0, 0⟩, ⟨1, 0, 0⟩, ⟨2, 1, 0⟩]]).ready [0] 2 = false := by decide

/-! ## non-vacuity: a concrete provider with a chain, a cycle and a dead reference -/

/-- reference 0 is free, 1 waits for 0, 2 and 3 wait for each other, 4 waits for 2 -/
def exDeps : Ref → List Ref
  | 1 => [0] | 2 => [3] | 3 => [2] | 4 => [2] | _ => []

def exP : Provider where
  ready S r := (exDeps r).all (· ∈ S)
  mono := by
    intro S S' r h hr
    simp only [List.all_eq_true, decide_eq_true_eq] at hr ⊢
    exact fun x hx => h x (hr x hx)

example : loop exP 6 [4, 3, 2, 1, 0] [] = ([4, 3, 2], [1, 0]) := by decide
example : loop exP 6 [1, 0] [] = ([], [1, 0]) := by decide
example : [4, 3, 2, 1, 0].Nodup ∧ [4, 3, 2, 1, 0].length < 6 := by decide

/-- two objects of one class: `g1: r0` and `g2: r1, r5` where 1 waits for 0 and 0
comes last in the pass, so that 5 is inserted a round before 1 -/
example : (loop exP 4 [1, 5, 0] []).2.reverse = [5, 0, 1] := by decide
example : attrAfter [⟨1, 20, 101⟩, ⟨5, 24, 105⟩] (loop exP 4 [1, 5, 0] []).2.reverse =
    [⟨1, 20, 101⟩, ⟨5, 24, 105⟩] := by decide
example : attrAfter [⟨0, 10, 100⟩] (loop exP 4 [1, 5, 0] []).2.reverse = [⟨0, 10, 100⟩] := by decide
/-- a list with a never-resolving reference keeps the others in textual order -/
example : attrAfter [⟨2, 10, 102⟩, ⟨1, 20, 101⟩, ⟨0, 30, 100⟩] (loop exP 6 [4, 3, 2, 1, 0] []).2.reverse =
    [⟨1, 20, 101⟩, ⟨0, 30, 100⟩] := by decide

/-! ## providers that are not functions of the resolved set

`Oracle` (TextxVerif/ResolveSched.lean): the answer of a provider call may depend on the whole
history of calls — counting providers, stateful providers, providers that are not monotone.
Termination and "nothing is lost" hold for all of them; the fixpoint / order-independence
clauses do need monotonicity (`C09_nonmono_order_false`). -/

/-- **Termination, for every provider whatsoever.** Whatever a provider answers on whichever
call, the loop leaves by its own exit test within `|refs| + 1` rounds. -/
theorem C09_terminates_any_provider (O : Oracle) (refs : List Ref) (n m : Nat)
    (hn : refs.length < n) (hm : refs.length < m) :
    loopO O n [] refs [] = loopO O m [] refs [] := by
  rcases Nat.le_total n m with h | h
  · exact (loopO_fuel O [] refs [] n m hn h).symm
  · exact loopO_fuel O [] refs [] m n hm h

/-- **Nothing is lost or invented, for every provider whatsoever:** at the exit every reference
is either resolved (once) or pending (once) — so the error names exactly the references that
did not get resolved. -/
theorem C09_any_provider_partition (O : Oracle) (refs : List Ref) (n : Nat) :
    ((loopO O n [] refs []).1 ++ (loopO O n [] refs []).2).Perm refs := by
  simpa using loopO_perm O n [] refs []

/-- the loop of the theorems above is the oracle loop of a provider that ignores the call history -/
theorem C09_loop_is_oracle (P : Provider) (n : Nat) (refs : List Ref) :
    loopO (fun _ => P.ready) n [] refs [] = loop P n refs [] :=
  loopO_const P n [] refs []

/-- **Monotonicity cannot be dropped.** A provider that is a function of the resolved set but
not monotone (reference 1 resolves only while 0 is unresolved): `[1, 0]` loads, `[0, 1]` fails. -/
theorem C09_nonmono_order_false :
    ∃ (O : Oracle) (refs refs' : List Ref), (∀ h h' S r, O h S r = O h' S r) ∧ refs.Perm refs' ∧
      (loopO O 3 [] refs []).1 = [] ∧ (loopO O 3 [] refs' []).1 ≠ [] :=
  ⟨fun _ S r => decide (r = 0) || (decide (r = 1) && !decide (0 ∈ S)), [1, 0], [0, 1],
   fun _ _ _ _ => rfl, by decide, by decide, by decide⟩

/-! non-vacuity: a counting provider (reference 0 is postponed on its first two calls) -/
example : loopO (countOracle fun r => if r = 0 then 2 else 0) 4 [] [0, 1, 2] [] = ([0], [2, 1]) := by decide
example : loopO (countOracle fun r => if r = 0 then 1 else 0) 4 [] [0, 1, 2] [] = ([], [0, 2, 1]) := by decide

/-! ## several loads with one meta-model (round V09)

`runH` (TextxVerif/ResolveHist.lean) mirrors what `parse_tree_to_objgraph` does with the repository:
the loop runs over *every* model of the repository that carries a resolver, a failed load removes
the models it was resolving, a successful one drops their resolvers.  The theorems say that this
clean-up makes the outcome of a load a function of its own program (and of which of its files an
earlier successful load already finished) — whatever was loaded before, resolvable or not. -/

/-- **A load depends on its own program only.** A history of loads with one meta-model (with or
without a global repository), started in a repository in which nothing is under construction,
gives load by load the result of the resolver loop on the load's own freshly parsed files; of the
earlier loads only the keys of the files that *successful* loads finished matter. -/
theorem C09_history_indep (glob : Bool) (hist : List (Provider × Prog)) (repo : Repo) (h : Clean repo) :
    runH glob repo hist = specH glob (repo.map (·.key)) hist :=
  runH_eq_specH glob hist repo h

/-- **A failed load leaves no trace:** the repository after it is the repository before it. -/
theorem C09_history_failed_load (P : Provider) (repo : Repo) (files : Prog) (h : Clean repo)
    (hfail : (loadH P repo files).1.1.flatten ≠ []) : (loadH P repo files).2 = repo := by
  unfold loadH at hfail ⊢
  simp only [] at hfail ⊢
  by_cases hok : (loopFiles P ((building (addFiles repo files)).flatten.length + 1)
      (building (addFiles repo files)) []).1.flatten = []
  · rw [if_pos hok] at hfail
    exact absurd hok hfail
  · rw [if_neg hok]
    exact remove_addFiles repo files h

/-- between two loads no model of the repository is under construction, whatever the outcome -/
theorem C09_history_clean (P : Provider) (repo : Repo) (files : Prog) :
    Clean (loadH P repo files).2 := by
  unfold loadH
  simp only []
  split
  · exact clean_finish _
  · exact clean_remove _

/-- without a global repository every load is the loop on all files of its program -/
theorem C09_history_local : ∀ (hist : List (Provider × Prog)),
    runH false [] hist =
      hist.map fun pf => loopFiles pf.1 ((pf.2.map (·.2)).flatten.length + 1) (pf.2.map (·.2)) []
  | [] => rfl
  | (P, files) :: rest => by
      rw [C09_history_indep false _ [] (by intro m hm; cases hm)]
      have ih := C09_history_local rest
      rw [C09_history_indep false _ [] (by intro m hm; cases hm)] at ih
      have hf : freshFiles [] files = files := by
        unfold freshFiles
        simp
      simp only [specH, List.map_nil, hf, List.map_cons] at ih ⊢
      simp only [Bool.false_eq_true, if_false]
      rw [ih]

/-! non-vacuity: global repository, a cycle (load 1 fails), then a resolvable program that shares the
library file 0 with it: the second load parses the library again and succeeds; a third load finds the
library finished -/
example : runH true [] [(exP, [(100, [2, 3]), (0, [0])]), (exP, [(101, [1]), (0, [0])]), (exP, [(102, [5]), (0, [0])])]
    = [([[2, 3], []], [0]), ([[], []], [1, 0]), ([[]], [5])] := by decide

/-! non-vacuity of the order theorems: `[0, 1]` is an order for `[1, 0]`, `[1, 0]` is not;
a dead program has none; two files stepped in turn -/
example : validOrder exP [0, 1] = true ∧ validOrder exP [1, 0] = false := by decide
example : ∃ σ : List Ref, σ.Perm [1, 0] ∧ ValidOrder exP σ :=
  ⟨[0, 1], by decide, (validOrder_iff exP _).1 (by decide)⟩
example : ¬ ∃ σ : List Ref, σ.Perm [2, 3] ∧ ValidOrder exP σ := by
  intro h
  have := (C09_success_iff_order exP [2, 3] (by decide) 3 (by decide)).2 h
  revert this; decide
example : loopFiles exP 6 [[4, 3], [2, 1, 0]] [] = ([[4, 3], [2]], [1, 0]) := by decide
example : loopFiles exP 6 [[1], [0]] [] = ([[], []], [1, 0]) := by decide
example : ∃ σ : List Ref, σ.Perm (idsOf [[⟨0, 0, 0⟩], [⟨1, 1, 0⟩, ⟨2, 2, 0⟩]]) ∧
    ValidOrder (specP exW3 [[⟨0, 0, 0⟩], [⟨1, 1, 0⟩, ⟨2, 2, 0⟩]]) σ :=
  ⟨[2, 1, 0], by decide, (validOrder_iff _ _).1 (by decide)⟩

end Resolve
