import TextxVerif.Proofs.Resolve
/-!
# C09 — postponed resolution reaches the right fixpoint and terminates

Model: `Resolve.step` / `Resolve.loop` (TextxVerif/Resolve.lean), mirroring
`textx/model.py:935-968` and `ReferenceResolver.resolve_one_step`.
A scope provider is any function of the currently resolved set that is
monotone (`Provider.mono`): resolving more references never turns a resolvable
reference into a postponed one.  `Derivable P refs r` is the order-free
statement "some order of resolving references lets `r` resolve given the ones
resolved before it".

Only property theorems and non-vacuity examples live here; lemmas are in
`Proofs/Resolve.lean`.
-/
namespace Resolve

/-- **Termination.** The `while` loop leaves by its own exit test ("nothing
pending" or "a round resolved nothing") within `|refs| + 1` rounds: any two fuel
values above `|refs|` give the same result, so the fuel never cuts the loop. -/
theorem C09_terminates (P : Provider) (refs : List Ref) (n m : Nat)
    (hn : refs.length < n) (hm : refs.length < m) :
    loop P n refs [] = loop P m refs [] := by
  rcases Nat.le_total n m with h | h
  · exact (loop_fuel P refs [] n m hn h).symm
  · exact loop_fuel P refs [] m n hm h

/-- …and when it stops, either nothing is pending or no pending reference is
ready: the exit state is a genuine fixpoint of the resolution pass. -/
theorem C09_fixpoint (P : Provider) (refs : List Ref) (n : Nat) (hn : refs.length < n) :
    (loop P n refs []).1 = [] ∨
      ∀ r, r ∈ (loop P n refs []).1 → P.ready (loop P n refs []).2 r = false :=
  loop_fixpoint P n refs [] hn

/-- **Least fixpoint.** The resolved references are exactly the derivable ones. -/
theorem C09_lfp (P : Provider) (refs : List Ref) (n : Nat) (hn : refs.length < n) (x : Ref) :
    x ∈ (loop P n refs []).2 ↔ Derivable P refs x :=
  loop_lfp P refs n hn x

/-- **Success criterion.** Loading succeeds (nothing stays pending) exactly when
every reference is derivable, i.e. some resolution order resolves them all. -/
theorem C09_success_iff (P : Provider) (refs : List Ref) (hnd : refs.Nodup) (n : Nat)
    (hn : refs.length < n) :
    (loop P n refs []).1 = [] ↔ ∀ x, x ∈ refs → Derivable P refs x := by
  constructor
  · intro h x hx
    have := (loop_partition P n refs [] x).1 (Or.inl hx)
    rw [h] at this
    exact (C09_lfp P refs n hn x).1 (by simpa using this)
  · intro h
    cases hp : (loop P n refs []).1 with
    | nil => rfl
    | cons y ys =>
      have hy : y ∈ (loop P n refs []).1 := by simp [hp]
      have hyU := loop_pending_sub P n refs [] y hy
      have hres := (C09_lfp P refs n hn y).2 (h y hyU)
      exact absurd hres (loop_disjoint P n refs [] hnd (by simp) y hy)

/-- **Error exactness.** What stays pending — the references named by the
"Unresolvable cross references" error — is exactly the complement of the least
fixpoint. -/
theorem C09_error_exact (P : Provider) (refs : List Ref) (hnd : refs.Nodup) (n : Nat)
    (hn : refs.length < n) (x : Ref) :
    x ∈ (loop P n refs []).1 ↔ x ∈ refs ∧ ¬ Derivable P refs x := by
  constructor
  · intro hx
    refine ⟨loop_pending_sub P n refs [] x hx, fun hd => ?_⟩
    exact loop_disjoint P n refs [] hnd (by simp) x hx ((C09_lfp P refs n hn x).2 hd)
  · rintro ⟨hU, hnd'⟩
    rcases (loop_partition P n refs [] x).1 (Or.inl hU) with h | h
    · exact h
    · exact absurd ((C09_lfp P refs n hn x).1 h) hnd'

/-- **Order independence.** Any reordering of the references (hence any
round-robin interleaving over model files, which is a reordering of the
concatenated pending list) resolves the same set, and so gives the same
verdict. -/
theorem C09_order_indep (P : Provider) (refs refs' : List Ref) (hperm : refs.Perm refs')
    (n : Nat) (hn : refs.length < n) (x : Ref) :
    x ∈ (loop P n refs' []).2 ↔ x ∈ (loop P n refs []).2 := by
  have hn' : refs'.length < n := by rw [← hperm.length_eq]; exact hn
  rw [C09_lfp P refs n hn, C09_lfp P refs' n hn']
  exact ⟨Derivable.congr P _ _ (fun y hy => hperm.symm.subset hy) x,
         Derivable.congr P _ _ (fun y hy => hperm.subset hy) x⟩

/-! ## non-vacuity: a concrete provider with a chain, a cycle and a dead reference -/

/-- reference 0 is free, 1 waits for 0, 2 and 3 wait for each other, 4 waits for 2 -/
def exDeps : Ref → List Ref
  | 1 => [0] | 2 => [3] | 3 => [2] | 4 => [2] | _ => []

def exP : Provider where
  ready S r := (exDeps r).all (· ∈ S)
  mono := by
    intro S S' r h hr
    simp only [List.all_eq_true, decide_eq_true_eq] at hr ⊢
    exact fun x hx => h x (hr x hx)

example : loop exP 6 [4, 3, 2, 1, 0] [] = ([4, 3, 2], [1, 0]) := by decide
example : loop exP 6 [1, 0] [] = ([], [1, 0]) := by decide
example : [4, 3, 2, 1, 0].Nodup ∧ [4, 3, 2, 1, 0].length < 6 := by decide

end Resolve
