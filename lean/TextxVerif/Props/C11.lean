import TextxVerif.Proofs.RrelComplete
import TextxVerif.Proofs.RrelPath
import TextxVerif.Proofs.RrelFuel
import TextxVerif.Proofs.RrelTerm
import TextxVerif.RrelProvider
import TextxVerif.Proofs.RrelAnc
import TextxVerif.Proofs.RrelCore
import TextxVerif.Proofs.RrelSyntaxRange
/-!
# C11 — RREL reference resolution follows the documented expression semantics

Model: `Rrel.eval` / `Rrel.find` (TextxVerif/Rrel.lean) mirror
`textx/scoping/rrel.py` (`get_next_matches` of every node class, the visited
set, `find_object_with_path`, `find`) as it stands on branch `fix/C11`.
Specification: `Rrel.Exp` (TextxVerif/RrelSpec.lean) — "one expansion of the
expression leads from `s` to `t`", relational, from docs/src/rrel.md.

All theorems hold for every heap (object graph with arbitrary references and
cycles), every expression tree, every start object, every list of name parts,
every target class and every amount of fuel.  Lemmas are in `Proofs/Rrel*.lean`.
-/
namespace Rrel

/-- the initial state of a query -/
def start (o : Obj) (ns : List String) : St := ⟨o, ns, []⟩

/-- **Soundness.** A reference resolves only to an object reached by one expansion
of (one alternative of) the expression; that object has consumed every name
part and its type conforms; and the named objects on the way carry exactly the
name parts, in order (`NamedBy`: each consumed part is the name of the object
its step reached; fixed-name steps contribute a named object and consume nothing). -/
theorem C11_sound (H : Heap) (n : Nat) (paths : List E) (o : Obj) (ns : List String)
    (cls : Option String) (r : St) (h : find H n paths o ns cls = .found r) :
    (∃ p ∈ paths, Exp H p true (start o ns) r) ∧ r.ns = [] ∧ confOpt H r.o cls = true ∧
    NamedBy H r.path ns := by
  obtain ⟨p, hp, hexp, hm⟩ := findPaths_sound H n cls (start o ns) paths [] r h
  refine ⟨⟨p, hp, hexp⟩, hm.1, hm.2, ?_⟩
  obtain ⟨q, c, h1, h2, h3⟩ := exp_trace H p true (start o ns) r hexp
  simp only [start, List.nil_append] at h1 h2
  rw [hm.1, List.append_nil] at h2
  rw [h1, h2]
  exact h3

/-- **Completeness.** If evaluation gives up (Python's `None`, "Unknown object"),
then no expansion of any alternative reaches an object that has consumed every
name part and conforms — whatever the visited set pruned.  Node identities are
distinct, as they are for the objects of a parsed expression tree. -/
theorem C11_complete (H : Heap) (n : Nat) (paths : List E) (o : Obj) (ns : List String)
    (cls : Option String) (W : Vis) (hid : (paths.flatMap E.ids).Nodup)
    (h : find H n paths o ns cls = .cont W) :
    ∀ p ∈ paths, ¬ ∃ t, Exp H p true (start o ns) t ∧ IsMatch H cls t :=
  (findPaths_spec H n cls (start o ns) paths [] hid (by simp)).1 W h

/-- With every attribute resolved the search never answers `Postponed`. -/
theorem C11_no_postponed (H : Heap) (n : Nat) (paths : List E) (o : Obj) (ns : List String)
    (cls : Option String) (hres : ∀ o a, H.attr o a ≠ none) :
    find H n paths o ns cls ≠ .postponed := by
  have hk : ∀ t V, kTop H cls t V ≠ .postponed := by
    intro t V; simp only [kTop]; split <;> simp
  have : ∀ (ps : List E) (V : Vis), findPaths H n cls (start o ns) ps V ≠ .postponed := by
    intro ps
    induction ps with
    | nil => intro V; simp [findPaths]
    | cons p ps ih =>
      intro V
      simp only [findPaths]
      cases hp : eval H n p true (start o ns) V (kTop H cls) with
      | cont V1 => exact ih V1
      | found s' => simp
      | postponed => exact absurd hp (eval_ne_postponed H hres n p true _ V _ hk)
      | fuel => simp
  exact this paths []

/-- **Termination.** On a finite object graph (`U` closed under attributes, parents and
the `+m:` models) the search stops by itself: `fuelBound` — computed from the
expression, the number of objects and the number of name parts — is enough fuel,
whatever cycles the references form. -/
theorem C11_terminates (H : Heap) (U : List Obj) (hU : FinHeap H U) (n : Nat) (paths : List E)
    (o : Obj) (ho : o ∈ U) (ns : List String) (cls : Option String)
    (hn : fuelBound U ns paths ≤ n) : find H n paths o ns cls ≠ .fuel :=
  findPaths_term hU ns.length cls (start o ns) ⟨ho, Nat.le_refl _⟩ n paths []
    (fun p hp => Nat.le_trans (need_le_fuelBound U ns paths p hp) hn)

/-- **A reference resolves whenever a matching object exists.**  Finite object graph,
all attributes resolved, some alternative has an expansion ending in an object
that consumed every name part and conforms: then the search returns a match
(which by `C11_sound` / `C11_precedence` is such an object, of the first
alternative that has one). -/
theorem C11_resolves (H : Heap) (U : List Obj) (hU : FinHeap H U) (n : Nat) (paths : List E)
    (o : Obj) (ho : o ∈ U) (ns : List String) (cls : Option String)
    (hn : fuelBound U ns paths ≤ n) (hid : (paths.flatMap E.ids).Nodup)
    (hres : ∀ o a, H.attr o a ≠ none)
    (hex : ∃ p ∈ paths, ∃ t, Exp H p true (start o ns) t ∧ IsMatch H cls t) :
    ∃ r, find H n paths o ns cls = .found r := by
  cases hf : find H n paths o ns cls with
  | found r => exact ⟨r, rfl⟩
  | fuel => exact absurd hf (C11_terminates H U hU n paths o ho ns cls hn)
  | cont W =>
    obtain ⟨p, hp, hex⟩ := hex
    exact absurd hex (C11_complete H n paths o ns cls W hid hf p hp)
  | postponed => exact absurd hf (C11_no_postponed H n paths o ns cls hres)

/-- **Precedence.** The result comes from the first comma-separated alternative
that has a matching expansion at all: every alternative before the one that
produced the result has none. -/
theorem C11_precedence (H : Heap) (n : Nat) (paths : List E) (o : Obj) (ns : List String)
    (cls : Option String) (r : St) (hid : (paths.flatMap E.ids).Nodup)
    (h : find H n paths o ns cls = .found r) :
    ∃ pre p post, paths = pre ++ p :: post ∧ Exp H p true (start o ns) r ∧ IsMatch H cls r ∧
      ∀ q ∈ pre, ¬ ∃ t, Exp H q true (start o ns) t ∧ IsMatch H cls t :=
  (findPaths_spec H n cls (start o ns) paths [] hid (by simp)).2 r h

/-- **Path.** With `+p:` the proxy's path is the list of named objects traversed
(`C11_sound`: `NamedBy H r.path ns`), extended by the target when the last step
was not a name step; in either case it ends in the target. -/
theorem C11_path (H : Heap) (n : Nat) (paths : List E) (o : Obj) (ns : List String)
    (cls : Option String) (r : St) (h : find H n paths o ns cls = .found r) :
    (proxyPath r).getLast? = some r.o ∧
    (proxyPath r = r.path ∨ proxyPath r = r.path ++ [r.o]) ∧ NamedBy H r.path ns := by
  refine ⟨proxyPath_last r, ?_, (C11_sound H n paths o ns cls r h).2.2.2⟩
  rcases proxyPath_cases r with h1 | h1
  · exact Or.inl h1.1
  · exact Or.inr h1.1

/-- **Fuel.** An answer other than "out of fuel" is the answer for every larger fuel. -/
theorem C11_fuel_stable (H : Heap) (n m : Nat) (hnm : n ≤ m) (paths : List E) (o : Obj)
    (ns : List String) (cls : Option String) (r : Res)
    (h : find H n paths o ns cls = r) (hr : r ≠ .fuel) : find H m paths o ns cls = r :=
  findPaths_le H cls (start o ns) n m hnm paths [] r h hr

/-- **Name parts.** The provider hands over the non-empty parts of the split name only. -/
theorem C11_split (text sep : String) : ∀ p ∈ splitName text sep, p ≠ "" := by
  intro p hp
  simp only [splitName, List.mem_filter, decide_eq_true_eq] at hp
  exact hp.2

/-! ## the provider object and histories of references

`C11_sound` … `C11_split` speak about one query.  A scope provider object (an RREL
expression written in the grammar, or registered for `*.ref`, `Cls.*`, `*.*` …) answers
many: every reference it covers, in every model loaded with the meta-model, each with the
match rule (name delimiter) and target class of *that* reference. -/

/-- **Histories.** Whatever references a provider object served before — other match rules
with other delimiters, other target classes, other models — its answer to a reference is
the answer of the query for that reference alone, the name being split at the delimiter of
the reference's own match rule (`Provider.delim`). -/
theorem C11_history (p : Provider) (n : Nat) (hist : List (Heap × Call)) :
    p.run n hist = hist.map (fun hc => p.alone hc.1 n hc.2) := by
  induction hist with
  | nil => rfl
  | cons hc rest ih =>
    obtain ⟨H, c⟩ := hc
    simp only [Provider.run, Provider.call, List.map_cons, Provider.alone]
    rw [ih]
    rfl

/-- **The delimiter** is the one given to the provider, else the `split` parameter of the
match rule of the reference at hand, else `.` — a function of the provider's creation
arguments and the reference only. -/
theorem C11_delim (p : Provider) (c : Call) :
    (∀ s, p.split = some s → p.delim c = s) ∧
    (p.split = none → ∀ s, c.ruleSplit = some s → p.delim c = s) ∧
    (p.split = none → c.ruleSplit = none → p.delim c = ".") := by
  refine ⟨?_, ?_, ?_⟩
  · intro s h; simp [Provider.delim, h]
  · intro h s hs; simp [Provider.delim, h, hs]
  · intro h hs; simp [Provider.delim, h, hs]

/-- **Soundness and completeness at every position of every history.**  The answer to the
reference `c` (in model `H`) after the history `pre` (and before `post`) is: a match ⇒ an
object reached by one expansion from the name parts of `c` split at `c`'s delimiter, all parts
consumed, conforming to `c`'s class, the named objects carrying the parts; "unknown" ⇒ no
expansion of any alternative ends in a match. -/
theorem C11_provider (p : Provider) (n : Nat) (pre post : List (Heap × Call)) (H : Heap) (c : Call) :
    ∃ r, (p.run n (pre ++ (H, c) :: post))[pre.length]? = some r ∧
      (∀ s, r = .found s →
        (∃ q ∈ p.paths, Exp H q true (start c.o (splitName c.text (p.delim c))) s) ∧ s.ns = [] ∧
        confOpt H s.o c.cls = true ∧ NamedBy H s.path (splitName c.text (p.delim c))) ∧
      (∀ W, (p.paths.flatMap E.ids).Nodup → r = .cont W →
        ∀ q ∈ p.paths, ¬ ∃ t, Exp H q true (start c.o (splitName c.text (p.delim c))) t ∧
          IsMatch H c.cls t) := by
  refine ⟨p.alone H n c, ?_, ?_, ?_⟩
  · rw [C11_history]
    simp
  · intro s hs
    exact C11_sound H n p.paths c.o _ c.cls s hs
  · intro W hid hW
    exact C11_complete H n p.paths c.o _ c.cls W hid hW

/-! ## expression trees as written: no hypothesis on node identities

`C11_complete`, `C11_precedence` and `C11_resolves` assume `hid`: the node identities of the
core expression are pairwise distinct.  `RrelSyntax.toCore` (TextxVerif/RrelCore.lean) reads an
object tree of `RREL*` nodes — what `rrel.parse` returns — as core alternatives, numbering the
nodes in preorder; `toCore_nodup` discharges `hid` for every tree, and `C11_parsed_core` shows
that every text `rrel.parse` accepts has such a core.  The correspondence check compares `toCore`
of the dumped object tree with the identities `id(node)` of the real objects (op `find`,
field `surface`). -/

open RrelSyntax in
/-- every text accepted by `rrel.parse` yields a tree with a core: at least one alternative,
node identities pairwise distinct -/
theorem C11_parsed_core (cc : CC) (s : Str) (e : Expr) (hp : parse cc s = some e) :
    ∃ ps, toCore e = some ps ∧ ps ≠ [] ∧ (ps.flatMap E.ids).Nodup := by
  have hg := parse_sound hp
  have hc : (toCore e).isSome = true := toCore_isSome e hg
  obtain ⟨ps, hps⟩ := Option.isSome_iff_exists.mp hc
  refine ⟨ps, hps, coreTop_ne_nil e.seq 0 ps hps ?_, toCore_nodup e ps hps⟩
  simp only [gwfExpr, gwfSeq, Bool.and_eq_true, Bool.not_eq_true', List.isEmpty_eq_false_iff] at hg
  exact hg.2.2

open RrelSyntax in
/-- **Completeness for expression trees** (`C11_complete` without `hid`). -/
theorem C11_complete_tree (H : Heap) (n : Nat) (e : Expr) (ps : List E) (hc : toCore e = some ps)
    (o : Obj) (ns : List String) (cls : Option String) (W : Vis)
    (h : find H n ps o ns cls = .cont W) :
    ∀ p ∈ ps, ¬ ∃ t, Exp H p true (start o ns) t ∧ IsMatch H cls t :=
  C11_complete H n ps o ns cls W (toCore_nodup e ps hc) h

open RrelSyntax in
/-- **Precedence for expression trees** (`C11_precedence` without `hid`). -/
theorem C11_precedence_tree (H : Heap) (n : Nat) (e : Expr) (ps : List E) (hc : toCore e = some ps)
    (o : Obj) (ns : List String) (cls : Option String) (r : St)
    (h : find H n ps o ns cls = .found r) :
    ∃ pre p post, ps = pre ++ p :: post ∧ Exp H p true (start o ns) r ∧ IsMatch H cls r ∧
      ∀ q ∈ pre, ¬ ∃ t, Exp H q true (start o ns) t ∧ IsMatch H cls t :=
  C11_precedence H n ps o ns cls r (toCore_nodup e ps hc) h

open RrelSyntax in
/-- **A reference resolves whenever a matching object exists, for expression trees**
(`C11_resolves` without `hid`). -/
theorem C11_resolves_tree (H : Heap) (U : List Obj) (hU : FinHeap H U) (n : Nat) (e : Expr)
    (ps : List E) (hc : toCore e = some ps) (o : Obj) (ho : o ∈ U) (ns : List String)
    (cls : Option String) (hn : fuelBound U ns ps ≤ n) (hres : ∀ o a, H.attr o a ≠ none)
    (hex : ∃ p ∈ ps, ∃ t, Exp H p true (start o ns) t ∧ IsMatch H cls t) :
    ∃ r, find H n ps o ns cls = .found r :=
  C11_resolves H U hU n ps o ho ns cls hn (toCore_nodup e ps hc) hres hex

open RrelSyntax in
/-- **What `rrel.find` with an expression tree answers** (`evalExpr`: the tree's core, `+m:`
deciding whether the other models are searched, `+p:` whether a proxy is returned).
An object / a proxy ⇒ the object is reached by one expansion of an alternative, has consumed
every name part, conforms, the named objects carry the name parts, and the proxy's path is the
list of named objects, extended by the target if it does not end in it.  Unknown ⇒ no
alternative has a matching expansion.  No hypothesis about node identities. -/
theorem C11_expr (H : Heap) (n : Nat) (e : Expr) (o : Obj) (ns : List String) (cls : Option String)
    (a : Answer) (h : evalExpr H n e o ns cls = some a) :
    ∃ ps, toCore e = some ps ∧
      (∀ t, a = .obj t → e.useProxy = false ∧ ∃ r : St, r.o = t ∧
        (∃ p ∈ ps, Exp (heapFor H e) p true (start o ns) r) ∧ IsMatch (heapFor H e) cls r ∧
        NamedBy (heapFor H e) r.path ns) ∧
      (∀ path, a = .proxy path → e.useProxy = true ∧ ∃ r : St,
        (∃ p ∈ ps, Exp (heapFor H e) p true (start o ns) r) ∧ IsMatch (heapFor H e) cls r ∧
        NamedBy (heapFor H e) r.path ns ∧ path.getLast? = some r.o ∧
        (path = r.path ∨ path = r.path ++ [r.o])) ∧
      (a = .unknown → ∀ p ∈ ps, ¬ ∃ t, Exp (heapFor H e) p true (start o ns) t ∧
        IsMatch (heapFor H e) cls t) := by
  simp only [evalExpr, Option.map_eq_some_iff] at h
  obtain ⟨ps, hps, ha⟩ := h
  refine ⟨ps, hps, ?_, ?_, ?_⟩
  · intro t ht
    subst ht
    cases hf : find (heapFor H e) n ps o ns cls with
    | found r =>
      rw [hf] at ha
      simp only [answerOf] at ha
      split at ha
      · cases ha
      · rename_i hp
        simp only [Answer.obj.injEq] at ha
        obtain ⟨h1, h2, h3, h4⟩ := C11_sound _ n ps o ns cls r hf
        exact ⟨by simpa using hp, r, ha, h1, ⟨h2, h3⟩, h4⟩
    | cont W => rw [hf] at ha; cases ha
    | postponed => rw [hf] at ha; cases ha
    | fuel => rw [hf] at ha; cases ha
  · intro path ht
    subst ht
    cases hf : find (heapFor H e) n ps o ns cls with
    | found r =>
      rw [hf] at ha
      simp only [answerOf] at ha
      split at ha
      · rename_i hp
        simp only [Answer.proxy.injEq] at ha
        obtain ⟨h1, h2, h3, h4⟩ := C11_sound _ n ps o ns cls r hf
        obtain ⟨h5, h6, _⟩ := C11_path _ n ps o ns cls r hf
        rw [ha] at h5 h6
        exact ⟨hp, r, h1, ⟨h2, h3⟩, h4, h5, h6⟩
      · cases ha
    | cont W => rw [hf] at ha; cases ha
    | postponed => rw [hf] at ha; cases ha
    | fuel => rw [hf] at ha; cases ha
  · intro hu
    subst hu
    cases hf : find (heapFor H e) n ps o ns cls with
    | found r =>
      rw [hf] at ha
      simp only [answerOf] at ha
      split at ha <;> cases ha
    | cont W => exact C11_complete_tree _ n e ps hps o ns cls W hf
    | postponed => rw [hf] at ha; cases ha
    | fuel => rw [hf] at ha; cases ha

/-! ## what `anc` and `root` mean

`anc` walks up at most `H.depth` times; the specification (`AtomStep` for `parent(T)` and the
dots, `root` for leading navigation steps and `*`) uses the same function.  On a finite heap
`U` (closed under `parent`) with acyclic parent chains and `U.length ≤ H.depth` — the driver's
heaps: `depth` = number of objects — the bound is never reached, and `anc` / `root` have a
meaning that does not mention fuel. -/

/-- **Ancestors.** `anc H o` lists exactly the strict ancestors of `o`
(transitive closure of `parent`). -/
theorem C11_anc_spec (H : Heap) (U : List Obj) (hU : FinHeap H U) (hd : U.length ≤ H.depth)
    (hac : Acyclic H) (o : Obj) (ho : o ∈ U) (p : Obj) :
    p ∈ anc H o ↔ Relation.TransGen (ParentOf H) o p :=
  mem_anc_iff hU hd hac o ho p

/-- **Order of the ancestors**: nearest first — the fuel-free reading of
`while hasattr(obj, "parent"): obj = obj.parent`; the `k`-th entry is the `(k+1)`-fold parent,
and there is none exactly when the chain ends before. -/
theorem C11_anc_order (H : Heap) (U : List Obj) (hU : FinHeap H U) (hd : U.length ≤ H.depth)
    (hac : Acyclic H) (o : Obj) (ho : o ∈ U) :
    (anc H o = match H.parent o with
      | none => []
      | some p => p :: anc H p) ∧
    ∀ k, (anc H o)[k]? = parentIter H (k+1) o :=
  ⟨anc_unfold hU hd hac o ho, anc_getElem hU hd hac o ho⟩

/-- **Model root.** `root H o` (`get_model(obj)`) has no parent and is `o` itself or an
ancestor of `o`. -/
theorem C11_root_spec (H : Heap) (U : List Obj) (hU : FinHeap H U) (hd : U.length ≤ H.depth)
    (hac : Acyclic H) (o : Obj) (ho : o ∈ U) :
    H.parent (root H o) = none ∧ (root H o = o ∨ Relation.TransGen (ParentOf H) o (root H o)) :=
  root_spec hU hd hac o ho

/-- **Dots.** The specification of `.`×n (`AtomStep … (.dots n)`) says: the object itself for
`n ≤ 1`, else the `(n-1)`-fold parent — no truncation. -/
theorem C11_dots_spec (H : Heap) (U : List Obj) (hU : FinHeap H U) (hd : U.length ≤ H.depth)
    (hac : Acyclic H) (o : Obj) (ho : o ∈ U) (n : Nat) (first : Bool) (ns : List String)
    (r : Obj × List String × Bool) :
    AtomStep H (.dots n) first o ns r ↔
      parentIter H (n - 1) o = some r.1 ∧ r.2.1 = ns ∧ r.2.2 = false := by
  simp only [AtomStep]
  rcases Nat.lt_or_ge n 2 with hn | hn
  · have h0 : n - 1 = 0 := by omega
    rw [h0]
    simp only [parentIter, Option.some.injEq]
    constructor
    · rintro ⟨h | h, h2⟩
      · exact ⟨h.2.symm, h2⟩
      · omega
    · rintro ⟨h1, h2⟩
      exact ⟨Or.inl ⟨by omega, h1.symm⟩, h2⟩
  · have h1 : n - 1 = (n - 2) + 1 := by omega
    rw [h1, ← anc_getElem hU hd hac o ho (n - 2)]
    constructor
    · rintro ⟨h | h, h2⟩
      · omega
      · exact ⟨h.2, h2⟩
    · rintro ⟨h1, h2⟩
      exact ⟨Or.inr ⟨hn, h1⟩, h2⟩

/-- **`parent(T)`.** The specification of `parent(T)` says: the nearest strict ancestor that
conforms to `T` — an ancestor conforming to `T` such that no ancestor strictly between conforms. -/
theorem C11_parent_spec (H : Heap) (U : List Obj) (hU : FinHeap H U) (hd : U.length ≤ H.depth)
    (hac : Acyclic H) (o : Obj) (ho : o ∈ U) (T : String) (first : Bool) (ns : List String)
    (r : Obj × List String × Bool) :
    AtomStep H (.parent T) first o ns r ↔
      (∃ k, parentIter H (k+1) o = some r.1 ∧ H.conf r.1 T = true ∧
        ∀ j, j < k → ∀ q, parentIter H (j+1) o = some q → H.conf q T = false) ∧
      r.2.1 = ns ∧ r.2.2 = false := by
  simp only [AtomStep]
  have hget := anc_getElem hU hd hac o ho
  constructor
  · rintro ⟨pre, post, happ, hpre, hc, h1, h2⟩
    refine ⟨⟨pre.length, ?_, hc, ?_⟩, h1, h2⟩
    · rw [← hget, happ]; simp
    · intro j hj q hq
      rw [← hget, happ, List.getElem?_append_left hj] at hq
      exact hpre q (List.mem_of_getElem? hq)
  · rintro ⟨⟨k, hk, hc, hlt⟩, h1, h2⟩
    rw [← hget] at hk
    obtain ⟨hlen, hk'⟩ := List.getElem?_eq_some_iff.mp hk
    refine ⟨(anc H o).take k, (anc H o).drop (k+1), ?_, ?_, hc, h1, h2⟩
    · rw [← hk']
      simp
    · intro q hq
      obtain ⟨j, hj, hjq⟩ := List.getElem_of_mem hq
      have hjk : j < k := by simpa using (Nat.lt_of_lt_of_le hj (List.length_take_le _ _))
      refine hlt j hjk q ?_
      rw [← hget]
      rw [List.getElem_take] at hjq
      rw [← hjq]
      exact List.getElem?_eq_getElem _

/-- **The `+m:` start list** (`starts`, shared by model and specification), relationally: the
source itself comes first; the other models follow exactly when the source is a model root. -/
theorem C11_starts_spec (H : Heap) (src : Obj) :
    (starts H src).head? = some src ∧
    ∀ x, x ∈ starts H src ↔ x = src ∨ (H.parent src = none ∧ x ∈ H.extra) := by
  simp only [starts]
  cases hp : H.parent src with
  | none => simp
  | some p => simp

/-- **What `*` reaches without a repetition** (`zeros`, shared by model and specification),
relationally: later in a path the object itself; as the first element the object itself if the
body can start locally (`parent(T)`, dots) and the model root if it can start with a navigation
step. -/
theorem C11_zeros_spec (H : Heap) (e : E) (first : Bool) (s t : St) :
    t ∈ zeros H e first s ↔
      (first = false ∧ t = s) ∨
      (first = true ∧ ((e.startLocal = true ∧ t = s) ∨
        (e.startRoot = true ∧ t = { s with o := root H s.o }))) := by
  simp only [zeros]
  cases first <;> cases e.startLocal <;> cases e.startRoot <;> simp

/-! ## non-vacuity -/

/-- root 0 with `a = [1, 2, 3]`; 1 = `A x`, 2 = `B x`, 3 = `A y` with `a = [4]`, `r = 2`;
4 = `B x` with `r = 3` (a reference cycle 3 → 4 → 3 through `a`/`r`) -/
def exH : Heap where
  parent o := if o = 0 then none else if o = 4 then some 3 else if o ≤ 3 then some 0 else none
  attr o a :=
    if o = 0 ∧ a = "a" then some [1, 2, 3]
    else if o = 3 ∧ a = "a" then some [4]
    else if o = 3 ∧ a = "r" then some [2]
    else if o = 4 ∧ a = "r" then some [3]
    else some []
  name o := if o = 1 ∨ o = 2 ∨ o = 4 then some "x" else if o = 3 then some "y" else none
  conf o T := (T = "A" ∧ (o = 1 ∨ o = 3)) ∨ (T = "B" ∧ (o = 2 ∨ o = 4))
  extra := []
  depth := 5

/-- `a` from object 4, name `x`, class `B`: the second of two siblings named `x` -/
example : find exH 5 [.atom 0 (.nav "a" .consume)] 4 ["x"] (some "B") = .found ⟨2, [], [2]⟩ := by
  decide

/-- `^a` (`(..)*.a`) from object 4, name `x`, class `B`: found in the nearest enclosing scope -/
example : find exH 9 [.cat (.star 0 (.grp 1 (.atom 2 (.dots 2)))) (.atom 3 (.nav "a" .consume))]
    4 ["x"] (some "B") = .found ⟨4, [], [4]⟩ := by decide

/-- `(~a,~r)*.a` with the reference cycle, name `z`: the search gives up (and terminates) -/
example : (match find exH 12
    [.cat (.star 0 (.grp 1 (.alt (.atom 2 (.nav "a" .tilde)) (.atom 3 (.nav "r" .tilde)))))
      (.atom 4 (.nav "a" .consume))] 4 ["z"] none with | .cont _ => true | _ => false) = true := by
  decide

/-- `a.~r` : the last step is not a name step; the proxy path is extended by the target -/
example : find exH 6 [.cat (.atom 0 (.nav "a" .consume)) (.atom 1 (.nav "r" .tilde))] 1 ["y"] none
    = .found ⟨2, [], [3]⟩ ∧ proxyPath ⟨2, [], [3]⟩ = [3, 2] := by decide

/-- `a.a.(..)`, name `y.x`: the last step is not a name step and returns to an object that is
already on the named path (3 → 4 → back to 3); the target is appended all the same — the test is
"is the last entry the target", not "does the target occur in the path" -/
example : find exH 8 [.cat (.atom 0 (.nav "a" .consume)) (.cat (.atom 1 (.nav "a" .consume))
      (.grp 2 (.grp 3 (.atom 4 (.dots 2)))))] 0 ["y", "x"] none = .found ⟨3, [], [3, 4]⟩ ∧
    proxyPath ⟨3, [], [3, 4]⟩ = [3, 4, 3] := by decide

/-- `a.a.r`, name `y.x.y`: the named objects repeat (reference cycle 3 → 4 → 3) and the last
step is a name step; the path already ends in the target and is not extended -/
example : find exH 8 [.cat (.atom 0 (.nav "a" .consume)) (.cat (.atom 1 (.nav "a" .consume))
      (.atom 2 (.nav "r" .consume)))] 0 ["y", "x", "y"] none = .found ⟨3, [], [3, 4, 3]⟩ ∧
    proxyPath ⟨3, [], [3, 4, 3]⟩ = [3, 4, 3] := by decide

example : ([E.cat (.star 0 (.grp 1 (.alt (.atom 2 (.nav "a" .tilde)) (.atom 3 (.nav "r" .tilde)))))
      (.atom 4 (.nav "a" .consume))].flatMap E.ids).Nodup := by decide

/-- the example heap is finite: objects 0..4 -/
example : FinHeap exH [0, 1, 2, 3, 4] where
  attr := by
    intro o _ a l h x hx
    simp only [exH] at h
    split at h
    · cases h; simp at hx ⊢; grind
    · split at h
      · cases h; simp at hx ⊢; grind
      · split at h
        · cases h; simp at hx ⊢; grind
        · split at h
          · cases h; simp at hx ⊢; grind
          · cases h; simp at hx
  parent := by
    intro o _ p h
    simp only [exH] at h
    split at h
    · cases h
    · split at h
      · cases h; simp
      · split at h
        · cases h; simp
        · cases h
  extra := by simp [exH]

example : fuelBound [0, 1, 2, 3, 4] ["z"]
    [.cat (.star 0 (.grp 1 (.alt (.atom 2 (.nav "a" .tilde)) (.atom 3 (.nav "r" .tilde)))))
      (.atom 4 (.nav "a" .consume))] = 17 := by decide

example : ∀ o a, exH.attr o a ≠ none := by
  intro o a; simp only [exH]; split <;> (try split) <;> (try split) <;> (try split) <;> simp

/-- one provider (`a.a`, no delimiter of its own) serving three references in a row: match rule
without `split` parameter (`y.x`), match rule with `split='::'` (`y::x`), and a `::` rule given a
dotted name (one part `y.x`, which names nothing) -/
def exP : Provider := ⟨[.cat (.atom 0 (.nav "a" .consume)) (.atom 1 (.nav "a" .consume))], none, false⟩

example : exP.delim ⟨0, "y::x", some "::", none⟩ = "::" ∧ exP.delim ⟨0, "y.x", none, none⟩ = "." ∧
    (⟨exP.paths, some "/", false⟩ : Provider).delim ⟨0, "y::x", some "::", none⟩ = "/" := by decide

/-- (the kernel does not evaluate `String.splitOn`; the three splits are checked by evaluation
in the `#guard`s below and enter the example as hypotheses) -/
example (h1 : splitName "y.x" "." = ["y", "x"]) (h2 : splitName "y::x" "::" = ["y", "x"])
    (h3 : splitName "y.x" "::" = ["y.x"]) :
    (exP.run 6 [(exH, ⟨0, "y.x", none, none⟩), (exH, ⟨0, "y::x", some "::", none⟩),
      (exH, ⟨0, "y.x", some "::", none⟩), (exH, ⟨0, "y.x", none, some "B"⟩)]).map
      (fun r => match r with | .found s => some s.o | _ => none) = [some 4, some 4, none, some 4] := by
  simp only [Provider.run, Provider.call, Provider.delim, exP, h1, h2, h3]
  decide

/-- the example heap has acyclic parent chains (rank: root 0, its children 1, object 4 below 3) and
`depth` covers its five objects: the hypotheses of `C11_anc_spec` … `C11_parent_spec` hold -/
example : Acyclic exH :=
  acyclic_of_rank exH (fun o => if o = 0 then 0 else if o ≤ 3 then 1 else 2) (by
    intro a b h
    simp only [exH] at h
    split at h
    · cases h
    · split at h
      · cases h; simp_all
      · split at h
        · cases h; split <;> simp_all
        · cases h)
example : [0, 1, 2, 3, 4].length ≤ exH.depth := by decide
example : anc exH 4 = [3, 0] ∧ root exH 4 = 0 ∧ parentIter exH 2 4 = some 0 ∧ parentIter exH 3 4 = none := by
  decide

open RrelSyntax in
/-- `^a` as an expression tree: its core is the hand-written core of the example above
(identities 0 … 3), found without any hypothesis on identities -/
example : toCore ⟨[[.star [[.dots 2]], .nav ['a'] true none]], []⟩ =
    some [.cat (.star 0 (.grp 1 (.atom 2 (.dots 2)))) (.atom 3 (.nav "a" .consume))] := by decide

open RrelSyntax in
example : evalExpr exH 9 ⟨[[.star [[.dots 2]], .nav ['a'] true none]], ['p']⟩ 4 ["x"] (some "B") =
    some (.proxy [4]) := by decide

#guard splitName "y.x" "." == ["y", "x"]
#guard splitName "y::x" "::" == ["y", "x"]
#guard splitName "y.x" "::" == ["y.x"]

end Rrel
