import TextxVerif.Proofs.GenFile
import TextxVerif.Proofs.GenFileOps
import TextxVerif.Proofs.GenFileFaults
/-!
# C31 — generated output files are all-or-nothing

Model: `GenFile.exportNew` / `GenFile.genFile` / `GenFile.runAll`
(`TextxVerif/Out/GenFile.lean`) mirror `textx/export.py: _open_output` as used
by `metamodel_export` / `model_export` and `textx/generators.py: gen_file`, after
the `fix:` commit of branch `fix/C30`.  An export is the list of chunks it
writes, of any length; a crash point is any operation of the sequence
`open, write₀ … writeₙ₋₁, close(flush), replace`, a failing `write` possibly
having written part of its data.  The theorems hold for every file system
state, every chunk list, every crash point and every history of runs.

Second layer (`TextxVerif/Out/GenFileOps.lean`): the same code as the sequence of
primitive file operations that take effect (`open(tmp,"w")`, one append per
`write`, `os.replace` / `os.remove`).  `C31_ops_summary` shows that `exportNew`
is exactly its end state, `C31_prefix_atomic` that the output file is untouched in
every intermediate state — so the all-or-nothing theorems are consequences of
the operations the code performs, not of the shape of `exportNew`.
`C31_history_exact` gives the exact end state of a history from *any* starting
directory (last completed run wins, files present before survive failed runs).
-/
namespace GenFile

/-- **All-or-nothing (nothing).**  Whatever operation of an export raises, no
path of the file system changes — in particular the output file is still absent
or still holds its previous content — and the temporary sibling does not exist. -/
theorem C31_atomic (fs : FS) (n : Nat) (chunks : List Nat) (crash : Crash)
    (hfail : (exportNew fs (.out n) chunks crash).2 = false) :
    (exportNew fs (.out n) chunks crash).1 (.out n) = fs (.out n) ∧
    (exportNew fs (.out n) chunks crash).1 (.tmp n) = none ∧
    ∀ q, q ≠ .tmp n → (exportNew fs (.out n) chunks crash).1 q = fs q := by
  have h := exportNew_failed fs n chunks crash hfail
  refine ⟨by rw [h]; simp, by rw [h]; simp, fun q hq => by rw [h]; simp [hq]⟩

/-- **All-or-nothing (all).**  An export that returns normally leaves exactly
the complete content in the output file, no temporary file, and touches nothing
else; and it returns normally iff no operation raised. -/
theorem C31_complete (fs : FS) (n : Nat) (chunks : List Nat) (crash : Crash) :
    ((exportNew fs (.out n) chunks crash).2 = true ↔
      crash = .none ∨ ∃ k partly, crash = .atWrite k partly ∧ chunks.length ≤ k) ∧
    ((exportNew fs (.out n) chunks crash).2 = true →
      (exportNew fs (.out n) chunks crash).1 (.out n) = some (fullContent chunks) ∧
      (exportNew fs (.out n) chunks crash).1 (.tmp n) = none ∧
      ∀ q, q ≠ .out n → q ≠ .tmp n → (exportNew fs (.out n) chunks crash).1 q = fs q) := by
  refine ⟨exportNew_ok_iff _ _ _ _, fun hok => ?_⟩
  have h := exportNew_ok fs n chunks crash hok
  refine ⟨by rw [h]; simp, by rw [h]; simp, fun q h1 h2 => by rw [h]; simp [h1, h2]⟩

/-- **Histories.**  Start from a directory without output or temporary files
and run any history of generator runs — any targets, contents, `--overwrite`
flags and crash points.  Afterwards every output file that exists holds the
complete output of a run of the history, for that file, that completed; and no
temporary file exists. -/
theorem C31_history (runs : List Run) :
    let fin := runAll exportNew FS.empty runs
    (∀ n c, fin.1 (.out n) = some c →
      ∃ r, (r, Outcome.done) ∈ runs.zip fin.2 ∧ r.path = n ∧ c = fullContent r.chunks) ∧
    (∀ n, fin.1 (.tmp n) = none) := by
  have h := runAll_inv _ _ inv_empty runs
  obtain ⟨h1, h2⟩ := h
  refine ⟨fun n c hc => ?_, h2⟩
  rcases h1 n c hc with hF | hP
  · exact absurd hF (by simp)
  · exact hP

/-- **No skipping of truncated files.**  After any history `pre`, if the next
run is skipped as "already generated" (no `--overwrite`, file exists), the file it
skips is the complete output of an earlier run that completed — never a truncated
one.  Equivalently: after a failed run a later run without `--overwrite`
regenerates unless a complete older output is there. -/
theorem C31_no_skip (pre : List Run) (r : Run)
    (hskip : (genFile exportNew (runAll exportNew FS.empty pre).1 (.out r.path) r.overwrite r.chunks r.crash).2
      = .skipped) :
    r.overwrite = false ∧
    ∃ r', (r', Outcome.done) ∈ pre.zip (runAll exportNew FS.empty pre).2 ∧ r'.path = r.path ∧
      (runAll exportNew FS.empty pre).1 (.out r.path) = some (fullContent r'.chunks) := by
  unfold genFile at hskip
  split at hskip
  · simp only at hskip
    split at hskip <;> cases hskip
  · rename_i hc
    simp only [Bool.or_eq_true, not_or, Bool.not_eq_true] at hc
    obtain ⟨hov, hex⟩ := hc
    refine ⟨hov, ?_⟩
    cases hfs : (runAll exportNew FS.empty pre).1 (.out r.path) with
    | none => simp [hfs] at hex
    | some c =>
      obtain ⟨r', hm, hp, hcc⟩ := (C31_history pre).1 r.path c hfs
      exact ⟨r', hm, hp, by rw [hcc]⟩

/-- a run is skipped exactly when `--overwrite` is off and the target exists (gen_file's rule) -/
theorem C31_skip_iff (exp : FS → Path → List Nat → Crash → FS × Bool) (fs : FS) (p : Path) (ov : Bool)
    (chunks : List Nat) (crash : Crash) :
    ((genFile exp fs p ov chunks crash).2 = .skipped ↔ ov = false ∧ (fs p).isSome) ∧
    ((genFile exp fs p ov chunks crash).2 = .skipped → (genFile exp fs p ov chunks crash).1 = fs) := by
  unfold genFile
  split
  · rename_i hc
    simp only [Bool.or_eq_true] at hc
    refine ⟨⟨fun h => ?_, fun ⟨h1, h2⟩ => ?_⟩, fun h => ?_⟩
    · simp only at h; split at h <;> cases h
    · rcases hc with hc | hc
      · simp [h1] at hc
      · cases hfs : fs p <;> simp_all
    · simp only at h; split at h <;> cases h
  · rename_i hc
    simp only [Bool.or_eq_true, not_or, Bool.not_eq_true] at hc
    refine ⟨⟨fun _ => ⟨hc.1, ?_⟩, fun _ => rfl⟩, fun _ => rfl⟩
    cases hfs : fs p <;> simp_all

/-! ## operation level -/

/-- **`exportNew` is what the operations of `_open_output` add up to.**  Running the primitive
operations of the call one after the other (`Op.apply`) ends in exactly the state and the
return status of `exportNew`, for every starting directory, chunk list and crash point. -/
theorem C31_ops_summary (fs : FS) (n : Nat) (chunks : List Nat) (crash : Crash) :
    exportOps fs (.out n) chunks crash = exportNew fs (.out n) chunks crash :=
  exportOps_eq fs n chunks crash

/-- **All-or-nothing at every intermediate point.**  Stop the call after any number of its
operations (process killed, exception of any kind): as long as the last operation has not been
done, every path other than the temporary sibling — in particular the output file — is exactly
as before the call.  Every recorded state has the output file as it was, except the state after
the last operation of a call that got through, where it holds the complete content. -/
theorem C31_prefix_atomic (fs : FS) (n : Nat) (chunks : List Nat) (crash : Crash) :
    let ops := (program (.out n) chunks crash).1
    (∀ i, i < ops.length → ∀ q, q ≠ .tmp n → runOps fs (ops.take i) q = fs q) ∧
    (∀ i s, (statesOf fs ops)[i]? = some s →
      s (.out n) = if (program (.out n) chunks crash).2 = true ∧ i + 1 = ops.length
        then some (fullContent chunks) else fs (.out n)) := by
  refine ⟨fun i hi q hq => program_prefix fs n chunks crash i hi q hq, ?_⟩
  intro i s hs
  have hlen : i < (program (.out n) chunks crash).1.length := by
    have h1 := statesOf_length fs (program (.out n) chunks crash).1
    rcases Nat.lt_or_ge i (statesOf fs (program (.out n) chunks crash).1).length with h | h
    · omega
    · rw [List.getElem?_eq_none h] at hs; cases hs
  rw [statesOf_get fs _ i hlen] at hs
  injection hs with hs
  subst hs
  by_cases hlast : i + 1 = (program (.out n) chunks crash).1.length
  · rw [hlast, List.take_length]
    have hsum := exportOps_eq fs n chunks crash
    have h1 : runOps fs (program (.out n) chunks crash).1 = (exportNew fs (.out n) chunks crash).1 := by
      rw [← hsum]; rfl
    have h2 : (program (.out n) chunks crash).2 = (exportNew fs (.out n) chunks crash).2 := by
      rw [← hsum]; rfl
    rw [h1, h2]
    cases hok : (exportNew fs (.out n) chunks crash).2 with
    | true => rw [exportNew_ok fs n chunks crash hok]; simp
    | false => rw [exportNew_failed fs n chunks crash hok]; simp
  · have hlt : i + 1 < (program (.out n) chunks crash).1.length := by omega
    rw [program_prefix fs n chunks crash (i + 1) hlt (.out n) (by simp)]
    simp [hlast]

/-- **What the driver reports per run is sound.**  The flag "every operation before the last has an effect
on the temporary sibling only" (`opsTrace`, compared with the implementation's mid-run observations) holds
for the program of `_open_output`, and for *any* operation list it implies that every state before the
last operation agrees with the start outside that path. -/
theorem C31_mid_flag (n : Nat) (chunks : List Nat) (crash : Crash) :
    (program (.out n) chunks crash).1.dropLast.all (Op.onlyB (.tmp n)) = true ∧
    (∀ (t : Path) (ops : List Op) (fs : FS), ops.dropLast.all (Op.onlyB t) = true →
      ∀ i, i < ops.length → ∀ q, q ≠ t → runOps fs (ops.take i) q = fs q) :=
  ⟨program_midOnly n chunks crash, fun t ops fs h i hi q hq => midOnly_sound t ops fs h i hi q hq⟩

/-! ## exact end state of a history -/

/-- **Exact end state, from any starting directory.**  After any history of runs every output
file holds the complete output of the *last* run that completed for it (`lastDone`, characterised
in `C31_lastDone_spec`), and exactly what it held at the start if no run completed for it —
failed runs, with or without `--overwrite`, and skipped runs leave no trace.  No temporary file
exists afterwards if none existed before. -/
theorem C31_history_exact (fs0 : FS) (runs : List Run) :
    let fin := runAll exportNew fs0 runs
    (∀ n, fin.1 (.out n) =
      match lastDone (runs.zip fin.2) n with
      | some r => some (fullContent r.chunks)
      | none => fs0 (.out n)) ∧
    ((∀ n, fs0 (.tmp n) = none) → ∀ n, fin.1 (.tmp n) = none) :=
  ⟨fun n => runAll_out_exact fs0 runs n, fun h0 n => runAll_tmp_none fs0 h0 runs n⟩

/-- what `lastDone` means, independently of its recursion: `some r` iff the history splits as
`pre ++ (r, done) :: post` with `r` a run for `n` and no completed run for `n` in `post`;
`none` iff no run completed for `n` -/
theorem C31_lastDone_spec (l : List (Run × Outcome)) (n : Nat) :
    (∀ r, lastDone l n = some r ↔
      ∃ pre post, l = pre ++ (r, Outcome.done) :: post ∧ r.path = n ∧
        ∀ x ∈ post, ¬ (x.2 = .done ∧ x.1.path = n)) ∧
    (lastDone l n = none ↔ ∀ x ∈ l, ¬ (x.2 = .done ∧ x.1.path = n)) :=
  ⟨fun r => lastDone_some_iff l n r, lastDone_none_iff l n⟩

/-- **Files that were there survive failed runs.**  If no run of the history completed for
output file `n` (every one failed — possibly under `--overwrite` — or was skipped), the file is
exactly what it was before the history. -/
theorem C31_failed_runs_keep (fs0 : FS) (runs : List Run) (n : Nat)
    (hno : ∀ x ∈ runs.zip (runAll exportNew fs0 runs).2, ¬ (x.2 = .done ∧ x.1.path = n)) :
    (runAll exportNew fs0 runs).1 (.out n) = fs0 (.out n) := by
  rw [runAll_out_exact, (lastDone_none_iff _ n).2 hno]

/-- **Last writer wins.**  If run `r` completed and no later run completed for the same output
file, the file holds exactly `r`'s complete output. -/
theorem C31_last_writer (fs0 : FS) (runs : List Run) (pre post : List (Run × Outcome)) (r : Run)
    (hsplit : runs.zip (runAll exportNew fs0 runs).2 = pre ++ (r, Outcome.done) :: post)
    (hpost : ∀ x ∈ post, ¬ (x.2 = .done ∧ x.1.path = r.path)) :
    (runAll exportNew fs0 runs).1 (.out r.path) = some (fullContent r.chunks) := by
  rw [runAll_out_exact, (lastDone_some_iff _ r.path r).2 ⟨pre, post, hsplit, rfl, hpost⟩]

/-- **Histories from any starting directory** (generalises `C31_history`): every output file
that exists afterwards either was there before with the same content or is the complete output
of a completed run of the history for that file; no temporaries if there were none. -/
theorem C31_history_from (fs0 : FS) (h0 : ∀ n, fs0 (.tmp n) = none) (runs : List Run) :
    let fin := runAll exportNew fs0 runs
    (∀ n c, fin.1 (.out n) = some c → fs0 (.out n) = some c ∨
      ∃ r, (r, Outcome.done) ∈ runs.zip fin.2 ∧ r.path = n ∧ c = fullContent r.chunks) ∧
    (∀ n, fin.1 (.tmp n) = none) := by
  have h := runAll_inv (fun n c => fs0 (.out n) = some c) fs0 ⟨fun _ _ h => h, h0⟩ runs
  exact ⟨fun n c hc => h.1 n c hc, h.2⟩

/-- **No skipping of truncated files, from any starting directory** (generalises `C31_no_skip`).
If the run after history `pre` is skipped as already generated, `--overwrite` is off and the file
it skips is the complete output of the last run that completed for it — or, if none did, the very
file that was there before the history, unchanged. -/
theorem C31_no_skip_from (fs0 : FS) (pre : List Run) (r : Run)
    (hskip : (genFile exportNew (runAll exportNew fs0 pre).1 (.out r.path) r.overwrite r.chunks r.crash).2
      = .skipped) :
    r.overwrite = false ∧
    ((∃ r', lastDone (pre.zip (runAll exportNew fs0 pre).2) r.path = some r' ∧
        (runAll exportNew fs0 pre).1 (.out r.path) = some (fullContent r'.chunks)) ∨
     (lastDone (pre.zip (runAll exportNew fs0 pre).2) r.path = none ∧
        ∃ c, fs0 (.out r.path) = some c ∧ (runAll exportNew fs0 pre).1 (.out r.path) = some c)) := by
  obtain ⟨hov, hex⟩ := (C31_skip_iff exportNew _ _ _ _ _).1.1 hskip
  refine ⟨hov, ?_⟩
  have hexact := runAll_out_exact fs0 pre r.path
  cases hl : lastDone (pre.zip (runAll exportNew fs0 pre).2) r.path with
  | some r' =>
    rw [hl] at hexact
    exact .inl ⟨r', rfl, hexact⟩
  | none =>
    rw [hl] at hexact
    simp only at hexact
    cases hc : fs0 (.out r.path) with
    | none => rw [hexact, hc] at hex; simp at hex
    | some c => exact .inr ⟨rfl, c, rfl, by rw [hexact, hc]⟩

/-- The pinned export (target opened with `"w"` first) violates the property:
a failure in the second write leaves a truncated file, and the next run without
`--overwrite` skips it. -/
theorem C31_pinned_false :
    ∃ runs : List Run,
      let fin := runAll exportPinned FS.empty runs
      fin.2 = [.failed, .skipped] ∧
      ∃ c, fin.1 (.out 0) = some c ∧ ∀ r ∈ runs, c ≠ fullContent r.chunks :=
  ⟨[⟨0, [1, 2, 3], false, .atWrite 1 true⟩, ⟨0, [1, 2, 3], false, .none⟩], by decide,
   [.full 1, .part 2], by decide, by decide⟩

/-- … and destroys an existing complete file when `--overwrite` is given -/
theorem C31_pinned_overwrite_false :
    ∃ runs : List Run,
      let fin := runAll exportPinned FS.empty runs
      fin.2 = [.done, .failed] ∧ fin.1 (.out 0) = some [.full 4] :=
  ⟨[⟨0, [1, 2, 3], false, .none⟩, ⟨0, [4, 5], true, .atWrite 1 false⟩], by decide, by decide⟩

/-! ## non-vacuity: the same histories with the repaired export -/

example : (runAll exportNew FS.empty
    [⟨0, [1, 2, 3], false, .atWrite 1 true⟩, ⟨0, [1, 2, 3], false, .none⟩]).2 = [.failed, .done] := by decide

example : (runAll exportNew FS.empty
    [⟨0, [1, 2, 3], false, .atWrite 1 true⟩, ⟨0, [1, 2, 3], false, .none⟩]).1 (.out 0) =
    some (fullContent [1, 2, 3]) := by decide

example : (runAll exportNew FS.empty
    [⟨0, [1, 2, 3], false, .none⟩, ⟨0, [4, 5], true, .atClose⟩, ⟨0, [4, 5], false, .none⟩]).2 =
    [.done, .failed, .skipped] := by decide

example : (runAll exportNew FS.empty
    [⟨0, [1, 2, 3], false, .none⟩, ⟨0, [4, 5], true, .atClose⟩, ⟨0, [4, 5], false, .none⟩]).1 (.out 0) =
    some (fullContent [1, 2, 3]) := by decide


/-! ## non-vacuity of the new statements -/

/-- a directory that already holds an output file -/
def exOld : FS := FS.empty.set (.out 0) (some [.full 9])

example : ∀ n, exOld (.tmp n) = none := by intro n; simp [exOld, FS.set, FS.empty]

-- a failed `--overwrite` run keeps the old file (hypothesis of `C31_failed_runs_keep` holds) …
example : (runAll exportNew exOld [⟨0, [1, 2], true, .atWrite 1 true⟩]).2 = [.failed] := by decide
example : (runAll exportNew exOld [⟨0, [1, 2], true, .atWrite 1 true⟩]).1 (.out 0) = some [.full 9] := by decide
-- … and a run without `--overwrite` skips it (hypothesis of `C31_no_skip_from`, second alternative)
example : (genFile exportNew exOld (.out 0) false [1, 2] .none).2 = .skipped := by decide

-- `lastDone`: the second completed run wins over the first, the failed third leaves no trace
example : lastDone ([⟨0, [1], false, .none⟩, ⟨0, [2, 3], true, .none⟩, ⟨0, [4], true, .atClose⟩].zip
    (runAll exportNew exOld [⟨0, [1], false, .none⟩, ⟨0, [2, 3], true, .none⟩, ⟨0, [4], true, .atClose⟩]).2) 0 =
    some ⟨0, [2, 3], true, .none⟩ := by decide

-- the operation program of a call that fails in its second write, and of one that gets through
example : program (.out 0) [1, 2, 3] (.atWrite 1 true) =
    ([.openW (.tmp 0), .append (.tmp 0) (.full 1), .append (.tmp 0) (.part 2), .remove (.tmp 0)], false) := by decide
example : program (.out 0) [1, 2] .none =
    ([.openW (.tmp 0), .append (.tmp 0) (.full 1), .append (.tmp 0) (.full 2), .replace (.tmp 0) (.out 0)], true) := by
  decide
-- an intermediate state really differs from the start (in the temporary sibling only)
example : runOps exOld ((program (.out 0) [1, 2] .none).1.take 2) (.tmp 0) = some [.full 1] := by decide
example : runOps exOld ((program (.out 0) [1, 2] .none).1.take 2) (.out 0) = some [.full 9] := by decide

/-! ## several failing calls in one run (a failure that does not go away) -/

/-- **Any set of failing calls.**  Let any subset of the fallible calls of one export raise (`Faults`: the
`open`, each `write`, the flush of every `close`, the `os.replace`) — in particular a *persistent* failure,
where the first failing `write` / flush is followed by a failing flush when the file is closed.  The export
ends exactly as the export with the single crash point `f.first` (the first failing call that is reached):
every statement about `exportNew` holds for every schedule. -/
theorem C31_faults (fs : FS) (n : Nat) (chunks : List Nat) (f : Faults) :
    exportFaults fs (.out n) chunks f = exportNew fs (.out n) chunks (f.first chunks.length) :=
  exportFaults_eq fs (.out n) chunks f

/-- **All-or-nothing under any failure schedule**, stated without `exportNew`: the export returns normally
iff none of the calls it makes raises; then the output file holds the complete content; otherwise no path
but the temporary sibling changes; the temporary sibling never stays. -/
theorem C31_faults_atomic (fs : FS) (n : Nat) (chunks : List Nat) (f : Faults) :
    ((exportFaults fs (.out n) chunks f).2 = true ↔
      f.atOpen = false ∧ (∀ k, k < chunks.length → f.atWrite k = none) ∧ f.atClose = false ∧ f.atReplace = false) ∧
    ((exportFaults fs (.out n) chunks f).2 = true →
      (exportFaults fs (.out n) chunks f).1 (.out n) = some (fullContent chunks)) ∧
    ((exportFaults fs (.out n) chunks f).2 = false →
      ∀ q, q ≠ .tmp n → (exportFaults fs (.out n) chunks f).1 q = fs q) ∧
    (exportFaults fs (.out n) chunks f).1 (.tmp n) = none := by
  refine ⟨?_, ?_, ?_, ?_⟩
  · unfold exportFaults
    by_cases ho : f.atOpen = true
    · simp [ho]
    · simp only [ho, Bool.false_eq_true, ↓reduceIte]
      cases hw : firstWrite f 0 chunks.length with
      | none =>
        have hall := firstWrite_none f _ 0 hw
        rw [writeLoop_none f chunks 0 [] (fun j h1 h2 => hall j h1 (by omega))]
        have hall' : ∀ k, k < chunks.length → f.atWrite k = none := fun k hk => hall k (Nat.zero_le _) (by omega)
        cases hc : f.atClose <;> cases hr : f.atReplace <;> simp <;> exact hall'
      | some kb =>
        obtain ⟨k, b⟩ := kb
        obtain ⟨h1, h2, h3, h4⟩ := firstWrite_some f _ 0 k b hw
        rw [writeLoop_some f chunks 0 [] k b h1 (by omega) h3 h4]
        have hk : k < chunks.length := by omega
        simp only [Bool.not_false, Bool.true_or, ↓reduceIte, Bool.false_eq_true, false_iff]
        intro hcon
        have := hcon.2.1 k hk
        rw [h3] at this
        cases this
  · intro hok
    rw [C31_faults] at hok ⊢
    exact ((C31_complete fs n chunks _).2 hok).1
  · intro hfail q hq
    rw [C31_faults] at hfail ⊢
    exact (C31_atomic fs n chunks _ hfail).2.2 q hq
  · rw [C31_faults]
    cases hok : (exportNew fs (.out n) chunks (f.first chunks.length)).2 with
    | true => exact ((C31_complete fs n chunks _).2 hok).2.1
    | false => exact (C31_atomic fs n chunks _ hok).2.1

/-- **Persistent failures.**  The schedule the fault injection produces — the named call fails and, when
`persist`, every `write` and every flush / close after it fails too — gives the same end state and the same
outcome as the single crash point, for whole histories as well: `runAll`, and with it every history theorem
above, is the same for one-shot and for persistent failures. -/
theorem C31_persistent (persist : Bool) :
    (∀ fs p chunks crash, exportMode persist fs p chunks crash = exportNew fs p chunks crash) ∧
    (∀ fs runs, runAll (exportMode persist) fs runs = runAll exportNew fs runs) := by
  have h : exportMode persist = exportNew := by
    funext fs p chunks crash
    exact exportMode_eq persist fs p chunks crash
  exact ⟨fun fs p chunks crash => exportMode_eq persist fs p chunks crash, fun fs runs => by rw [h]⟩

-- a persistent failure from the second write on: that write, every later one and the close raise
example : (Faults.ofCrash true 3 (.atWrite 1 true)).atWrite 2 = some false := by decide
example : (Faults.ofCrash true 3 (.atWrite 1 true)).atClose = true := by decide
example : exportFaults exOld (.out 0) [1, 2, 3] (Faults.ofCrash true 3 (.atWrite 1 true)) =
    exportNew exOld (.out 0) [1, 2, 3] (.atWrite 1 true) := C31_faults exOld 0 [1, 2, 3] _
example : (exportFaults exOld (.out 0) [1, 2, 3] (Faults.ofCrash true 3 (.atWrite 1 true))).1 (.out 0) =
    some [.full 9] := by decide
example : (exportFaults exOld (.out 0) [1, 2, 3] (Faults.ofCrash true 3 (.atWrite 1 true))).1 (.tmp 0) = none := by
  decide
-- a schedule that is no single crash point: the close and the replace fail
example : (exportFaults exOld (.out 0) [1, 2] ⟨false, fun _ => none, true, true⟩).2 = false := by decide
example : (exportFaults exOld (.out 0) [1, 2] ⟨false, fun _ => none, false, false⟩).1 (.out 0) =
    some (fullContent [1, 2]) := by decide

end GenFile
