import TextxVerif.Proofs.GenFile
/-!
# C31 — generated output files are all-or-nothing

Model: `GenFile.exportNew` / `GenFile.genFile` / `GenFile.runAll`
(`TextxVerif/Out/GenFile.lean`) mirror `textx/export.py: _open_output` as used
by `metamodel_export` / `model_export` and `textx/generators.py: gen_file`, after
the `fix:` commit of branch `fix/C30`.  An export is the list of chunks it
writes, of any length; a crash point is any operation of the sequence
`open, write₀ … writeₙ₋₁, close(flush), replace`, a failing `write` possibly
having written part of its data.  The theorems hold for every file system
state, every chunk list, every crash point and every history of runs.
-/
namespace GenFile

/-- **All-or-nothing (nothing).**  Whatever operation of an export raises, no
path of the file system changes — in particular the output file is still absent
or still holds its previous content — and the temporary sibling does not exist. -/
theorem C31_atomic (fs : FS) (n : Nat) (chunks : List Nat) (crash : Crash)
    (hfail : (exportNew fs (.out n) chunks crash).2 = false) :
    (exportNew fs (.out n) chunks crash).1 (.out n) = fs (.out n) ∧
    (exportNew fs (.out n) chunks crash).1 (.tmp n) = none ∧
    ∀ q, q ≠ .tmp n → (exportNew fs (.out n) chunks crash).1 q = fs q := by
  have h := exportNew_failed fs n chunks crash hfail
  refine ⟨by rw [h]; simp, by rw [h]; simp, fun q hq => by rw [h]; simp [hq]⟩

/-- **All-or-nothing (all).**  An export that returns normally leaves exactly
the complete content in the output file, no temporary file, and touches nothing
else; and it returns normally iff no operation raised. -/
theorem C31_complete (fs : FS) (n : Nat) (chunks : List Nat) (crash : Crash) :
    ((exportNew fs (.out n) chunks crash).2 = true ↔
      crash = .none ∨ ∃ k partly, crash = .atWrite k partly ∧ chunks.length ≤ k) ∧
    ((exportNew fs (.out n) chunks crash).2 = true →
      (exportNew fs (.out n) chunks crash).1 (.out n) = some (fullContent chunks) ∧
      (exportNew fs (.out n) chunks crash).1 (.tmp n) = none ∧
      ∀ q, q ≠ .out n → q ≠ .tmp n → (exportNew fs (.out n) chunks crash).1 q = fs q) := by
  refine ⟨exportNew_ok_iff _ _ _ _, fun hok => ?_⟩
  have h := exportNew_ok fs n chunks crash hok
  refine ⟨by rw [h]; simp, by rw [h]; simp, fun q h1 h2 => by rw [h]; simp [h1, h2]⟩

/-- **Histories.**  Start from a directory without output or temporary files
and run any history of generator runs — any targets, contents, `--overwrite`
flags and crash points.  Afterwards every output file that exists holds the
complete output of a run of the history, for that file, that completed; and no
temporary file exists. -/
theorem C31_history (runs : List Run) :
    let fin := runAll exportNew FS.empty runs
    (∀ n c, fin.1 (.out n) = some c →
      ∃ r, (r, Outcome.done) ∈ runs.zip fin.2 ∧ r.path = n ∧ c = fullContent r.chunks) ∧
    (∀ n, fin.1 (.tmp n) = none) := by
  have h := runAll_inv _ _ inv_empty runs
  obtain ⟨h1, h2⟩ := h
  refine ⟨fun n c hc => ?_, h2⟩
  rcases h1 n c hc with hF | hP
  · exact absurd hF (by simp)
  · exact hP

/-- **No skipping of truncated files.**  After any history `pre`, if the next
run is skipped as "already generated" (no `--overwrite`, file exists), the file it
skips is the complete output of an earlier run that completed — never a truncated
one.  Equivalently: after a failed run a later run without `--overwrite`
regenerates unless a complete older output is there. -/
theorem C31_no_skip (pre : List Run) (r : Run)
    (hskip : (genFile exportNew (runAll exportNew FS.empty pre).1 (.out r.path) r.overwrite r.chunks r.crash).2
      = .skipped) :
    r.overwrite = false ∧
    ∃ r', (r', Outcome.done) ∈ pre.zip (runAll exportNew FS.empty pre).2 ∧ r'.path = r.path ∧
      (runAll exportNew FS.empty pre).1 (.out r.path) = some (fullContent r'.chunks) := by
  unfold genFile at hskip
  split at hskip
  · simp only at hskip
    split at hskip <;> cases hskip
  · rename_i hc
    simp only [Bool.or_eq_true, not_or, Bool.not_eq_true] at hc
    obtain ⟨hov, hex⟩ := hc
    refine ⟨hov, ?_⟩
    cases hfs : (runAll exportNew FS.empty pre).1 (.out r.path) with
    | none => simp [hfs] at hex
    | some c =>
      obtain ⟨r', hm, hp, hcc⟩ := (C31_history pre).1 r.path c hfs
      exact ⟨r', hm, hp, by rw [hcc]⟩

/-- a run is skipped exactly when `--overwrite` is off and the target exists (gen_file's rule) -/
theorem C31_skip_iff (exp : FS → Path → List Nat → Crash → FS × Bool) (fs : FS) (p : Path) (ov : Bool)
    (chunks : List Nat) (crash : Crash) :
    ((genFile exp fs p ov chunks crash).2 = .skipped ↔ ov = false ∧ (fs p).isSome) ∧
    ((genFile exp fs p ov chunks crash).2 = .skipped → (genFile exp fs p ov chunks crash).1 = fs) := by
  unfold genFile
  split
  · rename_i hc
    simp only [Bool.or_eq_true] at hc
    refine ⟨⟨fun h => ?_, fun ⟨h1, h2⟩ => ?_⟩, fun h => ?_⟩
    · simp only at h; split at h <;> cases h
    · rcases hc with hc | hc
      · simp [h1] at hc
      · cases hfs : fs p <;> simp_all
    · simp only at h; split at h <;> cases h
  · rename_i hc
    simp only [Bool.or_eq_true, not_or, Bool.not_eq_true] at hc
    refine ⟨⟨fun _ => ⟨hc.1, ?_⟩, fun _ => rfl⟩, fun _ => rfl⟩
    cases hfs : fs p <;> simp_all

/-- The pinned export (target opened with `"w"` first) violates the property:
a failure in the second write leaves a truncated file, and the next run without
`--overwrite` skips it. -/
theorem C31_pinned_false :
    ∃ runs : List Run,
      let fin := runAll exportPinned FS.empty runs
      fin.2 = [.failed, .skipped] ∧
      ∃ c, fin.1 (.out 0) = some c ∧ ∀ r ∈ runs, c ≠ fullContent r.chunks :=
  ⟨[⟨0, [1, 2, 3], false, .atWrite 1 true⟩, ⟨0, [1, 2, 3], false, .none⟩], by decide,
   [.full 1, .part 2], by decide, by decide⟩

/-- … and destroys an existing complete file when `--overwrite` is given -/
theorem C31_pinned_overwrite_false :
    ∃ runs : List Run,
      let fin := runAll exportPinned FS.empty runs
      fin.2 = [.done, .failed] ∧ fin.1 (.out 0) = some [.full 4] :=
  ⟨[⟨0, [1, 2, 3], false, .none⟩, ⟨0, [4, 5], true, .atWrite 1 false⟩], by decide, by decide⟩

/-! ## non-vacuity: the same histories with the repaired export -/

example : (runAll exportNew FS.empty
    [⟨0, [1, 2, 3], false, .atWrite 1 true⟩, ⟨0, [1, 2, 3], false, .none⟩]).2 = [.failed, .done] := by decide

example : (runAll exportNew FS.empty
    [⟨0, [1, 2, 3], false, .atWrite 1 true⟩, ⟨0, [1, 2, 3], false, .none⟩]).1 (.out 0) =
    some (fullContent [1, 2, 3]) := by decide

example : (runAll exportNew FS.empty
    [⟨0, [1, 2, 3], false, .none⟩, ⟨0, [4, 5], true, .atClose⟩, ⟨0, [4, 5], false, .none⟩]).2 =
    [.done, .failed, .skipped] := by decide

example : (runAll exportNew FS.empty
    [⟨0, [1, 2, 3], false, .none⟩, ⟨0, [4, 5], true, .atClose⟩, ⟨0, [4, 5], false, .none⟩]).1 (.out 0) =
    some (fullContent [1, 2, 3]) := by decide

end GenFile
