import TextxVerif.Proofs.Case
import TextxVerif.Proofs.CaseKw
/-!
# C20 — `ignore_case` makes grammar literals case-insensitive

Model (`Peg/Case.lean` on top of the Arpeggio mirror `Peg/Arp.lean`):
`strMatchLen` mirrors `StrMatch._parse` (fragment and literal compared after
`.lower()` when `ignore_case`), regex tokens are the parameter `rx` (what
`RegExMatch._parse` gets from `self.regex.match`), `tokTable` is the table the
interpreter consults, `Lang.run` is `parser.parse(input)`, `termValue` is
`Terminal.value`, `compileLit` is the choice of `Match` object and flag in
`textx/lang.py` (`visit_str_match`, its `autokwd` branch → `KeywordMatch`,
`visit_re_match`); `buildMM` / `buildAll` thread the process-wide regex cache
behind `RegExMatch.compile` through a history of meta-model constructions.

`FoldEq lower a b`: the two texts are equal character by character after
lower-casing — every "case variation" of `a`, of *any* of its characters.

What is proved, for every parser model, configuration, input, fuel:
* tokens: `C20_tok_str`, `C20_tok`; flags: `C20_compile_ignore_case`, and for every history of earlier
  meta-model constructions in the same process `C20_compile_history`;
* parse: `C20_partial` / `C20_partial_tree` — when no terminal is case-sensitive
  (`NoCaseSensitiveTerminal`: all string tokens carry `ignore_case`, regex tokens
  satisfy the stated assumption `RxFoldInv`) and whitespace sets contain no cased
  characters, a case variant is accepted iff the original is, with the *same*
  parse tree (same nodes, positions, lengths) and the same furthest-failure
  position otherwise;
* values: `C20_values_keep_case`;
* the unrestricted statement is false: `C20_full_false` (a case-sensitive regex
  terminal such as textX's `BOOL`, which is compiled once without IGNORECASE).

Missing for the full property (hence `_partial`): (1) terminals that stay
case-sensitive under `ignore_case` — textX's base type `BOOL` — are excluded by
hypothesis (known finding); (2) `re.IGNORECASE` itself is not modelled: its
case-insensitivity is the hypothesis `RxFoldInv`, checked on every run against
`re` on the generated inputs; (3) model construction from the tree is not
modelled here: that classes / attributes / list lengths depend on the tree shape
only is checked on the real code by the harness oracle.
-/
namespace Peg.Case

variable {lower : Char → Char}

/-- **String tokens.** `StrMatch` with `ignore_case` gives the same result at every position of two
texts that are equal up to letter case. -/
theorem C20_tok_str {a b : Array Char} (h : FoldEq lower a b) (lit : List Char) (pos : Nat) :
    strMatchLen lower lit true a pos = strMatchLen lower lit true b pos :=
  strMatchLen_foldEq h lit pos

/-- … whereas without the flag the comparison is exact: the literal matches iff the text has it verbatim. -/
theorem C20_tok_str_exact (a : Array Char) (lit : List Char) (pos : Nat) :
    strMatchLen lower lit false a pos = (if slice a pos lit.length = lit then some lit.length else none) := by
  unfold strMatchLen
  by_cases h : slice a pos lit.length = lit <;> simp [h]

/-- **All tokens.** With no case-sensitive terminal, the whole token table — string tokens, `autokwd`
keyword regexes and user regexes alike — is the same for two texts equal up to letter case. -/
theorem C20_tok {rx : Rx} {L : Lang} (hn : NoCaseSensitiveTerminal lower rx L) {a b : Array Char}
    (h : FoldEq lower a b) : tokTable lower rx L.toks a = tokTable lower rx L.toks b :=
  tokTable_foldEq h rx L.toks hn.strs hn.regexes

/-- **Flags.** With `ignore_case=True` every `Match` object the visitor builds from a grammar literal
(string match, keyword regex of `autokwd`, user regex) carries `ignore_case`. -/
theorem C20_compile_ignore_case (isWord isDigit : Char → Bool) (cfg : Cfg) (h : cfg.ignoreCase = true)
    (l : Lit) : (compileLit isWord isDigit cfg l).ignoreCase = true := by
  cases l with
  | str s => simp only [compileLit]; split <;> exact h
  | re src => exact h

/-- **Histories.**  Whatever meta-models (any grammars, any `ignore_case` / `autokwd` configurations) were
constructed earlier in the same process, the `Match` objects built for a meta-model — including the compiled
regex objects they match with, which come out of the process-wide `re` cache — are those of a fresh process;
so with `ignore_case=True` every one of them is case-insensitive. -/
theorem C20_compile_history (isWord isDigit : Char → Bool) (hist : List (Cfg × List Lit)) (cfg : Cfg)
    (lits : List Lit) :
    (buildMM isWord isDigit (buildAll isWord isDigit [] hist) cfg lits).2 = lits.map (compileLit isWord isDigit cfg) ∧
      (cfg.ignoreCase = true →
        ∀ m, m ∈ (buildMM isWord isDigit (buildAll isWord isDigit [] hist) cfg lits).2 → m.ignoreCase = true) := by
  have h := (buildMM_ok isWord isDigit cfg lits (buildAll_ok isWord isDigit hist cacheOk_nil)).2
  refine ⟨h, fun hic m hm => ?_⟩
  rw [h] at hm
  obtain ⟨l, _, rfl⟩ := List.mem_map.mp hm
  exact C20_compile_ignore_case isWord isDigit cfg hic l

/-- **Acceptance and parse tree (partial: under `NoCaseSensitiveTerminal`).**  The outcome of
`parser.parse` — the tree with node identities, positions and lengths, or the furthest-failure
position — is the same for two texts equal up to letter case. -/
theorem C20_partial {rx : Rx} {L : Lang} (hn : NoCaseSensitiveTerminal lower rx L) (hw : WsNeutral lower L)
    {a b : Array Char} (h : FoldEq lower a b) (fuel : Nat) :
    L.run lower rx b fuel = L.run lower rx a fuel :=
  run_congr (similar_of_foldEq hn h) (wsOk_of_neutral hw a) L.top L.skipws hw.top fuel

/-- the terminal's value is the grammar literal (`StrMatch`, `KeywordMatch`) -/
def Tok.litOf : Tok → Option (List Char)
  | .str lit _ => some lit
  | .kw lit => some lit
  | _ => none

/-- The value of one terminal `(node, pos, len)` of the common tree, in the variant `b` versus the
original `a`:
1. a string literal (plain, or the keyword match of `autokwd`) yields the grammar's spelling in both;
2. any other terminal (ID, base types, regex literals) yields exactly the text written in *its own* input at
   that span — the case it was written in is kept;
3. the two values are equal up to letter case;
4. they are identical when the variation left the span alone (e.g. text matched by `ID`). -/
theorem C20_values_keep_case (toks : Array Tok) {a b : Array Char} (h : FoldEq lower a b) (n p l : Nat) :
    (∀ t lit, toks[n]? = some t → t.litOf = some lit → termValue toks b n p l = lit ∧ termValue toks a n p l = lit) ∧
    ((∀ t, toks[n]? = some t → t.litOf = none) → termValue toks b n p l = slice b p l) ∧
    (termValue toks b n p l).map lower = (termValue toks a n p l).map lower ∧
    (AgreeOn a b p l → termValue toks b n p l = termValue toks a n p l) := by
  unfold termValue AgreeOn
  cases ht : toks[n]? with
  | none => exact ⟨fun _ _ e => (nomatch e), fun _ => rfl, (slice_map_lower h p l).symm, fun e => e.symm⟩
  | some t =>
    cases t with
    | str lit ic =>
      refine ⟨fun _ _ e e2 => ?_, fun hne => ?_, rfl, fun _ => rfl⟩
      · cases e; cases e2; exact ⟨rfl, rfl⟩
      · exact nomatch (hne _ rfl)
    | kw lit =>
      refine ⟨fun _ _ e e2 => ?_, fun hne => ?_, rfl, fun _ => rfl⟩
      · cases e; cases e2; exact ⟨rfl, rfl⟩
      · exact nomatch (hne _ rfl)
    | re =>
      refine ⟨fun _ _ e e2 => ?_, fun _ => rfl, (slice_map_lower h p l).symm, fun e => e.symm⟩
      cases e; exact nomatch e2
    | other =>
      refine ⟨fun _ _ e e2 => ?_, fun _ => rfl, (slice_map_lower h p l).symm, fun e => e.symm⟩
      cases e; exact nomatch e2

/-- **Accepted inputs.**  If `a` is accepted with tree `v`, every case variant `b` is accepted with the
same tree, and the terminal values read off `b` are those of `a` up to letter case. -/
theorem C20_partial_tree {rx : Rx} {L : Lang} (hn : NoCaseSensitiveTerminal lower rx L) (hw : WsNeutral lower L)
    {a b : Array Char} (h : FoldEq lower a b) (fuel : Nat) (v : Val) (hv : L.run lower rx a fuel = .tree v) :
    L.run lower rx b fuel = .tree v ∧
      (values L.toks b v).map (·.map lower) = (values L.toks a v).map (·.map lower) := by
  refine ⟨(C20_partial hn hw h fuel).trans hv, ?_⟩
  unfold values
  simp only [List.map_map]
  apply List.map_congr_left
  intro x _
  exact (C20_values_keep_case L.toks h x.1 x.2.1 x.2.2).2.2.1

/-! ### `re.IGNORECASE` proved instead of assumed, for tokens run by the Lean regex engine

`RxFoldInv` is an assumption about the regex engine.  For every token whose pattern is known as an AST of
`Re.R` — the `keyword\b` patterns of `autokwd` (`Kwd.kwRe true lit`, tied to `visit_str_match` by
`Gen.Regexes.kwProbeI`) and textX's base-type regexes (`Gen.Regexes.ID`, …) — the row can be computed by the
Lean regex engine (`reRx`, the engine C04 / C21 tie to Python's `re`), and for that engine the
case-insensitivity is a theorem (`Re.m_fold`): no assumption is left for these tokens. -/

open Re in
/-- **The regex engine does not see letter case** on any pattern all of whose character tests are invariant
under case folding (`FoldInvR`: IGNORECASE literals, `\w`, `\d`, `\b`, caseless literals, case-closed sets). -/
theorem C20_engine_foldInv (cc : CharClasses) (r : R) (hr : FoldInvR cc r) {a b : Array Char}
    (h : FoldEq cc.fold a b) (p : Nat) : reRx cc r a p = reRx cc r b p :=
  reRx_foldInv cc r hr h p

open Re in
/-- **Keyword matches of `autokwd`** (`KeywordMatch(rf"{lit}\b", ignore_case=True)`): the compiled pattern
`Kwd.kwRe true lit` gives the same result at every position of two texts equal up to letter case — for *every*
literal (keyword-like or not), provided `\w` does not distinguish case variants. -/
theorem C20_kwRe_foldInv (cc : CharClasses) (hw : FoldWordAll cc) (l : List Char) {a b : Array Char}
    (h : FoldEq cc.fold a b) (p : Nat) : reRx cc (Kwd.kwRe true l) a p = reRx cc (Kwd.kwRe true l) b p :=
  reRx_foldInv cc _ (foldInvR_kwRe cc hw l) h p

open Re in
/-- … in the shape of the survey's suggestion (`pyMatch` at the position `p` of the two texts) -/
theorem C20_kwRe_foldInv_pyMatch (cc : CharClasses) (hw : FoldWordAll cc) (l : List Char) {a b : Array Char}
    (h : FoldEq cc.fold a b) (p : Nat) :
    pyMatch cc (Kwd.kwRe true l) (stAt a p).1 (stAt a p).2 = pyMatch cc (Kwd.kwRe true l) (stAt b p).1 (stAt b p).2 :=
  C20_kwRe_foldInv cc hw l h p

open Re in
/-- no case-sensitive terminal, with the regex tokens split into *engine-run* ones (`pat i = some r`: the row
is what the Lean regex engine computes for the pattern `r`) and the rest (`pat i = none`: user regexes, for
which `RxFoldInv` stays an assumption).  Keyword matches must be engine-run with their own pattern. -/
structure EngineTerminals (cc : CharClasses) (rx : Rx) (pat : Nat → Option R) (L : Lang) : Prop where
  strs : AllIc L.toks
  kws : ∀ (i : Nat) l, L.toks[i]? = some (Tok.kw l) → pat i = some (Kwd.kwRe true l)
  engine : ∀ i r, pat i = some r → ∀ inp p, rx i inp p = reRx cc r inp p
  closed : ∀ (i : Nat) r, L.toks[i]? = some Tok.re → pat i = some r → FoldInvR cc r
  assumed : ∀ (i : Nat), L.toks[i]? = some Tok.re → pat i = none → RxFoldInv cc.fold rx i

open Re in
/-- the hypothesis of `C20_partial` follows: nothing is assumed about keyword matches and about engine-run
regexes with fold-invariant character tests -/
theorem C20_engine_terminals {cc : CharClasses} (hw : FoldWordAll cc) {rx : Rx} {pat : Nat → Option R} {L : Lang}
    (h : EngineTerminals cc rx pat L) : NoCaseSensitiveTerminal cc.fold rx L where
  strs := h.strs
  regexes := by
    intro i t ht hrx a b hab p
    cases t with
    | str _ _ => cases hrx
    | other => cases hrx
    | kw l =>
      have hp := h.kws i l ht
      rw [h.engine i _ hp, h.engine i _ hp]
      exact C20_kwRe_foldInv cc hw l hab p
    | re =>
      cases hp : pat i with
      | none => exact h.assumed i ht hp a b hab p
      | some r =>
        rw [h.engine i r hp, h.engine i r hp]
        exact reRx_foldInv cc r (h.closed i r ht hp) hab p

open Re in
/-- **Acceptance and parse tree, keyword matches and engine-run regexes discharged.**  The corollary of
`C20_partial` in which `RxFoldInv` is assumed for user regexes only. -/
theorem C20_partial_engine {cc : CharClasses} (hw : FoldWordAll cc) {rx : Rx} {pat : Nat → Option R} {L : Lang}
    (h : EngineTerminals cc rx pat L) (hws : WsNeutral cc.fold L) {a b : Array Char} (hab : FoldEq cc.fold a b)
    (fuel : Nat) : L.run cc.fold rx b fuel = L.run cc.fold rx a fuel :=
  C20_partial (C20_engine_terminals hw h) hws hab fuel

open Re in
/-- **Base types.**  For the ASCII tables every base-type regex of textX except BOOL (the generated `ID`, `INT`,
`FLOAT`, `STRICTFLOAT`, `STRING`) satisfies `RxFoldInv` when run by the engine — proved, not assumed; BOOL's
cased plain literals are exactly what fails (`Re.not_foldInvR_chr_T`, known finding `C20-bool-case-sensitive`). -/
theorem C20_basetypes_ascii (r : R)
    (hr : r ∈ [Gen.Regexes.ID, Gen.Regexes.INT, Gen.Regexes.FLOAT, Gen.Regexes.STRICTFLOAT, Gen.Regexes.STRING])
    {a b : Array Char} (h : FoldEq asciiCC.fold a b) (p : Nat) : reRx asciiCC r a p = reRx asciiCC r b p := by
  apply reRx_foldInv asciiCC r _ h p
  simp only [List.mem_cons, List.not_mem_nil, or_false] at hr
  rcases hr with rfl | rfl | rfl | rfl | rfl
  · exact foldInvR_ID_ascii
  · exact foldInvR_INT_ascii
  · exact foldInvR_FLOAT_ascii
  · exact foldInvR_STRICTFLOAT_ascii
  · exact foldInvR_STRING_ascii

/-! ### flags and parse composed: `AllIc` follows from `ignore_case=True` -/

/-- the token of the parser model a `Match` object stands for -/
def MatchObj.tok : MatchObj → Tok
  | .strMatch s ic => .str s ic
  | .regexMatch .. => .re
  | .keywordMatch s .. => .kw s

/-- If every string token of the parser model is the token of a `Match` object the visitor built from a
grammar literal of a meta-model with `ignore_case=True` (after any history of earlier meta-models, by
`C20_compile_history`), then `AllIc` — the first half of `NoCaseSensitiveTerminal` — holds; and the compiled
regex object of every keyword match carries IGNORECASE. -/
theorem C20_compiled_allIc (isWord isDigit : Char → Bool) (cfg : Cfg) (h : cfg.ignoreCase = true) (toks : Array Tok)
    (hsrc : ∀ (i : Nat) lit ic, toks[i]? = some (Tok.str lit ic) →
      ∃ l, (compileLit isWord isDigit cfg l).tok = Tok.str lit ic) : AllIc toks := by
  intro i lit ic ht
  obtain ⟨l, hl⟩ := hsrc i lit ic ht
  have := C20_compile_ignore_case isWord isDigit cfg h l
  cases l with
  | str s =>
    simp only [compileLit] at hl this
    split at hl
    · cases hl
    · simp only [MatchObj.tok, Tok.str.injEq] at hl
      rw [← hl.2]; exact h
  | re src => cases hl

/-! ### the unrestricted statement is false

`Model: (b=BOOL | 'true')` reduced to its parser model: an ordered choice of a case-sensitive regex
terminal (BOOL, compiled once in `textx/lang.py` without IGNORECASE — here: matches `true` exactly) and
the string literal `'true'` with `ignore_case`.  `true` is matched by BOOL, `TRUE` by the literal. -/

def boolLang : Lang :=
  { nodes := #[{ kind := .choice, kids := [1, 2] }, { kind := .re, tok := 1 }, { kind := .str, tok := 2 }],
    comments := none, memo := false, toks := #[.other, .re, .str "true".toList true],
    top := 0, skipws := true, ws := [' ', '\n'] }

/-- a case-sensitive regex terminal -/
def boolRx : Rx := fun _ inp p => if slice inp p 4 = "true".toList then some 4 else none

theorem C20_full_false :
    ∃ (L : Lang) (rx : Rx) (a b : Array Char) (fuel : Nat),
      AllIc L.toks ∧ WsNeutral (lowerTab asciiTab) L ∧ FoldEq (lowerTab asciiTab) a b ∧
        L.run (lowerTab asciiTab) rx b fuel ≠ L.run (lowerTab asciiTab) rx a fuel := by
  refine ⟨boolLang, boolRx, "true".toList.toArray, "TRUE".toList.toArray, 4, (allIc_iff _).mp (by decide),
    wsNeutralB_sound (by decide), by decide, ?_⟩
  · intro e
    have h1 : (boolLang.run (lowerTab asciiTab) boolRx "TRUE".toList.toArray 4).leaves = some [(2, 0, 4)] := by
      decide +kernel
    have h2 : (boolLang.run (lowerTab asciiTab) boolRx "true".toList.toArray 4).leaves = some [(1, 0, 4)] := by
      decide +kernel
    rw [e, h2] at h1
    exact absurd h1 (by decide)

/-! ### non-vacuity: a language satisfying the hypotheses, parsed on a text and a case variant -/

/-- `Model: 'If' name=ID;` — ID modelled as "one or more ASCII letters" (a case-closed language) -/
def demoLang : Lang :=
  { nodes := #[{ kind := .seq, kids := [1, 2], root := true }, { kind := .str, tok := 1 }, { kind := .re, tok := 2 }],
    comments := none, memo := false, toks := #[.other, .str "If".toList true, .re],
    top := 0, skipws := true, ws := [' ', '\n'] }

def lettersFrom (lower : Char → Char) (cs : List Char) : Nat :=
  (cs.takeWhile fun c => 'a' ≤ lower c && lower c ≤ 'z').length

def demoRx : Rx := fun _ inp p =>
  let n := lettersFrom (lowerTab asciiTab) (inp.toList.drop p)
  if n = 0 then none else some n

theorem demoRx_inv (i : Nat) : RxFoldInv (lowerTab asciiTab) demoRx i := by
  intro a b h p
  have key : ∀ (xs ys : List Char), xs.map (lowerTab asciiTab) = ys.map (lowerTab asciiTab) →
      lettersFrom (lowerTab asciiTab) xs = lettersFrom (lowerTab asciiTab) ys := by
    intro xs
    induction xs with
    | nil => intro ys e; cases ys <;> simp_all [lettersFrom]
    | cons x xs ih =>
      intro ys e
      cases ys with
      | nil => simp at e
      | cons y ys =>
        simp only [List.map_cons, List.cons.injEq] at e
        have := ih ys e.2
        unfold lettersFrom at this ⊢
        simp only [List.takeWhile_cons, e.1]
        split <;> simp [this]
  have hd : (a.toList.drop p).map (lowerTab asciiTab) = (b.toList.drop p).map (lowerTab asciiTab) := by
    rw [List.map_drop, List.map_drop, h]
  simp only [demoRx, key _ _ hd]

theorem demo_hyp : NoCaseSensitiveTerminal (lowerTab asciiTab) demoRx demoLang ∧
    WsNeutral (lowerTab asciiTab) demoLang := by
  exact ⟨⟨(allIc_iff _).mp (by decide), fun i _ _ _ => demoRx_inv i⟩, wsNeutralB_sound (by decide)⟩

/-- the hypotheses of `C20_partial` are satisfiable and the conclusion is about a successful parse -/
example : demoLang.run (lowerTab asciiTab) demoRx "iF  Foo".toList.toArray 5 =
    demoLang.run (lowerTab asciiTab) demoRx "If  fOO".toList.toArray 5 :=
  C20_partial demo_hyp.1 demo_hyp.2 (by decide) 5

example : (demoLang.run (lowerTab asciiTab) demoRx "If  fOO".toList.toArray 5).leaves = some [(1, 0, 2), (2, 4, 3)] := by
  decide +kernel

example : values demoLang.toks "iF  Foo".toList.toArray (.list [.term 1 0 2, .term 2 4 3]) = ["If".toList, "Foo".toList] := by
  decide +kernel

example : strMatchLen (lowerTab asciiTab) "End".toList true "the eND".toList.toArray 4 = some 3 := by decide
example : strMatchLen (lowerTab asciiTab) "End".toList false "the eND".toList.toArray 4 = none := by decide
example : compileLit Char.isAlphanum Char.isDigit ⟨true, true⟩ (.str "end".toList) =
    .keywordMatch "end".toList "end\\b".toList true ⟨"end\\b".toList, true⟩ := by decide
example : compileLit Char.isAlphanum Char.isDigit ⟨true, true⟩ (.str "\\end".toList) =
    .strMatch "\\end".toList true := by decide

/-- a history: the same keyword compiled case-sensitively first (`autokwd`, `ignore_case=False`), then the
meta-model with `ignore_case=True`: its keyword match works with a case-insensitive regex object -/
example : (buildMM Char.isAlphanum Char.isDigit
      (buildAll Char.isAlphanum Char.isDigit [] [(⟨false, true⟩, [.str "end".toList, .re "x+".toList])])
      ⟨true, true⟩ [.str "end".toList, .re "x+".toList]).2 =
    [.keywordMatch "end".toList "end\\b".toList true ⟨"end\\b".toList, true⟩,
     .regexMatch "x+".toList true ⟨"x+".toList, true⟩] := by decide

/-- a keyword terminal yields the grammar's spelling, whatever the case of the input -/
example : values #[.other, .kw "If".toList, .re] "iF  Foo".toList.toArray (.list [.term 1 0 2, .term 2 4 3]) =
    ["If".toList, "Foo".toList] := by decide +kernel

/-! ### non-vacuity of the engine-run variant: `'If' name=ID` under `autokwd`, nothing assumed -/

open Re in
/-- the parser model of `Model: 'If' name=ID;` with `autokwd` and `ignore_case`: a `KeywordMatch` and textX's `ID` -/
def kwLang : Lang :=
  { nodes := #[{ kind := .seq, kids := [1, 2], root := true }, { kind := .re, tok := 1 }, { kind := .re, tok := 2 }],
    comments := none, memo := false, toks := #[.other, .kw "If".toList, .re],
    top := 0, skipws := true, ws := [' ', '\n'] }

open Re in
def kwPat : Nat → Option R
  | 1 => some (Kwd.kwRe true "If".toList)
  | 2 => some Gen.Regexes.ID
  | _ => none

open Re in
/-- every regex token is run by the Lean regex engine -/
def kwEngine : Rx := fun i inp p =>
  match kwPat i with
  | some r => reRx asciiCC r inp p
  | none => none

open Re in
theorem kwLang_hyp : EngineTerminals asciiCC kwEngine kwPat kwLang ∧ WsNeutral asciiCC.fold kwLang := by
  have ht : ∀ i : Nat, kwLang.toks[i]? =
      match i with | 0 => some .other | 1 => some (.kw "If".toList) | 2 => some .re | _ => none := by
    intro i
    match i with
    | 0 => rfl
    | 1 => rfl
    | 2 => rfl
    | _ + 3 => rfl
  refine ⟨⟨(allIc_iff _).mp (by decide), ?_, ?_, ?_, ?_⟩, ?_, ?_⟩
  · intro i l h
    rw [ht] at h
    match i, h with
    | 0, h => cases h
    | 1, h => cases h; rfl
    | 2, h => cases h
    | _ + 3, h => cases h
  · intro i r hp inp p
    simp only [kwEngine, hp]
  · intro i r h hp
    rw [ht] at h
    match i, h with
    | 0, h => cases h
    | 1, h => cases h
    | 2, _ =>
      cases hp
      exact foldInvR_ID foldWordAll_ascii foldDigitAll_ascii
    | _ + 3, h => cases h
  · intro i h hp
    rw [ht] at h
    match i, h with
    | 0, h => cases h
    | 1, h => cases h
    | 2, _ => cases hp
    | _ + 3, h => cases h
  · intro c hc
    simp only [kwLang, List.mem_cons, List.not_mem_nil, or_false] at hc
    rcases hc with rfl | rfl
    · exact caseless_ascii ' ' (by decide) (by decide)
    · exact caseless_ascii '\n' (by decide) (by decide)
  · intro id nd hnd w hw
    have : ∀ i : Nat, ∀ nd, kwLang.nodes[i]? = some nd → nd.ws = none := by
      intro i nd h
      match i, h with
      | 0, h => cases h; rfl
      | 1, h => cases h; rfl
      | 2, h => cases h; rfl
      | _ + 3, h => cases h
    rw [this id nd hnd] at hw
    cases hw

/-- the conclusion, obtained through the theorem, is about a successful parse of a case variant -/
example : kwLang.run Re.asciiCC.fold kwEngine "iF  Foo".toList.toArray 5 =
    kwLang.run Re.asciiCC.fold kwEngine "If  fOO".toList.toArray 5 :=
  C20_partial_engine Re.foldWordAll_ascii kwLang_hyp.1 kwLang_hyp.2 (by decide +kernel) 5

example : (kwLang.run Re.asciiCC.fold kwEngine "If  fOO".toList.toArray 5).leaves = some [(1, 0, 2), (2, 4, 3)] := by
  decide +kernel

/-- the keyword match is case-insensitive and stops at word boundaries, computed by the engine -/
example : reRx Re.asciiCC (Kwd.kwRe true "If".toList) "x iF(".toList.toArray 2 = some 2 := by decide +kernel
example : reRx Re.asciiCC (Kwd.kwRe true "If".toList) "x iFy".toList.toArray 2 = none := by decide +kernel

/-- the token table of any list of grammar literals compiled with `ignore_case=True` satisfies `AllIc` -/
example (lits : List Lit) :
    AllIc (lits.map fun l => (compileLit Char.isAlphanum Char.isDigit ⟨true, true⟩ l).tok).toArray :=
  C20_compiled_allIc Char.isAlphanum Char.isDigit ⟨true, true⟩ rfl _ (by
    intro i lit ic h
    have := Array.mem_of_getElem? h
    simp only [List.mem_toArray, List.mem_map] at this
    obtain ⟨l, _, hl⟩ := this
    exact ⟨l, hl⟩)

end Peg.Case
