import TextxVerif.Proofs.ResolveList
import TextxVerif.Proofs.Resolve
/-!
# C08 — reference lists keep the textual order of the references

Model: `Resolve.insertByPos` / `Resolve.listAfter` mirror the (repaired)
`resolve_one_step` list branch in `textx/model.py`: each resolved target is
inserted at the `bisect` index of its reference's text position.  The
*schedule* — which references a provider postpones on which rounds — only
decides the sequence `seq` in which the references of the list get resolved;
the theorems quantify over every such sequence.
-/
namespace Resolve

/-- **Order.** `refs` = the references of one list attribute in textual order
(strictly increasing positions, as collected by `process_node`).  Whatever
order `seq` the resolver resolves them in, the final list equals `refs`. -/
theorem C08_order (refs seq : List LRef) (hpos : refs.Pairwise (fun a b => a.pos < b.pos))
    (hperm : seq.Perm refs) : listAfter seq = refs := by
  have hsorted : refs.Pairwise (fun a b => a.pos ≤ b.pos) := hpos.imp Nat.le_of_lt
  have hp : (listAfter seq).Perm refs := (listAfter_perm seq).trans hperm
  refine List.Perm.eq_of_pairwise (le := fun a b => a.pos ≤ b.pos) ?_ (listAfter_sorted seq) hsorted hp
  intro a b ha hb h1 h2
  exact eq_of_pos_eq hpos a b (hp.subset ha) hb (Nat.le_antisymm h1 h2)

/-- the targets, in particular, are those of the references in textual order -/
theorem C08_targets (refs seq : List LRef) (hpos : refs.Pairwise (fun a b => a.pos < b.pos))
    (hperm : seq.Perm refs) : (listAfter seq).map (·.tgt) = refs.map (·.tgt) := by
  rw [C08_order refs seq hpos hperm]

/-- Also at every intermediate moment (a prefix of the resolution sequence,
e.g. when a later provider looks at the list) the list is in textual order and
holds exactly the references resolved so far. -/
theorem C08_prefix_sorted (seq : List LRef) (k : Nat) :
    (listAfter (seq.take k)).Pairwise (fun a b => a.pos ≤ b.pos) ∧
      (listAfter (seq.take k)).Perm (seq.take k) :=
  ⟨listAfter_sorted _, listAfter_perm _⟩

/-- The pinned behaviour before the repair (append in resolution order) violates
the property: postponing the first of three references once yields `[b, c, a]`. -/
theorem C08_append_false :
    ∃ refs seq : List LRef, refs.Pairwise (fun a b => a.pos < b.pos) ∧ seq.Perm refs ∧
      listAfterAppend seq ≠ refs :=
  ⟨[⟨0, 10, 100⟩, ⟨1, 20, 101⟩, ⟨2, 30, 102⟩], [⟨1, 20, 101⟩, ⟨2, 30, 102⟩, ⟨0, 10, 100⟩],
   by decide, by decide, by decide⟩

/-! non-vacuity -/
example : listAfter [⟨1, 20, 101⟩, ⟨2, 30, 102⟩, ⟨0, 10, 100⟩] =
    [⟨0, 10, 100⟩, ⟨1, 20, 101⟩, ⟨2, 30, 102⟩] := by decide

end Resolve
