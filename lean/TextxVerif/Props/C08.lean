import TextxVerif.Proofs.ResolveList
import TextxVerif.Proofs.Resolve
import TextxVerif.Proofs.RefList
import TextxVerif.Proofs.ResolveOrder
import TextxVerif.Proofs.ResolveSched
/-!
# C08 — reference lists keep the textual order of the references

Model: `Resolve.insertByPos` / `Resolve.listAfter` mirror the (repaired)
`resolve_one_step` list branch in `textx/model.py`: each resolved target is
inserted at the `bisect` index of its reference's text position.  The
*schedule* — which references a provider postpones on which rounds — only
decides the sequence `seq` in which the references of the list get resolved;
the theorems quantify over every such sequence.

`RefList` (second part of this file) is the same code at the level of the data it
really keeps — the dictionary `_list_ref_positions` keyed by `(id(obj), attribute)`,
the attribute values as separate Python lists, `bisect` / `list.insert` with its
clamped index — for a whole *history* of model loads with one metamodel, in which
keys (object ids) recur from load to load and text positions start at 0.
-/
namespace Resolve

/-- **Order.** `refs` = the references of one list attribute in textual order
(strictly increasing positions, as collected by `process_node`).  Whatever
order `seq` the resolver resolves them in, the final list equals `refs`. -/
theorem C08_order (refs seq : List LRef) (hpos : refs.Pairwise (fun a b => a.pos < b.pos))
    (hperm : seq.Perm refs) : listAfter seq = refs := by
  have hsorted : refs.Pairwise (fun a b => a.pos ≤ b.pos) := hpos.imp Nat.le_of_lt
  have hp : (listAfter seq).Perm refs := (listAfter_perm seq).trans hperm
  refine List.Perm.eq_of_pairwise (le := fun a b => a.pos ≤ b.pos) ?_ (listAfter_sorted seq) hsorted hp
  intro a b ha hb h1 h2
  exact eq_of_pos_eq hpos a b (hp.subset ha) hb (Nat.le_antisymm h1 h2)

/-- the targets, in particular, are those of the references in textual order -/
theorem C08_targets (refs seq : List LRef) (hpos : refs.Pairwise (fun a b => a.pos < b.pos))
    (hperm : seq.Perm refs) : (listAfter seq).map (·.tgt) = refs.map (·.tgt) := by
  rw [C08_order refs seq hpos hperm]

/-- Also at every intermediate moment (a prefix of the resolution sequence,
e.g. when a later provider looks at the list) the list is in textual order and
holds exactly the references resolved so far. -/
theorem C08_prefix_sorted (seq : List LRef) (k : Nat) :
    (listAfter (seq.take k)).Pairwise (fun a b => a.pos ≤ b.pos) ∧
      (listAfter (seq.take k)).Perm (seq.take k) :=
  ⟨listAfter_sorted _, listAfter_perm _⟩

/-- **Intermediate lists are subsequences of the text.** At every moment of the resolution (any
prefix of any schedule) the list is the textual-order subsequence of `refs` made of the
references resolved so far: nothing is ever out of place, not only at the end. -/
theorem C08_prefix_sublist (refs seq : List LRef) (hpos : refs.Pairwise (fun a b => a.pos < b.pos))
    (hperm : seq.Perm refs) (k : Nat) : (listAfter (seq.take k)).Sublist refs := by
  obtain ⟨l, hl, hs⟩ := List.exists_perm_sublist (List.take_sublist k seq) hperm
  rw [C08_order l (seq.take k) (hpos.sublist hs) hl.symm]
  exact hs

/-- **Schedule independence.** Two resolution schedules of the same references (e.g. with and
without a postponing provider) produce the same list. -/
theorem C08_schedule_independent (refs s₁ s₂ : List LRef) (hpos : refs.Pairwise (fun a b => a.pos < b.pos))
    (h₁ : s₁.Perm refs) (h₂ : s₂.Perm refs) : listAfter s₁ = listAfter s₂ := by
  rw [C08_order refs s₁ hpos h₁, C08_order refs s₂ hpos h₂]

/-- non-vacuity: after two of three references (the first one postponed) the list is `[b, c]`,
a subsequence of `[a, b, c]` -/
example : listAfter (([⟨1, 20, 101⟩, ⟨2, 30, 102⟩, ⟨0, 10, 100⟩] : List LRef).take 2) =
    [⟨1, 20, 101⟩, ⟨2, 30, 102⟩] := by decide

/-- The pinned behaviour before the repair (append in resolution order) violates
the property: postponing the first of three references once yields `[b, c, a]`. -/
theorem C08_append_false :
    ∃ refs seq : List LRef, refs.Pairwise (fun a b => a.pos < b.pos) ∧ seq.Perm refs ∧
      listAfterAppend seq ≠ refs :=
  ⟨[⟨0, 10, 100⟩, ⟨1, 20, 101⟩, ⟨2, 30, 102⟩], [⟨1, 20, 101⟩, ⟨2, 30, 102⟩, ⟨0, 10, 100⟩],
   by decide, by decide, by decide⟩

/-- `listAfterAppend` is not an arbitrary stand-in: it is the closed form of the pinned code
`attr_value.append(resolved)` executed for every reference in resolution order. -/
theorem C08_append_spec (seq : List LRef) : listAfterPinned seq = listAfterAppend seq :=
  listAfterPinned_eq seq

/-! non-vacuity -/
example : listAfter [⟨1, 20, 101⟩, ⟨2, 30, 102⟩, ⟨0, 10, 100⟩] =
    [⟨0, 10, 100⟩, ⟨1, 20, 101⟩, ⟨2, 30, 102⟩] := by decide

end Resolve

/-! ## all list attributes of a load; histories of loads -/
namespace RefList

/-- **Order, per attribute.** `refs` = all references written in list attributes
of one model (textual order; two references of one attribute have increasing
positions — positions of different attributes are unrelated and 0 is a position
like any other).  Whatever order `seq` the resolver resolves them in, every list
attribute ends up holding the targets of its own references in textual order. -/
theorem C08_keyed_order (refs seq : List KRef)
    (hpos : refs.Pairwise (fun a b => a.key = b.key → a.pos < b.pos))
    (hperm : seq.Perm refs) (k : Key) :
    (run seq).values k = (ofKey k refs).map (·.tgt) := by
  rw [(run_eq seq k).2,
    Resolve.C08_order (seqOf k refs) (seqOf k seq) (seqOf_pairwise hpos k) (seqOf_perm hperm k)]
  simp [seqOf, toL, List.map_map]

/-- the recorded positions stay the sorted positions of the resolved references -/
theorem C08_keyed_positions (refs seq : List KRef)
    (hpos : refs.Pairwise (fun a b => a.key = b.key → a.pos < b.pos))
    (hperm : seq.Perm refs) (k : Key) :
    (run seq).positions k = (ofKey k refs).map (·.pos) := by
  rw [(run_eq seq k).1,
    Resolve.C08_order (seqOf k refs) (seqOf k seq) (seqOf_pairwise hpos k) (seqOf_perm hperm k)]
  simp [seqOf, toL, List.map_map]

/-- **Histories.** Any number of loads with one metamodel, each with its own
references `l.1` (textual order) and its own resolution sequence `l.2`; nothing
is assumed about the keys of different loads (an object of a later load may get
the `id()` of a collected object of an earlier one) nor about what the earlier
loads contained.  In every load every list attribute holds the targets of its
references in textual order. -/
theorem C08_history_order (loads : List (List KRef × List KRef))
    (h : ∀ l ∈ loads, l.1.Pairwise (fun a b => a.key = b.key → a.pos < b.pos) ∧ l.2.Perm l.1)
    (k : Key) :
    (history (loads.map (·.2))).map (fun st => st.values k) =
      loads.map (fun l => (ofKey k l.1).map (·.tgt)) := by
  simp only [history, List.map_map]
  apply List.map_congr_left
  intro l hl
  exact C08_keyed_order l.1 l.2 (h l hl).1 (h l hl).2 k

/-- A position dictionary that outlives the resolver (kept with the parser
blueprint / metamodel) violates the property as soon as a key recurs: second
load of `a b c` with `a` postponed once gives `[b, a, c]`. -/
theorem C08_shared_book_false :
    ∃ (refs : List KRef) (seq : List KRef),
      refs.Pairwise (fun a b => a.key = b.key → a.pos < b.pos) ∧ seq.Perm refs ∧
      ((historyShared (fun _ => []) [refs, seq]).map (fun st => st.values (7, 0))) ≠
        [(ofKey (7, 0) refs).map (·.tgt), (ofKey (7, 0) refs).map (·.tgt)] :=
  ⟨[⟨(7, 0), 10, 100⟩, ⟨(7, 0), 12, 101⟩, ⟨(7, 0), 14, 102⟩],
   [⟨(7, 0), 12, 101⟩, ⟨(7, 0), 14, 102⟩, ⟨(7, 0), 10, 100⟩], by decide, by decide, by decide⟩

/-- Treating offset 0 as "no position" violates the property for a model text
that begins with a reference list whose first reference is postponed. -/
theorem C08_falsy_position_false :
    ∃ (refs : List KRef) (seq : List KRef),
      refs.Pairwise (fun a b => a.key = b.key → a.pos < b.pos) ∧ seq.Perm refs ∧
      (seq.foldl resolveFalsy State.init).values (1, 0) ≠ (ofKey (1, 0) refs).map (·.tgt) :=
  ⟨[⟨(1, 0), 0, 100⟩, ⟨(1, 0), 3, 101⟩, ⟨(1, 0), 6, 102⟩],
   [⟨(1, 0), 3, 101⟩, ⟨(1, 0), 6, 102⟩, ⟨(1, 0), 0, 100⟩], by decide, by decide, by decide⟩

/-! non-vacuity: position 0, two attributes of one object, a key recurring in the next load -/
example : (run [⟨(1, 0), 3, 101⟩, ⟨(1, 1), 9, 200⟩, ⟨(1, 0), 0, 100⟩]).values (1, 0) = [100, 101] := by decide
example : (run [⟨(1, 0), 3, 101⟩, ⟨(1, 1), 9, 200⟩, ⟨(1, 0), 0, 100⟩]).values (1, 1) = [200] := by decide
example : (history [[⟨(1, 0), 0, 100⟩, ⟨(1, 0), 3, 101⟩], [⟨(1, 0), 3, 101⟩, ⟨(1, 0), 0, 100⟩]]).map
    (fun st => st.values (1, 0)) = [[100, 101], [100, 101]] := by decide

/-! ## the keyed model under the real Postponed loop

`tab r` = where reference `r` of the program is written (object / attribute, text position)
and what its provider finally returns.  `Resolve.loop P n refs []` is the resolver loop of C09
for an arbitrary monotone provider `P` — the schedule is no longer "some permutation" but the
sequence the loop really produces, `(loop …).2.reverse`.  One `ReferenceResolver` (hence one
position dictionary) exists per model file: `f` selects the references of the file the
resolver belongs to. -/
open Resolve in
/-- **Order under the loop, any outcome, any file.** After the loop (successful or not) the
resolver of a file holds in every list attribute the targets of exactly those of the
attribute's references that got resolved (= that some resolution order reaches), in textual
order. -/
theorem C08_loop_keyed_result (P : Provider) (refs : List Ref) (hnd : refs.Nodup) (n : Nat)
    (hn : refs.length < n) (tab : Ref → KRef)
    (hpos : (refs.map tab).Pairwise (fun a b => a.key = b.key → a.pos < b.pos))
    (f : Ref → Bool) (k : Key) :
    ∃ keep : Ref → Bool, (∀ r, keep r = true ↔ Derivable P refs r) ∧
      (run (((loop P n refs []).2.reverse.filter f).map tab)).values k =
        (ofKey k (((refs.filter keep).filter f).map tab)).map (·.tgt) := by
  refine ⟨fun r => decide (r ∈ (loop P n refs []).2), ?_, ?_⟩
  · intro r
    simp only [decide_eq_true_eq]
    exact loop_lfp P refs n hn r
  · refine C08_keyed_order _ _ ?_ (((loop_seq_perm_filter P n refs hnd).filter f).map tab) k
    exact hpos.sublist ((List.filter_sublist.trans List.filter_sublist).map tab)

open Resolve in
/-- **Order under the loop, per model file, on success.** -/
theorem C08_loop_keyed_files (P : Provider) (refs : List Ref) (n : Nat) (tab : Ref → KRef)
    (hpos : (refs.map tab).Pairwise (fun a b => a.key = b.key → a.pos < b.pos))
    (hok : (loop P n refs []).1 = []) (f : Ref → Bool) (k : Key) :
    (run (((loop P n refs []).2.reverse.filter f).map tab)).values k =
      (ofKey k ((refs.filter f).map tab)).map (·.tgt) :=
  C08_keyed_order _ _ (hpos.sublist (List.filter_sublist.map tab))
    (((loop_seq_perm P n refs hok).filter f).map tab) k

open Resolve in
/-- **Order under the loop** (the reviewer's `C08_loop_keyed`; `refs.Nodup` and the fuel bound
turned out not to be needed): when loading succeeds, every list attribute holds the targets of
its references in textual order, the schedule being the one the Postponed loop produces. -/
theorem C08_loop_keyed (P : Provider) (refs : List Ref) (n : Nat) (tab : Ref → KRef)
    (hpos : (refs.map tab).Pairwise (fun a b => a.key = b.key → a.pos < b.pos))
    (hok : (loop P n refs []).1 = []) (k : Key) :
    (run ((loop P n refs []).2.reverse.map tab)).values k = (ofKey k (refs.map tab)).map (·.tgt) :=
  C08_keyed_order _ _ hpos ((loop_seq_perm P n refs hok).map tab) k

open Resolve in
/-- **…and under the loop whose providers ask the resolver** (`needs_to_be_resolved`, RREL):
stale answers change the rounds in which references resolve, not the lists. -/
theorem C08_loopQ_keyed (W : Ref → List Wait) (fs0 : List (List CRef)) (hnd : (idsOf fs0).Nodup)
    (n : Nat) (hn : pendingCount fs0 < n) (tab : Ref → KRef)
    (hpos : ((idsOf fs0).map tab).Pairwise (fun a b => a.key = b.key → a.pos < b.pos))
    (hok : pendingCount (loopQ W n fs0 []).1 = 0) (f : Ref → Bool) (k : Key) :
    (run (((loopQ W n fs0 []).2.reverse.filter f).map tab)).values k =
      (ofKey k (((idsOf fs0).filter f).map tab)).map (·.tgt) :=
  C08_keyed_order _ _ (hpos.sublist (List.filter_sublist.map tab))
    (((loopQ_seq_perm W fs0 hnd n hn hok).filter f).map tab) k

/-! non-vacuity: references 1 and 2 wait for 0, which is written last in the list, so the loop
resolves `0, 1, 2` while the text has `1, 2, 0`; a program of which one reference is dead -/

/-- reference 0 is free, every other one waits for 0; 9 never resolves -/
def exP8 : Resolve.Provider where
  ready S r := decide (r = 0) || (decide (r ≠ 9) && decide (0 ∈ S))
  mono := by
    intro S S' r h hr
    simp only [Bool.or_eq_true, Bool.and_eq_true, decide_eq_true_eq] at hr ⊢
    rcases hr with h0 | ⟨h9, hS⟩
    · exact Or.inl h0
    · exact Or.inr ⟨h9, h 0 hS⟩

def exTab (r : Nat) : KRef := ⟨(7, r / 10), if r = 0 then 100 else 10 * r, 100 + r⟩

example : (Resolve.loop exP8 4 [1, 2, 0] []) = ([], [2, 1, 0]) := by decide
example : ([1, 2, 0].map exTab).Pairwise (fun a b => a.key = b.key → a.pos < b.pos) := by decide
example : (run ((Resolve.loop exP8 4 [1, 2, 0] []).2.reverse.map exTab)).values (7, 0) = [101, 102, 100] := by
  decide
example : (ofKey (7, 0) ([1, 2, 0].map exTab)).map (·.tgt) = [101, 102, 100] := by decide
example : ([1, 2, 9, 0].map exTab).Pairwise (fun a b => a.key = b.key → a.pos < b.pos) := by decide
/-- failing load: 9 stays pending, the list holds the others in textual order -/
example : (Resolve.loop exP8 5 [1, 2, 9, 0] []).1 = [9] ∧
    (run ((Resolve.loop exP8 5 [1, 2, 9, 0] []).2.reverse.map exTab)).values (7, 0) = [101, 102, 100] := by
  decide
/-- two files: the resolver of the file holding references `< 2` sees only those -/
example : (run (((Resolve.loop exP8 4 [1, 2, 0] []).2.reverse.filter (· < 2)).map exTab)).values (7, 0) =
    [101, 100] := by decide

/-! ## every postponement schedule, literally

`Resolve.Oracle` = any provider behaviour: the answer to a call ("`Postponed`" or not) may depend
on the whole history of provider calls of the load, hence on the round, on a counter, on state —
"which references return Postponed on which resolution rounds".  `loopO` is the resolver loop
under such an oracle. -/
open Resolve in
/-- **Order under every schedule, per model file.** Whatever the providers answer on whichever
call: if the load succeeds, the resolver of every file (`f` = "belongs to the file") holds in
every list attribute the targets of the attribute's references in textual order. -/
theorem C08_schedule_keyed (O : Oracle) (refs : List Ref) (n : Nat) (tab : Ref → KRef)
    (hpos : (refs.map tab).Pairwise (fun a b => a.key = b.key → a.pos < b.pos))
    (hok : (loopO O n [] refs []).1 = []) (f : Ref → Bool) (k : Key) :
    (run (((loopO O n [] refs []).2.reverse.filter f).map tab)).values k =
      (ofKey k ((refs.filter f).map tab)).map (·.tgt) :=
  C08_keyed_order _ _ (hpos.sublist (List.filter_sublist.map tab))
    (((loopO_seq_perm O n refs hok).filter f).map tab) k

open Resolve in
/-- **…and when the load fails:** the lists hold the targets of the references that got
resolved, in textual order (nothing foreign, nothing twice). -/
theorem C08_schedule_keyed_result (O : Oracle) (refs : List Ref) (hnd : refs.Nodup) (n : Nat)
    (tab : Ref → KRef) (hpos : (refs.map tab).Pairwise (fun a b => a.key = b.key → a.pos < b.pos))
    (f : Ref → Bool) (k : Key) :
    (run (((loopO O n [] refs []).2.reverse.filter f).map tab)).values k =
      (ofKey k (((refs.filter (fun r => decide (r ∈ (loopO O n [] refs []).2))).filter f).map tab)).map
        (·.tgt) := by
  have hp : ((loopO O n [] refs []).1 ++ (loopO O n [] refs []).2).Perm refs := by
    simpa using loopO_perm O n [] refs []
  have hres : (loopO O n [] refs []).2.Nodup := (List.nodup_append.1 (hp.nodup_iff.2 hnd)).2.1
  have hperm : (loopO O n [] refs []).2.reverse.Perm
      (refs.filter (fun r => decide (r ∈ (loopO O n [] refs []).2))) := by
    refine (List.perm_ext_iff_of_nodup ((List.reverse_perm _).nodup_iff.2 hres)
      (hnd.sublist List.filter_sublist)).2 ?_
    intro x
    simp only [List.mem_reverse, List.mem_filter, decide_eq_true_eq]
    exact ⟨fun hx => ⟨hp.subset (List.mem_append_right _ hx), hx⟩, fun h => h.2⟩
  exact C08_keyed_order _ _ (hpos.sublist ((List.filter_sublist.trans List.filter_sublist).map tab))
    ((hperm.filter f).map tab) k

/-! non-vacuity: the first reference of `0 1 2` is postponed once (a counting provider) -/
example : (Resolve.loopO (Resolve.countOracle fun r => if r = 0 then 1 else 0) 4 [] [0, 1, 2] []) =
    ([], [0, 2, 1]) := by decide
example : ([0, 1, 2].map fun r => (⟨(7, 0), 3 * r, 100 + r⟩ : KRef)).Pairwise
    (fun a b => a.key = b.key → a.pos < b.pos) := by decide
example : (run ((Resolve.loopO (Resolve.countOracle fun r => if r = 0 then 1 else 0) 4 [] [0, 1, 2] []).2.reverse.map
    fun r => (⟨(7, 0), 3 * r, 100 + r⟩ : KRef))).values (7, 0) = [100, 101, 102] := by decide

/-! non-vacuity, providers that ask the resolver (`Resolve.depOracle`; an RREL expression walking over `~to`):
text `p0 i1 p1 ; ptr p1 > p0  ptr p0 > i0` — references 0 1 2 form the list, 3 is `p1.to`, 4 is `p0.to`;
0 walks over 4, 2 over 3, 3 over 4.  Round 0 resolves 1 and 4, round 1 resolves 0 and 3, round 2 resolves 2;
a dependency resolved earlier in the same pass does not count yet (4 stands before nothing here, see the
second example: `ptr p0 > i0  plus : p0 i1` — 1 walks over 0, which the same pass resolved just before). -/
def exDep : Nat → List Nat := fun r => if r = 0 then [4] else if r = 2 then [3] else if r = 3 then [4] else []
def exDepTab (r : Nat) : KRef := if r < 3 then ⟨(1, 0), 10 + 3 * r, 100 + r⟩ else ⟨(20 + r, 3), 40 + 10 * r, 0⟩

example : (Resolve.loopO (Resolve.depOracle (fun _ => 0) exDep) 6 [] [0, 1, 2, 3, 4] []) = ([], [2, 3, 0, 4, 1]) := by
  decide
example : ([0, 1, 2, 3, 4].map exDepTab).Pairwise (fun a b => a.key = b.key → a.pos < b.pos) := by decide
example : (run ((Resolve.loopO (Resolve.depOracle (fun _ => 0) exDep) 6 [] [0, 1, 2, 3, 4] []).2.reverse.map
    exDepTab)).values (1, 0) = [100, 101, 102] := by decide
/-- the stale answer of `has_unresolved_crossrefs` during a pass: one more round -/
example : (Resolve.loopO (Resolve.depOracle (fun _ => 0) (fun r => if r = 1 then [0] else [])) 4 [] [0, 1, 2] []) =
    ([], [1, 2, 0]) := by decide
/-- the same schedule written with the resolver-query model of C09 (`loopQ`, a snapshot of `_crossrefs`) -/
example : (Resolve.loopQ (fun r => if r = 1 then [Resolve.Wait.qry 0 7 (some 3)] else []) 4
    [[⟨0, 7, 3⟩, ⟨1, 1, 0⟩, ⟨2, 1, 0⟩]] []) = ([[]], [1, 2, 0]) := by decide

end RefList
