import TextxVerif.Proofs.LinkLocLoop
import TextxVerif.Proofs.PosDict
import TextxVerif.Proofs.PosDictObj
import TextxVerif.Props.C06
import TextxVerif.Props.C28
/-!
# C34 — editor-support positions identify references and objects exactly

Two models, both of `textx/model.py` as it is after the four `fix:` commits of
branch `fix/C28` that concern `textx_tools_support`:

* `TextxVerif/LinkLoc.lean` — `ReferenceResolver.resolve_one_step` inside the
  main-model resolution loop: whenever a provider resolves a reference, a
  `RefRulePosition` is inserted into the model's `_pos_crossref_list` at the
  `bisect` index of its start.  `run files ans fuel` loads the files (each with
  its own list) and resolves with arbitrary provider answers `ans k id`
  (= any provider, any postponement schedule).
* `TextxVerif/PosDict.lean` — `process_node` records `(start, end) ↦ object`
  after the children of the object were processed, unless the span is already
  present; the dict is finally sorted by `(-start, end)`.
-/

namespace LinkLoc

/-- **Cross-reference list.** For every provider and every postponement schedule:
when loading succeeds, the `_pos_crossref_list` of each model file holds, in the
textual order of the references of that file, exactly one entry per reference;
the entry of reference `r` has `ref_pos_start = r.pos`, `ref_pos_end = r.posEnd`
(the end of the reference *text*) and the definition file / start / end of the
object the provider returned the first time it did not postpone `r`.
(`refs` are in text order: strictly increasing positions.) -/
theorem C34_refs_sorted_exact (files : List FileSpec) (ans : Nat → Nat → Answer) (fuel : Nat)
    (ms : List MRec) (htext : ∀ f ∈ files, f.refs.Pairwise (fun a b => a.pos < b.pos))
    (h : run files ans fuel = .ok ms) :
    All2 (fun f m => All2 (EntryOf ans) f.refs m.posList ∧
                     m.posList.map (·.refStart) = f.refs.map (·.pos)) files ms := by
  unfold run at h
  cases hl : loadFrom 0 files with
  | error e' => rw [hl] at h; cases h
  | ok ms0 =>
    rw [hl] at h
    have hinv := (loadFrom_ok ans files 0 ms0 hl).1
    obtain ⟨k', hfin⟩ := (resolveLoop_spec ans files fuel 0 ms0 hinv).2.1 ms h
    clear hl hinv h
    induction hfin with
    | nil => exact All2.nil
    | @cons f m fs ms' hfm _ ih =>
      refine All2.cons ?_ (ih (fun g hg => htext g (List.mem_cons_of_mem _ hg)))
      obtain ⟨inv, hnil⟩ := hfm
      have hp := htext f (by simp)
      have hperm : (m.posList.map (·.refStart)).Perm (f.refs.map (·.pos)) := by
        have := inv.perm; rw [hnil] at this; simpa using this
      have hsorted : (m.posList.map (·.refStart)).Pairwise (· ≤ ·) := by
        rw [List.pairwise_map]; exact inv.sorted
      have hrefs : (f.refs.map (·.pos)).Pairwise (· ≤ ·) := by
        rw [List.pairwise_map]; exact hp.imp Nat.le_of_lt
      have hkeys : m.posList.map (·.refStart) = f.refs.map (·.pos) :=
        List.Perm.eq_of_pairwise (le := (· ≤ ·)) (fun a b _ _ h1 h2 => Nat.le_antisymm h1 h2)
          hsorted hrefs hperm
      refine ⟨forall₂_of_keys f.refs m.posList hp hkeys ?_, hkeys⟩
      intro e he
      obtain ⟨r, hr, hE⟩ := inv.good e he
      refine ⟨r, hr, hE, ?_⟩
      obtain ⟨_, _, _, rfl⟩ := hE
      rfl

/-- **… and the condition "loading succeeds" is not a fuel artefact.**  With `enoughFuel files` rounds
the resolution loop always comes to an end (`C28_total`: it neither runs out of fuel nor fails in an
unmodelled way): either loading reports an error (a syntax error in a file, or a reference no provider
resolves — then there is no model and nothing to list), or it succeeds and every file's
`_pos_crossref_list` is as `C34_refs_sorted_exact` says. -/
theorem C34_refs_total (files : List FileSpec) (ans : Nat → Nat → Answer)
    (htext : ∀ f ∈ files, f.refs.Pairwise (fun a b => a.pos < b.pos)) :
    (∃ e, run files ans (enoughFuel files) = .err e) ∨
    ∃ ms, run files ans (enoughFuel files) = .ok ms ∧
      All2 (fun f m => All2 (EntryOf ans) f.refs m.posList ∧
                       m.posList.map (·.refStart) = f.refs.map (·.pos)) files ms := by
  have ht := C28_total files ans
  cases hr : run files ans (enoughFuel files) with
  | ok ms => exact Or.inr ⟨ms, rfl, C34_refs_sorted_exact files ans _ ms htext hr⟩
  | err e => exact Or.inl ⟨e, rfl⟩
  | crash => exact absurd hr (ht.1 _)
  | fuel => exact absurd hr ht.2

/-- The pinned constructions violate the property: with the end offset taken from
the *target's* name (`p.abc` resolving to the object named `abc`, 3 characters)
the span is not the reference text; appended in resolution order, a reference
postponed once comes after a textually later one. -/
theorem C34_refs_pinned_false :
    (mkEntryPinned ⟨0, 0, 40, 45, ⟨none, []⟩⟩ ⟨none, 12, 20⟩ 3).refEnd ≠ 45 ∧
    ¬ ([mkEntry ⟨1, 0, 58, 61, ⟨none, []⟩⟩ ⟨none, 21, 27⟩] ++ [mkEntry ⟨0, 0, 40, 45, ⟨none, []⟩⟩ ⟨none, 12, 20⟩]).Pairwise
        (fun a b => a.refStart ≤ b.refStart) := by
  decide

/-! non-vacuity: two files, the reference at 40 of the first file is postponed once -/
example :
    (match run [⟨some "a", List.replicate 70 'x', [⟨0, 40, 45⟩, ⟨1, 58, 61⟩], none⟩,
                ⟨some "b", List.replicate 9 'x', [⟨2, 3, 4⟩], none⟩]
        (fun k id => if k = 0 ∧ id = 0 then .postponed else .resolved ⟨some "b", id, id + 5⟩) 4 with
     | .ok ms => ms.map (·.posList)
     | _ => []) =
    [[⟨0, 40, 45, some "b", 0, 5⟩, ⟨1, 58, 61, some "b", 1, 6⟩], [⟨2, 3, 4, some "b", 2, 7⟩]] := by
  decide

end LinkLoc

namespace PosDict

/-- **Keys.** The position map has exactly the spans of the objects of the model
as keys, each once. -/
theorem C34_dict_keys (t : ONode) :
    (∀ n ∈ nodes t, n.span ∈ keys (posRuleDict t)) ∧
    (∀ it ∈ posRuleDict t, ∃ n ∈ nodes t, n.span = it.1) ∧
    (keys (posRuleDict t)).Nodup := by
  have hs := collect_spec t []
  obtain ⟨ex, hex, hgood⟩ := hs.ext
  have hperm : (posRuleDict t).Perm (collect t []) := List.mergeSort_perm _ _
  refine ⟨?_, ?_, ?_⟩
  · intro n hn
    have := hs.cover n hn
    unfold keys at this ⊢
    exact (hperm.map _).symm.subset this
  · intro it hit
    have hit' : it ∈ ex := by
      have := hperm.subset hit
      rw [hex] at this; simpa using this
    obtain ⟨_, n, hn, _, h2, _⟩ := hgood it hit'
    exact ⟨n, hn, h2⟩
  · have := hs.nodup (by simp [keys])
    unfold keys at this ⊢
    exact (hperm.map _).nodup_iff.2 this

/-- **Innermost.** Every entry `span ↦ v` of the position map names an object `n`
of the model (`v = n.id`) that has exactly that span and no object strictly
inside it has the same span.  When the object tree has the geometry of a parse
(`wf`: children inside their parent, in text order, non-empty spans) every
object with that span contains `n` (or is `n`): `n` is the innermost one. -/
theorem C34_dict_innermost (t : ONode) :
    ∀ it ∈ posRuleDict t, ∃ n ∈ nodes t, n.id = it.2 ∧ n.span = it.1 ∧
      (∀ x ∈ properDesc n, x.span ≠ it.1) ∧
      (wf t = true → ∀ n' ∈ nodes t, n'.span = it.1 → n ∈ nodes n') := by
  intro it hit
  have hs := collect_spec t []
  obtain ⟨ex, hex, hgood⟩ := hs.ext
  have hperm : (posRuleDict t).Perm (collect t []) := List.mergeSort_perm _ _
  have hit' : it ∈ ex := by
    have := hperm.subset hit
    rw [hex] at this; simpa using this
  obtain ⟨_, n, hn, h1, h2, h3⟩ := hgood it hit'
  refine ⟨n, hn, h1, h2, h3, ?_⟩
  intro hwf n' hn' hsp
  rcases wf_comparable t hwf n hn n' hn' (by rw [h2, hsp]) with h | h
  · exact h
  · rw [nodes_eq] at h
    rcases List.mem_cons.1 h with rfl | h
    · exact self_mem_nodes _
    · exact absurd hsp (h3 n' h)

/-- The order-free geometry `geo` (non-empty spans, children inside their parent, children pairwise
disjoint) is weaker than `wf` (which also wants the children in text order). -/
theorem C34_wf_geo (t : ONode) (h : wf t = true) : geo t = true := wf_geo t h

/-- `geo` against an independent reading: the node covers a non-empty text, every child lies inside
it and has the geometry itself, no two children overlap. -/
theorem C34_geo_spec (id s e : Nat) (kids : List ONode) :
    geo (.mk id s e kids) = true ↔
      s < e ∧ (∀ k ∈ kids, s ≤ k.s ∧ k.e ≤ e ∧ geo k = true) ∧
        kids.Pairwise (fun a b => a.e ≤ b.s ∨ b.e ≤ a.s) := by
  simp only [geo, Bool.and_eq_true, decide_eq_true_eq, geoList_iff]

/-- **Innermost, under the geometry that model construction guarantees.**  `C34_dict_innermost`
with `wf` weakened to `geo`: every entry `span ↦ v` names an object `n` with that span, no object
strictly inside `n` has the same span, and every object of the model with that span contains `n`
(or is `n`).  No assumption on the order of the children. -/
theorem C34_dict_innermost_geo (t : ONode) (hgeo : geo t = true) :
    ∀ it ∈ posRuleDict t, ∃ n ∈ nodes t, n.id = it.2 ∧ n.span = it.1 ∧
      (∀ x ∈ properDesc n, x.span ≠ it.1) ∧
      (∀ n' ∈ nodes t, n'.span = it.1 → n ∈ nodes n') := by
  intro it hit
  obtain ⟨n, hn, h1, h2, h3, _⟩ := C34_dict_innermost t it hit
  refine ⟨n, hn, h1, h2, h3, ?_⟩
  intro n' hn' hsp
  rcases geo_comparable t hgeo n hn n' hn' (by rw [h2, hsp]) with h | h
  · exact h
  · rw [nodes_eq] at h
    rcases List.mem_cons.1 h with rfl | h
    · exact self_mem_nodes _
    · exact absurd hsp (h3 n' h)

/-- **"The innermost one" is well defined.**  Under `geo` two objects of the model with the same span, neither
of which has an object with that span strictly inside, are the same node: the value `C34_dict_innermost_geo`
describes is unique — it does not depend on the order in which `process_node` happens to visit the children. -/
theorem C34_innermost_unique (t : ONode) (hgeo : geo t = true) (n1 n2 : ONode) (h1 : n1 ∈ nodes t) (h2 : n2 ∈ nodes t)
    (hs : n1.span = n2.span) (hi1 : ∀ x ∈ properDesc n1, x.span ≠ n1.span)
    (hi2 : ∀ x ∈ properDesc n2, x.span ≠ n2.span) : n1 = n2 := by
  rcases geo_comparable t hgeo n1 h1 n2 h2 hs with h | h
  · rw [nodes_eq] at h
    rcases List.mem_cons.1 h with h | h
    · exact h
    · exact absurd hs (hi2 n1 h)
  · rw [nodes_eq] at h
    rcases List.mem_cons.1 h with h | h
    · exact h.symm
    · exact absurd hs.symm (hi1 n2 h)

open Obj in
/-- **The geometry is a theorem about `process_node`, not an assumption.**  For every well-formed
parse tree, metamodel and truthiness of objects: the containment tree of the model `Obj.build`
produces (the model of `process_node` of C05 / C06), read as an object tree (`toONode`: identity,
`_tx_position(_end)`, contents of the containment attributes in `_tx_attrs` order) — also after
reference resolution (`RefUpdates`) — has the geometry `geo`; with fuel `|h'|` the tree contains
every object contained in the model. -/
theorem C34_geo_of_build (tr : Heap → Nat → Bool) (mm : Nat → List MetaAttr) (root : PT) (r : Nat) (s : St)
    (hwf : root.WF) (h : build tr mm root = some (.obj r, s)) (h' : Heap) (hu : RefUpdates s.heap h')
    (fuel : Nat) :
    geo (toONode h' fuel r) = true ∧
    (h'.length ≤ r + fuel → ∀ x, Reach h' (fun _ => true) r x → ∃ n ∈ nodes (toONode h' fuel r), n.id = x) := by
  have e := hu.same
  have hp := processNode_post tr mm root St.empty (.obj r) s Inv.empty h
  have T := hp.1.inv.tree
  have post := build_span_post tr mm root _ s hwf h
  have hne : ∀ x sp, spanOf s.heap x = some sp → sp.1 < sp.2 := by
    intro x sp hx
    unfold spanOf at hx
    cases hg : s.heap.get x with
    | none => rw [hg] at hx; cases hx
    | some o =>
      rw [hg] at hx
      simp only [Option.map_some, Option.some.injEq] at hx
      obtain ⟨_, _, _, _, _, hlt, _, _⟩ := C06_span tr mm root _ s hwf h x o hg
      rw [← hx]; exact hlt
  have hr : (s.heap.get r).isSome = true := Heap.isSome_iff.mpr (hp.2 r rfl).lt
  refine ⟨?_, ?_⟩
  · rw [toONode_congr e]
    exact geo_toONode T post.si hne fuel r hr
  · intro hf x hx
    exact mem_nodes_toONode (e.tree T) hx fuel hf

open Obj in
/-- … hence for the position map of a built model the innermost clause holds outright. -/
theorem C34_dict_innermost_built (tr : Heap → Nat → Bool) (mm : Nat → List MetaAttr) (root : PT) (r : Nat) (s : St)
    (hwf : root.WF) (h : build tr mm root = some (.obj r, s)) (h' : Heap) (hu : RefUpdates s.heap h')
    (fuel : Nat) :
    ∀ it ∈ posRuleDict (toONode h' fuel r), ∃ n ∈ nodes (toONode h' fuel r), n.id = it.2 ∧ n.span = it.1 ∧
      (∀ x ∈ properDesc n, x.span ≠ it.1) ∧
      (∀ n' ∈ nodes (toONode h' fuel r), n'.span = it.1 → n ∈ nodes n') :=
  C34_dict_innermost_geo _ (C34_geo_of_build tr mm root r s hwf h h' hu fuel).1

/-- **Order.** In the position map, an entry listed before another one never has a
different span that contains the other's span — i.e. every span is listed
before all different spans that contain it. -/
theorem C34_dict_order (t : ONode) :
    (posRuleDict t).Pairwise (fun a b => ¬ (inside b.1 a.1 ∧ b.1 ≠ a.1)) := by
  have h := List.pairwise_mergeSort keyLe_trans keyLe_total (collect t [])
  refine h.imp ?_
  intro a b hab ⟨hin, hne⟩
  exact hne (keyLe_not_contains a b hab hin)

/-- The pinned behaviour (a later writer overwrites, sort by `(start, end)`
descending) violates both: for `Wrap ⊇ Inner ⊇ Core` with `Wrap`, `Inner`
spanning (0, 10) and `Core` (0, 6) it maps (0, 10) to the outermost object
(id 0, not the inner one, id 1) and lists (0, 10) before (0, 6). -/
theorem C34_dict_pinned_false :
    posRuleDictPinned (.mk 0 0 10 [.mk 1 0 10 [.mk 2 0 6 []]]) = [((0, 10), 0), ((0, 6), 2)] ∧
    posRuleDict (.mk 0 0 10 [.mk 1 0 10 [.mk 2 0 6 []]]) = [((0, 6), 2), ((0, 10), 1)] := by
  simp [posRuleDict, posRuleDictPinned, collect, collectList, collectPinned, collectListPinned, setDefault,
    setOverwrite, has, List.mergeSort, keyLe, keyLePinned]

/-! non-vacuity -/
example : wf (.mk 0 0 30 [.mk 1 0 10 [.mk 2 0 10 [.mk 3 0 6 []]], .mk 4 12 30 [.mk 5 20 30 []]]) = true := by decide
example : posRuleDict (.mk 0 0 30 [.mk 1 0 10 [.mk 2 0 10 [.mk 3 0 6 []]], .mk 4 12 30 [.mk 5 20 30 []]]) =
    [((20, 30), 5), ((12, 30), 4), ((0, 6), 3), ((0, 10), 2), ((0, 30), 0)] := by
  simp [posRuleDict, collect, collectList, setDefault, has, List.mergeSort, keyLe]

/-! non-vacuity of `geo`: children out of text order (not `wf`), still `geo`; and the object tree of
the model of `Props/C05.lean` (root 0..9, kids at 2, 4, 6, 8; kid 2 nested in kid 1) -/
example : wf (.mk 0 0 30 [.mk 4 12 30 [], .mk 1 0 10 [.mk 2 0 10 []]]) = false := by decide
example : geo (.mk 0 0 30 [.mk 4 12 30 [], .mk 1 0 10 [.mk 2 0 10 []]]) = true := by decide
example : geo (.mk 0 0 30 [.mk 1 0 10 [], .mk 2 8 12 []]) = false := by decide
example : geo (toONode Obj.exHeap 5 0) = true := by decide +kernel
/-- the dict before the final sort: post-order of the object tree -/
example : collect (toONode Obj.exHeap 5 0) [] = [((4, 5), 2), ((2, 5), 1), ((6, 7), 3), ((8, 9), 4), ((0, 9), 0)] := by
  decide +kernel

end PosDict
