import TextxVerif.Proofs.LinkLocLoop
/-!
# C28 — model loading errors point at the offending text

Model: `TextxVerif/LinkLoc.lean` mirrors `Parser.pos_to_linecol` (Arpeggio), the
syntax-error construction in `TextXModelParser._parse`, the "Unknown object"
error of `ReferenceResolver.resolve_one_step`, the "name … is not unique" error
of `scoping.providers.PlainName`, and the main-model resolution loop of
`parse_tree_to_objgraph` ending in "Unresolvable cross references" — as they are
after the two `fix:` commits of branch `fix/C28`.

`run files ans fuel` loads the model files `files` (main model first, then the
imported ones in load order; `name = none` for a model given as a string) and
resolves the references.  Every file has its own parser; `ans k id` is what the
scope provider answers when reference `id` is asked for the `(k+1)`-th time, so
`∀ ans` ranges over every provider, postponement schedule and history.  The
position of a syntax error (`FileSpec.nm`) is Arpeggio's furthest-failure
record and an input of this model (tied to the real parser by the direct
oracle, see `notes/C28.md`).
-/
namespace LinkLoc

/-- the error names file `f` and the line and column of offset `pos` of `f`'s text -/
def PointsAt (e : Err) (f : FileSpec) (pos : Nat) : Prop :=
  e.filename = f.name ∧ e.line = (lineColSpec f.text pos).1 ∧ e.col = ((lineColSpec f.text pos).2 : Int)

/-- why reference `r` is the offending one, per kind of error: the first answer of
the provider that was not "postponed" is "unknown" / "not unique", or the
reference was still postponed when the loop gave up -/
def Offending (ans : Nat → Nat → Answer) (kind : Kind) (r : RefSpec) : Prop :=
  (kind = .unknown ∧ ∃ k, ans k r.id = .unknown ∧ ∀ j < k, ans j r.id = .postponed) ∨
  (kind = .notUnique ∧ ∃ k root, ans k r.id = .notUnique root ∧ ∀ j < k, ans j r.id = .postponed) ∨
  (kind = .unresolvable ∧ ∃ k, ans k r.id = .postponed)

/-- **Line and column.** `pos_to_linecol` (line-end table, `bisect_left`, the
`'\n'` adjustment) yields, for every text and every offset inside it (or at its
end), the line and column obtained by reading the text up to the offset:
start at (1, 1); a newline starts the next line at column 1; any other
character advances the column. -/
theorem C28_linecol (input : List Char) (pos : Nat) (h : pos ≤ input.length) :
    posToLineCol input pos = ((lineColSpec input pos).1, ((lineColSpec input pos).2 : Int)) :=
  posToLineCol_spec input pos h

/-- (line, column) identify the offset: two offsets of the same text with the same
line and column are equal — so a correct line/col *is* the location of the text. -/
theorem C28_linecol_identifies (input : List Char) (p q : Nat) (hp : p ≤ input.length)
    (hq : q ≤ input.length) (h : lineColSpec input p = lineColSpec input q) : p = q :=
  lineColSpec_injective input p q hp hq h

/-- **Syntax errors.** If loading ends with a syntax error then it is the error of
the first file (in load order) that does not parse, and it names that file
(`none` for a string) and the line / column, in that file, of the position `p`
where the parser of that file failed. -/
theorem C28_syntax (files : List FileSpec) (ans : Nat → Nat → Answer) (fuel : Nat) (e : Err)
    (hpos : ∀ f ∈ files, ∀ p, f.nm = some p → p ≤ f.text.length)
    (h : run files ans fuel = .err e) (hk : e.kind = .syntax) :
    ∃ pre f post p, files = pre ++ f :: post ∧ (∀ g ∈ pre, g.nm = none) ∧ f.nm = some p ∧
      PointsAt e f p := by
  unfold run at h
  cases hl : loadFrom 0 files with
  | error e' =>
    rw [hl] at h
    injection h with h; subst h
    obtain ⟨pre, f, post, p, h1, h2, h3, h4⟩ := loadFrom_err files 0 e' hl
    refine ⟨pre, f, post, p, h1, h2, h3, ?_⟩
    have hp : p ≤ f.text.length := hpos f (by rw [h1]; simp) p h3
    have := posToLineCol_spec f.text p hp
    subst h4
    simp only [PointsAt, errSyntax, this, and_self]
  | ok ms =>
    rw [hl] at h
    obtain ⟨hinv, _⟩ := loadFrom_ok ans files 0 ms hl
    obtain ⟨herr, _, _, _⟩ := resolveLoop_spec ans files fuel 0 ms hinv
    obtain ⟨f, _, r, _, _, _, hkind⟩ := herr e h
    rcases hkind with ⟨hk', _⟩ | ⟨hk', _⟩ | ⟨hk', _⟩ <;> rw [hk] at hk' <;> cases hk'

/-- … and a file that does not parse always ends the load with a syntax error. -/
theorem C28_syntax_raised (files : List FileSpec) (ans : Nat → Nat → Answer) (fuel : Nat)
    (h : ∃ f ∈ files, f.nm ≠ none) : ∃ e, run files ans fuel = .err e ∧ e.kind = .syntax := by
  obtain ⟨e, he⟩ := loadFrom_nm files 0 h
  obtain ⟨_, f, _, p, _, _, _, h4⟩ := loadFrom_err files 0 e he
  refine ⟨e, by simp [run, he], ?_⟩
  subst h4; rfl

/-- **Reference-resolution errors.** Whatever the scope providers answer and in
whatever order references get postponed: if loading ends with an "unknown
object", "not unique" or "unresolvable" error, then there is a model file `f`
(the main one or an imported one) and a reference `r` written in `f` such that
the error names `f` (`none` for a string) and the line and column of `r`'s text
in `f`, and `r` is an offending reference of that kind. -/
theorem C28_ref (files : List FileSpec) (ans : Nat → Nat → Answer) (fuel : Nat) (e : Err)
    (hpos : ∀ f ∈ files, ∀ r ∈ f.refs, r.pos ≤ f.text.length)
    (h : run files ans fuel = .err e) (hk : e.kind ≠ .syntax) :
    ∃ f ∈ files, ∃ r ∈ f.refs, PointsAt e f r.pos ∧ Offending ans e.kind r := by
  unfold run at h
  cases hl : loadFrom 0 files with
  | error e' =>
    rw [hl] at h
    injection h with h; subst h
    obtain ⟨_, f, _, p, _, _, _, h4⟩ := loadFrom_err files 0 e' hl
    subst h4
    exact absurd rfl hk
  | ok ms =>
    rw [hl] at h
    obtain ⟨hinv, _⟩ := loadFrom_ok ans files 0 ms hl
    obtain ⟨herr, _, _, _⟩ := resolveLoop_spec ans files fuel 0 ms hinv
    obtain ⟨f, hf, r, hr, hfile, hlc, hkind⟩ := herr e h
    refine ⟨f, hf, r, hr, ⟨hfile, ?_⟩, ?_⟩
    · rw [posToLineCol_spec f.text r.pos (hpos f hf r hr)] at hlc
      exact ⟨congrArg Prod.fst hlc, congrArg Prod.snd hlc⟩
    · rcases hkind with ⟨hk', k, h1, h2⟩ | ⟨hk', k, root, h1, h2⟩ | ⟨hk', k, h1⟩
      · exact Or.inl ⟨hk', k, h1, h2⟩
      · exact Or.inr (Or.inl ⟨hk', k, root, h1, h2⟩)
      · exact Or.inr (Or.inr ⟨hk', k, h1⟩)

/-- Loading never fails in another way (the unpacking of the first unresolvable
reference always finds one), and `enoughFuel` rounds always suffice: the loop
terminates. -/
theorem C28_total (files : List FileSpec) (ans : Nat → Nat → Answer) :
    (∀ fuel, run files ans fuel ≠ .crash) ∧ run files ans (enoughFuel files) ≠ .fuel := by
  constructor
  · intro fuel
    unfold run
    cases hl : loadFrom 0 files with
    | error e' => simp
    | ok ms =>
      obtain ⟨hinv, _⟩ := loadFrom_ok ans files 0 ms hl
      exact (resolveLoop_spec ans files fuel 0 ms hinv).2.2.1
  · unfold run
    cases hl : loadFrom 0 files with
    | error e' => simp
    | ok ms =>
      have hinv := (loadFrom_ok ans files 0 ms hl).1
      refine (resolveLoop_spec ans files (enoughFuel files) 0 ms hinv).2.2.2 ?_
      have hsum : (ms.map (·.crossrefs.length)).sum ≤ (files.map (·.refs.length)).sum := by
        clear hl
        induction hinv with
        | nil => exact Nat.le_refl _
        | cons hfm _ ih =>
          simp only [List.map_cons, List.sum_cons]
          have := hfm.perm.length_eq
          simp only [List.length_append, List.length_map] at this
          exact Nat.add_le_add (by omega) ih
      unfold enoughFuel
      omega

/-! ### the pinned (unrepaired) constructions violate the property -/

/-- main model `a` = "abcdefgh", imported model `b` = six empty lines then "z";
the one reference sits in `b` at offset 6 (line 7, column 1) and stays postponed -/
def witnessFiles : List FileSpec :=
  [⟨some "a", "abcdefgh".toList, [], none⟩, ⟨some "b", "\n\n\n\n\n\nz".toList, [⟨0, 6, 7⟩], none⟩]

def witnessModels : List MRec :=
  match loadFrom 0 witnessFiles with
  | .ok ms => match stepModels (fun _ _ => .postponed) 0 ms with
    | .ok (ms', _, _) => ms'
    | .error _ => []
  | .error _ => []

/-- Pinned "Unresolvable cross references": main model's parser, no file name —
the error says line 1, column 7 of no file; the repaired construction says
`b`, line 7, column 1, where the reference is. -/
theorem C28_unresolvable_pinned_false :
    errUnresolvablePinned ⟨some "a", "abcdefgh".toList⟩ witnessModels = some ⟨.unresolvable, none, 1, 7⟩ ∧
    errUnresolvable witnessModels = some ⟨.unresolvable, some "b", 7, 1⟩ ∧
    lineColSpec "\n\n\n\n\n\nz".toList 6 = (7, 1) := by
  decide

/-- Pinned "name is not unique" when the duplicate names are found while searching
another model (`root = 0`, the file `a`) on behalf of the reference in `b`:
the error names `a` with line 1, column 7; the repaired construction names the
reference's own file and position. -/
theorem C28_notunique_pinned_false :
    ∃ x ∈ (witnessModels.flatMap (·.crossrefs)),
      errNotUniquePinned witnessModels 0 x = some ⟨.notUnique, some "a", 1, 7⟩ ∧
      errNotUnique x = ⟨.notUnique, some "b", 7, 1⟩ := by
  decide

/-! non-vacuity: the hypotheses of the theorems are met by concrete loads that fail in each way -/
example : run witnessFiles (fun _ _ => .postponed) 5 = .err ⟨.unresolvable, some "b", 7, 1⟩ := by decide
example : run witnessFiles (fun _ _ => .unknown) 5 = .err ⟨.unknown, some "b", 7, 1⟩ := by decide
example : run witnessFiles (fun _ _ => .notUnique 0) 5
    = .err ⟨.notUnique, some "b", 7, 1⟩ := by decide
example : run [⟨none, "ab\ncd".toList, [], some 4⟩] (fun _ _ => .unknown) 5 = .err ⟨.syntax, none, 2, 2⟩ := by decide
example : ∀ f ∈ witnessFiles, ∀ r ∈ f.refs, r.pos ≤ f.text.length := by decide

end LinkLoc
