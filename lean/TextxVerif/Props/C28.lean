import TextxVerif.Proofs.LinkLocFirst
import TextxVerif.Proofs.LinkLocCount
/-!
# C28 — model loading errors point at the offending text

Model: `TextxVerif/LinkLoc.lean` mirrors `Parser.pos_to_linecol` (Arpeggio), the
syntax-error construction in `TextXModelParser._parse`, the "Unknown object"
error of `ReferenceResolver.resolve_one_step`, the "name … is not unique" error
of `scoping.providers.PlainName`, and the main-model resolution loop of
`parse_tree_to_objgraph` ending in "Unresolvable cross references" — as they are
after the two `fix:` commits of branch `fix/C28`.

`run files ans fuel` loads the model files `files` (main model first, then the
imported ones in load order; `name = none` for a model given as a string) and
resolves the references.  Every file has its own parser; `ans k id` is what the
scope provider answers when reference `id` is asked for the `(k+1)`-th time, so
`∀ ans` ranges over every provider, postponement schedule and history.  The
position of a syntax error (`FileSpec.nm`) is Arpeggio's furthest-failure
record and an input of this model (tied to the real parser by the direct
oracle, see `notes/C28.md`).
-/
namespace LinkLoc

/-- the error names file `f` and the line and column of offset `pos` of `f`'s text -/
def PointsAt (e : Err) (f : FileSpec) (pos : Nat) : Prop :=
  e.filename = f.name ∧ e.line = (lineColSpec f.text pos).1 ∧ e.col = ((lineColSpec f.text pos).2 : Int)

/-- why reference `r` is the offending one, per kind of error: the first answer of
the provider that was not "postponed" is "unknown" / "not unique", or the
reference was still postponed when the loop gave up -/
def Offending (ans : Nat → Nat → Answer) (kind : Kind) (r : RefSpec) : Prop :=
  (kind = .unknown ∧ ∃ k, ans k r.id = .unknown ∧ ∀ j < k, ans j r.id = .postponed) ∨
  (kind = .notUnique ∧ ∃ k root, ans k r.id = .notUnique root ∧ ∀ j < k, ans j r.id = .postponed) ∨
  (kind = .unresolvable ∧ ∃ k, ans k r.id = .postponed)

/-- **Line and column.** `pos_to_linecol` (line-end table, `bisect_left`, the
`'\n'` adjustment) yields, for every text and every offset inside it (or at its
end), the line and column obtained by reading the text up to the offset:
start at (1, 1); a newline starts the next line at column 1; any other
character advances the column. -/
theorem C28_linecol (input : List Char) (pos : Nat) (h : pos ≤ input.length) :
    posToLineCol input pos = ((lineColSpec input pos).1, ((lineColSpec input pos).2 : Int)) :=
  posToLineCol_spec input pos h

/-- (line, column) identify the offset: two offsets of the same text with the same
line and column are equal — so a correct line/col *is* the location of the text. -/
theorem C28_linecol_identifies (input : List Char) (p q : Nat) (hp : p ≤ input.length)
    (hq : q ≤ input.length) (h : lineColSpec input p = lineColSpec input q) : p = q :=
  lineColSpec_injective input p q hp hq h

/-- **What line and column mean** (second, non-recursive description of `lineColSpec`; it is what
the harness oracle computes with `text.count("\n", 0, off)` and `text.rfind("\n", 0, off)`): for an
offset inside the text (or at its end) the line is one plus the number of `'\n'` before the offset, and
the column is one plus the distance from the line start `s = pos - (col - 1)`, where `s` is offset 0 or
the offset just after a `'\n'`, and there is no `'\n'` between `s` and the offset. -/
theorem C28_linecol_meaning (input : List Char) (pos : Nat) (h : pos ≤ input.length) :
    (lineColSpec input pos).1 = (input.take pos).count '\n' + 1 ∧
    1 ≤ (lineColSpec input pos).2 ∧ (lineColSpec input pos).2 - 1 ≤ pos ∧
    (pos - ((lineColSpec input pos).2 - 1) = 0 ∨
      input[pos - ((lineColSpec input pos).2 - 1) - 1]? = some '\n') ∧
    (∀ i, pos - ((lineColSpec input pos).2 - 1) ≤ i → i < pos → input[i]? ≠ some '\n') :=
  lineColSpec_meaning input pos h

/-- **The `'\r'` alternative of `pos_to_linecol` is dead.**  For every text and every
offset (also outside the text), `pos_to_linecol` equals the variant `posToLineColLF` whose
test `input[line_end] in '\n\r'` is replaced by "true": the line-end table holds offsets of
`'\n'` only, so the test always succeeds through `'\n'`.  Hence "newline" means `'\n'`
alone — a `'\r'` is an ordinary character that advances the column (as in `lineColSpec`). -/
theorem C28_linecol_cr_dead (input : List Char) (pos : Nat) :
    posToLineCol input pos = posToLineColLF input pos :=
  posToLineCol_eq_LF input pos

/-- a `"\r\n"` text: the `'\r'` counts as a column of line 1, line 2 starts after the `'\n'` -/
example : posToLineCol "ab\r\ncd".toList 3 = (1, 4) ∧ posToLineCol "ab\r\ncd".toList 5 = (2, 2) ∧
    lineColSpec "ab\r\ncd".toList 5 = (2, 2) := by decide

/-- **Syntax errors.** If loading ends with a syntax error then it is the error of
the first file (in load order) that does not parse, and it names that file
(`none` for a string) and the line / column, in that file, of the position `p`
where the parser of that file failed. -/
theorem C28_syntax (files : List FileSpec) (ans : Nat → Nat → Answer) (fuel : Nat) (e : Err)
    (hpos : ∀ f ∈ files, ∀ p, f.nm = some p → p ≤ f.text.length)
    (h : run files ans fuel = .err e) (hk : e.kind = .syntax) :
    ∃ pre f post p, files = pre ++ f :: post ∧ (∀ g ∈ pre, g.nm = none) ∧ f.nm = some p ∧
      PointsAt e f p := by
  unfold run at h
  cases hl : loadFrom 0 files with
  | error e' =>
    rw [hl] at h
    injection h with h; subst h
    obtain ⟨pre, f, post, p, h1, h2, h3, h4⟩ := loadFrom_err files 0 e' hl
    refine ⟨pre, f, post, p, h1, h2, h3, ?_⟩
    have hp : p ≤ f.text.length := hpos f (by rw [h1]; simp) p h3
    have := posToLineCol_spec f.text p hp
    subst h4
    simp only [PointsAt, errSyntax, this, and_self]
  | ok ms =>
    rw [hl] at h
    obtain ⟨hinv, _⟩ := loadFrom_ok ans files 0 ms hl
    obtain ⟨herr, _, _, _⟩ := resolveLoop_spec ans files fuel 0 ms hinv
    obtain ⟨f, _, r, _, _, _, hkind⟩ := herr e h
    rcases hkind with ⟨hk', _⟩ | ⟨hk', _⟩ | ⟨hk', _⟩ <;> rw [hk] at hk' <;> cases hk'

/-- … and a file that does not parse always ends the load with a syntax error. -/
theorem C28_syntax_raised (files : List FileSpec) (ans : Nat → Nat → Answer) (fuel : Nat)
    (h : ∃ f ∈ files, f.nm ≠ none) : ∃ e, run files ans fuel = .err e ∧ e.kind = .syntax := by
  obtain ⟨e, he⟩ := loadFrom_nm files 0 h
  obtain ⟨_, f, _, p, _, _, _, h4⟩ := loadFrom_err files 0 e he
  refine ⟨e, by simp [run, he], ?_⟩
  subst h4; rfl

/-- **Reference-resolution errors.** Whatever the scope providers answer and in
whatever order references get postponed: if loading ends with an "unknown
object", "not unique" or "unresolvable" error, then there is a model file `f`
(the main one or an imported one) and a reference `r` written in `f` such that
the error names `f` (`none` for a string) and the line and column of `r`'s text
in `f`, and `r` is an offending reference of that kind. -/
theorem C28_ref (files : List FileSpec) (ans : Nat → Nat → Answer) (fuel : Nat) (e : Err)
    (hpos : ∀ f ∈ files, ∀ r ∈ f.refs, r.pos ≤ f.text.length)
    (h : run files ans fuel = .err e) (hk : e.kind ≠ .syntax) :
    ∃ f ∈ files, ∃ r ∈ f.refs, PointsAt e f r.pos ∧ Offending ans e.kind r := by
  unfold run at h
  cases hl : loadFrom 0 files with
  | error e' =>
    rw [hl] at h
    injection h with h; subst h
    obtain ⟨_, f, _, p, _, _, _, h4⟩ := loadFrom_err files 0 e' hl
    subst h4
    exact absurd rfl hk
  | ok ms =>
    rw [hl] at h
    obtain ⟨hinv, _⟩ := loadFrom_ok ans files 0 ms hl
    obtain ⟨herr, _, _, _⟩ := resolveLoop_spec ans files fuel 0 ms hinv
    obtain ⟨f, hf, r, hr, hfile, hlc, hkind⟩ := herr e h
    refine ⟨f, hf, r, hr, ⟨hfile, ?_⟩, ?_⟩
    · rw [posToLineCol_spec f.text r.pos (hpos f hf r hr)] at hlc
      exact ⟨congrArg Prod.fst hlc, congrArg Prod.snd hlc⟩
    · rcases hkind with ⟨hk', k, h1, h2⟩ | ⟨hk', k, root, h1, h2⟩ | ⟨hk', k, h1⟩
      · exact Or.inl ⟨hk', k, h1, h2⟩
      · exact Or.inr (Or.inl ⟨hk', k, root, h1, h2⟩)
      · exact Or.inr (Or.inr ⟨hk', k, h1⟩)

/-- Loading never fails in another way (the unpacking of the first unresolvable
reference always finds one), and `enoughFuel` rounds always suffice: the loop
terminates. -/
theorem C28_total (files : List FileSpec) (ans : Nat → Nat → Answer) :
    (∀ fuel, run files ans fuel ≠ .crash) ∧ run files ans (enoughFuel files) ≠ .fuel := by
  constructor
  · intro fuel
    unfold run
    cases hl : loadFrom 0 files with
    | error e' => simp
    | ok ms =>
      obtain ⟨hinv, _⟩ := loadFrom_ok ans files 0 ms hl
      exact (resolveLoop_spec ans files fuel 0 ms hinv).2.2.1
  · unfold run
    cases hl : loadFrom 0 files with
    | error e' => simp
    | ok ms =>
      have hinv := (loadFrom_ok ans files 0 ms hl).1
      refine (resolveLoop_spec ans files (enoughFuel files) 0 ms hinv).2.2.2 ?_
      have hsum : (ms.map (·.crossrefs.length)).sum ≤ (files.map (·.refs.length)).sum := by
        clear hl
        induction hinv with
        | nil => exact Nat.le_refl _
        | cons hfm _ ih =>
          simp only [List.map_cons, List.sum_cons]
          have := hfm.perm.length_eq
          simp only [List.length_append, List.length_map] at this
          exact Nat.add_le_add (by omega) ih
      unfold enoughFuel
      omega

/-! ### "Unresolvable cross references": which reference, and when

Definitions (`Proofs/LinkLocFirst.lean`), all in terms of the provider answers only:
* `PostponedThrough ans K q` — `q` was answered "postponed" in every round `0 … K`;
* `ResolvedBefore ans K q` — the first answer for `q` other than "postponed" came in a round `< K` and was an object;
* `Progress files ans j` — some reference of some file got its first non-"postponed" answer, an object, in round `j`;
* `GaveUpAt files ans K` — every reference of every file is `ResolvedBefore K` or `PostponedThrough K`, and every
  round `j < K` made progress: the loop runs the rounds `0 … K` and round `K` is the first that resolves nothing;
* `FirstUnresolvable files ans K f r` — `files = pre ++ f :: post`, `f.refs = r1 ++ r :: r2`, `r` is
  `PostponedThrough K`, every reference of the files `pre` and every reference in `r1` is `ResolvedBefore K`. -/

/-- **The "unresolvable" error is located at the first unresolvable reference.**
If loading ends with "Unresolvable cross references" then the loop gave up after
some round `K < fuel` (every reference was resolved before round `K` or is still
postponed in round `K`; every earlier round resolved something), and the error
names the file and the line / column of the reference `r` that is the *first* one,
in load order (files in load order, references in text order), that was postponed
in all rounds `0 … K`: every reference before it was resolved.  This replaces the
weak clause of `Offending` for this kind ("postponed at some time") and says which
of several unresolvable references is reported. -/
theorem C28_unresolvable_first (files : List FileSpec) (ans : Nat → Nat → Answer) (fuel : Nat) (e : Err)
    (hpos : ∀ f ∈ files, ∀ r ∈ f.refs, r.pos ≤ f.text.length)
    (h : run files ans fuel = .err e) (hk : e.kind = .unresolvable) :
    ∃ K f r, K < fuel ∧ GaveUpAt files ans K ∧ FirstUnresolvable files ans K f r ∧ PointsAt e f r.pos := by
  unfold run at h
  cases hl : loadFrom 0 files with
  | error e' =>
    rw [hl] at h
    injection h with h; subst h
    obtain ⟨_, f, _, p, _, _, _, h4⟩ := loadFrom_err files 0 e' hl
    subst h4
    simp [errSyntax] at hk
  | ok ms =>
    rw [hl] at h
    have hex := loadFrom_exact ans files 0 ms hl
    obtain ⟨K, f, r, hK, hfirst, hgave, hfile, hlc⟩ :=
      resolveLoop_unres ans files fuel 0 ms hex (by intro j hj; omega) e h hk
    refine ⟨K, f, r, by omega, hgave, hfirst, hfile, ?_⟩
    obtain ⟨pre, post, r1, r2, hfs, hrefs, _⟩ := hfirst
    have hf : f ∈ files := by rw [hfs]; simp
    have hr : r ∈ f.refs := by rw [hrefs]; simp
    rw [posToLineCol_spec f.text r.pos (hpos f hf r hr)] at hlc
    exact ⟨congrArg Prod.fst hlc, congrArg Prod.snd hlc⟩

/-- … and conversely: when all files parse and the provider answers are such that the
loop gives up after round `K` (`GaveUpAt`) with some reference still postponed, the
load ends with the "unresolvable" error (given `K + 1` rounds of fuel; `C28_total`:
`enoughFuel` always suffices). -/
theorem C28_unresolvable_raised (files : List FileSpec) (ans : Nat → Nat → Answer) (fuel K : Nat)
    (hparse : ∀ f ∈ files, f.nm = none) (hg : GaveUpAt files ans K)
    (hq : ∃ g ∈ files, ∃ q ∈ g.refs, PostponedThrough ans K q) (hfuel : K < fuel) :
    ∃ e, run files ans fuel = .err e ∧ e.kind = .unresolvable := by
  obtain ⟨ms, hl⟩ := loadFrom_total files 0 hparse
  have hex := loadFrom_exact ans files 0 ms hl
  obtain ⟨e, he, hk⟩ := resolveLoop_gaveup ans files K hg hq fuel 0 ms hex (by omega) (by omega)
  exact ⟨e, by simp [run, hl, he], hk⟩

/-- Declarative characterisation of the "unresolvable" outcome, from the answers alone
(no hypothesis on offsets). -/
theorem C28_unresolvable_iff (files : List FileSpec) (ans : Nat → Nat → Answer) (fuel : Nat) :
    (∃ e, run files ans fuel = .err e ∧ e.kind = .unresolvable) ↔
    ((∀ f ∈ files, f.nm = none) ∧
      ∃ K < fuel, GaveUpAt files ans K ∧ ∃ g ∈ files, ∃ q ∈ g.refs, PostponedThrough ans K q) := by
  constructor
  · rintro ⟨e, h, hk⟩
    unfold run at h
    cases hl : loadFrom 0 files with
    | error e' =>
      rw [hl] at h
      injection h with h; subst h
      obtain ⟨_, f, _, p, _, _, _, h4⟩ := loadFrom_err files 0 e' hl
      subst h4
      simp [errSyntax] at hk
    | ok ms =>
      rw [hl] at h
      have hex := loadFrom_exact ans files 0 ms hl
      obtain ⟨K, f, r, hK, hfirst, hgave, _, _⟩ :=
        resolveLoop_unres ans files fuel 0 ms hex (by intro j hj; omega) e h hk
      refine ⟨(loadFrom_ok ans files 0 ms hl).2, K, by omega, hgave, ?_⟩
      obtain ⟨pre, post, r1, r2, hfs, hrefs, hpt, _⟩ := hfirst
      exact ⟨f, by rw [hfs]; simp, r, by rw [hrefs]; simp, hpt⟩
  · rintro ⟨hparse, K, hK, hg, hq⟩
    exact C28_unresolvable_raised files ans fuel K hparse hg hq hK

/-- The round after which the loop gives up is determined by the answers. -/
theorem C28_giveup_round_unique (files : List FileSpec) (ans : Nat → Nat → Answer) (K K' : Nat)
    (h : GaveUpAt files ans K) (h' : GaveUpAt files ans K') : K = K' :=
  gaveUpAt_unique files ans K K' h h'

/-- **The loop agrees with the executable specification** (`LinkLocSpec.lean`, computed from
the reference lists and the provider answers alone, and compared with the real code by the
harness): if loading ends with "Unresolvable cross references", then `giveUpRound` finds the
round `K` after which the loop gave up, `firstPending` finds the first reference in load order
that is postponed in all rounds `0 … K`, and the error names the file and line / column of
exactly that reference.  (`askTrace files ans K`, the sequence of provider calls the harness
compares, lists for each round `0 … K` the references `pendB`-pending at its start — by
`stepModels_exact` these are the references the loop model passes over in that round.) -/
theorem C28_unresolvable_computed (files : List FileSpec) (ans : Nat → Nat → Answer) (fuel : Nat) (e : Err)
    (hpos : ∀ f ∈ files, ∀ r ∈ f.refs, r.pos ≤ f.text.length)
    (h : run files ans fuel = .err e) (hk : e.kind = .unresolvable) :
    ∃ K f r, giveUpRound files ans fuel = some K ∧ firstPending files ans K = some (f, r) ∧
      PointsAt e f r.pos := by
  obtain ⟨K, f, r, hK, hg, hfirst, hpt⟩ := C28_unresolvable_first files ans fuel e hpos h hk
  refine ⟨K, f, r, ?_, firstPending_eq files ans K f r hfirst, hpt⟩
  obtain ⟨pre, post, r1, r2, hfs, hrefs, hp, _⟩ := hfirst
  exact giveUpRound_eq files ans fuel K hK hg ⟨f, by rw [hfs]; simp, r, by rw [hrefs]; simp, hp⟩

/-- `Offending` with the strong clause for "unresolvable": the loop gave up after a round `K`
and `r` (in `f`) is the first reference in load order postponed in all rounds `0 … K` -/
def OffendingStrong (files : List FileSpec) (ans : Nat → Nat → Answer) (kind : Kind) (f : FileSpec)
    (r : RefSpec) : Prop :=
  (kind = .unknown ∧ ∃ k, ans k r.id = .unknown ∧ ∀ j < k, ans j r.id = .postponed) ∨
  (kind = .notUnique ∧ ∃ k root, ans k r.id = .notUnique root ∧ ∀ j < k, ans j r.id = .postponed) ∨
  (kind = .unresolvable ∧ ∃ K, GaveUpAt files ans K ∧ FirstUnresolvable files ans K f r)

/-- the strong clause implies the old one -/
theorem OffendingStrong.offending {files : List FileSpec} {ans : Nat → Nat → Answer} {kind : Kind}
    {f : FileSpec} {r : RefSpec} (h : OffendingStrong files ans kind f r) : Offending ans kind r := by
  rcases h with h | h | ⟨hk, K, _, _, _, _, _, _, _, hpt, _⟩
  · exact Or.inl h
  · exact Or.inr (Or.inl h)
  · exact Or.inr (Or.inr ⟨hk, K, hpt K (Nat.le_refl _)⟩)

/-- **Reference-resolution errors, strong form** (generalises `C28_ref`, which follows by
`OffendingStrong.offending`): same statement, but for "unresolvable" the located reference
is the first one in load order that is postponed through the round after which the loop gave up. -/
theorem C28_ref_strong (files : List FileSpec) (ans : Nat → Nat → Answer) (fuel : Nat) (e : Err)
    (hpos : ∀ f ∈ files, ∀ r ∈ f.refs, r.pos ≤ f.text.length)
    (h : run files ans fuel = .err e) (hk : e.kind ≠ .syntax) :
    ∃ f ∈ files, ∃ r ∈ f.refs, PointsAt e f r.pos ∧ OffendingStrong files ans e.kind f r := by
  by_cases hu : e.kind = .unresolvable
  · obtain ⟨K, f, r, _, hg, hfirst, hpt⟩ := C28_unresolvable_first files ans fuel e hpos h hu
    have hfirst' := hfirst
    obtain ⟨pre, post, r1, r2, hfs, hrefs, _⟩ := hfirst'
    exact ⟨f, by rw [hfs]; simp, r, by rw [hrefs]; simp, hpt, Or.inr (Or.inr ⟨hu, K, hg, hfirst⟩)⟩
  · obtain ⟨f, hf, r, hr, hpt, hoff⟩ := C28_ref files ans fuel e hpos h hk
    refine ⟨f, hf, r, hr, hpt, ?_⟩
    rcases hoff with h1 | h1 | ⟨h1, _⟩
    · exact Or.inl h1
    · exact Or.inr (Or.inl h1)
    · exact absurd h1 hu

/-- the Boolean functions of the executable specification decide the propositions used above -/
theorem C28_spec_reflects (files : List FileSpec) (ans : Nat → Nat → Answer) (K : Nat) :
    (gaveUpAtB files ans K = true ↔ GaveUpAt files ans K) ∧
    (somePostponedB files ans K = true ↔ ∃ g ∈ files, ∃ q ∈ g.refs, PostponedThrough ans K q) ∧
    (∀ f r, FirstUnresolvable files ans K f r → firstPending files ans K = some (f, r)) :=
  ⟨gaveUpAtB_iff files ans K, somePostponedB_iff files ans K, firstPending_eq files ans K⟩

/-! ### the pinned (unrepaired) constructions violate the property -/

/-- main model `a` = "abcdefgh", imported model `b` = six empty lines then "z";
the one reference sits in `b` at offset 6 (line 7, column 1) and stays postponed -/
def witnessFiles : List FileSpec :=
  [⟨some "a", "abcdefgh".toList, [], none⟩, ⟨some "b", "\n\n\n\n\n\nz".toList, [⟨0, 6, 7⟩], none⟩]

def witnessModels : List MRec :=
  match loadFrom 0 witnessFiles with
  | .ok ms => match stepModels (fun _ _ => .postponed) 0 ms with
    | .ok (ms', _, _) => ms'
    | .error _ => []
  | .error _ => []

/-- Pinned "Unresolvable cross references": main model's parser, no file name —
the error says line 1, column 7 of no file; the repaired construction says
`b`, line 7, column 1, where the reference is. -/
theorem C28_unresolvable_pinned_false :
    errUnresolvablePinned ⟨some "a", "abcdefgh".toList⟩ witnessModels = some ⟨.unresolvable, none, 1, 7⟩ ∧
    errUnresolvable witnessModels = some ⟨.unresolvable, some "b", 7, 1⟩ ∧
    lineColSpec "\n\n\n\n\n\nz".toList 6 = (7, 1) := by
  decide

/-- Pinned "name is not unique" when the duplicate names are found while searching
another model (`root = 0`, the file `a`) on behalf of the reference in `b`:
the error names `a` with line 1, column 7; the repaired construction names the
reference's own file and position. -/
theorem C28_notunique_pinned_false :
    ∃ x ∈ (witnessModels.flatMap (·.crossrefs)),
      errNotUniquePinned witnessModels 0 x = some ⟨.notUnique, some "a", 1, 7⟩ ∧
      errNotUnique x = ⟨.notUnique, some "b", 7, 1⟩ := by
  decide

/-! non-vacuity: the hypotheses of the theorems are met by concrete loads that fail in each way -/
example : run witnessFiles (fun _ _ => .postponed) 5 = .err ⟨.unresolvable, some "b", 7, 1⟩ := by decide
example : run witnessFiles (fun _ _ => .unknown) 5 = .err ⟨.unknown, some "b", 7, 1⟩ := by decide
example : run witnessFiles (fun _ _ => .notUnique 0) 5
    = .err ⟨.notUnique, some "b", 7, 1⟩ := by decide
example : run [⟨none, "ab\ncd".toList, [], some 4⟩] (fun _ _ => .unknown) 5 = .err ⟨.syntax, none, 2, 2⟩ := by decide
example : ∀ f ∈ witnessFiles, ∀ r ∈ f.refs, r.pos ≤ f.text.length := by decide

/-! non-vacuity of the hypotheses of `C28_unresolvable_first` / `_raised` / `_iff`: three references in
"x\ny z" — #0 (offset 0) postponed once and then resolved, #1 (offset 2) resolved at once, #2 (offset 4)
postponed for ever.  Round 0 resolves #1, round 1 resolves #0, round 2 resolves nothing: `K = 2`, and the
error is located at #2 (line 2, column 3). -/
def giveupFiles : List FileSpec := [⟨some "a", "x\ny z".toList, [⟨0, 0, 1⟩, ⟨1, 2, 3⟩, ⟨2, 4, 5⟩], none⟩]

def giveupAns : Nat → Nat → Answer := fun k id =>
  if id = 0 then (if k = 0 then .postponed else .resolved ⟨none, 0, 0⟩)
  else if id = 1 then .resolved ⟨none, 0, 0⟩ else .postponed

example : run giveupFiles giveupAns 5 = .err ⟨.unresolvable, some "a", 2, 3⟩ := by decide
example : ∀ f ∈ giveupFiles, f.nm = none := by decide
example : ∀ f ∈ giveupFiles, ∀ r ∈ f.refs, r.pos ≤ f.text.length := by decide
example : ∃ g ∈ giveupFiles, ∃ q ∈ g.refs, PostponedThrough giveupAns 2 q :=
  ⟨_, List.mem_cons_self, ⟨2, 4, 5⟩, by simp, fun _ _ => rfl⟩
example : giveUpRound giveupFiles giveupAns 5 = some 2 ∧
    firstPending giveupFiles giveupAns 2 = some (⟨some "a", "x\ny z".toList, [⟨0, 0, 1⟩, ⟨1, 2, 3⟩, ⟨2, 4, 5⟩], none⟩, ⟨2, 4, 5⟩) ∧
    askTrace giveupFiles giveupAns 2 = [0, 1, 2, 0, 2, 2] := by decide
example : GaveUpAt giveupFiles giveupAns 2 := by
  constructor
  · intro g hg q hq
    simp only [giveupFiles, List.mem_singleton] at hg
    subst hg
    simp only [List.mem_cons, List.not_mem_nil, or_false] at hq
    rcases hq with rfl | rfl | rfl
    · exact Or.inl ⟨1, by omega, ⟨none, 0, 0⟩, rfl, fun j hj => by
        have : j = 0 := by omega
        subst this; rfl⟩
    · exact Or.inl ⟨0, by omega, ⟨none, 0, 0⟩, rfl, fun j hj => by omega⟩
    · exact Or.inr (fun _ _ => rfl)
  · intro j hj
    have hj' : j = 0 ∨ j = 1 := by omega
    rcases hj' with rfl | rfl
    · exact ⟨_, List.mem_cons_self, ⟨1, 2, 3⟩, by simp, ⟨none, 0, 0⟩, rfl, fun j hj => by omega⟩
    · exact ⟨_, List.mem_cons_self, ⟨0, 0, 1⟩, by simp, ⟨none, 0, 0⟩, rfl, fun j hj => by
        have : j = 0 := by omega
        subst this; rfl⟩

end LinkLoc
