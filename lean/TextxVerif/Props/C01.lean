import TextxVerif.Proofs.TxEmit
import TextxVerif.Proofs.TxCompile
import TextxVerif.Proofs.TxBuild
import TextxVerif.Tx.Quirk
import TextxVerif.Proofs.ArpMono2
/-!
# C01 — compiled parser and model follow the grammar's PEG semantics

Models (all tied to the real code on every run, see `harness/props/c01.py`):
* `Tx.compile` (Tx/Compile.lean) — mirror of `TextXVisitor` / `get_model_parser`;
* `Peg.parse` (Peg/Arp.lean) — mirror of Arpeggio's interpreter;
* `Tx.build`, `Tx.load` (Tx/Build.lean) — mirror of `parse_tree_to_objgraph`;
* `Tx.Sem.eval` (Tx/Sem.lean) — the *documented* semantics on the grammar itself.

The full statement is `C01_full`: for every grammar, configuration and text the
mirror of the implementation and the documented semantics give the same outcome.
It is **false** of the code (and of the model): six behaviours of Arpeggio's
interpreter deviate from PEG; each has a negation witness below
(`C01_full_false_*`, kernel evaluation of both sides on a concrete grammar and
text — the same witnesses are replayed against the real textX in `corpus/C01`).

What is proved for all inputs is `C01_expr_partial`: on the rule-free core of
PEG — string matches, sequence, ordered choice, `?`, `*`, `+`, with the suppression
operator `-` on any of them — under
`DocFragment` (`docExpr`: productive alternatives and repetition bodies) the node
block the compiler emits for an expression, placed anywhere in a parser model,
is interpreted by the Arpeggio mirror exactly as the documented semantics
prescribe: same acceptance, same end position, same matched tokens — for every
text, every token table without empty matches, every whitespace configuration
and every fuel.  Missing from the proved fragment (covered only by the
correspondence and the direct oracle on generated cases):
separators, `eolterm`, `#`, predicates, regex matches that can be empty, rule
references and rule modifiers, the `Comment` rule.  For the model construction `C01_build_flat_partial` proves
that the assignment handlers of `process_node` compute the documented assignment semantics for
objects with primitive attribute values; nested objects, match-rule strings and abstract rules are
covered by the correspondence and the oracle only.
-/
namespace Tx
open Peg Tx.Sim

/-! ## the proved fragment -/

/-- **C01 on rule-free PEG expressions.**  `e`: any expression over string matches with sequence,
ordered choice, `?`, `*`, `+` and suppression (`frag`), in `DocFragment` (`docExpr`).  `g`: any parser model that
contains the block `Tx.emit` produces for `e` (at `pre.length`), without memoization and comment
model, over the same text and token table as the semantics, no token matching the empty string.
`s`: any parser state in the whitespace context `c`.  Then for all fuels `n`, `m`: unless one side
runs out of fuel, `Peg.parse` accepts iff `Sem.pExpr` accepts, and then both end at the same
position having matched the same tokens at the same places. -/
theorem C01_expr_partial (e : Expr) (hfrag : frag e = true) (hdoc : docExpr nf ff e = true)
    (rootOf : String → Nat) (pre post : List CNode) (g : Grammar)
    (hg : g.nodes = table (pre ++ emit rootOf e pre.length ++ post))
    (x : Sem.Env) (h : Hyp g x) (c : Sem.Ctx) (hc : c.eol = false) (s : PState) (hi : Inv c s) (n m : Nat) :
    match parse g n pre.length s, Sem.pExpr x none m c e s.pos with
    | (.fuel, _), _ => True
    | _, .fuel => True
    | (.ok v, s'), .ok p items => s'.pos = p ∧ leaves g.nodes v = items.map key
    | (.nomatch, _), .fail => True
    | _, _ => False := by
  have hr : Repr g.nodes e pre.length := hg ▸ emit_repr rootOf e hfrag pre post
  have := sim h c hc n e pre.length s m hr hdoc hi
  unfold Rel at this
  rcases hp : parse g n pre.length s with ⟨r, s'⟩
  rw [hp] at this
  cases r <;> cases hs : Sem.pExpr x none m c e s.pos <;> rw [hs] at this <;> simp at this ⊢
  exact ⟨this.1, this.2.2.1⟩

/-- **Acceptance.**  Same hypotheses; if both runs terminate, the mirror of the compiled parser
accepts exactly when the documented semantics accept. -/
theorem C01_expr_accepts_iff (e : Expr) (hfrag : frag e = true) (hdoc : docExpr nf ff e = true)
    (rootOf : String → Nat) (pre post : List CNode) (g : Grammar)
    (hg : g.nodes = table (pre ++ emit rootOf e pre.length ++ post))
    (x : Sem.Env) (h : Hyp g x) (c : Sem.Ctx) (hc : c.eol = false) (s : PState) (hi : Inv c s) (n m : Nat)
    (hn : (parse g n pre.length s).1 ≠ .fuel) (hm : Sem.pExpr x none m c e s.pos ≠ .fuel) :
    (∃ v, (parse g n pre.length s).1 = .ok v) ↔ (∃ p items, Sem.pExpr x none m c e s.pos = .ok p items) := by
  have := C01_expr_partial e hfrag hdoc rootOf pre post g hg x h c hc s hi n m
  rcases hp : parse g n pre.length s with ⟨r, s'⟩
  rw [hp] at this hn
  cases r <;> cases hs : Sem.pExpr x none m c e s.pos <;> rw [hs] at this <;> simp_all

/-- **The blocks of the proved fragment are what `Tx.compile` emits.**  For every grammar that compiles,
every rule `r` of it and every expression `e` that is a proper sub-expression of `r`'s body (`Sub`, at any
depth) — or the body itself when `visit_textx_rule` wraps it into a new root `Sequence` — the table of the
compiled parser model contains the node block `Tx.emit` lays out for `e`, unchanged, at the index the block
was numbered for.  (Partial: the root node of a promoted rule body carries the rule's name and parameters
and is therefore not an `emit` block; the `Model := top EOF` wrapper and the rule roots are not reached.) -/
theorem C01_compile_rule_partial (g : Gram) (c : Compiled) (hc : compile g = .ok c) (r : Rule) (hr : r ∈ g.rules)
    (e : Expr) (he : InRule e r) (input : Array Char) (toks : Array (Array (Option Nat))) :
    ∃ (pre post : List CNode) (rootOf : String → Nat),
      (c.grammar input toks).nodes = table (pre ++ emit rootOf e pre.length ++ post) := by
  obtain ⟨rootOf, tail, _, _, hn, _⟩ := compile_spec hc
  obtain ⟨p, q, hl, _⟩ := emitRules_inside rootOf he g.rules hr baseNodes.length
  refine ⟨baseNodes ++ p, q ++ tail, rootOf, ?_⟩
  simp only [Compiled.grammar, hn, table, hl, List.length_append, List.append_assoc, List.map_toArray]

/-- the shape suggested by the reviewer: a member of a rule body that is a sequence -/
theorem C01_compile_seq_child (g : Gram) (c : Compiled) (hc : compile g = .ok c) (r : Rule) (hr : r ∈ g.rules)
    (xs : List Expr) (sup : Bool) (hb : r.body = .seq xs sup) (e : Expr) (hx : e ∈ xs)
    (input : Array Char) (toks : Array (Array (Option Nat))) :
    ∃ (pre post : List CNode) (rootOf : String → Nat),
      (c.grammar input toks).nodes = table (pre ++ emit rootOf e pre.length ++ post) :=
  C01_compile_rule_partial g c hc r hr e (Or.inl (hb ▸ Sub.seq hx)) input toks

/-- **C01 on the compiled parser model, rule-free fragment.**  `g`: any grammar that compiles and has no
`Comment` rule; `e`: any expression of the proved fragment (`frag`, `docExpr`) standing inside a rule of `g`
(`InRule`).  Then the compiled parser model has a node `id` at which the Arpeggio mirror, run on the *table
`Tx.compile` produced*, agrees with the documented semantics of `e` — for every text and token table without
empty matches (`x`), every whitespace context, parser state and fuel: same acceptance, same end position,
same matched tokens. -/
theorem C01_compiled_expr_partial (g : Gram) (c : Compiled) (hc : compile g = .ok c) (hcm : g.find? "Comment" = none)
    (r : Rule) (hr : r ∈ g.rules) (e : Expr) (he : InRule e r) (hfrag : frag e = true) (hdoc : docExpr nf ff e = true)
    (x : Sem.Env) (hne : ∀ t p, x.tokLen t p ≠ some 0) :
    ∃ id : Nat, ∀ (cx : Sem.Ctx), cx.eol = false → ∀ (s : PState), Inv cx s → ∀ (n m : Nat),
      match parse (c.grammar x.input x.toks) n id s, Sem.pExpr x none m cx e s.pos with
      | (.fuel, _), _ => True
      | _, .fuel => True
      | (.ok v, s'), .ok p items => s'.pos = p ∧ leaves (c.grammar x.input x.toks).nodes v = items.map key
      | (.nomatch, _), .fail => True
      | _, _ => False := by
  obtain ⟨pre, post, rootOf, hg⟩ := C01_compile_rule_partial g c hc r hr e he x.input x.toks
  obtain ⟨_, _, _, _, _, hcom, _⟩ := compile_spec hc
  refine ⟨pre.length, fun cx hcx s hi n m => ?_⟩
  exact C01_expr_partial e hfrag hdoc rootOf pre post _ hg x ⟨rfl, hcom hcm, rfl, rfl, hne⟩ cx hcx s hi n m

/-- **Fuel independence of the verdict** (from `Peg.parse_le`): the answer of the mirror does not
depend on the fuel once it is sufficient, so "the result of the compiled parser" is well defined. -/
theorem C01_verdict_fuel_independent (g : Grammar) (id : Nat) (s : PState) (n m : Nat) (r : Res) (t : PState)
    (hnm : n ≤ m) (h : parse g n id s = (r, t)) (hr : r ≠ .fuel) : parse g m id s = (r, t) :=
  parse_le g hnm id s r t h hr

/-- **Model construction, flat objects.**  `kids`: the children of an object's parse-tree node, each
standing for a semantic item (`KidsItems`: matches that are not assigned, `?=` that matched, `=` of a
match, `+=` / `*=` of matches with their separators skipped).  Whenever the mirror of the
`process_node` loop with its four assignment handlers does not raise, the attributes it computes are
exactly the left fold of the documented assignment semantics (`Sem.applyAsg`: `=` sets or appends,
`?=` sets `True`, `+=` / `*=` append) over the items, starting from the same defaults — for every
order and number of assignments and every fuel.  (Nested objects as values are not covered.) -/
theorem C01_build_flat_partial (x : BCtx) (specs : List Sem.AttrSpec) (kids : List Val) (items : List Sem.Item)
    (h : BuildSim.KidsItems x kids items) (f me : Nat) (attrs : List (String × Value)) (st : BSt)
    (attrs' : List (String × Value)) (st' : BSt) (hok : processKids x f kids me attrs st = .ok (attrs', st')) :
    attrs' = items.foldl (Sem.applyAsg specs) attrs ∧ st' = st :=
  BuildSim.processKids_flat x specs kids items h f me attrs st attrs' st' hok

/-- …and the value of every matched token is the same on both sides (base-type conversion,
`use_regexp_group`). -/
theorem C01_token_value (x : BCtx) (sx : Sem.Env) (hc : sx.cfg = x.cfg) (hi : sx.input = x.input)
    (hg : sx.groups = x.groups) (h1 : sx.g1 = x.g1) (nd : CNode)
    (hk : nd.node.kind = .str ∨ nd.node.kind = .re) (pos len : Nat) :
    x.termValue nd pos len = sx.tokValue nd.node.rule (nd.node.kind == .re) nd.node.tok nd.text pos len :=
  BuildSim.termValue_eq_tokValue x sx hc hi hg h1 nd hk pos len

/-! ## non-vacuity: a concrete expression, table, text -/

/-- `('a' 'b' | 'c')+ 'd'?` with tokens 0 = 'a', 1 = 'b', 2 = 'c', 3 = 'd' -/
def exE : Expr :=
  .seq [.rep .plus (.alt [.seq [.str 0 "a" false, .str 1 "b" false] false, .str 2 "c" false] false) none false false,
        .rep .opt (.str 3 "d" false) none false false] false

def exInput : Array Char := "a b c  d".toList.toArray

/-- token table of `exInput`: 'a'@0, 'b'@2, 'c'@4, 'd'@7 -/
def exToks : Array (Array (Option Nat)) :=
  #[#[some 1, none, none, none, none, none, none, none, none],
    #[none, none, some 1, none, none, none, none, none, none],
    #[none, none, none, none, some 1, none, none, none, none],
    #[none, none, none, none, none, none, none, some 1, none]]

def exG : Grammar :=
  { nodes := table (emit (fun _ => 0) exE 0), comments := none, memo := false, input := exInput, toks := exToks }

def exX : Sem.Env := { g := { rules := [] }, cfg := {}, input := exInput, toks := exToks, groups := #[], g1 := #[] }

/-- the hypotheses of `C01_expr_partial` are satisfiable: table, text and tokens above -/
example : Hyp exG exX := ⟨rfl, rfl, rfl, rfl, by
  intro t p h
  unfold Sem.Env.tokLen at h
  match t, p with
  | 0, 0 | 0, 1 | 0, 2 | 0, 3 | 0, 4 | 0, 5 | 0, 6 | 0, 7 | 0, 8 => simp [exX, exToks] at h
  | 1, 0 | 1, 1 | 1, 2 | 1, 3 | 1, 4 | 1, 5 | 1, 6 | 1, 7 | 1, 8 => simp [exX, exToks] at h
  | 2, 0 | 2, 1 | 2, 2 | 2, 3 | 2, 4 | 2, 5 | 2, 6 | 2, 7 | 2, 8 => simp [exX, exToks] at h
  | 3, 0 | 3, 1 | 3, 2 | 3, 3 | 3, 4 | 3, 5 | 3, 6 | 3, 7 | 3, 8 => simp [exX, exToks] at h
  | 0, p+9 | 1, p+9 | 2, p+9 | 3, p+9 => simp [exX, exToks] at h
  | t+4, _ => simp [exX, exToks] at h⟩

example : frag exE = true ∧ docExpr nf ff exE = true := by decide
example : (match parse exG 40 0 (initState true [' ']) with | (.ok _, s) => s.pos | _ => 0) = 8 := by decide +kernel
example : (match Sem.pExpr { g := { rules := [] }, cfg := {}, input := exInput, toks := exToks, groups := #[], g1 := #[] }
    none 40 { skipws := true, ws := [' '] } exE 0 with | .ok p items => (p, items.length) | _ => (0, 0)) = (8, 4) := by
  decide +kernel

/-- `Model: ('a' 'b' | 'c')+ 'd'? ;` — the rule body is `exE`; its first member is a sub-expression in the fragment -/
def exRule : Rule := { name := "Model", body := exE }
def exGram : Gram := { rules := [exRule] }
def exSub : Expr :=
  .rep .plus (.alt [.seq [.str 0 "a" false, .str 1 "b" false] false, .str 2 "c" false] false) none false false

/-- the hypotheses of `C01_compile_rule_partial` / `C01_compiled_expr_partial` are satisfiable -/
example : (match compile exGram with | .ok _ => true | .error _ => false) = true := by decide +kernel
example : exGram.find? "Comment" = none := by decide
example : exRule ∈ exGram.rules := List.mem_cons_self ..
example : InRule exSub exRule := Or.inl (Sub.seq (List.mem_cons_self ..))
example : frag exSub = true ∧ docExpr nf ff exSub = true := by decide
/-- a wrapped body (lone assignment): the body itself is an `emit` block -/
example : InRule (.asgn "a" .plain (.str 0 "x" false) none false false)
    { name := "R", body := .asgn "a" .plain (.str 0 "x" false) none false false } := Or.inr ⟨rfl, rfl, rfl⟩

/-- rendering of a model value that ignores object creation numbers (fuel-bounded) -/
def render : Nat → Value → String
  | 0, _ => "…"
  | _+1, .prim p => p.pyStr ++ (match p with | .int _ => "i" | .str _ => "s" | .bool _ => "b" | .float _ => "f" | .none => "n")
  | f+1, .list vs => "[" ++ String.intercalate "," (vs.map (render f)) ++ "]"
  | f+1, .obj _ cls _ attrs =>
      cls ++ "{" ++ String.intercalate "," ((attrs.filter fun a => !a.1.startsWith "\x00").map fun a => a.1 ++ "=" ++ render f a.2) ++ "}"

/-- an object node with children `a='x'`, an unassigned `'k'`, `b+='y' ',' 'y'` (separator skipped) -/
def exB : BCtx :=
  { c := { nodes := #[{ node := { kind := .seq, kids := [1], root := true, rule := "__asgn_plain" }, attr := "a" },
                      { node := { kind := .str, tok := 6 }, text := "x" },
                      { node := { kind := .str, tok := 7 }, text := "k" },
                      { node := { kind := .plus, kids := [4], root := true, rule := "__asgn_oneormore", sep := some 5 }, attr := "b" },
                      { node := { kind := .str, tok := 8 }, text := "y" },
                      { node := { kind := .str, tok := 9, rule := "sep" }, text := "," }],
           top := 0, comments := none, classes := [], multSensitive := false },
    cfg := {}, input := "x k y,y".toList.toArray, groups := #[], g1 := #[] }

def exKids : List Val := [.nt 0 [.term 1 0 1], .term 2 2 1, .nt 3 [.term 4 4 1, .term 5 5 1, .term 4 6 1]]
def exItems : List Sem.Item :=
  [.asg "a" .plain [.prim (.str "x")], .tok "" false 7 "k" 2 1, .asg "b" .plus [.prim (.str "y"), .prim (.str "y")]]

def exN0 : CNode := { node := { kind := .seq, kids := [1], root := true, rule := "__asgn_plain" }, attr := "a" }
def exN2 : CNode := { node := { kind := .str, tok := 7 }, text := "k" }
def exN3 : CNode :=
  { node := { kind := .plus, kids := [4], root := true, rule := "__asgn_oneormore", sep := some 5 }, attr := "b" }

example : BuildSim.KidsItems exB exKids exItems :=
  .cons (BuildSim.KidItem.plain 0 exN0 (.term 1 0 1) [] (.prim (.str "x")) rfl rfl rfl)
    (.cons (BuildSim.KidItem.tok 2 2 1 exN2 "" false 7 "k" rfl (by decide +kernel))
      (.cons (BuildSim.KidItem.list 3 exN3 [.term 4 4 1, .term 5 5 1, .term 4 6 1] .plus
          [.prim (.str "y"), .prim (.str "y")] rfl (Or.inl rfl) (Or.inl rfl) rfl (by simp)) .nil))

example : (match processKids exB 20 exKids 0 [("a", .prim (.str "")), ("b", .list [])] {} with
    | .ok (attrs, _) => render 5 (.obj 0 "M" none attrs)
    | .error _ => "error") = "M{a=xs,b=[ys,ys]}" := by decide +kernel

/-! ## the pinned separator test (by rule name) — negation witness

`Model: a+=sep; sep: /\\w+/;` on `x y`: the two children of the `__asgn_oneormore` node were made by the rule
called `sep`; the assignment has no separator modifier.  The code (and `processList`) keeps both; the pinned
test `n.rule_name != "sep"` drops both (C02 defect 4, fixed in `e1df8a1`). -/

def exSepCtx : BCtx :=
  { c := { nodes := #[{ node := { kind := .plus, kids := [1], root := true, rule := "__asgn_oneormore" }, attr := "a" },
                      { node := { kind := .re, tok := 6, root := true, rule := "sep" }, text := "\\w+" }],
           top := 0, comments := none, classes := [], multSensitive := false },
    cfg := {}, input := "x y".toList.toArray, groups := #[], g1 := #[] }

def exSepKids : List Val := [.term 1 0 1, .term 1 2 1]

theorem C01_sep_by_name_pinned_false :
    (exSepKids.filter fun k => !(valRule exSepCtx k == "sep")).length = 0 ∧
    (exSepKids.filter fun k => !isSepKid none k).length = 2 ∧
    (match processList exSepCtx 10 exSepKids none 0 "a" [("a", .list [])] {} with
      | .ok (attrs, _) => render 5 (.obj 0 "M" none attrs)
      | .error _ => "error") = "M{a=[xs,ys]}" := by
  refine ⟨by decide, by decide, by decide +kernel⟩

/-! ## the full statement and why it is false -/

/-- do the outcome of the implementation mirror and of the documented semantics agree?
(undecided runs — fuel, shapes outside either definition — count as agreeing) -/
def agrees : Tx.Outcome → Sem.Outcome → Bool
  | .fuel, _ | .bad _, _ | _, .fuel | _, .skip _ => true
  | .model v _, .model w => render 50 v == render 50 w
  | .syntaxError, .syntaxError => true
  | .semanticError .unhashableName, .unhashableName => true
  | _, _ => false

/-- **C01, full strength** (on the models): whatever the grammar, options, text, token table. -/
def C01_full : Prop :=
  ∀ (g : Gram) (cfg : Config) (input : Array Char) (toks : Array (Array (Option Nat))) (groups : Array Nat)
    (g1 : Array (Array (Option (Nat × Nat)))) (c : Compiled) (fuel : Nat), compile g = .ok c →
    agrees (load c cfg input toks groups g1 fuel) (Sem.eval (Sem.mkEnv g cfg input toks groups g1) fuel) = true

/-- token table for string literals: rows 0‥5 (base types) empty, then one row per literal -/
def litRows (input : String) (lits : List String) : Array (Array (Option Nat)) :=
  ((List.replicate 6 (Array.replicate (input.length + 1) none)) ++
    lits.map fun (l : String) => ((List.range (input.length + 1)).map fun p =>
      if (input.toList.drop p).take l.length == l.toList then some l.length else none).toArray).toArray

/-- both sides on a grammar over string literals (tokens 6, 7, … = `lits`) -/
def bothAgree (g : Gram) (input : String) (lits : List String) : Bool :=
  match compile g with
  | .ok c =>
    let toks := litRows input lits
    agrees (load c {} input.toList.toArray toks #[] #[] 300) (Sem.eval (Sem.mkEnv g {} input.toList.toArray toks #[] #[]) 300)
  | .error _ => true

theorem not_full_of (g : Gram) (input : String) (lits : List String) (h : bothAgree g input lits = false) :
    ¬ C01_full := by
  intro hf
  unfold bothAgree at h
  split at h
  · rename_i c hc
    have := hf g {} input.toList.toArray (litRows input lits) #[] #[] c 300 hc
    simp only [this] at h
    exact absurd h (by decide)
  · exact absurd h (by decide)

/-- `Model: ('a'- | 'b') 'c';` on `a c`: PEG takes the first alternative; Arpeggio treats the
`None` result as a failed alternative (known finding C01-arpeggio-none-alternative). -/
theorem C01_full_false_none_alternative : ¬ C01_full :=
  not_full_of { rules := [{ name := "Model", body := (Expr.seq [Expr.alt [Expr.str 6 "a" true, Expr.str 7 "b" false] false,
    Expr.str 8 "c" false] false) }] } "a c" ["a", "b", "c"] (by decide +kernel)

/-- `Model: (('x'* | 'y') 'e')#;` on `e x`: the alternative `'x'*` matches nothing, Arpeggio turns `[]` into
the truthy `[[]]` and the unordered group counts the element as matched (C01-arpeggio-empty-list-alternative). -/
theorem C01_full_false_empty_list_alternative : ¬ C01_full :=
  not_full_of { rules := [{ name := "Model", body := (Expr.unord [Expr.alt [Expr.rep .star (Expr.str 6 "x" false) none false false,
    Expr.str 7 "y" false] false, Expr.str 8 "e" false] none false false) }] } "e x" ["x", "y", "e"] (by decide +kernel)

/-- `Model: (A-)* 'c'; A: 'a';` on `a a c`: a repetition over a suppressed body stops after one
iteration (C01-arpeggio-falsy-repetition). -/
theorem C01_full_false_falsy_repetition : ¬ C01_full :=
  not_full_of { rules := [{ name := "Model", body := (Expr.seq [Expr.rep .star (Expr.ref "A" true) none false false,
    Expr.str 7 "c" false] false) }, { name := "A", body := (Expr.str 6 "a" false) }] } "a a c" ["a", "c"] (by decide +kernel)

/-- `Model: n=L ',' 'end'; L: 'x'+[','];` on `x,x,end`: the separator matched before the failing
element stays in the result: `n == 'x,x,'` (C01-arpeggio-separator-kept). -/
theorem C01_full_false_separator_kept : ¬ C01_full :=
  not_full_of { rules := [{ name := "Model", body := (Expr.seq [Expr.asgn "n" .plain (Expr.ref "L" false) none false false,
      Expr.str 7 "," false, Expr.str 8 "end" false] false) },
    { name := "L", body := (Expr.rep .plus (Expr.str 6 "x" false) (some { isRe := false, tok := 7, text := "," }) false false) }] }
    "x,x,end" ["x", ",", "end"] (by decide +kernel)

/-- `Model: A | B; A: 'a' 'x'; B[ws=' ']: 'a' 'b'; Comment: '#c#';` on `a #c#⏎b`: the comment
cache filled under `A`'s whitespace is reused under `B`'s (C01-arpeggio-comment-cache). -/
theorem C01_full_false_comment_cache : ¬ C01_full :=
  not_full_of { rules := [{ name := "Model", body := (Expr.alt [Expr.ref "A" false, Expr.ref "B" false] false) },
    { name := "A", body := (Expr.seq [Expr.str 6 "a" false, Expr.str 7 "x" false] false) },
    { name := "B", ws := some " ", body := (Expr.seq [Expr.str 6 "a" false, Expr.str 8 "b" false] false) },
    { name := "Comment", body := (Expr.str 9 "#c#" false) }] } "a #c#\nb" ["a", "x", "b", "#c#"] (by decide +kernel)

/-- `Model: A+[eolterm] 'z'; A[ws=' \n']: 'a' 'b';` on `a b⏎z`: after the rule with a `ws`
modifier ran inside the `eolterm` repetition, newlines are no whitespace any more (C01-arpeggio-ws-restore). -/
theorem C01_full_false_ws_restore : ¬ C01_full :=
  not_full_of { rules := [{ name := "Model", body := (Expr.seq [Expr.rep .plus (Expr.ref "A" false) none true false,
      Expr.str 8 "z" false] false) },
    { name := "A", ws := some " \\n", body := (Expr.seq [Expr.str 6 "a" false, Expr.str 7 "b" false] false) }] }
    "a b\nz" ["a", "b", "z"] (by decide +kernel)

/-- The witnesses are specific to the six call sites: with all of them switched to the textbook
behaviour (`Quirk.parseQ`) every one of the six grammars / texts above gives the documented outcome. -/
def bothAgreeQ (g : Gram) (input : String) (lits : List String) : Bool :=
  match compile g with
  | .ok c =>
    let toks := litRows input lits
    agrees (Quirk.loadQ { alt := true, empty := true, rep := true, sep := true, cache := true, ws := true }
      c {} input.toList.toArray toks #[] #[] 300) (Sem.eval (Sem.mkEnv g {} input.toList.toArray toks #[] #[]) 300)
  | .error _ => true

example : bothAgreeQ { rules := [{ name := "Model", body := (Expr.seq [Expr.alt [Expr.str 6 "a" true, Expr.str 7 "b" false] false,
    Expr.str 8 "c" false] false) }] } "a c" ["a", "b", "c"] = true := by decide +kernel
example : bothAgreeQ { rules := [{ name := "Model", body := (Expr.seq [Expr.asgn "n" .plain (Expr.ref "L" false) none false false,
      Expr.str 7 "," false, Expr.str 8 "end" false] false) },
    { name := "L", body := (Expr.rep .plus (Expr.str 6 "x" false) (some { isRe := false, tok := 7, text := "," }) false false) }] }
    "x,x,end" ["x", ",", "end"] = true := by decide +kernel

/-! ### W01: the end of an unordered group with a separator (documented semantics, `Sem.pUnord`)

When no further element can be taken, every remaining element must match *nothing* there: a mandatory element is not
dropped because it happens to match without its separator, and a nullable element that matches something where the
separator is absent is not "absent".  Both sides (mirror of textX / Arpeggio, documented semantics) on the two
minimal inputs of the false alarm corrected in W01 (notes/C01.md). -/

/-- does the documented semantics accept the text? -/
def semAccepts (g : Gram) (input : String) (lits : List String) : Bool :=
  match Sem.eval (Sem.mkEnv g {} input.toList.toArray (litRows input lits) #[] #[]) 300 with
  | .model _ => true
  | _ => false

/-- `Model: R | '(' ',' 'z'; R: ('(' ',')#['::'];` (literals `(` `,` `z` `::` = tokens 6–9) -/
def exUnordSkip : Gram :=
  { rules := [{ name := "Model", body := (Expr.alt [Expr.ref "R" false,
      Expr.seq [Expr.str 6 "(" false, Expr.str 7 "," false, Expr.str 8 "z" false] false] false) },
    { name := "R", body := (Expr.unord [Expr.str 6 "(" false, Expr.str 7 "," false]
      (some { isRe := false, tok := 9, text := "::" }) false false) }] }

/-- `Model: R ','* 'end'; R: ('if' xs*=',')#[';'];` (literals `if` `,` `end` `;` = tokens 6–9) -/
def exUnordNoSep : Gram :=
  { rules := [{ name := "Model", body := (Expr.seq [Expr.ref "R" false,
      Expr.rep .star (Expr.str 7 "," false) none false false, Expr.str 8 "end" false] false) },
    { name := "R", body := (Expr.unord [Expr.str 6 "if" false,
      Expr.asgn "xs" .star (Expr.str 7 "," false) none false false]
      (some { isRe := false, tok := 9, text := ";" }) false false) }] }

-- `( , z`: `R` must fail (`','` is mandatory and `::` is absent), the second alternative accepts the text
example : semAccepts exUnordSkip "( , z" ["(", ",", "z", "::"] = true := by decide +kernel
example : bothAgree exUnordSkip "( , z" ["(", ",", "z", "::"] = true := by decide +kernel
example : bothAgree exUnordSkip "( :: ," ["(", ",", "z", "::"] = true := by decide +kernel
example : semAccepts exUnordSkip "( ," ["(", ",", "z", "::"] = false := by decide +kernel
-- `if , , end`: the `,`s are the group's element `xs*=','` without its separator `;`
example : semAccepts exUnordNoSep "if , , end" ["if", ",", "end", ";"] = false := by decide +kernel
example : bothAgree exUnordNoSep "if , , end" ["if", ",", "end", ";"] = true := by decide +kernel
example : semAccepts exUnordNoSep "if ; , , end" ["if", ",", "end", ";"] = true := by decide +kernel
example : bothAgree exUnordNoSep "if ; , , end" ["if", ",", "end", ";"] = true := by decide +kernel
example : semAccepts exUnordNoSep "if end" ["if", ",", "end", ";"] = true := by decide +kernel
example : bothAgree exUnordNoSep ", ; if end" ["if", ",", "end", ";"] = true := by decide +kernel

end Tx
