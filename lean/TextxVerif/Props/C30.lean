import TextxVerif.Proofs.Cli
import TextxVerif.Proofs.CliSel
import TextxVerif.Proofs.CliClick
/-!
# C30 — the textx CLI reports outcomes and passes generator arguments faithfully

Model: `Cli.parseArgs` / `Cli.validate` / `Cli.runGenerate` / `Cli.runCheck`
(`TextxVerif/Out/Cli.lean`) mirror `textx/cli/generate.py` and
`textx/cli/check.py` after the `fix:` commits of branch `fix/C30`.  A command line
is, on the specification side, a list of `Cli.Item`s — model files and custom
arguments `--name [value]` — rendered to tokens by `Cli.render`; `Cli.WF` says
which lists are command lines in the CLI's syntax (no file or value starts with
`--`, a bare flag is not directly followed by a file name).  All theorems hold
for every such list: any number of files and arguments, any names (with or
without dashes, repeated, clashing after normalisation), any values.
`C30_args_all_lines` shows that `WF` is no restriction on what is typed: every
token list is the rendering of exactly one well-formed item list (a bare flag
directly followed by a file name *is*, token for token, a valued argument).
click's own option parsing is outside the model (the model starts from the tuple
click hands to the command body).
-/
namespace Cli

/-- **Arguments, round trip.**  For every command line the argument loop finds
exactly the model files, in order, and exactly the keyword dictionary the
command line means: each `--name [value]` is stored under `norm name`
(dashes → underscores) with its value (outer quotes stripped) or `True`,
later arguments overriding earlier ones of the same normalised name. -/
theorem C30_args (items : List Item) (hwf : WF items) :
    parseArgs (render items) = (expFiles items, expDict items []) := by
  unfold parseArgs
  rw [parseLoop_render items hwf]
  simp

/-- **Every argument arrives, flag or valued.**  The generator's keyword
dictionary has an entry under the normalised name of every custom argument; the
entry is the value of the last argument with that normalised name — `True`
for a bare flag. No other keys exist and no key contains a dash. -/
theorem C30_args_each (items : List Item) (hwf : WF items) :
    let kw := (parseArgs (render items)).2
    (∀ k, dget kw k = lastVal items k) ∧
    (∀ n v, Item.arg n v ∈ items → (dget kw (norm n)).isSome) ∧
    (∀ k, k ∈ dkeys kw ↔ ∃ n v, Item.arg n v ∈ items ∧ norm n = k) ∧
    (∀ k, k ∈ dkeys kw → '-' ∉ k) := by
  simp only [C30_args items hwf]
  have hkeys : ∀ k, k ∈ dkeys (expDict items []) ↔ ∃ n v, Item.arg n v ∈ items ∧ norm n = k := by
    intro k
    rw [dkeys_expDict]
    simp [dkeys]
  refine ⟨?_, ?_, hkeys, ?_⟩
  · intro k
    rw [dget_expDict]
    cases lastVal items k <;> simp [dget]
  · intro n v hm
    rw [dget_isSome_iff, hkeys]
    exact ⟨n, v, hm, rfl⟩
  · intro k hk
    obtain ⟨n, _, _, hn⟩ := (hkeys k).1 hk
    rw [← hn]
    exact norm_no_dash n

/-- When no two custom arguments clash after normalisation, each one arrives
with exactly its own value (`True` for a bare flag, the stripped string
otherwise). -/
theorem C30_args_value (items : List Item) (hwf : WF items) (n : Str) (v : Option Str)
    (hmem : Item.arg n v ∈ items)
    (huniq : ∀ n' v', Item.arg n' v' ∈ items → norm n' = norm n → n' = n ∧ v' = v) :
    dget (parseArgs (render items)).2 (norm n) = some (toVal v) := by
  rw [(C30_args_each items hwf).1, lastVal_of_unique items n v hmem huniq]

/-- The pinned loop (before the repair) violates `C30_args`: a bare flag keeps
its dashes — `--my-flag` arrives as `my-flag`. -/
theorem C30_args_pinned_false :
    ∃ items, WF items ∧ parseArgsPinned (render items) ≠ (expFiles items, expDict items []) :=
  ⟨[.file "m.x".toList, .arg "my-flag".toList none], by simp [WF, isSwitch], by decide⟩

/-- **Validation.**  For a generator that declares its parameters `ps` (possibly
none), the given argument names pass iff every mandatory parameter is given and
every given name is declared; a generator that does not declare parameters
accepts everything. -/
theorem C30_validate (ps : List Param) (given : List Str) :
    (validate (some ps) given = none ↔
      (∀ p ∈ ps, p.mandatory = true → p.name ∈ given) ∧ (∀ k ∈ given, k ∈ ps.map (·.name))) ∧
    validate none given = none :=
  ⟨validate_none_iff ps given, rfl⟩

/-- the pinned validation lets undeclared arguments through when the declared list is empty -/
theorem C30_validate_pinned_false :
    ∃ given, validatePinned (some []) given = none ∧ ¬ (∀ k ∈ given, k ∈ ([] : List Param).map (·.name)) :=
  ⟨["bogus".toList], by decide, by simp⟩

/-- **Rejection.**  If the keyword names parsed from the command line are not
accepted by any generator registered for the target (an undeclared name, or a
mandatory parameter missing, for each declaring generator), `textx generate`
exits with status 1 and never calls a generator — whatever the mode, the files
and their contents. -/
theorem C30_generate_reject (env : Env) (arguments : List Str)
    (hrej : ∀ l decl, (l, decl) ∈ env.gens → validate decl (dkeys (parseArgs arguments).2) ≠ none) :
    (runGenerate env arguments).exit = 1 ∧ (runGenerate env arguments).calls = [] := by
  unfold runGenerate
  split
  · simp
  · rename_i explicitLang _
    simp only
    split
    · rcases runNoModel_calls env explicitLang (parseArgs arguments).2 with ⟨h1, h2⟩ | ⟨_, _, decl, hg, hv⟩
      · exact ⟨h2, h1⟩
      · obtain ⟨l, hl⟩ := findGen_mem _ _ _ _ hg
        exact absurd hv (hrej l decl hl)
    · rename_i hne
      have hne' : (parseArgs arguments).1 ≠ [] := by
        intro h; simp [h] at hne
      exact genLoop_reject env explicitLang _ _ [] hne' hrej

/-- **Faithful calls.**  With model files on the command line: if every file
loads and has a generator that accepts the arguments, `textx generate` exits 0
having called the generator once per file, in order, each time with exactly the
dictionary of `C30_args`. -/
theorem C30_generate_faithful (env : Env) (items : List Item) (hwf : WF items)
    (hfiles : expFiles items ≠ [])
    (explicitLang : Option Str) (hmode : modeLang env = .ok explicitLang)
    (hacc : ∀ f ∈ expFiles items, Accepts env explicitLang (expDict items []) f) :
    runGenerate env (render items) =
      { exit := 0,
        calls := (expFiles items).map (fun f => { file := some f, kwargs := expDict items [] }),
        fail := none } := by
  unfold runGenerate
  rw [hmode, C30_args items hwf]
  have hne : (expFiles items).isEmpty = false := by
    cases h : expFiles items with
    | nil => exact absurd h hfiles
    | cons a b => rfl
  simp only [hne]
  rw [genLoop_all env _ _ _ [] hacc]; simp

/-- **Calls are never distorted.**  Whatever happens (also when a later file
fails), every generator call that was made got exactly the parsed dictionary, the
calls are for a prefix of the model files in order, the exit status is 0 or 1,
and it is 0 only if no failure was recorded. -/
theorem C30_generate_calls (env : Env) (arguments : List Str) :
    let r := runGenerate env arguments
    (∀ c ∈ r.calls, c.kwargs = (parseArgs arguments).2) ∧
    (r.exit = 0 ∨ r.exit = 1) ∧
    ((parseArgs arguments).1 ≠ [] →
      ∃ k, k ≤ (parseArgs arguments).1.length ∧
        r.calls.map (·.file) = ((parseArgs arguments).1.take k).map some ∧
        (r.exit = 0 → r.calls.map (·.file) = (parseArgs arguments).1.map some)) ∧
    ((parseArgs arguments).1 = [] → r.calls = [] ∨ r.calls = [{ file := none, kwargs := (parseArgs arguments).2 }]) := by
  unfold runGenerate
  split
  · simp only [List.not_mem_nil, false_implies, implies_true, true_and]
    refine ⟨by simp, fun _ => ⟨0, by simp⟩, by simp⟩
  · rename_i explicitLang _
    simp only
    split
    · rename_i hempty
      have hnil : (parseArgs arguments).1 = [] := by simpa using hempty
      rcases runNoModel_calls env explicitLang (parseArgs arguments).2 with ⟨h1, h2⟩ | ⟨h1, h2, _⟩
      · rw [h1, h2]; simp [hnil]
      · rw [h1, h2]; simp [hnil]
    · rename_i hne
      have hne' : (parseArgs arguments).1 ≠ [] := by
        intro h; simp [h] at hne
      obtain ⟨more, h1, h2, ⟨k, hk, h3⟩, h4⟩ :=
        genLoop_calls env explicitLang (parseArgs arguments).2 (parseArgs arguments).1 []
      simp only [List.nil_append] at h1
      exact ⟨by rw [h1]; exact h2, genLoop_exit_01 _ _ _ _ _,
        fun _ => ⟨k, hk, by rw [h1]; exact h3, by rw [h1]; exact h4⟩, fun h => absurd h hne'⟩

/-- **Every token list is a command line, in exactly one way.**  Whatever tuple of tokens
reaches the command body, there is exactly one well-formed list of model files and custom
arguments that renders to it, and the argument loop returns the files and the dictionary of
that list.  So `WF` in `C30_args` excludes no input: it only fixes how a token sequence is
read (a `--name` followed by a token that does not start with `--` is a valued argument). -/
theorem C30_args_all_lines (args : List Str) :
    ∃ items, WF items ∧ render items = args ∧
      (∀ items', WF items' → render items' = args → items' = items) ∧
      parseArgs args = (expFiles items, expDict items []) := by
  obtain ⟨hr, hwf⟩ := readItems_spec args.length args (Nat.le_refl _)
  refine ⟨readItems args, hwf, hr, ?_, ?_⟩
  · intro items' hwf' hr'
    rw [← readItems_render items' hwf', hr']
  · have := C30_args (readItems args) hwf
    rw [hr] at this
    exact this

/-- **From the typed command line to the generator, through click.**  A typed line is a list of
custom items (model files, `--name [value]`) interleaved at arbitrary places with click's own
options in canonical spelling (`WFc`).  click hands the command body exactly the rendering of
the custom part, and — when that custom part, *with click's options taken out*, is well-formed —
the argument loop returns its files and its dictionary.  The well-formedness that matters is
that of the line after click's removal: see `C30_click_adjacent_false`. -/
theorem C30_args_click (line : List CItem) (hc : WFc line) :
    clickStrip (renderC line) = render (itemsOf line) ∧
    (WF (itemsOf line) →
      parseArgs (clickStrip (renderC line)) = (expFiles (itemsOf line), expDict (itemsOf line) [])) := by
  have h := clickStrip_renderC line hc
  exact ⟨h, fun hwf => by rw [h]; exact C30_args _ hwf⟩

/-- **Open finding C30-KF1 as a statement about the code.**  A bare flag separated from a
following model file only by a click-owned option: on the typed line the flag is not followed by
a file, but click removes its option first, the flag and the file become neighbours, and the
loop reads the file as the flag's value — no model file is left and the generator would get
`my_flag="m.x"` instead of `my_flag=True` and the model `m.x`. -/
theorem C30_click_adjacent_false :
    ∃ line : List CItem, WFc line ∧
      renderC line = ["--my-flag".toList, "--overwrite".toList, "m.x".toList] ∧
      ¬ WF (itemsOf line) ∧
      parseArgs (clickStrip (renderC line)) = ([], [("my_flag".toList, .str "m.x".toList)]) ∧
      (expFiles (itemsOf line), expDict (itemsOf line) []) = (["m.x".toList], [("my_flag".toList, .flag)]) :=
  ⟨[.item (.arg "my-flag".toList none), .flagOpt "--overwrite".toList, .item (.file "m.x".toList)],
    by simp only [WFc, Plain]; decide, by decide, by simp [itemsOf, WF], by decide, by decide⟩

/-- **The reported validation error is true.**  `missing n`: `n` is a mandatory declared
parameter that was not given.  `undeclared k`: `k` was given, is not declared, and no mandatory
parameter is missing (a missing mandatory parameter is reported first). -/
theorem C30_validate_error (ps : List Param) (given : List Str) :
    (∀ n, validate (some ps) given = some (.missing n) →
      ∃ p ∈ ps, p.mandatory = true ∧ p.name = n ∧ n ∉ given) ∧
    (∀ k, validate (some ps) given = some (.undeclared k) →
      k ∈ given ∧ k ∉ ps.map (·.name) ∧ ∀ p ∈ ps, p.mandatory = true → p.name ∈ given) :=
  ⟨fun n h => validate_missing_spec ps given n h, fun k h => validate_undeclared_spec ps given k h⟩

/-- **The loop stops at the first file it does not get past.**  If the files before `f` are all
loaded and accepted and `f` is not (it does not load, its language or generator is unknown, or its
generator rejects the arguments), `textx generate` exits 1 having called the generator exactly for
the files before `f`, in order, each with the dictionary of `C30_args` — and the failure recorded
is the reason `f` stops the loop (`StopsWith`: registration / escaping exception for a missing
file / error located in `f` at its line and column / argument error of `f`'s generator). -/
theorem C30_generate_stops (env : Env) (items : List Item) (hwf : WF items)
    (ex : Option Str) (hmode : modeLang env = .ok ex)
    (pre : List Str) (f : Str) (rest : List Str) (hfiles : expFiles items = pre ++ f :: rest)
    (hpre : ∀ g ∈ pre, Accepts env ex (expDict items []) g)
    (hna : ¬ Accepts env ex (expDict items []) f) :
    ∃ e, StopsWith env ex (expDict items []) f e ∧
      runGenerate env (render items) =
        { exit := 1,
          calls := pre.map (fun g => { file := some g, kwargs := expDict items [] }),
          fail := some e } := by
  obtain ⟨e, hstop, hloop⟩ := genLoop_head_stop env ex (expDict items []) f rest
    (pre.map (fun g => { file := some g, kwargs := expDict items [] })) hna
  refine ⟨e, hstop, ?_⟩
  unfold runGenerate
  rw [hmode, C30_args items hwf]
  have hne : (expFiles items).isEmpty = false := by
    rw [hfiles]; cases pre <;> rfl
  simp only [hne]
  rw [hfiles, genLoop_prefix env ex _ pre (f :: rest) [] hpre]
  simpa using hloop

/-- **Rejection by the selected generator.**  The files before `f` are accepted; `f` loads and the
generator selected for it (its own language, or the `any` fallback when no language was given
explicitly) declares parameters `ps`.  If a mandatory parameter is not among the normalised names
on the command line, or some name on the command line is not declared — whatever other generators
are registered for the target — `textx generate` exits 1 with an argument error, having called the
generator exactly for the files before `f`.  The error names a real culprit: a mandatory
parameter no argument normalises to, or the normalised name of an argument that is not declared. -/
theorem C30_generate_reject_selected (env : Env) (items : List Item) (hwf : WF items)
    (ex : Option Str) (hmode : modeLang env = .ok ex)
    (pre : List Str) (f : Str) (rest : List Str) (hfiles : expFiles items = pre ++ f :: rest)
    (hpre : ∀ g ∈ pre, Accepts env ex (expDict items []) g)
    (hres : (fileInfo env f).res = .ok) (l : Str) (hl : langFor env ex f = some l)
    (ps : List Param) (hg : findGen env.gens l ex.isNone = some (some ps))
    (hbad : (∃ p ∈ ps, p.mandatory = true ∧ ∀ n v, Item.arg n v ∈ items → norm n ≠ p.name) ∨
            (∃ n v, Item.arg n v ∈ items ∧ norm n ∉ ps.map (·.name))) :
    (runGenerate env (render items)).exit = 1 ∧
    (runGenerate env (render items)).calls =
      pre.map (fun g => { file := some g, kwargs := expDict items [] }) ∧
    ∃ e, (runGenerate env (render items)).fail = some (.args e) ∧
      (∀ n, e = .missing n →
        ∃ p ∈ ps, p.mandatory = true ∧ p.name = n ∧ ∀ n' v, Item.arg n' v ∈ items → norm n' ≠ n) ∧
      (∀ k, e = .undeclared k →
        (∃ n v, Item.arg n v ∈ items ∧ norm n = k) ∧ k ∉ ps.map (·.name)) := by
  have hkeys : ∀ k, k ∈ dkeys (expDict items []) ↔ ∃ n v, Item.arg n v ∈ items ∧ norm n = k := by
    intro k
    rw [dkeys_expDict]
    simp [dkeys]
  have hne : validate (some ps) (dkeys (expDict items [])) ≠ none := by
    intro hnone
    obtain ⟨h1, h2⟩ := (validate_none_iff ps _).1 hnone
    rcases hbad with ⟨p, hp, hm, hno⟩ | ⟨n, v, hmem, hnd⟩
    · obtain ⟨n, v, hmem, hn⟩ := (hkeys p.name).1 (h1 p hp hm)
      exact hno n v hmem hn
    · exact hnd (h2 (norm n) ((hkeys (norm n)).2 ⟨n, v, hmem, rfl⟩))
  cases hv : validate (some ps) (dkeys (expDict items [])) with
  | none => exact absurd hv hne
  | some e =>
    have hna : ¬ Accepts env ex (expDict items []) f := by
      rintro ⟨_, l', decl', hl', hg', hv'⟩
      rw [hl] at hl'
      injection hl' with hl'
      subst hl'
      rw [hg] at hg'
      injection hg' with hg'
      subst hg'
      rw [hv] at hv'
      cases hv'
    obtain ⟨e', hstop, hrun⟩ := C30_generate_stops env items hwf ex hmode pre f rest hfiles hpre hna
    have he : e' = .args e := by
      cases hstop with
      | nolang h => rw [hl] at h; cases h
      | noFile _ _ h => rw [hres] at h; cases h
      | loadErr _ _ _ _ h => rw [hres] at h; cases h
      | nogen lang h1 _ h3 =>
        rw [hl] at h1; injection h1 with h1; subst h1
        rw [hg] at h3; cases h3
      | args lang decl e2 h1 _ h3 h4 =>
        rw [hl] at h1; injection h1 with h1; subst h1
        rw [hg] at h3; injection h3 with h3; subst h3
        rw [hv] at h4; injection h4 with h4; subst h4
        rfl
    rw [hrun, he]
    refine ⟨rfl, rfl, e, rfl, ?_, ?_⟩
    · intro n hn
      subst hn
      obtain ⟨p, hp, hm, hname, hnot⟩ := validate_missing_spec ps _ n hv
      exact ⟨p, hp, hm, hname, fun n' v' hmem hn' => hnot ((hkeys n).2 ⟨n', v', hmem, hn'⟩)⟩
    · intro k hk
      subst hk
      obtain ⟨hmem, hnd, _⟩ := validate_undeclared_spec ps _ k hv
      exact ⟨(hkeys k).1 hmem, hnd⟩

/-- **`textx generate`, located error.**  If the first file that is not accepted has a known
language and fails to load at `l:c`, the command exits 1 after the calls for the files before it,
and the failure is the error located in that file at that line and column; a missing file lets a
non-textX exception escape instead. -/
theorem C30_generate_located (env : Env) (items : List Item) (hwf : WF items)
    (ex : Option Str) (hmode : modeLang env = .ok ex)
    (pre : List Str) (f : Str) (rest : List Str) (hfiles : expFiles items = pre ++ f :: rest)
    (hpre : ∀ g ∈ pre, Accepts env ex (expDict items []) g)
    (lang : Str) (hl : langFor env ex f = some lang) :
    (∀ l c, (fileInfo env f).res = .loadErr l c →
      runGenerate env (render items) =
        { exit := 1, calls := pre.map (fun g => { file := some g, kwargs := expDict items [] }),
          fail := some (.located f l c) }) ∧
    ((fileInfo env f).res = .noFile →
      runGenerate env (render items) =
        { exit := 1, calls := pre.map (fun g => { file := some g, kwargs := expDict items [] }),
          fail := some .exception }) := by
  constructor
  · intro l c hres
    have hna : ¬ Accepts env ex (expDict items []) f := by
      rintro ⟨h, _⟩; rw [hres] at h; cases h
    obtain ⟨e, hstop, hrun⟩ := C30_generate_stops env items hwf ex hmode pre f rest hfiles hpre hna
    rw [hrun]
    cases hstop with
    | nolang h => rw [hl] at h; cases h
    | noFile _ _ h => rw [hres] at h; cases h
    | loadErr _ l' c' _ h => rw [hres] at h; injection h with h1 h2; subst h1; subst h2; rfl
    | nogen _ _ h _ => rw [hres] at h; cases h
    | args _ _ _ _ h _ _ => rw [hres] at h; cases h
  · intro hres
    have hna : ¬ Accepts env ex (expDict items []) f := by
      rintro ⟨h, _⟩; rw [hres] at h; cases h
    obtain ⟨e, hstop, hrun⟩ := C30_generate_stops env items hwf ex hmode pre f rest hfiles hpre hna
    rw [hrun]
    cases hstop with
    | nolang h => rw [hl] at h; cases h
    | noFile _ _ h => rfl
    | loadErr _ _ _ _ h => rw [hres] at h; cases h
    | nogen _ _ h _ => rw [hres] at h; cases h
    | args _ _ _ _ h _ _ => rw [hres] at h; cases h

/-- **`textx check`, exit status.**  With a usable metamodel selection
(`explicit` = `--grammar` / a registered `--language`; otherwise per file name
pattern) the command exits 0 iff every model file loads, and then reports `OK`
for each file in order. -/
theorem C30_exit (env : Env) (explicit : Bool) (files : List Str) :
    ((checkLoop env explicit files []).exit = 0 ↔ ∀ f ∈ files, loads env explicit f = true) ∧
    ((checkLoop env explicit files []).exit = 0 ∨ (checkLoop env explicit files []).exit = 1) ∧
    ((∀ f ∈ files, loads env explicit f = true) →
      checkLoop env explicit files [] = { exit := 0, msgs := files.map .ok }) := by
  refine ⟨checkLoop_exit_iff _ _ _ _, checkLoop_exit_01 _ _ _ _, fun h => ?_⟩
  rw [checkLoop_all _ _ _ _ h]; simp

/-- **`textx check`, located error.**  If `f` is the first file that does not
load, the command exits 1 after `OK` for the files before it, and — when `f`
exists and its language is known — the last message is the error located in
`f` at the line and column of the load error. -/
theorem C30_exit_located (env : Env) (explicit : Bool) (pre : List Str) (f : Str) (rest : List Str)
    (hpre : ∀ g ∈ pre, loads env explicit g = true) (hf : loads env explicit f = false) :
    checkLoop env explicit (pre ++ f :: rest) [] =
      { exit := 1, msgs := pre.map .ok ++ failMsgs env explicit f } ∧
    (∀ l c, (explicit = true ∨ (fileInfo env f).lang.isSome) → (fileInfo env f).res = .loadErr l c →
      failMsgs env explicit f = [.error (.located f l c)]) := by
  refine ⟨by rw [checkLoop_first_fail _ _ _ _ _ _ hpre hf]; simp, ?_⟩
  intro l c hlang hres
  unfold failMsgs
  have : (!explicit && (fileInfo env f).lang.isNone) = false := by
    rcases hlang with h | h
    · simp [h]
    · cases hl : (fileInfo env f).lang <;> simp_all
  simp [this, hres]

/-- the whole `check` command: an unregistered `--language` fails before any file -/
theorem C30_check_mode (env : Env) (files : List Str) :
    runCheck env files =
      match env.mode with
      | .byLanguage _ false => { exit := 1, msgs := [.error .registration] }
      | .byLanguage _ true => checkLoop env true files []
      | .byGrammar => checkLoop env true files []
      | .byPattern => checkLoop env false files [] := by
  unfold runCheck; rfl

/-- **The whole `check` command** (independent reading of `runCheck`).  It exits 0 iff the
metamodel selection is usable (anything but an unregistered `--language`) and every model file
loads — `loads`: the metamodel is given explicitly or the file's language is known by its name
pattern, and loading succeeds.  Then it reports `OK` for every file in order.  With an unusable
selection it exits 1 with a registration error before looking at any file.  The exit status is
always 0 or 1. -/
theorem C30_check (env : Env) (files : List Str) :
    ((runCheck env files).exit = 0 ↔
      env.mode.usable = true ∧ ∀ f ∈ files, loads env env.mode.explicit f = true) ∧
    ((runCheck env files).exit = 0 ∨ (runCheck env files).exit = 1) ∧
    (env.mode.usable = true → (∀ f ∈ files, loads env env.mode.explicit f = true) →
      runCheck env files = { exit := 0, msgs := files.map .ok }) ∧
    (env.mode.usable = false → runCheck env files = { exit := 1, msgs := [.error .registration] }) ∧
    (∀ explicit f, loads env explicit f = true ↔
      (explicit = true ∨ ∃ l, (fileInfo env f).lang = some l) ∧ (fileInfo env f).res = .ok) := by
  rw [runCheck_eq]
  cases hu : env.mode.usable with
  | false => simp [loads_iff]
  | true =>
    simp only [if_true, true_and]
    obtain ⟨h1, h2, h3⟩ := C30_exit env env.mode.explicit files
    exact ⟨h1, h2, fun _ h => h3 h, by simp, fun e f => loads_iff env e f⟩

/-- **`textx check`, what is reported for the first failing file.**  With a usable metamodel
selection and `OK` files `pre` before it: a file that fails to load at `l:c` (language known)
gives exit 1 and, after the `OK` lines, exactly the error located in that file at `l:c`; a file
whose language cannot be determined gives a registration error; a missing file gives exit 1 with
no message after the `OK` lines (the exception escapes — outside "existing model files"). -/
theorem C30_check_located (env : Env) (pre : List Str) (f : Str) (rest : List Str)
    (husable : env.mode.usable = true)
    (hpre : ∀ g ∈ pre, loads env env.mode.explicit g = true) :
    (∀ l c, (env.mode.explicit = true ∨ (fileInfo env f).lang.isSome) →
      (fileInfo env f).res = .loadErr l c →
      runCheck env (pre ++ f :: rest) = { exit := 1, msgs := pre.map .ok ++ [.error (.located f l c)] }) ∧
    (env.mode.explicit = false → (fileInfo env f).lang = none →
      runCheck env (pre ++ f :: rest) = { exit := 1, msgs := pre.map .ok ++ [.error .registration] }) ∧
    ((env.mode.explicit = true ∨ (fileInfo env f).lang.isSome) → (fileInfo env f).res = .noFile →
      runCheck env (pre ++ f :: rest) = { exit := 1, msgs := pre.map .ok }) := by
  rw [runCheck_eq, husable]
  simp only [if_true]
  refine ⟨?_, ?_, ?_⟩
  · intro l c hlang hres
    have hf : loads env env.mode.explicit f = false := by simp [loads, hres]
    obtain ⟨h1, h2⟩ := C30_exit_located env env.mode.explicit pre f rest hpre hf
    rw [h1, h2 l c hlang hres]
  · intro hex hlang
    have hf : loads env env.mode.explicit f = false := by simp [loads, hex, hlang]
    obtain ⟨h1, _⟩ := C30_exit_located env env.mode.explicit pre f rest hpre hf
    rw [h1]
    simp [failMsgs, hex, hlang]
  · intro hlang hres
    have hf : loads env env.mode.explicit f = false := by simp [loads, hres]
    obtain ⟨h1, _⟩ := C30_exit_located env env.mode.explicit pre f rest hpre hf
    rw [h1]
    have : (!env.mode.explicit && (fileInfo env f).lang.isNone) = false := by
      rcases hlang with h | h
      · simp [h]
      · cases hl : (fileInfo env f).lang <;> simp_all
    simp [failMsgs, this, hres]

/-! ## non-vacuity -/

/-- a command line with dashed flag, dashed valued argument, quoted value and a clash -/
def exItems : List Item :=
  [.file "a.c30a".toList, .arg "my-flag".toList none, .arg "other-arg".toList (some "'v-1'".toList),
   .arg "x_y".toList (some "1".toList), .file "b.c30a".toList, .arg "x-y".toList none]

example : WF exItems := by simp [exItems, WF, isSwitch]

example : parseArgs (render exItems) =
    (["a.c30a".toList, "b.c30a".toList],
     [("my_flag".toList, .flag), ("other_arg".toList, .str "v-1".toList), ("x_y".toList, .flag)]) := by
  decide

def exEnv : Env :=
  { mode := .byPattern,
    files := [("a.c30a".toList, ⟨some "c30a".toList, .ok⟩), ("b.c30a".toList, ⟨some "c30a".toList, .loadErr 2 5⟩)],
    gens := [("c30a".toList, some [⟨"must".toList, true⟩, ⟨"opt_x".toList, false⟩])] }

example : runGenerate exEnv ["a.c30a".toList, "--must".toList, "--opt-x".toList, "1".toList] =
    { exit := 0, calls := [⟨some "a.c30a".toList, [("must".toList, .flag), ("opt_x".toList, .str "1".toList)]⟩],
      fail := none } := by decide

example : (runGenerate exEnv ["a.c30a".toList, "--opt-x".toList, "1".toList]).fail =
    some (.args (.missing "must".toList)) := by decide

example : runCheck exEnv ["a.c30a".toList, "b.c30a".toList, "a.c30a".toList] =
    { exit := 1, msgs := [.ok "a.c30a".toList, .error (.located "b.c30a".toList 2 5)] } := by decide


/-! ### non-vacuity of the new hypotheses -/

-- a token list with a bare flag directly before a file name: it *is* the valued reading
example : render [.arg "my-flag".toList (some "a.c30a".toList)] = ["--my-flag".toList, "a.c30a".toList] := by decide
example : WF [.arg "my-flag".toList (some "a.c30a".toList)] := by simp [WF, isSwitch]
example : ¬ WF [.arg "my-flag".toList none, .file "a.c30a".toList] := by simp [WF]

-- a typed line with click's options at arbitrary places (hypotheses `WFc`, `WF (itemsOf …)` of `C30_args_click`)
def exLine : List CItem :=
  [.valOpt "--target".toList "T".toList, .item (.file "a.c30a".toList), .flagOpt "--overwrite".toList,
   .item (.arg "my-flag".toList none), .valOpt "-o".toList "out".toList, .item (.arg "x-y".toList (some "1".toList))]

example : WFc exLine := by simp only [exLine, WFc, Plain]; decide
example : WF (itemsOf exLine) := by simp [exLine, itemsOf, WF, isSwitch]
example : clickStrip (renderC exLine) = ["a.c30a".toList, "--my-flag".toList, "--x-y".toList, "1".toList] := by decide

/-- two generators for the target: the file's own language declares `must`, the `any` fallback accepts all -/
def exEnv2 : Env :=
  { mode := .byPattern,
    files := [("a.c30a".toList, ⟨some "c30a".toList, .ok⟩), ("b.c30a".toList, ⟨some "c30a".toList, .ok⟩),
              ("c.c30b".toList, ⟨some "c30b".toList, .ok⟩), ("d.c30a".toList, ⟨some "c30a".toList, .noFile⟩)],
    gens := [("c30a".toList, none), ("c30b".toList, some [⟨"must".toList, true⟩]), ("any".toList, none)] }

-- hypotheses of `C30_generate_reject_selected`: the selected generator (`c30b`) rejects although `any`
-- (and `c30a`) would accept — `C30_generate_reject` does not apply, the run still stops with exit 1
example : findGen exEnv2.gens "c30b".toList true = some (some [⟨"must".toList, true⟩]) := by decide
example : Accepts exEnv2 none [("opt".toList, .flag)] "a.c30a".toList :=
  ⟨by decide, "c30a".toList, none, by decide, by decide, by decide⟩
example : runGenerate exEnv2 ["a.c30a".toList, "b.c30a".toList, "c.c30b".toList, "--opt".toList] =
    { exit := 1,
      calls := [⟨some "a.c30a".toList, [("opt".toList, .flag)]⟩, ⟨some "b.c30a".toList, [("opt".toList, .flag)]⟩],
      fail := some (.args (.missing "must".toList)) } := by decide
-- `StopsWith` for a missing file (hypothesis `¬ Accepts` of `C30_generate_stops`)
example : StopsWith exEnv2 none [] "d.c30a".toList .exception := .noFile "c30a".toList (by decide) (by decide)
example : ¬ Accepts exEnv2 none [] "d.c30a".toList := by
  rintro ⟨h, _⟩; exact absurd h (by decide)
-- `Mode.usable` / `Mode.explicit`
example : exEnv.mode.usable = true ∧ exEnv.mode.explicit = false := by decide
example : (Mode.byLanguage "nope".toList false).usable = false := by decide
example : runCheck { exEnv with mode := .byLanguage "nope".toList false } ["a.c30a".toList] =
    { exit := 1, msgs := [.error .registration] } := by decide
-- a missing file with a known language: exit 1, nothing after the `OK` lines
example : runCheck exEnv2 ["a.c30a".toList, "d.c30a".toList] = { exit := 1, msgs := [.ok "a.c30a".toList] } := by decide
-- an unknown language: registration error
example : runCheck exEnv2 ["a.c30a".toList, "zz.txt".toList] =
    { exit := 1, msgs := [.ok "a.c30a".toList, .error .registration] } := by decide

end Cli
