import TextxVerif.Proofs.Cli
/-!
# C30 — the textx CLI reports outcomes and passes generator arguments faithfully

Model: `Cli.parseArgs` / `Cli.validate` / `Cli.runGenerate` / `Cli.runCheck`
(`TextxVerif/Out/Cli.lean`) mirror `textx/cli/generate.py` and
`textx/cli/check.py` after the `fix:` commits of branch `fix/C30`.  A command line
is, on the specification side, a list of `Cli.Item`s — model files and custom
arguments `--name [value]` — rendered to tokens by `Cli.render`; `Cli.WF` says
which lists are command lines in the CLI's syntax (no file or value starts with
`--`, a bare flag is not directly followed by a file name).  All theorems hold
for every such list: any number of files and arguments, any names (with or
without dashes, repeated, clashing after normalisation), any values.
click's own option parsing is outside the model (the model starts from the tuple
click hands to the command body).
-/
namespace Cli

/-- **Arguments, round trip.**  For every command line the argument loop finds
exactly the model files, in order, and exactly the keyword dictionary the
command line means: each `--name [value]` is stored under `norm name`
(dashes → underscores) with its value (outer quotes stripped) or `True`,
later arguments overriding earlier ones of the same normalised name. -/
theorem C30_args (items : List Item) (hwf : WF items) :
    parseArgs (render items) = (expFiles items, expDict items []) := by
  unfold parseArgs
  rw [parseLoop_render items hwf]
  simp

/-- **Every argument arrives, flag or valued.**  The generator's keyword
dictionary has an entry under the normalised name of every custom argument; the
entry is the value of the last argument with that normalised name — `True`
for a bare flag. No other keys exist and no key contains a dash. -/
theorem C30_args_each (items : List Item) (hwf : WF items) :
    let kw := (parseArgs (render items)).2
    (∀ k, dget kw k = lastVal items k) ∧
    (∀ n v, Item.arg n v ∈ items → (dget kw (norm n)).isSome) ∧
    (∀ k, k ∈ dkeys kw ↔ ∃ n v, Item.arg n v ∈ items ∧ norm n = k) ∧
    (∀ k, k ∈ dkeys kw → '-' ∉ k) := by
  simp only [C30_args items hwf]
  have hkeys : ∀ k, k ∈ dkeys (expDict items []) ↔ ∃ n v, Item.arg n v ∈ items ∧ norm n = k := by
    intro k
    rw [dkeys_expDict]
    simp [dkeys]
  refine ⟨?_, ?_, hkeys, ?_⟩
  · intro k
    rw [dget_expDict]
    cases lastVal items k <;> simp [dget]
  · intro n v hm
    rw [dget_isSome_iff, hkeys]
    exact ⟨n, v, hm, rfl⟩
  · intro k hk
    obtain ⟨n, _, _, hn⟩ := (hkeys k).1 hk
    rw [← hn]
    exact norm_no_dash n

/-- When no two custom arguments clash after normalisation, each one arrives
with exactly its own value (`True` for a bare flag, the stripped string
otherwise). -/
theorem C30_args_value (items : List Item) (hwf : WF items) (n : Str) (v : Option Str)
    (hmem : Item.arg n v ∈ items)
    (huniq : ∀ n' v', Item.arg n' v' ∈ items → norm n' = norm n → n' = n ∧ v' = v) :
    dget (parseArgs (render items)).2 (norm n) = some (toVal v) := by
  rw [(C30_args_each items hwf).1, lastVal_of_unique items n v hmem huniq]

/-- The pinned loop (before the repair) violates `C30_args`: a bare flag keeps
its dashes — `--my-flag` arrives as `my-flag`. -/
theorem C30_args_pinned_false :
    ∃ items, WF items ∧ parseArgsPinned (render items) ≠ (expFiles items, expDict items []) :=
  ⟨[.file "m.x".toList, .arg "my-flag".toList none], by simp [WF, isSwitch], by decide⟩

/-- **Validation.**  For a generator that declares its parameters `ps` (possibly
none), the given argument names pass iff every mandatory parameter is given and
every given name is declared; a generator that does not declare parameters
accepts everything. -/
theorem C30_validate (ps : List Param) (given : List Str) :
    (validate (some ps) given = none ↔
      (∀ p ∈ ps, p.mandatory = true → p.name ∈ given) ∧ (∀ k ∈ given, k ∈ ps.map (·.name))) ∧
    validate none given = none :=
  ⟨validate_none_iff ps given, rfl⟩

/-- the pinned validation lets undeclared arguments through when the declared list is empty -/
theorem C30_validate_pinned_false :
    ∃ given, validatePinned (some []) given = none ∧ ¬ (∀ k ∈ given, k ∈ ([] : List Param).map (·.name)) :=
  ⟨["bogus".toList], by decide, by simp⟩

/-- **Rejection.**  If the keyword names parsed from the command line are not
accepted by any generator registered for the target (an undeclared name, or a
mandatory parameter missing, for each declaring generator), `textx generate`
exits with status 1 and never calls a generator — whatever the mode, the files
and their contents. -/
theorem C30_generate_reject (env : Env) (arguments : List Str)
    (hrej : ∀ l decl, (l, decl) ∈ env.gens → validate decl (dkeys (parseArgs arguments).2) ≠ none) :
    (runGenerate env arguments).exit = 1 ∧ (runGenerate env arguments).calls = [] := by
  unfold runGenerate
  split
  · simp
  · rename_i explicitLang _
    simp only
    split
    · rcases runNoModel_calls env explicitLang (parseArgs arguments).2 with ⟨h1, h2⟩ | ⟨_, _, decl, hg, hv⟩
      · exact ⟨h2, h1⟩
      · obtain ⟨l, hl⟩ := findGen_mem _ _ _ _ hg
        exact absurd hv (hrej l decl hl)
    · rename_i hne
      have hne' : (parseArgs arguments).1 ≠ [] := by
        intro h; simp [h] at hne
      exact genLoop_reject env explicitLang _ _ [] hne' hrej

/-- **Faithful calls.**  With model files on the command line: if every file
loads and has a generator that accepts the arguments, `textx generate` exits 0
having called the generator once per file, in order, each time with exactly the
dictionary of `C30_args`. -/
theorem C30_generate_faithful (env : Env) (items : List Item) (hwf : WF items)
    (hfiles : expFiles items ≠ [])
    (explicitLang : Option Str) (hmode : modeLang env = .ok explicitLang)
    (hacc : ∀ f ∈ expFiles items, Accepts env explicitLang (expDict items []) f) :
    runGenerate env (render items) =
      { exit := 0,
        calls := (expFiles items).map (fun f => { file := some f, kwargs := expDict items [] }),
        fail := none } := by
  unfold runGenerate
  rw [hmode, C30_args items hwf]
  have hne : (expFiles items).isEmpty = false := by
    cases h : expFiles items with
    | nil => exact absurd h hfiles
    | cons a b => rfl
  simp only [hne]
  rw [genLoop_all env _ _ _ [] hacc]; simp

/-- **Calls are never distorted.**  Whatever happens (also when a later file
fails), every generator call that was made got exactly the parsed dictionary, the
calls are for a prefix of the model files in order, the exit status is 0 or 1,
and it is 0 only if no failure was recorded. -/
theorem C30_generate_calls (env : Env) (arguments : List Str) :
    let r := runGenerate env arguments
    (∀ c ∈ r.calls, c.kwargs = (parseArgs arguments).2) ∧
    (r.exit = 0 ∨ r.exit = 1) ∧
    ((parseArgs arguments).1 ≠ [] →
      ∃ k, k ≤ (parseArgs arguments).1.length ∧
        r.calls.map (·.file) = ((parseArgs arguments).1.take k).map some ∧
        (r.exit = 0 → r.calls.map (·.file) = (parseArgs arguments).1.map some)) ∧
    ((parseArgs arguments).1 = [] → r.calls = [] ∨ r.calls = [{ file := none, kwargs := (parseArgs arguments).2 }]) := by
  unfold runGenerate
  split
  · simp only [List.not_mem_nil, false_implies, implies_true, true_and]
    refine ⟨by simp, fun _ => ⟨0, by simp⟩, by simp⟩
  · rename_i explicitLang _
    simp only
    split
    · rename_i hempty
      have hnil : (parseArgs arguments).1 = [] := by simpa using hempty
      rcases runNoModel_calls env explicitLang (parseArgs arguments).2 with ⟨h1, h2⟩ | ⟨h1, h2, _⟩
      · rw [h1, h2]; simp [hnil]
      · rw [h1, h2]; simp [hnil]
    · rename_i hne
      have hne' : (parseArgs arguments).1 ≠ [] := by
        intro h; simp [h] at hne
      obtain ⟨more, h1, h2, ⟨k, hk, h3⟩, h4⟩ :=
        genLoop_calls env explicitLang (parseArgs arguments).2 (parseArgs arguments).1 []
      simp only [List.nil_append] at h1
      exact ⟨by rw [h1]; exact h2, genLoop_exit_01 _ _ _ _ _,
        fun _ => ⟨k, hk, by rw [h1]; exact h3, by rw [h1]; exact h4⟩, fun h => absurd h hne'⟩

/-- **`textx check`, exit status.**  With a usable metamodel selection
(`explicit` = `--grammar` / a registered `--language`; otherwise per file name
pattern) the command exits 0 iff every model file loads, and then reports `OK`
for each file in order. -/
theorem C30_exit (env : Env) (explicit : Bool) (files : List Str) :
    ((checkLoop env explicit files []).exit = 0 ↔ ∀ f ∈ files, loads env explicit f = true) ∧
    ((checkLoop env explicit files []).exit = 0 ∨ (checkLoop env explicit files []).exit = 1) ∧
    ((∀ f ∈ files, loads env explicit f = true) →
      checkLoop env explicit files [] = { exit := 0, msgs := files.map .ok }) := by
  refine ⟨checkLoop_exit_iff _ _ _ _, checkLoop_exit_01 _ _ _ _, fun h => ?_⟩
  rw [checkLoop_all _ _ _ _ h]; simp

/-- **`textx check`, located error.**  If `f` is the first file that does not
load, the command exits 1 after `OK` for the files before it, and — when `f`
exists and its language is known — the last message is the error located in
`f` at the line and column of the load error. -/
theorem C30_exit_located (env : Env) (explicit : Bool) (pre : List Str) (f : Str) (rest : List Str)
    (hpre : ∀ g ∈ pre, loads env explicit g = true) (hf : loads env explicit f = false) :
    checkLoop env explicit (pre ++ f :: rest) [] =
      { exit := 1, msgs := pre.map .ok ++ failMsgs env explicit f } ∧
    (∀ l c, (explicit = true ∨ (fileInfo env f).lang.isSome) → (fileInfo env f).res = .loadErr l c →
      failMsgs env explicit f = [.error (.located f l c)]) := by
  refine ⟨by rw [checkLoop_first_fail _ _ _ _ _ _ hpre hf]; simp, ?_⟩
  intro l c hlang hres
  unfold failMsgs
  have : (!explicit && (fileInfo env f).lang.isNone) = false := by
    rcases hlang with h | h
    · simp [h]
    · cases hl : (fileInfo env f).lang <;> simp_all
  simp [this, hres]

/-- the whole `check` command: an unregistered `--language` fails before any file -/
theorem C30_check_mode (env : Env) (files : List Str) :
    runCheck env files =
      match env.mode with
      | .byLanguage _ false => { exit := 1, msgs := [.error .registration] }
      | .byLanguage _ true => checkLoop env true files []
      | .byGrammar => checkLoop env true files []
      | .byPattern => checkLoop env false files [] := by
  unfold runCheck; rfl

/-! ## non-vacuity -/

/-- a command line with dashed flag, dashed valued argument, quoted value and a clash -/
def exItems : List Item :=
  [.file "a.c30a".toList, .arg "my-flag".toList none, .arg "other-arg".toList (some "'v-1'".toList),
   .arg "x_y".toList (some "1".toList), .file "b.c30a".toList, .arg "x-y".toList none]

example : WF exItems := by simp [exItems, WF, isSwitch]

example : parseArgs (render exItems) =
    (["a.c30a".toList, "b.c30a".toList],
     [("my_flag".toList, .flag), ("other_arg".toList, .str "v-1".toList), ("x_y".toList, .flag)]) := by
  decide

def exEnv : Env :=
  { mode := .byPattern,
    files := [("a.c30a".toList, ⟨some "c30a".toList, .ok⟩), ("b.c30a".toList, ⟨some "c30a".toList, .loadErr 2 5⟩)],
    gens := [("c30a".toList, some [⟨"must".toList, true⟩, ⟨"opt_x".toList, false⟩])] }

example : runGenerate exEnv ["a.c30a".toList, "--must".toList, "--opt-x".toList, "1".toList] =
    { exit := 0, calls := [⟨some "a.c30a".toList, [("must".toList, .flag), ("opt_x".toList, .str "1".toList)]⟩],
      fail := none } := by decide

example : (runGenerate exEnv ["a.c30a".toList, "--opt-x".toList, "1".toList]).fail =
    some (.args (.missing "must".toList)) := by decide

example : runCheck exEnv ["a.c30a".toList, "b.c30a".toList, "a.c30a".toList] =
    { exit := 1, msgs := [.ok "a.c30a".toList, .error (.located "b.c30a".toList 2 5)] } := by decide

end Cli
