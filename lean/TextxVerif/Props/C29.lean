import TextxVerif.Proofs.ExportModel
import TextxVerif.Proofs.ExportPuml
import TextxVerif.Proofs.ExportTotal
import TextxVerif.Proofs.ExportDomain
import TextxVerif.Proofs.ExportMMTotal
import TextxVerif.ExportCall
/-!
# C29 — graph exports are well-formed for any model and metamodel

Models: `Dot.dotEscape` / `Dot.dotRepr` (driven by the tables regenerated from
`textx/export.py` on every run, `Gen.Dot`), the DOT recogniser `Dot.recognise`
(lexer + push-down parser), the record-label recogniser `Dot.recOk`, and the exports
`Dot.exportModel` (`model_export_to_file`, after the three `fix:` commits),
`Dot.mmDot` / `Dot.mmPuml` (`metamodel_export_tofile` with the two renderers).
All theorems quantify over every string / object graph / class list; nothing is bounded.
-/
namespace Dot

/-! ## escaping -/

/-- `dot_escape` (a chain of `str.replace`) acts character by character. -/
theorem C29_escape_chain (s : Str) : dotEscape s = s.flatMap escChar := dotEscape_eq_flatMap s

/-- **Escape safety.** For every string `s` and every continuation `rest` of the file, the
text `"` `dot_escape(s)` `"` `rest` lexes as exactly one string token whose content is the
escaped value, after which the lexer continues on `rest` from its start state; and the
escaped value contains no unescaped record-special character (`" { } | < >`) and no
dangling backslash, so it stays inside one record field. -/
theorem C29_escape_safe (s rest : Str) :
    steps .start ('"' :: dotEscape s ++ '"' :: rest) =
        (steps .start rest).map (fun r => (r.1, Tok.qstr (dotEscape s) :: r.2)) ∧
      Safe (dotEscape s) := by
  refine ⟨?_, dotEscape_safe s⟩
  have h := Lx.quoted (dotEscape_safe s).qsafe
  have e : '"' :: dotEscape s ++ '"' :: rest = ('"' :: dotEscape s ++ ['"']) ++ rest := by simp
  rw [e, steps_append, h]
  cases hr : steps .start rest <;> simp [hr]

/-- The same for `dot_repr`, also when it truncates the escaped value in the middle of an
escape sequence. -/
theorem C29_repr_safe (s rest : Str) :
    steps .start ('"' :: dotRepr s ++ '"' :: rest) =
        (steps .start rest).map (fun r => (r.1, Tok.qstr (dotRepr s) :: r.2)) ∧
      Safe (dotRepr s) := by
  refine ⟨?_, dotRepr_safe s⟩
  have h := Lx.quoted (dotRepr_safe s).qsafe
  have e : '"' :: dotRepr s ++ '"' :: rest = ('"' :: dotRepr s ++ ['"']) ++ rest := by simp
  rw [e, steps_append, h]
  cases hr : steps .start rest <;> simp [hr]

/-- A record label `{name|attrs}` built from safe fragments is a well-formed record label. -/
theorem C29_record_label (n a : Str) (hn : Safe n) (ha : Safe a) : recOk (recordLabel n a) = true :=
  recOk_recordLabel hn ha

/-! ## rendering -/

/-- **Rendering is valid DOT.** Whatever statements an export writes between `HEADER`
and the closing brace: if the strings spliced into them are safe fragments, the text is
accepted by the DOT recogniser and the recognised statements are the header's followed by
exactly the written ones (one node / edge / cluster per statement, in order). -/
theorem C29_render_valid (ss : List Stmt) (h : ∀ s ∈ ss, StmtOk s) :
    recognise (renderDoc ss) = some (headerEvs ++ ss.flatMap stmtEvs) :=
  recognise_renderDoc ss h

/-! ## `model_export_to_file` -/

/-- objects reachable from the exported roots through attribute values -/
inductive Reach (h : Heap) (roots : List Root) : Nat → Prop
  | root {r : Root} : r ∈ roots → Reach h roots r.id
  | step {n t : Nat} {o : Obj} : Reach h roots n → h.get n = some o → t ∈ o.refs → Reach h roots t

/-- **Model export.** For every object graph whose class names, attribute names and
numeric renderings are safe fragments (string *values* are arbitrary), if the export
produces a text then
* the text is valid DOT and the recogniser reports exactly the statements written;
* every written statement has safe strings and every node label is a well-formed
  two-field record `{name|attrs}`;
* no object gets two nodes; every root, every target of an edge and every object
  reachable from a root through attribute values has its node. -/
theorem C29_model_export_valid (h : Heap) (roots : List Root) (hh : HeapOk h) (text : Str)
    (he : exportModel h roots = some text) :
    ∃ ss, exportModelStmts h roots = some ss ∧ text = renderDoc ss ∧
      recognise text = some (headerEvs ++ ss.flatMap stmtEvs) ∧
      (∀ s ∈ ss, StmtOk s) ∧
      (∀ m i n a, Stmt.node m i n a ∈ ss → recOk (recordLabel n a) = true) ∧
      (nodeIds ss).Nodup ∧
      (∀ d ∈ edgeTargets ss, d ∈ nodeIds ss) ∧
      (∀ i, Reach h roots i → i ∈ nodeIds ss) := by
  unfold exportModel at he
  cases hs : exportModelStmts h roots with
  | none => simp [hs] at he
  | some ss =>
    simp only [hs, Option.map_some, Option.some.injEq] at he
    unfold exportModelStmts at hs
    cases hr : exportRoots h (h.length + 1) roots { processed := [], out := [] } with
    | none => simp [hr] at hs
    | some st =>
      simp only [hr, Option.map_some, Option.some.injEq] at hs
      obtain ⟨⟨sfx, e⟩, hroots⟩ := exportRoots_ext h hh _ roots _ st hr
      have hout : st.out = sfx := by simpa using e.out_eq
      have hss : ss = sfx.reverse := by rw [← hs, hout]
      have hok : ∀ s ∈ ss, StmtOk s := by
        intro s hs'; rw [hss] at hs'; exact e.ok s (List.mem_reverse.mp hs')
      have hids : ∀ n, n ∈ nodeIds ss ↔ n ∈ nodeIds sfx := by
        intro n; rw [hss]; simp [nodeIds]
      have hproc : ∀ n, n ∈ st.processed ↔ n ∈ nodeIds ss := by
        intro n; rw [e.proc, hids]; simp
      refine ⟨ss, rfl, he.symm, ?_, hok, ?_, ?_, ?_, ?_⟩
      · rw [← he]; exact recognise_renderDoc ss hok
      · intro m i n a hm
        obtain ⟨hn, ha⟩ := hok _ hm
        exact recOk_recordLabel hn ha
      · rw [hss]
        have : nodeIds sfx.reverse = (nodeIds sfx).reverse := by simp [nodeIds, List.filterMap_reverse]
        rw [this]
        show List.Pairwise (· ≠ ·) (nodeIds sfx).reverse
        rw [List.pairwise_reverse]
        exact e.nodup.imp (fun hne => hne.symm)
      · intro d hd
        rw [← hproc]
        apply e.targets
        rw [hss] at hd
        simpa [edgeTargets, List.filterMap_reverse] using hd
      · intro i hi
        induction hi with
        | root hr' => rw [← hproc]; exact hroots _ hr'
        | step _ ho ht ih =>
          rw [← hproc]
          exact e.closed _ ((hids _).mp ih) _ ho _ ht

/-- Every object reachable from a root is *recognised* as a node statement whose `label`
is a well-formed record: the link between `C29_model_export_valid` and what a DOT reader
sees. -/
theorem C29_model_nodes_recognised (h : Heap) (roots : List Root) (hh : HeapOk h) (text : Str)
    (he : exportModel h roots = some text) (i : Nat) (hi : Reach h roots i) :
    ∃ evs n a, recognise text = some evs ∧
      Ev.node (.num (digits i)) [(Tok.id cl!"label", .qstr (recordLabel n a))] ∈ evs ∧
      recOk (recordLabel n a) = true := by
  obtain ⟨ss, _, _, hrec, _, hlab, _, _, hreach⟩ := C29_model_export_valid h roots hh text he
  have hmem := hreach i hi
  simp only [nodeIds, List.mem_filterMap] at hmem
  obtain ⟨s, hs, hsi⟩ := hmem
  cases s <;> simp only [Stmt.nodeId?, Option.some.injEq] at hsi <;> try (exact absurd hsi (by simp))
  rename_i m j n a
  subst hsi
  refine ⟨_, n, a, hrec, ?_, hlab m j n a hs⟩
  apply List.mem_append_right
  apply List.mem_flatMap.mpr
  exact ⟨_, hs, by simp [stmtEvs]⟩

/-- **Totality.** On a closed object graph (every referenced object exists; ids identify
objects) with existing roots the model of the export always produces a text: the
recursion depth of `_export` never exceeds the number of objects.  Together with
`C29_model_export_valid` the hypothesis `exportModel … = some text` there is always met. -/
theorem C29_model_export_total (h : Heap) (roots : List Root) (hc : Closed h) (hr : ∀ r ∈ roots, Valid h r.id) :
    ∃ text, exportModel h roots = some text :=
  exportModel_total h hc roots hr

/-! ## the call: `model`, `repo` and the repository the model carries -/

/-- objects reachable from the given objects through attribute values -/
inductive ReachFrom (h : Heap) (ids : List Nat) : Nat → Prop
  | start {i : Nat} : i ∈ ids → ReachFrom h ids i
  | step {n t : Nat} {o : Obj} : ReachFrom h ids n → h.get n = some o → t ∈ o.refs → ReachFrom h ids t

/-- **Argument check.** The call raises (before anything but the header is written) exactly
when `model` and `repo` are both given or both missing — an empty `repo` counts as missing. -/
theorem C29_call_argcheck (a : Args) : planArgs a = none ↔ a.model.isSome = repoTruthy a.repo := by
  unfold planArgs argsOk
  cases hm : a.model.isSome <;> cases hr : repoTruthy a.repo <;> simp <;> split <;> simp

/-- **The call exports what was asked for.** Whatever repository the model carries — none,
an empty one (a model without imports), one that contains the model (a model with imports)
or one that does not (the repository of a metamodel with a global repository and a model
loaded from a string) — and whatever `repo` is (`None`, an empty or a non-empty iterable):
when the call does not raise, the `model` argument and every model of a non-empty `repo`
are among the exported roots. -/
theorem C29_call_covers (a : Args) (roots : List Root) (hp : planArgs a = some roots) :
    ∀ i ∈ requested a, ∃ r ∈ roots, r.id = i := by
  intro i hi
  unfold planArgs at hp
  split at hp
  · simp at hp
  rename_i hok
  simp only [Bool.not_eq_true, Bool.not_eq_false'] at hok
  simp only [requested, List.mem_append, Option.mem_toList] at hi
  rcases hi with hi | hi
  · -- the model argument: `_export(model)` is the last statement of both branches
    have hpl : Root.plain i ∈ plainOf a.model := by
      have hi' : a.model = some i := hi
      simp [hi', plainOf]
    split at hp <;> simp only [Option.some.injEq] at hp <;> subst hp
    · exact ⟨.plain i, List.mem_append_right _ hpl, rfl⟩
    · exact ⟨.plain i, hpl, rfl⟩
  · -- a model of the explicit repository
    cases hr : repoTruthy a.repo with
    | false => simp [hr] at hi
    | true =>
      simp only [hr, if_true, List.mem_map] at hi
      obtain ⟨m, hm, rfl⟩ := hi
      have hb : repoBranch a = some ([], a.repo.getD []) := by simp [repoBranch, hr]
      simp only [hb, Option.some.injEq] at hp
      subst hp
      refine ⟨m.root, ?_, rfl⟩
      apply List.mem_append_left
      apply List.mem_append_right
      exact List.mem_map.mpr ⟨m, hm, rfl⟩

theorem reach_of_reachFrom {h : Heap} {ids : List Nat} {roots : List Root}
    (hc : ∀ i ∈ ids, ∃ r ∈ roots, r.id = i) {i : Nat} (hi : ReachFrom h ids i) : Reach h roots i := by
  induction hi with
  | start hs =>
    obtain ⟨r, hr, rfl⟩ := hc _ hs
    exact Reach.root hr
  | step _ ho ht ih => exact Reach.step ih ho ht

/-- **Export call.** For every object graph with safe class / attribute names, every
`model` / `repo` argument and every repository carried by the model: if the call produces a
text, it is valid DOT (the recogniser reports exactly the written statements), no object has
two nodes, every edge target has its node, and every object reachable from the `model`
argument or from a model of the `repo` argument has its node. -/
theorem C29_export_call_valid (h : Heap) (a : Args) (hh : HeapOk h) (text : Str)
    (he : exportCall h a = some text) :
    ∃ roots ss, planArgs a = some roots ∧ exportModelStmts h roots = some ss ∧ text = renderDoc ss ∧
      recognise text = some (headerEvs ++ ss.flatMap stmtEvs) ∧
      (∀ m i n a, Stmt.node m i n a ∈ ss → recOk (recordLabel n a) = true) ∧
      (nodeIds ss).Nodup ∧
      (∀ d ∈ edgeTargets ss, d ∈ nodeIds ss) ∧
      (∀ i, ReachFrom h (requested a) i → i ∈ nodeIds ss) := by
  unfold exportCall at he
  cases hp : planArgs a with
  | none => simp [hp] at he
  | some roots =>
    simp only [hp, Option.bind_some] at he
    obtain ⟨ss, h1, h2, h3, _, h5, h6, h7, h8⟩ := C29_model_export_valid h roots hh text he
    exact ⟨roots, ss, rfl, h1, h2, h3, h5, h6, h7,
      fun i hi => h8 i (reach_of_reachFrom (C29_call_covers a roots hp) hi)⟩

/-- The behaviour before the repair (no `_export(model)` after the loop over the repository)
violates the property: a model whose repository holds another model but not the model itself
(metamodel with a global repository, model loaded from a string) gets no node. -/
theorem C29_model_outside_repo_false :
    let h : Heap := [{ id := 1, cls := cl!"M", attrs := some [] }, { id := 2, cls := cl!"M", attrs := some [] }]
    let a : Args := { model := some 1, repo := none, own := some [{ fname := cl!"f", kids := [2], id := 2 }] }
    ((planArgsPinned a).bind (exportModelStmts h)).map nodeIds = some [2] ∧
      ((planArgs a).bind (exportModelStmts h)).map nodeIds = some [2, 1] := by
  decide +kernel


/-! ## `metamodel_export_tofile` -/

/-- **Metamodel, DOT renderer.** For every list of unified classes whose class and
attribute names are safe fragments without angle brackets (match-rule bodies are
arbitrary strings): if the export produces a text, it is valid DOT, the recogniser
reports exactly the statements written, all of them have safe strings, and every class
that is not a match rule (and not a base type) has its node `{name|attrs}` /
`{*name|}`. -/
theorem C29_metamodel_dot_valid (all : List MCls) (base : List Str) (hall : ∀ c ∈ all, ClsOk c) (text : Str)
    (he : mmDot all base = some text) :
    ∃ ss, mmDotStmts all base = some ss ∧ text = renderDoc ss ∧
      recognise text = some (headerEvs ++ ss.flatMap stmtEvs) ∧
      (∀ s ∈ ss, StmtOk s) ∧
      ∀ c ∈ all, c.fqn ∉ base ++ [cl!"OBJECT"] → c.name ∉ base ++ [cl!"OBJECT"] → c.typ ≠ .match →
        Stmt.node true c.id (if c.typ = .abstract then '*' :: c.name else c.name) (dotClassAttrs c) ∈ ss ∧
          recOk (recordLabel (if c.typ = .abstract then '*' :: c.name else c.name) (dotClassAttrs c)) = true := by
  unfold mmDot at he
  cases hs : mmDotStmts all base with
  | none => simp [hs] at he
  | some ss =>
    simp only [hs, Option.map_some, Option.some.injEq] at he
    unfold mmDotStmts at hs
    cases hi : mmItems all (base ++ [cl!"OBJECT"]) with
    | none => simp [hi] at hs
    | some items =>
      simp only [hi, Option.some.injEq] at hs
      obtain ⟨hin, hcls⟩ := mmItems_in all _ items hi
      have hrules := rules_mem all base items hin
      have hok : ∀ s ∈ ss, StmtOk s := by
        intro s hs'
        rw [← hs] at hs'
        rcases List.mem_append.mp hs' with h1 | h1
        · obtain ⟨it, hit, hsi⟩ := List.mem_flatMap.mp h1
          exact dotItem_ok all hall it (hin it hit) s hsi
        · split at h1
          · simp at h1
          · simp only [List.mem_singleton] at h1
            subst h1
            intro r hr
            obtain ⟨c, hc, rfl⟩ := List.mem_map.mp hr
            exact (hall c (hrules c hc)).2.1
      refine ⟨ss, rfl, he.symm, ?_, hok, ?_⟩
      · rw [← he]; exact recognise_renderDoc ss hok
      · intro c hc h1 h2 hm
        have hmem : Stmt.node true c.id (if c.typ = .abstract then '*' :: c.name else c.name) (dotClassAttrs c) ∈ ss := by
          rw [← hs]
          apply List.mem_append_left
          apply List.mem_flatMap.mpr
          exact ⟨.cls c, hcls c hc h1 h2, by simp [dotItem, hm]⟩
        obtain ⟨hn, ha⟩ := hok _ hmem
        exact ⟨hmem, recOk_recordLabel hn ha⟩

/-- **Metamodel, PlantUML renderer.** For every list of unified classes whose names fit on
a line (no newline, blank or brace; no class is called `class`) and every `linetype`
without newline or brace: if the export produces a text, the line recogniser accepts it —
`@startuml … @enduml`, every `class … {` closed by its `}`, `legend … end legend` — and
the declared classes are exactly the non-match classes handed to the renderer, among them
every common and abstract class of the metamodel that is not a base type. -/
theorem C29_plantuml_balanced (all : List MCls) (base : List Str) (lt : Option Str) (hall : ∀ c ∈ all, PClsOk c)
    (hlt : LinetypeOk lt) (text : Str) (he : mmPuml all base lt = some text) :
    ∃ items, mmItems all (base ++ [cl!"OBJECT"]) = some items ∧
      pumlRecognise text = some (items.flatMap declared) ∧
      ∀ c ∈ all, c.fqn ∉ base ++ [cl!"OBJECT"] → c.name ∉ base ++ [cl!"OBJECT"] → c.typ ≠ .match →
        c.fqn ∈ items.flatMap declared := by
  unfold mmPuml at he
  cases hs : mmPumlLines all base lt with
  | none => simp [hs] at he
  | some ls =>
    simp only [hs, Option.map_some, Option.some.injEq] at he
    unfold mmPumlLines at hs
    cases hi : mmItems all (base ++ [cl!"OBJECT"]) with
    | none => simp [hi] at hs
    | some items =>
      simp only [hi, Option.some.injEq] at hs
      obtain ⟨hin, hcls⟩ := mmItems_in all _ items hi
      have hrules := rules_mem all base items hin
      refine ⟨items, rfl, ?_, ?_⟩
      · rw [← he, ← hs]
        exact pumlRecognise_lines all hall lt hlt items hin _ hrules
      · intro c hc h1 h2 hm
        apply List.mem_flatMap.mpr
        exact ⟨.cls c, hcls c hc h1 h2, by simp [declared, hm]⟩

/-! ## end to end, with executable hypotheses

`heapOkB`, `closedB`, `clsOkB`, `pclsOkB`, `linetypeOkB` are evaluated by the driver on
every case of the correspondence run, so each compared case is known to lie inside the
domain of these theorems. -/

/-- model export: a text is produced, it is valid DOT, no object has two nodes and every
reachable object has one -/
theorem C29_model_export_checked (h : Heap) (roots : List Root) (h1 : heapOkB h = true)
    (h2 : closedB h roots = true) :
    ∃ text ss, exportModel h roots = some text ∧ text = renderDoc ss ∧
      recognise text = some (headerEvs ++ ss.flatMap stmtEvs) ∧
      (nodeIds ss).Nodup ∧ ∀ i, Reach h roots i → i ∈ nodeIds ss := by
  obtain ⟨hc, hr⟩ := closed_of_B h2
  obtain ⟨text, ht⟩ := exportModel_total h hc roots hr
  obtain ⟨ss, _, h3, h4, _, _, h5, _, h6⟩ := C29_model_export_valid h roots (heapOk_of_B h1) text ht
  exact ⟨text, ss, ht, h3, h4, h5, h6⟩

theorem C29_metamodel_dot_checked (all : List MCls) (base : List Str) (h1 : all.all clsOkB = true) (text : Str)
    (he : mmDot all base = some text) :
    ∃ ss, text = renderDoc ss ∧ recognise text = some (headerEvs ++ ss.flatMap stmtEvs) ∧
      ∀ c ∈ all, c.fqn ∉ base ++ [cl!"OBJECT"] → c.name ∉ base ++ [cl!"OBJECT"] → c.typ ≠ .match →
        ∃ n a, Stmt.node true c.id n a ∈ ss ∧ recOk (recordLabel n a) = true := by
  have hall : ∀ c ∈ all, ClsOk c := fun c hc => clsOk_of_B (List.all_eq_true.mp h1 c hc)
  obtain ⟨ss, _, h3, h4, _, h5⟩ := C29_metamodel_dot_valid all base hall text he
  refine ⟨ss, h3, h4, ?_⟩
  intro c hc a b d
  obtain ⟨m1, m2⟩ := h5 c hc a b d
  exact ⟨_, _, m1, m2⟩

theorem C29_plantuml_checked (all : List MCls) (base : List Str) (lt : Option Str) (h1 : all.all pclsOkB = true)
    (h2 : linetypeOkB lt = true) (text : Str) (he : mmPuml all base lt = some text) :
    ∃ declared, pumlRecognise text = some declared ∧
      ∀ c ∈ all, c.fqn ∉ base ++ [cl!"OBJECT"] → c.name ∉ base ++ [cl!"OBJECT"] → c.typ ≠ .match →
        c.fqn ∈ declared := by
  have hall : ∀ c ∈ all, PClsOk c := fun c hc => pclsOk_of_B (List.all_eq_true.mp h1 c hc)
  obtain ⟨items, _, h3, h4⟩ := C29_plantuml_balanced all base lt hall (linetypeOk_of_B h2) text he
  exact ⟨_, h3, h4⟩

/-! ## `metamodel_export_tofile`: totality, recognised class nodes, one label per class -/

/-- **Metamodel totality.** When the class table is closed — the class of every attribute and every
`inh_by` entry is in the table, which is how `get_unified_classes` builds it (both are looked up in
`new_classes`) — both renderers produce a text, for every `linetype`. -/
theorem C29_metamodel_total (all : List MCls) (base : List Str)
    (h : ∀ c ∈ all, (∀ a ∈ c.attrs, (findCls all a.clsId).isSome) ∧ ∀ i ∈ c.inhBy, (findCls all i).isSome) :
    (∃ t, mmDot all base = some t) ∧ ∀ lt, ∃ t, mmPuml all base lt = some t := by
  have hc := (mmItems_isSome all (base ++ [cl!"OBJECT"])).mpr (mmClosed_of_all _ h)
  constructor
  · apply Option.isSome_iff_exists.mp
    rw [mmDot_isSome]; exact hc
  · intro lt
    apply Option.isSome_iff_exists.mp
    rw [mmPuml_isSome]; exact hc

/-- **Exact domain.** A text is produced *exactly* when every class that is walked (fqn not a base
type name) has the classes of its attributes and its `inh_by` entries in the table; the renderer and
the `linetype` play no role. -/
theorem C29_metamodel_total_iff (all : List MCls) (base : List Str) :
    ((∃ t, mmDot all base = some t) ↔ MMClosed all (base ++ [cl!"OBJECT"])) ∧
      ∀ lt, (∃ t, mmPuml all base lt = some t) ↔ MMClosed all (base ++ [cl!"OBJECT"]) := by
  refine ⟨?_, fun lt => ?_⟩
  · rw [← Option.isSome_iff_exists, mmDot_isSome]; exact mmItems_isSome _ _
  · rw [← Option.isSome_iff_exists, mmPuml_isSome]; exact mmItems_isSome _ _

/-- Every class that is not a match rule (and not a base type) is *recognised* as a node statement
whose `label` is the well-formed record `{name|attrs}` / `{*name|}`: what a DOT reader sees. -/
theorem C29_metamodel_nodes_recognised (all : List MCls) (base : List Str) (hall : ∀ c ∈ all, ClsOk c)
    (text : Str) (he : mmDot all base = some text) (c : MCls) (hc : c ∈ all)
    (h1 : c.fqn ∉ base ++ [cl!"OBJECT"]) (h2 : c.name ∉ base ++ [cl!"OBJECT"]) (hm : c.typ ≠ .match) :
    ∃ evs, recognise text = some evs ∧
      Ev.node (.num (digits c.id)) [(Tok.id cl!"label",
        .qstr (recordLabel (if c.typ = .abstract then '*' :: c.name else c.name) (dotClassAttrs c)))] ∈ evs ∧
      recOk (recordLabel (if c.typ = .abstract then '*' :: c.name else c.name) (dotClassAttrs c)) = true := by
  obtain ⟨ss, _, _, hrec, _, hn⟩ := C29_metamodel_dot_valid all base hall text he
  obtain ⟨hmem, hrecok⟩ := hn c hc h1 h2 hm
  refine ⟨_, hrec, ?_, hrecok⟩
  apply List.mem_append_right
  apply List.mem_flatMap.mpr
  exact ⟨_, hmem, by simp [stmtEvs]⟩

/-- **One label per class.** Every node statement of the metamodel export is the node of a class of the
table, and when the ids identify the classes (`id(cls)`) a node id never carries two different labels:
a class that is written twice (see `C29_metamodel_nodes_nodup_false`) is written identically. -/
theorem C29_metamodel_node_labels_unique (all : List MCls) (base : List Str) (ss : List Stmt)
    (hs : mmDotStmts all base = some ss) (hn : (all.map (·.id)).Nodup) :
    (∀ m i n a, Stmt.node m i n a ∈ ss → ∃ c ∈ all, c.typ ≠ .match ∧ i = c.id ∧
        n = (if c.typ = .abstract then '*' :: c.name else c.name) ∧ a = dotClassAttrs c) ∧
      ∀ m m' i n a n' a', Stmt.node m i n a ∈ ss → Stmt.node m' i n' a' ∈ ss → m = m' ∧ n = n' ∧ a = a' := by
  constructor
  · intro m i n a h
    obtain ⟨c, hc, hm, _, r⟩ := mmDotStmts_node hs h
    exact ⟨c, hc, hm, r⟩
  · intro m m' i n a n' a' h h'
    obtain ⟨c, hc, _, e1, e2, e3, e4⟩ := mmDotStmts_node hs h
    obtain ⟨d, hd, _, f1, f2, f3, f4⟩ := mmDotStmts_node hs h'
    have : c = d := eq_of_id_eq hn hc hd (e2 ▸ f2 ▸ rfl)
    subst this
    exact ⟨e1.trans f1.symm, e3.trans f3.symm, e4.trans f4.symm⟩

/-- "No class has two nodes" is **false** for the metamodel export as it is: a class outside the walked
classes that is not a match rule (`OBJECT`, abstract) is rendered once per attribute that refers to it. -/
theorem C29_metamodel_nodes_nodup_false :
    let obj : MCls := { id := 2, name := cl!"OBJECT", fqn := cl!"OBJECT", typ := .abstract, attrs := [], inhBy := [],
                        matchStr := [] }
    let mk (n : Str) : MAttr := { name := n, clsId := 2, clsName := cl!"OBJECT", clsFqn := cl!"OBJECT", mult := cl!"1",
                                  cont := false, ref := true }
    let a : MCls := { id := 1, name := cl!"A", fqn := cl!"A", typ := .common, attrs := [mk cl!"x", mk cl!"y"], inhBy := [],
                      matchStr := [] }
    (mmDotStmts [a, obj] []).map nodeIds = some [1, 2, 2] := by
  decide +kernel

/-- **No class has two nodes** — partial: it needs `NoOuterClass` (no attribute of a walked class points
to a non-match class whose fqn is a base type name, in textX: no attribute refers to `OBJECT`); without
it the statement is false (`C29_metamodel_nodes_nodup_false`).  Ids identify the classes. -/
theorem C29_metamodel_nodes_nodup_partial (all : List MCls) (base : List Str) (ss : List Stmt)
    (hs : mmDotStmts all base = some ss) (hn : (all.map (·.id)).Nodup)
    (ho : NoOuterClass all (base ++ [cl!"OBJECT"])) : (nodeIds ss).Nodup :=
  mmDotStmts_nodup hs hn ho

/-- **Edges connect classes that have nodes.** On a closed class table every end of a link or
inheritance edge of the metamodel DOT export is the id of a class of the table, and that class has its
node statement unless it is a match rule or named like a base type (these are shown in the match table /
not at all, Graphviz then draws an implicit node). -/
theorem C29_metamodel_edges_have_nodes (all : List MCls) (base : List Str) (hall : ∀ c ∈ all, ClsOk c)
    (h : ∀ c ∈ all, (∀ a ∈ c.attrs, (findCls all a.clsId).isSome) ∧ ∀ i ∈ c.inhBy, (findCls all i).isSome) :
    ∃ text ss, mmDot all base = some text ∧ mmDotStmts all base = some ss ∧
      ∀ i ∈ mmEdgeEnds ss, ∃ c ∈ all, c.id = i ∧
        (c.fqn ∉ base ++ [cl!"OBJECT"] → c.name ∉ base ++ [cl!"OBJECT"] → c.typ ≠ .match → i ∈ nodeIds ss) := by
  obtain ⟨⟨text, ht⟩, _⟩ := C29_metamodel_total all base h
  obtain ⟨ss, hss, _, _, _, hn⟩ := C29_metamodel_dot_valid all base hall text ht
  refine ⟨text, ss, ht, hss, ?_⟩
  intro i hi
  obtain ⟨c, hc, rfl⟩ := mmDotStmts_ends hss (fun c hc => (h c hc).1) i hi
  refine ⟨c, hc, rfl, fun h1 h2 hm => ?_⟩
  have := (hn c hc h1 h2 hm).1
  simp only [nodeIds, List.mem_filterMap]
  exact ⟨_, this, rfl⟩

/-- no class has two nodes, with executable hypotheses (the driver reports for every compared metamodel
whether it lies in this domain; the harness then checks the node statements of the real export) -/
theorem C29_metamodel_nodup_checked (all : List MCls) (base : List Str) (h1 : mmClosedB all = true)
    (h2 : mmIdsDistinctB all = true) (h3 : noOuterClassB all (base ++ [cl!"OBJECT"]) = true) :
    ∃ ss, mmDotStmts all base = some ss ∧ (nodeIds ss).Nodup := by
  obtain ⟨⟨text, ht⟩, _⟩ := C29_metamodel_total all base (mmClosed_of_B h1)
  unfold mmDot at ht
  cases hs : mmDotStmts all base with
  | none => simp [hs] at ht
  | some ss => exact ⟨ss, rfl, mmDotStmts_nodup hs (nodup_of_distinctB h2) (noOuterClass_of_B h3)⟩

/-- metamodel DOT export, end to end with executable hypotheses (evaluated by the driver on every
compared case): a text **is produced**, it is valid DOT, every class that is not a match rule / base
type is recognised as a node with a well-formed record label, and a node id has one label only. -/
theorem C29_metamodel_dot_export_checked (all : List MCls) (base : List Str) (h1 : all.all clsOkB = true)
    (h2 : mmClosedB all = true) (h3 : mmIdsDistinctB all = true) :
    ∃ text ss evs, mmDot all base = some text ∧ text = renderDoc ss ∧ recognise text = some evs ∧
      evs = headerEvs ++ ss.flatMap stmtEvs ∧
      (∀ c ∈ all, c.fqn ∉ base ++ [cl!"OBJECT"] → c.name ∉ base ++ [cl!"OBJECT"] → c.typ ≠ .match →
        ∃ n a, Ev.node (.num (digits c.id)) [(Tok.id cl!"label", .qstr (recordLabel n a))] ∈ evs ∧
          recOk (recordLabel n a) = true) ∧
      ∀ m m' i n a n' a', Stmt.node m i n a ∈ ss → Stmt.node m' i n' a' ∈ ss → m = m' ∧ n = n' ∧ a = a' := by
  have hall : ∀ c ∈ all, ClsOk c := fun c hc => clsOk_of_B (List.all_eq_true.mp h1 c hc)
  obtain ⟨⟨text, ht⟩, _⟩ := C29_metamodel_total all base (mmClosed_of_B h2)
  obtain ⟨ss, hss, e1, e2, _, _⟩ := C29_metamodel_dot_valid all base hall text ht
  refine ⟨text, ss, _, ht, e1, e2, rfl, ?_, ?_⟩
  · intro c hc a b d
    obtain ⟨evs, r1, r2, r3⟩ := C29_metamodel_nodes_recognised all base hall text ht c hc a b d
    have ee : evs = headerEvs ++ ss.flatMap stmtEvs := (Option.some.inj (e2.symm.trans r1)).symm
    exact ⟨_, _, ee ▸ r2, r3⟩
  · exact (C29_metamodel_node_labels_unique all base ss hss (nodup_of_distinctB h3)).2

/-- PlantUML export, end to end with executable hypotheses: a text **is produced**, the line recogniser
accepts it and every common / abstract class is declared. -/
theorem C29_plantuml_export_checked (all : List MCls) (base : List Str) (lt : Option Str)
    (h1 : all.all pclsOkB = true) (h2 : linetypeOkB lt = true) (h3 : mmClosedB all = true) :
    ∃ text declared, mmPuml all base lt = some text ∧ pumlRecognise text = some declared ∧
      ∀ c ∈ all, c.fqn ∉ base ++ [cl!"OBJECT"] → c.name ∉ base ++ [cl!"OBJECT"] → c.typ ≠ .match →
        c.fqn ∈ declared := by
  obtain ⟨_, hp⟩ := C29_metamodel_total all base (mmClosed_of_B h3)
  obtain ⟨text, ht⟩ := hp lt
  obtain ⟨declared, r1, r2⟩ := C29_plantuml_checked all base lt h1 h2 text ht
  exact ⟨text, declared, ht, r1, r2⟩

/-- the same with executable hypotheses (evaluated by the driver on every compared case):
a text is produced whenever the argument check passes -/
theorem C29_export_call_checked (h : Heap) (a : Args) (roots : List Root) (h0 : planArgs a = some roots)
    (h1 : heapOkB h = true) (h2 : closedB h roots = true) :
    ∃ text ss, exportCall h a = some text ∧ text = renderDoc ss ∧
      recognise text = some (headerEvs ++ ss.flatMap stmtEvs) ∧
      (nodeIds ss).Nodup ∧ ∀ i, ReachFrom h (requested a) i → i ∈ nodeIds ss := by
  obtain ⟨text, ss, e1, e2, e3, e4, e5⟩ := C29_model_export_checked h roots h1 h2
  refine ⟨text, ss, by simp [exportCall, h0, e1], e2, e3, e4, ?_⟩
  exact fun i hi => e5 i (reach_of_reachFrom (C29_call_covers a roots h0) hi)

/-- The pinned behaviour (no escaping of `name`) violates the property: an object named
`a"b` yields a text the recogniser rejects, and an object named `a{b` yields a label that
is not a well-formed record. -/
theorem C29_unescaped_false :
    recognise (renderDoc [.node false 1 cl!"a\"b:T" []]) = none ∧
      recOk (recordLabel cl!"a{b:T" []) = false := by
  constructor
  · decide +kernel
  · decide

/-! ## non-vacuity -/

example : dotEscape cl!"a\"b{|}\n\\" = cl!"a\\\"b\\{\\|\\}\\\\n\\\\" := by decide

/-- a model without imports under an ImportURI provider: empty repository, the model itself is exported -/
example : planArgs { model := some 1, repo := none, own := some [] } = some [.plain 1, .plain 1] := by decide

/-- an explicit empty `repo` next to a model that carries no repository -/
example : planArgs { model := some 1, repo := some [], own := none } = some [.plain 1] := by decide

example : planArgs { model := some 1, repo := some [{ fname := cl!"f", kids := [], id := 1 }], own := none } = none := by
  decide

example : exportModel
    [{ id := 1, cls := cl!"M", attrs := some [
        { name := cl!"name", cont := false, req := true, val := .one (.str cl!"a\"b") },
        { name := cl!"xs", cont := true, req := true, val := .many [.obj 2, .prim (.str cl!"q}")] }] },
     { id := 2, cls := cl!"S", attrs := none }] [.plain 1] =
    some (renderDoc [.edgeObj 1 2 cl!"xs:0" true, .node false 2 cl!":S" [],
      .edgePrim 1 cl!"q\\}:str" cl!"xs:1" true, .node false 1 cl!"a\\\"b:M" []]) := by
  decide +kernel

/-- the hypotheses of `C29_metamodel_dot_export_checked` / `C29_plantuml_export_checked` are met by a
metamodel with a reference, an inheritance and a match rule -/
def exampleMM : List MCls :=
  [{ id := 1, name := cl!"A", fqn := cl!"A", typ := .common,
     attrs := [{ name := cl!"b", clsId := 2, clsName := cl!"B", clsFqn := cl!"B", mult := cl!"0..*", cont := true, ref := true },
               { name := cl!"k", clsId := 3, clsName := cl!"K", clsFqn := cl!"K", mult := cl!"1", cont := true, ref := false }],
     inhBy := [], matchStr := [] },
   { id := 2, name := cl!"B", fqn := cl!"B", typ := .abstract, attrs := [], inhBy := [1], matchStr := [] },
   { id := 3, name := cl!"K", fqn := cl!"K", typ := .match, attrs := [], inhBy := [], matchStr := cl!"'<'|\"}\"" }]

example : exampleMM.all clsOkB = true ∧ mmClosedB exampleMM = true ∧ mmIdsDistinctB exampleMM = true ∧
    exampleMM.all pclsOkB = true ∧ linetypeOkB (some cl!"ortho") = true ∧
    noOuterClassB exampleMM [cl!"OBJECT"] = true ∧ (mmDotStmts exampleMM []).map nodeIds = some [1, 2] ∧
    (mmDotStmts exampleMM []).map mmEdgeEnds = some [1, 2, 2, 1] := by decide +kernel

/-- `MMClosed` / the hypothesis of `C29_metamodel_total` can fail, and then no text is produced:
a dangling attribute class, a dangling `inh_by` entry -/
example : mmDot
    [{ id := 1, name := cl!"A", fqn := cl!"A", typ := .common,
       attrs := [{ name := cl!"b", clsId := 7, clsName := cl!"B", clsFqn := cl!"B", mult := cl!"1", cont := true, ref := true }],
       inhBy := [], matchStr := [] }] [] = none := by decide +kernel

example : mmPuml [{ id := 1, name := cl!"A", fqn := cl!"A", typ := .abstract, attrs := [], inhBy := [7], matchStr := [] }] []
    none = none := by decide +kernel

/-- `NoOuterClass` holds for the example metamodel (no attribute refers to `OBJECT`) -/
example : NoOuterClass exampleMM [cl!"OBJECT"] := by
  intro c hc a ha d hf hd
  simp only [mmClasses, exampleMM] at hc
  have hd' : d.fqn = cl!"OBJECT" := by simpa using hd
  have hmem := findCls_mem hf
  simp only [exampleMM, List.mem_cons, List.not_mem_nil, or_false] at hmem
  rcases hmem with rfl | rfl | rfl <;> simp at hd'

end Dot
