import TextxVerif.Export
