import TextxVerif.Obj.LineCol
import TextxVerif.Obj.Build
namespace Obj
end Obj
