import TextxVerif.Proofs.ObjLineCol
import TextxVerif.Proofs.ObjSpanBuild
import TextxVerif.Props.C05
import TextxVerif.Proofs.ObjRefs
/-!
# C06 — object source spans and locations are exact

Models: `Obj.posToLineCol` mirrors Arpeggio's `Parser.pos_to_linecol` (line-end list,
`bisect_left` loop, column arithmetic); `Obj.getLocation` mirrors `textx.model.get_location`;
`PT.pos` / `PT.posEnd` mirror `NonTerminal.position` / `position_end`; `Obj.build`
(`process_node`) stores them as `_tx_position` / `_tx_position_end` of the object it creates
for a common-rule node.

The Arpeggio interpreter is not modelled here.  What it contributes is the hypothesis
`PT.WF`: the terminals of the parse tree are non-empty, ordered and non-overlapping, and no
`NonTerminal` is empty (`PT.wfB` is its executable form; the harness evaluates it on the real
parse tree of every generated case).  "Matched character" = character of a terminal retained
in the parse tree.
-/
namespace Obj

/-- `bisect_left` on a sorted list counts the elements below the probe. -/
theorem C06_bisect (xs : List Nat) (p : Nat) (hs : xs.Pairwise (· ≤ ·)) :
    bisectLeft xs p = (xs.filter (· < p)).length := by
  have h := bisectLeft_spec xs p hs
  exact (count_lt_of_partition xs p _ h.1 h.2.1 h.2.2).symm

/-- **Line / column.**  For every text and every position: the line is one more than the number
of `\n` before the position; the column is one more than the distance to the start of that line,
the start being the position right after the last `\n` before `pos` (or 0) — there is no `\n`
between start and `pos`.  (Python's column arithmetic never goes negative.) -/
theorem C06_linecol (s : List Char) (pos : Nat) :
    (posToLineCol s pos).1 = 1 + (s.take pos).count '\n' ∧
    ∃ start : Nat, start ≤ pos ∧ (posToLineCol s pos).2 = ((pos - start + 1 : Nat) : Int) ∧
      (start = 0 ∨ s[start - 1]? = some '\n') ∧ ∀ i, start ≤ i → i < pos → s[i]? ≠ some '\n' :=
  posToLineCol_spec s pos

/-- (line, column) determines the position. -/
theorem C06_linecol_inj (s : List Char) (p q : Nat) (h : posToLineCol s p = posToLineCol s q) : p = q :=
  posToLineCol_inj s p q h

/-- the line number never decreases along the text -/
theorem C06_line_monotone (s : List Char) (p q : Nat) (h : p ≤ q) :
    (posToLineCol s p).1 ≤ (posToLineCol s q).1 := by
  rw [(C06_linecol s p).1, (C06_linecol s q).1]
  have := (List.take_sublist_take_left (l := s) h).count_le '\n'
  omega

theorem count_take_lt_of_newline (s : List Char) (p i q : Nat) (hpi : p ≤ i) (hiq : i < q)
    (hi : s[i]? = some '\n') : (s.take p).count '\n' < (s.take q).count '\n' := by
  have h1 := (List.take_sublist_take_left (l := s) hpi).count_le '\n'
  have h2 := (List.take_sublist_take_left (l := s) (show i + 1 ≤ q from hiq)).count_le '\n'
  have h3 : (s.take (i + 1)).count '\n' = (s.take i).count '\n' + 1 := by
    rw [List.take_add_one, hi]; simp
  omega

/-- on one line the column grows strictly with the position -/
theorem C06_col_monotone (s : List Char) (p q : Nat) (h : p < q)
    (hl : (posToLineCol s p).1 = (posToLineCol s q).1) :
    (posToLineCol s p).2 < (posToLineCol s q).2 := by
  obtain ⟨lp, sp, hsp, cp, bp, np⟩ := C06_linecol s p
  obtain ⟨lq, sq, hsq, cq, bq, nq⟩ := C06_linecol s q
  have hc : (s.take p).count '\n' = (s.take q).count '\n' := by omega
  have hno : ∀ i, p ≤ i → i < q → s[i]? ≠ some '\n' := by
    intro i h1 h2 h3
    have := count_take_lt_of_newline s p i q h1 h2 h3
    omega
  have hle : sq ≤ sp := by
    rcases bq with h0 | hnl
    · omega
    · by_cases hlt : sq ≤ sp
      · exact hlt
      · exfalso
        by_cases h1 : sq - 1 < p
        · exact np (sq - 1) (by omega) h1 hnl
        · exact hno (sq - 1) (by omega) (by omega) hnl
  rw [cp, cq]
  omega

/-- **(line, column) is strictly monotone in the position** (lexicographically): a later position
is on a later line, or on the same line at a larger column — so sorting diagnostics or objects by
`(line, col)` is sorting by text position, for every text (any mix of `\n`, `\r`, no final newline). -/
theorem C06_linecol_strict_mono (s : List Char) (p q : Nat) (h : p < q) :
    (posToLineCol s p).1 < (posToLineCol s q).1 ∨
      ((posToLineCol s p).1 = (posToLineCol s q).1 ∧ (posToLineCol s p).2 < (posToLineCol s q).2) := by
  rcases Nat.lt_or_eq_of_le (C06_line_monotone s p q (Nat.le_of_lt h)) with hlt | heq
  · exact Or.inl hlt
  · exact Or.inr ⟨heq, C06_col_monotone s p q h heq⟩

example : posToLineCol "ab\ncd".toList 1 = (1, 2) ∧ posToLineCol "ab\ncd".toList 2 = (1, 3) ∧
    posToLineCol "ab\ncd".toList 3 = (2, 1) := by decide

/-- lines and columns are 1-based and bounded by the position: `1 ≤ line ≤ pos + 1`, `1 ≤ col ≤ pos + 1` -/
theorem C06_linecol_bounds (s : List Char) (pos : Nat) :
    1 ≤ (posToLineCol s pos).1 ∧ (posToLineCol s pos).1 ≤ pos + 1 ∧
      1 ≤ (posToLineCol s pos).2 ∧ (posToLineCol s pos).2 ≤ ((pos + 1 : Nat) : Int) := by
  obtain ⟨l, st, hst, c, _, _⟩ := C06_linecol s pos
  have h1 : (s.take pos).count '\n' ≤ (s.take pos).length := List.count_le_length
  have h2 : (s.take pos).length ≤ pos := by rw [List.length_take]; omega
  rw [l, c]
  refine ⟨by omega, by omega, by omega, by omega⟩

/-- the first character of every text is at line 1, column 1 -/
theorem C06_linecol_origin (s : List Char) : posToLineCol s 0 = (1, 1) := by
  obtain ⟨l, st, hst, c, _, _⟩ := C06_linecol s 0
  have h0 : st = 0 := by omega
  subst h0
  have hl : (posToLineCol s 0).1 = 1 := by rw [l]; simp
  have hc : (posToLineCol s 0).2 = 1 := by rw [c]; simp
  exact Prod.ext hl hc

/-- the position right after a `\\n` is column 1 of the next line -/
theorem C06_linecol_after_newline (s : List Char) (p : Nat) (h : s[p]? = some '\n') :
    posToLineCol s (p + 1) = ((posToLineCol s p).1 + 1, 1) := by
  obtain ⟨l, st, hst, c, _, n⟩ := C06_linecol s (p + 1)
  have hs : st = p + 1 := by
    by_cases hle : st ≤ p
    · exact absurd h (n p hle (by omega))
    · omega
  have hl : (posToLineCol s (p + 1)).1 = (posToLineCol s p).1 + 1 := by
    rw [l, (C06_linecol s p).1, List.take_add_one, h]; simp; omega
  have hc : (posToLineCol s (p + 1)).2 = 1 := by rw [c, hs]; simp
  exact Prod.ext hl hc

/-- any other step (also past the end of the text) stays on the line and advances the column by one -/
theorem C06_linecol_next (s : List Char) (p : Nat) (h : s[p]? ≠ some '\n') :
    posToLineCol s (p + 1) = ((posToLineCol s p).1, (posToLineCol s p).2 + 1) := by
  obtain ⟨l', st', hst', c', b', n'⟩ := C06_linecol s (p + 1)
  obtain ⟨l, st, hst, c, b, n⟩ := C06_linecol s p
  have hs : st' = st := by
    have h1 : st' ≤ p := by
      rcases b' with h0 | hnl
      · omega
      · by_cases hle : st' ≤ p
        · exact hle
        · have : st' - 1 = p := by omega
          rw [this] at hnl; exact absurd hnl h
    by_cases hlt : st' < st
    · rcases b with h0 | hnl
      · omega
      · exact absurd hnl (n' (st - 1) (by omega) (by omega))
    · by_cases hgt : st < st'
      · rcases b' with h0 | hnl
        · omega
        · exact absurd hnl (n (st' - 1) (by omega) (by omega))
      · omega
  have hcnt : (s.take (p + 1)).count '\n' = (s.take p).count '\n' := by
    rw [List.take_add_one]
    cases hp : s[p]? with
    | none => simp
    | some ch =>
      have : ch ≠ '\n' := fun e => h (by rw [hp, e])
      simp [this]
  have hl : (posToLineCol s (p + 1)).1 = (posToLineCol s p).1 := by rw [l', l, hcnt]
  have hc : (posToLineCol s (p + 1)).2 = (posToLineCol s p).2 + 1 := by rw [c', c, hs]; omega
  exact Prod.ext hl hc

/-- **Declarative characterisation.** `pos_to_linecol` is the *only* function that starts at
(1, 1), moves to (line + 1, 1) after a `\n` and to (line, col + 1) after anything else — the
three equations above pin it down for every text and every position. -/
theorem C06_linecol_unique (s : List Char) (f : Nat → Nat × Int) (h0 : f 0 = (1, 1))
    (hnl : ∀ p, s[p]? = some '\n' → f (p + 1) = ((f p).1 + 1, 1))
    (hst : ∀ p, s[p]? ≠ some '\n' → f (p + 1) = ((f p).1, (f p).2 + 1)) (p : Nat) :
    f p = posToLineCol s p := by
  induction p with
  | zero => rw [h0, C06_linecol_origin]
  | succ p ih =>
    by_cases h : s[p]? = some '\n'
    · rw [hnl p h, C06_linecol_after_newline s p h, ih]
    · rw [hst p h, C06_linecol_next s p h, ih]

/-- **Span of a parse-tree node.**  In a well-formed tree the span of every node starts at its
first terminal and ends right after its last one, and is not empty. -/
theorem C06_tree_span (t : PT) (h : t.WF) :
    t.pos = firstPos t.leaves ∧ t.posEnd = lastEnd t.leaves ∧ t.pos < t.posEnd :=
  ⟨(PT.span_eq t h.1).1, (PT.span_eq t h.1).2, h.nonempty⟩

/-- sub-trees are well-formed and lie inside the tree -/
theorem C06_tree_nesting (s t : PT) (hs : PT.Sub s t) (h : t.WF) : s.WF ∧ t.pos ≤ s.pos ∧ s.posEnd ≤ t.posEnd :=
  h.sub hs

/-- the children of a node are ordered and do not overlap -/
theorem C06_tree_siblings (k : Kind) (ks : List PT) (h : (PT.nt k ks).WF) :
    ks.Pairwise (fun a b => a.posEnd ≤ b.pos) :=
  h.kids_ordered

theorem build_span_post (tr : Heap → Nat → Bool) (mm : Nat → List MetaAttr) (root : PT) (v : Val) (s : St) (hwf : root.WF)
    (h : build tr mm root = some (v, s)) : Post root St.empty s root.pos root.posEnd := by
  refine processNode_span tr mm root root St.empty v s hwf (PT.Sub.refl root) Inv.empty ?_ ?_ h
  · refine ⟨?_, ?_, ?_, ?_⟩ <;> simp [St.empty, contIds, spanOf, Heap.get]
  · refine ⟨?_, ?_⟩ <;> simp [St.empty]

/-- **Object spans are exact.**  In the model built from a well-formed parse tree, every object
was created for a common-rule node of the tree and its `_tx_position` / `_tx_position_end` are
the start of that node's first terminal and the end of its last terminal; the slice is not
empty and lies inside the span of the whole tree. -/
theorem C06_span (tr : Heap → Nat → Bool) (mm : Nat → List MetaAttr) (root : PT) (v : Val) (s : St) (hwf : root.WF)
    (h : build tr mm root = some (v, s)) (x : Nat) (o : HObj) (hx : s.heap.get x = some o) :
    ∃ cls ks, PT.Sub (.nt (.obj cls) ks) root ∧
      o.pos = firstPos (PT.nt (.obj cls) ks).leaves ∧ o.posEnd = lastEnd (PT.nt (.obj cls) ks).leaves ∧
      o.pos < o.posEnd ∧ root.pos ≤ o.pos ∧ o.posEnd ≤ root.posEnd := by
  have post := build_span_post tr mm root v s hwf h
  have hsp : spanOf s.heap x = some (o.pos, o.posEnd) := by simp [spanOf, hx]
  obtain ⟨cls, ks, hsub, heq⟩ := post.si.exact x _ hsp
  have hn := hwf.sub hsub
  have hs := C06_tree_span _ hn.1
  simp only [Prod.mk.injEq] at heq
  refine ⟨cls, ks, hsub, ?_, ?_, ?_, ?_, ?_⟩
  · rw [heq.1]; exact hs.1
  · rw [heq.2]; exact hs.2.1
  · rw [heq.1, heq.2]; exact hs.2.2
  · rw [heq.1]; exact hn.2.1
  · rw [heq.2]; exact hn.2.2

/-- **Nesting.**  The slice of an object held by a containment attribute lies inside the slice
of its container. -/
theorem C06_nesting (tr : Heap → Nat → Bool) (mm : Nat → List MetaAttr) (root : PT) (v : Val) (s : St) (hwf : root.WF)
    (h : build tr mm root = some (v, s)) (p c : Nat) (op oc : HObj) (hc : c ∈ contIds s.heap p)
    (hp : s.heap.get p = some op) (hcg : s.heap.get c = some oc) :
    op.pos ≤ oc.pos ∧ oc.posEnd ≤ op.posEnd := by
  have post := build_span_post tr mm root v s hwf h
  have := post.si.nest p c (op.pos, op.posEnd) (oc.pos, oc.posEnd) hc (by simp [spanOf, hp]) (by simp [spanOf, hcg])
  simpa using this

/-- **Objects of one list attribute are ordered and do not overlap**: for a containment
attribute holding the list `vs`, each object ends before the next one starts (in fact: before
every later one). -/
theorem C06_siblings_ordered (tr : Heap → Nat → Bool) (mm : Nat → List MetaAttr) (root : PT) (v : Val) (s : St) (hwf : root.WF)
    (h : build tr mm root = some (v, s)) (p : Nat) (o : HObj) (m : MetaAttr) (vs : List Val)
    (hp : s.heap.get p = some o) (hm : (m, AVal.many vs) ∈ o.attrs) (hcont : m.cont = true) :
    (vs.filterMap Val.objId?).Pairwise
      (fun a b => ∀ oa ob, s.heap.get a = some oa → s.heap.get b = some ob → oa.posEnd ≤ ob.pos) := by
  have post := build_span_post tr mm root v s hwf h
  have hincr := post.si.incr p o m vs hp hm hcont
  have hmem : ∀ e ∈ vs.filterMap Val.objId?, e ∈ contIds s.heap p := by
    intro e he
    simp only [contIds, hp, HObj.contIds]
    exact objIds_sub_contIdsL hm hcont e (by simpa [AVal.objIds] using he)
  refine List.Pairwise.imp_of_mem ?_ hincr
  intro a b ha hb hab oa ob hoa hob
  have := post.si.sib p a b (oa.pos, oa.posEnd) (ob.pos, ob.posEnd) (hmem a ha) (hmem b hb) hab
    (by simp [spanOf, hoa]) (by simp [spanOf, hob])
  simpa using this

/-- **get_location.**  For an object `x` of a tree-shaped heap that is contained in the parentless
object `r` (the model), `get_location(x)` is: line and column of `_tx_position` in the input of
`r`'s parser, `nchar = _tx_position_end - _tx_position`, and the file name of `r`. -/
theorem C06_location {h : Heap} (T : TreeHeap h) (input : Nat → List Char) (file : Nat → Option Nat)
    (r x fuel : Nat) (o : HObj) (hr : parentOf h r = none) (hreach : Reach h (fun _ => true) r x)
    (hx : h.get x = some o) (hf : x < fuel) :
    getLocation h input file fuel x =
      some { line := (posToLineCol (input r) o.pos).1, col := (posToLineCol (input r) o.pos).2,
             nchar := (o.posEnd : Int) - (o.pos : Int), file := file r } := by
  unfold getLocation
  rw [getModel_of_reach T hr hreach fuel hf, hx]

/-- … and for the heap built from a well-formed parse tree `nchar` is the (positive) length of
the object's slice. -/
theorem C06_location_nchar (tr : Heap → Nat → Bool) (mm : Nat → List MetaAttr) (root : PT) (v : Val) (s : St) (hwf : root.WF)
    (h : build tr mm root = some (v, s)) (x : Nat) (o : HObj) (hx : s.heap.get x = some o) :
    (o.posEnd : Int) - (o.pos : Int) = ((o.posEnd - o.pos : Nat) : Int) ∧ 0 < o.posEnd - o.pos := by
  obtain ⟨_, _, _, _, _, hlt, _, _⟩ := C06_span tr mm root v s hwf h x o hx
  omega

/-- **The slice is a slice of the input.**  `PT.wfB n` is what the harness checks on every real
parse tree (`WF` plus: every terminal ends inside an input of length `n`).  Then every object of the
built model ends inside the input, and `input[_tx_position : _tx_position_end]` has exactly
`_tx_position_end - _tx_position` (> 0) characters. -/
theorem C06_span_in_input (tr : Heap → Nat → Bool) (mm : Nat → List MetaAttr) (root : PT) (v : Val) (s : St) (n : Nat)
    (hwf : root.wfB n = true) (h : build tr mm root = some (v, s)) (x : Nat) (o : HObj)
    (hx : s.heap.get x = some o) (input : List Char) (hlen : input.length = n) :
    o.posEnd ≤ n ∧ o.pos < o.posEnd ∧
      ((input.drop o.pos).take (o.posEnd - o.pos)).length = o.posEnd - o.pos := by
  obtain ⟨hW, hend⟩ := PT.wfB_WF hwf
  obtain ⟨_, _, _, _, _, hlt, _, hle⟩ := C06_span tr mm root v s hW h x o hx
  refine ⟨by omega, hlt, ?_⟩
  rw [List.length_take, List.length_drop, hlen]
  omega

/-- **get_location, end to end.**  For the model built from a parse tree that passes `wfB`
against the model's input — before or after reference resolution (`RefUpdates`) — and every
object `x` contained in the model: `get_location(x)` succeeds and reports
* the line = 1 + number of `\n` before `_tx_position`, the column = 1 + distance from the start of
  that line (the position after the last `\n` before `_tx_position`, or 0),
* `nchar` = the length of the slice `input[_tx_position : _tx_position_end]`, positive,
* the file name of the model root,
where `_tx_position` / `_tx_position_end` are the start of the first and the end of the last
terminal of the common-rule node the object was created for, and the slice ends inside the input. -/
theorem C06_location_built (tr : Heap → Nat → Bool) (mm : Nat → List MetaAttr) (root : PT) (r : Nat) (s : St)
    (input : Nat → List Char) (file : Nat → Option Nat)
    (hwf : root.wfB (input r).length = true) (h : build tr mm root = some (.obj r, s))
    (h' : Heap) (hu : RefUpdates s.heap h')
    (x fuel : Nat) (o : HObj) (hreach : Reach h' (fun _ => true) r x) (hx : h'.get x = some o) (hf : x < fuel) :
    ∃ loc, getLocation h' input file fuel x = some loc ∧
      loc.line = 1 + ((input r).take o.pos).count '\n' ∧
      (∃ start : Nat, start ≤ o.pos ∧ loc.col = ((o.pos - start + 1 : Nat) : Int) ∧
        (start = 0 ∨ (input r)[start - 1]? = some '\n') ∧ ∀ i, start ≤ i → i < o.pos → (input r)[i]? ≠ some '\n') ∧
      loc.nchar = ((((input r).drop o.pos).take (o.posEnd - o.pos)).length : Int) ∧ 0 < loc.nchar ∧
      loc.file = file r ∧ o.posEnd ≤ (input r).length ∧
      ∃ cls ks, PT.Sub (.nt (.obj cls) ks) root ∧
        o.pos = firstPos (PT.nt (.obj cls) ks).leaves ∧ o.posEnd = lastEnd (PT.nt (.obj cls) ks).leaves := by
  have e := hu.same
  have T := (C05_build_tree tr mm root _ s h).1
  have T' := e.tree T
  have hr : parentOf h' r = none := by rw [e.parent]; exact (C05_parent tr mm root r s h).1
  -- the object of the heap before resolution has the same span
  have hsp := e.span x
  simp only [spanOf, hx, Option.map_some] at hsp
  cases hg : s.heap.get x with
  | none => rw [hg] at hsp; cases hsp
  | some o0 =>
    rw [hg] at hsp
    simp only [Option.map_some, Option.some.injEq, Prod.mk.injEq] at hsp
    obtain ⟨hW, _⟩ := PT.wfB_WF hwf
    obtain ⟨cls, ks, hsub, hfirst, hlast, _, _, _⟩ := C06_span tr mm root _ s hW h x o0 hg
    obtain ⟨hin, hlt, hslice⟩ := C06_span_in_input tr mm root _ s _ hwf h x o0 hg (input r) rfl
    rw [← hsp.1] at hfirst hlt hslice
    rw [← hsp.2] at hlast hin hlt hslice
    have hlc := C06_linecol (input r) o.pos
    refine ⟨_, C06_location T' input file r x fuel o hr hreach hx hf, hlc.1, hlc.2, ?_, ?_, rfl, hin,
      cls, ks, hsub, hfirst, hlast⟩
    · show (o.posEnd : Int) - (o.pos : Int) = _
      rw [hslice]; omega
    · show (0 : Int) < (o.posEnd : Int) - (o.pos : Int)
      omega

/-! ## non-vacuity: the model of `Props/C05.lean` with layout
text `"m  a  b\n c // x\n d"`-like positions: root 0..14, kids at 2, 4, 6, 8 -/
example : exTree.wfB 9 = true := by decide
example : exTree.WF := (PT.wfB_WF (n := 9) (by decide)).1
example : (exHeap.map fun o => (o.pos, o.posEnd)) = [(0, 9), (2, 5), (4, 5), (6, 7), (8, 9)] := by decide
example : posToLineCol "ab\ncd\r\n\nx".toList 4 = (2, 2) := by decide
example : posToLineCol "ab\ncd\r\n\nx".toList 9 = (4, 2) := by decide
example : getLocation exHeap (fun _ => "m a b\nc d".toList) (fun _ => some 7) 5 3
    = some { line := 2, col := 1, nchar := 1, file := some 7 } := by decide

/-! the hypotheses of `C06_location_built` on this model: the parse tree passes `wfB` against the input, object 3 is
contained in the root, also after a reference was stored (`exRefAttr` of `Props/C05.lean`) -/
example : exTree.wfB ("m a b\nc d".toList).length = true := by decide
example : Reach exHeap (fun _ => true) 0 2 :=
  Reach.down (c := 1) (by decide) rfl (Reach.down (c := 2) (by decide) rfl (Reach.here (by decide)))
example : RefUpdates exHeap (exHeap.updAttr 0 9 (fun _ => .one (.obj 0))) := .step 0 9 _ (.refl _) exRefAttr
example : getLocation (exHeap.updAttr 0 9 (fun _ => .one (.obj 0))) (fun _ => "m a b\nc d".toList) (fun _ => some 7) 5 3
    = some { line := 2, col := 1, nchar := 1, file := some 7 } := by decide

/-! several models in one heap (a model that imports another one): objects 0-1 belong to the model rooted at 0
(file 1, text `"\nitem a"`), objects 2-3 to the model rooted at 2 (no file name, text `"x\n\n item b"`); object 1
refers to object 3 (not a containment).  Each location uses the input and the file name of the object's own root. -/
def exTwo : Heap :=
  [ { cls := 2, parent := none, pos := 1, posEnd := 7, attrs := [(⟨0, true, true⟩, .many [.obj 1])] },
    { cls := 1, parent := some 0, pos := 1, posEnd := 7, attrs := [(⟨1, false, false⟩, .one (.obj 3))] },
    { cls := 2, parent := none, pos := 4, posEnd := 10, attrs := [(⟨0, true, true⟩, .many [.obj 3])] },
    { cls := 1, parent := some 2, pos := 4, posEnd := 10, attrs := [] } ]
def exTwoInput (r : Nat) : List Char := if r = 0 then "\nitem a".toList else "x\n\n item b".toList
def exTwoFile (r : Nat) : Option Nat := if r = 0 then some 1 else none
example : getLocation exTwo exTwoInput exTwoFile 5 1 = some { line := 2, col := 1, nchar := 6, file := some 1 } := by decide
example : getLocation exTwo exTwoInput exTwoFile 5 3 = some { line := 3, col := 2, nchar := 6, file := none } := by decide

end Obj
