import TextxVerif.Proofs.BaseTypes
import TextxVerif.Proofs.BaseTypesLine
import TextxVerif.Registry
/-!
# C04 — built-in base types convert text to values faithfully

Everything below is about the **generated** definitions: `Gen.Regexes.*` are
re-translated from `textx/lang.py` and `Gen.Procs.*` from
`textx/metamodel.py` on every check run (`harness/translate_re.py`), so a
changed regex or conversion lambda changes what these theorems talk about and
they are re-checked (the `*_shape` lemmas in `Proofs/BaseTypes.lean` break by
`rfl` when the structure changes).

`BaseTypes.tokenAt cc ty (p, text)` is one `attr=TYPE` match at a position whose
previous character is `p`: the regex match of Python's `re` (`Re.m`, head of the
list of successes) followed by the default conversion of the matched
terminal's rule.  `Reads cc ty p w rest v` says: at a position followed by
`w ++ rest` the type consumes exactly `w` and yields `v`.  `rest` is arbitrary
(further strings on the same line included); for numbers it must start with a
character that cannot continue a number (`NumBoundary`: not a word character,
not '.'), for BOOL with a non-word character.

`Py.Val.int lit` / `Py.Val.float lit` record the exact text handed to Python's
`int()` / `float()`; for ints the value is modelled too (`Py.intOf`,
`Py.strInt`) and `int(str(z)) = z` is proved; for floats equality of the value
rests on CPython's `float(repr(x)) == x`.
-/
namespace BaseTypes
open Re

/-- **STRING, regex level.** Any string without a trailing backslash, written between either quote
character with only that quote escaped, is matched by the generated STRING regex exactly up to its
closing quote — for every previous character and every continuation of the text. -/
theorem C04_string_match (cc : CharClasses) (q : Char) (hq : q = '"' ∨ q = '\'') (s : List Char)
    (hs : noTrailingBackslash s) (p : Option Char) (rest : List Char) :
    pyMatch cc Gen.Regexes.STRING p (encode q s ++ rest) = some (encode q s).length := by
  have h := (string_hd (cc := cc) q hq s hs p rest).pyMatch
  rw [STRING_shape, h]
  simp

/-- **STRING, conversion.** The generated conversion lambda gives back the original string. -/
theorem C04_string_value (q : Char) (hq : q = '"' ∨ q = '\'') (s : List Char) :
    Gen.Procs.STRING (encode q s) = .str s := proc_string q hq s

/-- **STRING.** `v=STRING` at a position followed by the encoded string reads exactly it and yields `s`. -/
theorem C04_string (cc : CharClasses) (q : Char) (hq : q = '"' ∨ q = '\'') (s : List Char)
    (hs : noTrailingBackslash s) (p : Option Char) (rest : List Char) :
    Reads cc .STRING p (encode q s) rest (.str s) := by
  refine ⟨some q, ?_⟩
  have h := string_hd (cc := cc) q hq s hs p rest
  rw [← STRING_shape] at h
  have := firstMatch_hd (conv := Gen.Procs.STRING) (alts := []) h (by simp [encode])
  rw [proc_string q hq s] at this
  exact this

/-- **A whole line.** `Model: v*=STRING;` on any number of such strings — each preceded by any
amount of whitespace (none included: strings may touch), followed by trailing whitespace — yields
exactly the original strings, in order. -/
theorem C04_string_line (cc : CharClasses) (items : List StrItem) (hitems : ∀ i ∈ items, i.WF)
    (tail : List Char) (htail : ∀ c ∈ tail, isWs c = true) :
    tokens cc .STRING (lineOf items tail) = .ok (items.map (fun i => Py.Val.str i.s)) := by
  have h := tokensLoop_line (cc := cc) items hitems tail htail (lineOf items tail).length
    (lineOf_length items tail) none []
  unfold tokens
  generalize tokensLoop cc .STRING (lineOf items tail).length (none, lineOf items tail) [] = r at h
  obtain ⟨vals, q, l⟩ := r
  simp at h
  simp [h.1, h.2]

/-- The hypothesis is needed: a string ending in a backslash swallows the next string of the line
(model and code agree on that; the property excludes it). -/
theorem C04_string_trailing_backslash_false :
    ¬ Reads asciiCC .STRING none (encode '"' ['\\']) [' ', '"', 'z', '"'] (.str ['\\']) := by
  intro ⟨q, h⟩
  have hc : tokenAt asciiCC .STRING (none, encode '"' ['\\'] ++ [' ', '"', 'z', '"']) =
      some (.str ['"', ' '], (some '"', ['z', '"'])) := by decide +kernel
  rw [hc] at h
  simp at h

/-- **INT / NUMBER on int literals** (`[-+]?[0-9]+`, e.g. `+7`, `007`): INT reads the whole literal,
STRICTFLOAT has no match at all, so NUMBER takes its INT branch on the whole literal. -/
theorem C04_int_lit (cc : CharClasses) (hcc : Sane cc) (i : IntLit) (hi : i.WF) (p : Option Char)
    (rest : List Char) (hb : NumBoundary cc rest) :
    Reads cc .INT p i.text rest (.int i.text) ∧ Reads cc .NUMBER p i.text rest (.int i.text) := by
  have hstop : Stops asciiDigit rest := by
    intro c hc
    cases hd : asciiDigit c with
    | false => rfl
    | true =>
      have := hcc.digit_word c (hcc.ascii_digit c hd)
      simp [(hb c hc).1] at this
  obtain ⟨q, h⟩ := int_hd (cc := cc) i hi rest hstop p
  rw [← INT_shape] at h
  have hne : i.text ≠ [] := by simp [IntLit.text]
  have hint := firstMatch_hd (conv := Gen.Procs.INT) (alts := []) h hne
  have hfail := strict_fail_int hcc i hi rest hb p
  rw [← STRICTFLOAT_shape] at hfail
  refine ⟨⟨q, hint⟩, ⟨q, ?_⟩⟩
  show firstMatch cc _ [(Gen.Regexes.STRICTFLOAT, Gen.Procs.STRICTFLOAT), (Gen.Regexes.INT, Gen.Procs.INT)] = _
  rw [firstMatch_skip hfail]
  exact hint

/-- **Ints.** Any Python int `z` written in decimal (`str(z)`) parses through INT and through NUMBER
to the text `str(z)` handed to `int()`, and `int(str(z)) = z`. -/
theorem C04_int (cc : CharClasses) (hcc : Sane cc) (z : Int) (p : Option Char) (rest : List Char)
    (hb : NumBoundary cc rest) :
    Reads cc .INT p (Py.strInt z) rest (.int (Py.strInt z)) ∧
    Reads cc .NUMBER p (Py.strInt z) rest (.int (Py.strInt z)) ∧
    Py.intOf (Py.strInt z) = z := by
  have h := C04_int_lit cc hcc (intLitOf z) (intLitOf_wf z) p rest hb
  rw [intLitOf_text] at h
  exact ⟨h.1, h.2, intOf_strInt z⟩

/-- **Floats.** Every float literal (optional sign; `12.5`, `12.`, `.5` or `12`; optional exponent
`e`/`E`, optional sign, digits) is read completely by FLOAT; when it is written with a '.' or an
exponent also by STRICTFLOAT and by NUMBER (which then yields a float, not an int). -/
theorem C04_float (cc : CharClasses) (hcc : Sane cc) (f : FloatLit) (hf : f.WF cc) (p : Option Char)
    (rest : List Char) (hb : NumBoundary cc rest) :
    Reads cc .FLOAT p f.text rest (.float f.text) ∧
    (f.Strict → Reads cc .STRICTFLOAT p f.text rest (.float f.text) ∧
                Reads cc .NUMBER p f.text rest (.float f.text)) := by
  have hne : f.text ≠ [] := by
    have : f.mant.text ≠ [] := by cases f.mant <;> simp [Mant.text]
    simp [FloatLit.text, this]
  constructor
  · obtain ⟨q, h⟩ := float_hd hcc f hf rest hb p
    rw [← FLOAT_shape] at h
    exact ⟨q, firstMatch_hd (conv := Gen.Procs.FLOAT) (alts := []) h hne⟩
  · intro hstrict
    obtain ⟨q, h⟩ := strict_hd hcc f hf hstrict rest hb p
    rw [← STRICTFLOAT_shape] at h
    exact ⟨⟨q, firstMatch_hd (conv := Gen.Procs.STRICTFLOAT) (alts := []) h hne⟩,
           ⟨q, firstMatch_hd (conv := Gen.Procs.STRICTFLOAT) (alts := [(Gen.Regexes.INT, Gen.Procs.INT)]) h hne⟩⟩

/-- **BOOL.** Every spelling is read completely (when no word character follows) and converted to
the bool it stands for. -/
theorem C04_bool (cc : CharClasses) (hcc : Sane cc) (w : List Char) (b : Bool) (hw : (w, b) ∈ boolSpellings)
    (p : Option Char) (rest : List Char) (hrest : ∀ c, rest.head? = some c → cc.isWord c = false) :
    Reads cc .BOOL p w rest (.bool b) := by
  have he : isWordO cc (some 'e') = true := hcc.ascii_alpha_word 'e' (by decide)
  have h0 : isWordO cc (some '0') = true := hcc.digit_word _ (hcc.ascii_digit '0' (by decide))
  have h1 : isWordO cc (some '1') = true := hcc.digit_word _ (hcc.ascii_digit '1' (by decide))
  have hr : isWordO cc rest.head? = false := by
    cases rest with
    | nil => rfl
    | cons c t => exact hrest c rfl
  have key : ∃ q, Hd cc Gen.Regexes.BOOL (p, w ++ rest) (q, rest) ∧ Gen.Procs.BOOL w = .bool b ∧ w ≠ [] := by
    simp only [boolSpellings, List.mem_cons, Prod.mk.injEq, List.not_mem_nil, or_false] at hw
    rcases hw with ⟨hw, hb⟩ | ⟨hw, hb⟩ | ⟨hw, hb⟩ | ⟨hw, hb⟩ | ⟨hw, hb⟩ | ⟨hw, hb⟩ <;> subst hw <;> subst hb
    · exact ⟨some 'e', by simp [Hd, Gen.Regexes.BOOL, m, step, atBoundary, he, hr], by decide, by simp⟩
    · exact ⟨some 'e', by simp [Hd, Gen.Regexes.BOOL, m, step, atBoundary, he, hr], by decide, by simp⟩
    · exact ⟨some 'e', by simp [Hd, Gen.Regexes.BOOL, m, step, atBoundary, he, hr], by decide, by simp⟩
    · exact ⟨some 'e', by simp [Hd, Gen.Regexes.BOOL, m, step, atBoundary, he, hr], by decide, by simp⟩
    · exact ⟨some '0', by simp [Hd, Gen.Regexes.BOOL, m, step, atBoundary, h0, hr], by decide, by simp⟩
    · exact ⟨some '1', by simp [Hd, Gen.Regexes.BOOL, m, step, atBoundary, h1, hr], by decide, by simp⟩
  obtain ⟨q, h, hv, hne⟩ := key
  refine ⟨q, ?_⟩
  have := firstMatch_hd (conv := Gen.Procs.BOOL) (alts := []) h hne
  rw [hv] at this
  exact this

/-! ### whole lines of numbers and bools (`Model: v*=TYPE;`), and literals given as plain text

`litLine text items tail` is the text of the literals `items` (each preceded by its own whitespace)
followed by `tail`; `Separated items` says that every literal but the first has at least one
whitespace character before it (numbers and bools cannot touch: the regexes' own look-aheads).
Whitespace is Arpeggio's default set (space, tab, newline, carriage return). -/

/-- **INT alone needs less than a number boundary**: an int literal not followed by another ASCII digit is
read by INT, whatever else follows (`12abc`, `12.5` → `12`), for every classification `cc`. -/
theorem C04_int_only (cc : CharClasses) (i : IntLit) (hi : i.WF) (p : Option Char) (rest : List Char)
    (hrest : Stops asciiDigit rest) : Reads cc .INT p i.text rest (.int i.text) := by
  obtain ⟨q, h⟩ := int_hd (cc := cc) i hi rest hrest p
  rw [← INT_shape] at h
  exact ⟨q, firstMatch_hd (conv := Gen.Procs.INT) (alts := []) h (by simp [IntLit.text])⟩

/-- **A whole line of numbers.** `Model: v*=NUMBER;` on any number of literals — int literals and float
literals written with a '.' or an exponent, mixed, separated by whitespace, with leading and trailing
whitespace — yields exactly their values in order: the int literals as ints (`int(text)`), the others as
floats (`float(text)`). -/
theorem C04_number_line (cc : CharClasses) (hcc : Sane cc) (items : List (Item NumLit))
    (hitems : ∀ i ∈ items, (∀ c ∈ i.ws, isWs c = true) ∧ i.lit.WF cc) (hsep : Separated items)
    (tail : List Char) (htail : ∀ c ∈ tail, isWs c = true) :
    tokens cc .NUMBER (litLine NumLit.text items tail) = .ok (items.map (fun i => i.lit.val)) := by
  refine tokens_litLine (cc := cc) .NUMBER NumLit.text NumLit.val (NumBoundary cc) NumBoundary.nil
    (numBoundary_ws hcc) (NumLit.WF cc) ?_ (numLit_head hcc) items hitems (Or.inl hsep) tail htail
  intro a ha p rest hb
  cases a with
  | int i => exact (C04_int_lit cc hcc i ha p rest hb).2
  | float f => exact ((C04_float cc hcc f ha.1 p rest hb).2 ha.2).2

/-- **A whole line of ints.** `Model: v*=INT;` and `Model: v*=NUMBER;` on whitespace-separated int
literals yield the literals handed to `int()`, in order. -/
theorem C04_int_line (cc : CharClasses) (hcc : Sane cc) (items : List (Item IntLit))
    (hitems : ∀ i ∈ items, (∀ c ∈ i.ws, isWs c = true) ∧ i.lit.WF) (hsep : Separated items)
    (tail : List Char) (htail : ∀ c ∈ tail, isWs c = true) :
    tokens cc .INT (litLine IntLit.text items tail) = .ok (items.map (fun i => Py.Val.int i.lit.text)) ∧
    tokens cc .NUMBER (litLine IntLit.text items tail) = .ok (items.map (fun i => Py.Val.int i.lit.text)) := by
  constructor
  · refine tokens_litLine (cc := cc) .INT IntLit.text (fun i => Py.Val.int i.text) (NumBoundary cc) NumBoundary.nil
      (numBoundary_ws hcc) IntLit.WF ?_ intLit_head items hitems (Or.inl hsep) tail htail
    intro a ha p rest hb
    exact (C04_int_lit cc hcc a ha p rest hb).1
  · refine tokens_litLine (cc := cc) .NUMBER IntLit.text (fun i => Py.Val.int i.text) (NumBoundary cc) NumBoundary.nil
      (numBoundary_ws hcc) IntLit.WF ?_ intLit_head items hitems (Or.inl hsep) tail htail
    intro a ha p rest hb
    exact (C04_int_lit cc hcc a ha p rest hb).2

/-- **A whole line of floats.** `Model: v*=FLOAT;` on whitespace-separated float literals (digits-only
ones included) yields the literals handed to `float()`, in order; when all of them are written with a '.'
or an exponent, `v*=STRICTFLOAT` and `v*=NUMBER` do the same. -/
theorem C04_float_line (cc : CharClasses) (hcc : Sane cc) (items : List (Item FloatLit))
    (hitems : ∀ i ∈ items, (∀ c ∈ i.ws, isWs c = true) ∧ i.lit.WF cc) (hsep : Separated items)
    (tail : List Char) (htail : ∀ c ∈ tail, isWs c = true) :
    tokens cc .FLOAT (litLine FloatLit.text items tail) = .ok (items.map (fun i => Py.Val.float i.lit.text)) ∧
    ((∀ i ∈ items, i.lit.Strict) →
      tokens cc .STRICTFLOAT (litLine FloatLit.text items tail) = .ok (items.map (fun i => Py.Val.float i.lit.text)) ∧
      tokens cc .NUMBER (litLine FloatLit.text items tail) = .ok (items.map (fun i => Py.Val.float i.lit.text))) := by
  constructor
  · refine tokens_litLine (cc := cc) .FLOAT FloatLit.text (fun f => Py.Val.float f.text) (NumBoundary cc) NumBoundary.nil
      (numBoundary_ws hcc) (FloatLit.WF cc) ?_ (floatLit_head hcc) items hitems (Or.inl hsep) tail htail
    intro a ha p rest hb
    exact (C04_float cc hcc a ha p rest hb).1
  · intro hstrict
    have hitems' : ∀ i ∈ items, (∀ c ∈ i.ws, isWs c = true) ∧ (i.lit.WF cc ∧ i.lit.Strict) :=
      fun i hi => ⟨(hitems i hi).1, (hitems i hi).2, hstrict i hi⟩
    constructor
    · refine tokens_litLine (cc := cc) .STRICTFLOAT FloatLit.text (fun f => Py.Val.float f.text) (NumBoundary cc)
        NumBoundary.nil (numBoundary_ws hcc) (fun f => f.WF cc ∧ f.Strict) ?_ (fun f hf => floatLit_head hcc f hf.1)
        items hitems' (Or.inl hsep) tail htail
      intro a ha p rest hb
      exact ((C04_float cc hcc a ha.1 p rest hb).2 ha.2).1
    · refine tokens_litLine (cc := cc) .NUMBER FloatLit.text (fun f => Py.Val.float f.text) (NumBoundary cc)
        NumBoundary.nil (numBoundary_ws hcc) (fun f => f.WF cc ∧ f.Strict) ?_ (fun f hf => floatLit_head hcc f hf.1)
        items hitems' (Or.inl hsep) tail htail
      intro a ha p rest hb
      exact ((C04_float cc hcc a ha.1 p rest hb).2 ha.2).2

/-- **A whole line of bools.** `Model: v*=BOOL;` on whitespace-separated BOOL spellings yields the bools
they stand for, in order. -/
theorem C04_bool_line (cc : CharClasses) (hcc : Sane cc) (items : List (Item (List Char × Bool)))
    (hitems : ∀ i ∈ items, (∀ c ∈ i.ws, isWs c = true) ∧ i.lit ∈ boolSpellings) (hsep : Separated items)
    (tail : List Char) (htail : ∀ c ∈ tail, isWs c = true) :
    tokens cc .BOOL (litLine Prod.fst items tail) = .ok (items.map (fun i => Py.Val.bool i.lit.2)) := by
  refine tokens_litLine (cc := cc) .BOOL Prod.fst (fun a => Py.Val.bool a.2)
    (fun rest => ∀ c, rest.head? = some c → cc.isWord c = false) (by simp)
    (fun c t hc d hd => by simp at hd; subst hd; exact (ws_facts hcc hc).1)
    (fun a => a ∈ boolSpellings) ?_ (fun a ha => bool_head a.1 a.2 ha) items hitems (Or.inl hsep) tail htail
  intro a ha p rest hb
  exact C04_bool cc hcc a.1 a.2 ha p rest hb

/-- The separation is needed: without it the number-line statement is false — two touching float
literals `1.5` `.5` are not read as two numbers (the look-ahead of the regexes rejects `1.5.5`; model and
code agree on that, the property asks for numbers that are written apart). -/
theorem C04_number_line_unseparated_false :
    ¬ (∀ (items : List (Item NumLit)), (∀ i ∈ items, (∀ c ∈ i.ws, isWs c = true) ∧ i.lit.WF asciiCC) →
        (tokens asciiCC .NUMBER (litLine NumLit.text items [])).toOption = some (items.map (fun i => i.lit.val))) := by
  intro h
  have := h [⟨[], .float ⟨[], .intDot '1' [] ['5'], none⟩⟩, ⟨[], .float ⟨[], .dotFrac '5' [], none⟩⟩] (by
    intro i hi
    simp only [List.mem_cons, List.not_mem_nil, or_false] at hi
    rcases hi with hi | hi <;> subst hi
    · exact ⟨by simp, ⟨Or.inl rfl, by decide, by simp⟩, Or.inl rfl⟩
    · exact ⟨by simp, ⟨Or.inl rfl, by decide, by simp⟩, Or.inl rfl⟩)
  revert this
  decide +kernel

/-- **Literals given as plain text.** `numLit?` is a hand-written scanner (sign, digits, '.', digits,
exponent; ASCII digits) that does not use the regexes.  Every text it accepts is read completely by NUMBER
at a number boundary: as an int when it is `[-+]?[0-9]+` (`litKind = 1`), else as a float (`litKind = 2`),
and the very text is what reaches `int()` / `float()`.  The harness asks the driver for `litKind` of every
literal it writes (`str(int)`, `repr`, `%e`, `%E`, `%g`, `%f`, `.5`, `5.`, `12e5` …), so that what Python
prints for a number is checked to be of the form the theorems quantify over. -/
theorem C04_number_text (cc : CharClasses) (hcc : Sane cc) (t : List Char) (ht : litKind t ≠ 0) (p : Option Char)
    (rest : List Char) (hb : NumBoundary cc rest) : Reads cc .NUMBER p t rest (numVal t) := by
  obtain ⟨a, ha⟩ := litKind_ne_zero ht
  obtain ⟨h1, h2, h3⟩ := numLit?_sound cc hcc t a ha
  subst h1
  rw [← h3]
  cases a with
  | int i => exact (C04_int_lit cc hcc i h2 p rest hb).2
  | float f => exact ((C04_float cc hcc f h2.1 p rest hb).2 h2.2).2

/-- the same for a whole line: whitespace-separated texts accepted by the scanner, through `v*=NUMBER` -/
theorem C04_number_line_text (cc : CharClasses) (hcc : Sane cc) (items : List (Item (List Char)))
    (hitems : ∀ i ∈ items, (∀ c ∈ i.ws, isWs c = true) ∧ litKind i.lit ≠ 0) (hsep : Separated items)
    (tail : List Char) (htail : ∀ c ∈ tail, isWs c = true) :
    tokens cc .NUMBER (litLine id items tail) = .ok (items.map (fun i => numVal i.lit)) := by
  refine tokens_litLine (cc := cc) .NUMBER id numVal (NumBoundary cc) NumBoundary.nil
    (numBoundary_ws hcc) (fun t => litKind t ≠ 0) ?_ ?_ items hitems (Or.inl hsep) tail htail
  · intro t ht p rest hb
    exact C04_number_text cc hcc t ht p rest hb
  · intro t ht
    obtain ⟨a, ha⟩ := litKind_ne_zero ht
    obtain ⟨h1, h2, _⟩ := numLit?_sound cc hcc t a ha
    obtain ⟨c, t', h, hc⟩ := numLit_head hcc a h2
    exact ⟨c, t', by rw [← h1]; exact h, hc⟩

/-- FLOAT on plain text: every text the float scanner accepts (digits-only included) is read completely
by FLOAT and reaches `float()` unchanged. -/
theorem C04_float_text (cc : CharClasses) (hcc : Sane cc) (t : List Char) (f : FloatLit) (ht : floatLit? t = some f)
    (p : Option Char) (rest : List Char) (hb : NumBoundary cc rest) : Reads cc .FLOAT p t rest (.float t) := by
  obtain ⟨h1, h2⟩ := floatLit?_sound cc hcc t f ht
  rw [← h1]
  exact (C04_float cc hcc f h2 p rest hb).1

/-- **Lines as the harness writes them.** `lineHyp ty items tail` is a decidable check of the hypotheses
of the line theorems on plain text: every item is whitespace followed by a text that the scanners accept
as a literal for `ty` (INT: `[-+]?[0-9]+`; STRICTFLOAT: float literal with '.' or exponent; NUMBER: either;
FLOAT: any float literal; BOOL: a spelling of the table; STRING: `encode q s` of a string without trailing
backslash, decoded by `strLit?`), items are separated (strings may touch), the tail is whitespace.
Whenever it holds, `Model: v*=ty;` on the line yields `litVal ty` of every literal text: the text itself
handed to `int()` / `float()`, the bool the spelling stands for, or the decoded string.  The driver evaluates `lineHyp` on
every generated line and the harness compares it with its own hypothesis predicate. -/
theorem C04_line_checked (cc : CharClasses) (hcc : Sane cc) (ty : BaseType) (items : List (Item (List Char)))
    (tail : List Char) (h : lineHyp ty items tail = true) :
    tokens cc ty (litLine id items tail) = .ok (items.map (fun i => litVal ty i.lit)) := by
  obtain ⟨hitems, hsep, htail⟩ := lineHyp_spec h
  by_cases hty : ty = .STRING
  · -- strings: no boundary needed, they may touch
    subst hty
    refine tokens_litLine (cc := cc) .STRING id (litVal .STRING) (fun _ => True) trivial (fun _ _ _ => trivial)
      (fun t => litOk .STRING t = true) ?_ ?_ items hitems (Or.inr (fun _ => trivial)) tail htail
    · intro t ht p rest _
      simp only [litOk, Option.isSome_iff_exists] at ht
      obtain ⟨⟨q, s⟩, hqs⟩ := ht
      obtain ⟨h1, h2, h3⟩ := strLit?_sound t q s hqs
      have := C04_string cc q h2 s h3 p rest
      rw [← h1] at this
      have hv : litVal .STRING t = .str s := by simp [litVal, hqs]
      show Reads cc .STRING p t rest (litVal .STRING t)
      rw [hv]; exact this
    · intro t ht
      simp only [litOk, Option.isSome_iff_exists] at ht
      obtain ⟨⟨q, s⟩, hqs⟩ := ht
      obtain ⟨h1, h2, _⟩ := strLit?_sound t q s hqs
      exact ⟨q, escape q s ++ [q], by rw [h1]; rfl, quote_not_ws q h2⟩
  have hsep' : Separated items := hsep.resolve_left hty
  have key : ∀ t, litOk ty t = true →
      (∀ p rest, NumBoundary cc rest → Reads cc ty p t rest (litVal ty t)) ∧ ∃ c t', t = c :: t' ∧ isWs c = false := by
    intro t ht
    cases ty with
    | INT =>
      obtain ⟨i, hi⟩ := litKind_one (t := t) (by simpa [litOk] using ht)
      obtain ⟨h1, h2, _⟩ := numLit?_sound cc hcc t _ hi
      subst h1
      exact ⟨fun p rest hb => (C04_int_lit cc hcc i h2 p rest hb).1, numLit_head hcc _ h2⟩
    | NUMBER =>
      have hk : litKind t ≠ 0 := by simpa [litOk] using ht
      obtain ⟨a, ha⟩ := litKind_ne_zero hk
      obtain ⟨h1, h2, _⟩ := numLit?_sound cc hcc t a ha
      refine ⟨fun p rest hb => C04_number_text cc hcc t hk p rest hb, ?_⟩
      rw [← h1]; exact numLit_head hcc a h2
    | STRICTFLOAT =>
      obtain ⟨f, hf⟩ := litKind_two (t := t) (by simpa [litOk] using ht)
      obtain ⟨h1, h2, _⟩ := numLit?_sound cc hcc t _ hf
      subst h1
      exact ⟨fun p rest hb => ((C04_float cc hcc f h2.1 p rest hb).2 h2.2).1, numLit_head hcc _ h2⟩
    | FLOAT =>
      simp only [litOk, Option.isSome_iff_exists] at ht
      obtain ⟨f, hf⟩ := ht
      obtain ⟨h1, h2⟩ := floatLit?_sound cc hcc t f hf
      refine ⟨fun p rest hb => C04_float_text cc hcc t f hf p rest hb, ?_⟩
      rw [← h1]; exact floatLit_head hcc f h2
    | BOOL =>
      simp only [litOk, Option.isSome_iff_exists] at ht
      obtain ⟨b, hb'⟩ := ht
      have hm := boolOf_mem hb'
      refine ⟨fun p rest hb => ?_, bool_head t b hm⟩
      have := C04_bool cc hcc t b hm p rest (fun c hc => (hb c hc).1)
      simpa [litVal, hb'] using this
    | STRING => exact absurd rfl hty
  exact tokens_litLine (cc := cc) ty id (litVal ty) (NumBoundary cc) NumBoundary.nil (numBoundary_ws hcc)
    (fun t => litOk ty t = true) (fun t ht p rest hb => (key t ht).1 p rest hb) (fun t ht => (key t ht).2)
    items hitems (Or.inl hsep') tail htail

/-- **STRING on plain text.** `strLit?` decodes a quoted text (no regex involved); it accepts exactly the
texts `encode q s` of the property (either quote, only that quote escaped, `s` not ending in a backslash)
and returns `s`; every accepted text is read completely by STRING and yields the decoded string. -/
theorem C04_string_text (cc : CharClasses) (t : List Char) :
    (∀ q s, strLit? t = some (q, s) ↔ t = encode q s ∧ (q = '"' ∨ q = '\'') ∧ noTrailingBackslash s) ∧
    (∀ q s, strLit? t = some (q, s) → ∀ p rest, Reads cc .STRING p t rest (.str s)) := by
  constructor
  · intro q s
    constructor
    · exact strLit?_sound t q s
    · intro ⟨h1, h2, h3⟩; subst h1; exact strLit?_complete q h2 s h3
  · intro q s h p rest
    obtain ⟨h1, h2, h3⟩ := strLit?_sound t q s h
    rw [h1]
    exact C04_string cc q h2 s h3 p rest

/-- **The scanners are exactly the literal grammars** (independent specification of `intLit?` /
`floatLit?`, which the driver runs): a text is accepted with parse `i` / `f` iff `i` / `f` is a
well-formed literal (ASCII digits) whose text it is. -/
theorem C04_scanner_exact (t : List Char) :
    (∀ i, intLit? t = some i ↔ i.text = t ∧ i.WF) ∧
    (∀ f, floatLit? t = some f ↔ f.text = t ∧ f.WF asciiCC) :=
  ⟨intLit?_iff t, floatLit?_iff t⟩

/-- `str(z)` of every Python int is classified as an int literal by the scanner (so `C04_number_text`
and `C04_line_checked` apply to every int the way Python prints it). -/
theorem C04_strInt_kind (z : Int) : litKind (Py.strInt z) = 1 := by
  have h := intLit?_complete (intLitOf z) (intLitOf_wf z)
  rw [intLitOf_text] at h
  simp [litKind, numLit?, h]

/-! ### non-vacuity: the hypotheses are met by concrete, non-trivial instances -/
example : Sane asciiCC := asciiCC_sane
example : noTrailingBackslash "a\\\"b 'c' \\\\x".toList := by decide
example : tokenAt asciiCC .STRING (none, encode '"' "a\"\\\"b".toList ++ " \"z\"".toList) =
    some (.str "a\"\\\"b".toList, (some '"', " \"z\"".toList)) := by decide +kernel
example : (⟨['-'], .intDot '1' ['2'] ['5'], some ⟨'e', ['+'], '1', ['0']⟩⟩ : FloatLit).WF asciiCC := by
  refine ⟨Or.inr (Or.inr rfl), by decide, ?_⟩
  intro x hx; cases hx
  exact ⟨Or.inl rfl, Or.inr (Or.inl rfl), by decide, by decide⟩
example : (tokens asciiCC .STRING
    (lineOf [⟨[], '"', ['a', '"']⟩, ⟨[], '\'', ['\\', '"', 'b']⟩, ⟨[' ', '\n'], '"', []⟩] [' '])).toOption =
    some [.str ['a', '"'], .str ['\\', '"', 'b'], .str []] := by decide +kernel
example : NumBoundary asciiCC " 7".toList := by
  intro c hc; simp at hc; subst hc; decide
example : tokenAt asciiCC .NUMBER (none, "-12.5e+10 7".toList) =
    some (.float "-12.5e+10".toList, (some '0', " 7".toList)) := by decide +kernel
example : tokenAt asciiCC .NUMBER (none, "-12 7".toList) = some (.int "-12".toList, (some '2', " 7".toList)) := by
  decide +kernel

/-! non-vacuity of the line theorems and of the scanner hypotheses -/
example : Separated ([⟨[], NumLit.int ⟨['-'], '1', ['2']⟩⟩, ⟨['\n', ' '], .float ⟨[], .dotFrac '5' [], none⟩⟩] : List (Item NumLit)) := by
  intro i hi; simp at hi; subst hi; simp
example : (NumLit.float ⟨[], .int '1' ['2'], some ⟨'E', ['-'], '5', []⟩⟩).WF asciiCC := by
  refine ⟨⟨Or.inl rfl, by decide, ?_⟩, Or.inr rfl⟩
  intro x hx; cases hx
  exact ⟨Or.inr rfl, Or.inr (Or.inr rfl), by decide, by decide⟩
example : (NumLit.int ⟨['+'], '0', ['0', '7']⟩).WF asciiCC := ⟨Or.inr (Or.inl rfl), by decide, by decide⟩
example : litLine NumLit.text [⟨[' '], .int ⟨['-'], '1', ['2']⟩⟩, ⟨['\n', ' '], .float ⟨[], .dotFrac '5' [], none⟩⟩,
    ⟨['\t'], .float ⟨[], .int '1' ['2'], some ⟨'E', ['-'], '5', []⟩⟩⟩] ['\n'] = " -12\n .5\t12E-5\n".toList := by decide
example : (tokens asciiCC .NUMBER " -12\n .5\t12E-5\n".toList).toOption =
    some [.int "-12".toList, .float ".5".toList, .float "12E-5".toList] := by decide +kernel
example : (tokens asciiCC .BOOL "true 0\nFalse".toList).toOption = some [.bool true, .bool false, .bool false] := by
  decide +kernel
/-- the separation is needed: touching numbers are not two numbers -/
example : (tokens asciiCC .NUMBER "1.5.5".toList).toOption = none := by decide +kernel
example : Stops asciiDigit "abc".toList := by intro c hc; simp at hc; subst hc; decide
example : tokenAt asciiCC .INT (none, "12abc".toList) = some (.int "12".toList, (some '2', "abc".toList)) := by
  decide +kernel
example : litKind "-12".toList = 1 ∧ litKind "1e+22".toList = 2 ∧ litKind "-1.5E-7".toList = 2 ∧ litKind "5.".toList = 2 ∧
    litKind ".5".toList = 2 ∧ litKind "1.2.3".toList = 0 ∧ litKind "1e".toList = 0 ∧ litKind "inf".toList = 0 := by decide
example : (floatLit? "12".toList).map FloatLit.strictB = some false := by decide
example : lineHyp .NUMBER [⟨[' '], "-12".toList⟩, ⟨['\n', ' '], ".5".toList⟩, ⟨['\t'], "12E-5".toList⟩] ['\n'] = true := by
  decide
example : lineHyp .BOOL [⟨[], "true".toList⟩, ⟨[' '], "0".toList⟩] [] = true := by decide
example : lineHyp .INT [⟨[], "1".toList⟩, ⟨[], "2".toList⟩] [] = false := by decide
example : lineHyp .STRICTFLOAT [⟨[], "12".toList⟩] [] = false ∧ lineHyp .FLOAT [⟨[], "12".toList⟩] [] = true := by decide
example : lineHyp .STRING [⟨[], "\"a\\\"b\"".toList⟩, ⟨[], "'c\\''".toList⟩, ⟨[' '], "\"\"".toList⟩] ['\n'] = true := by decide
example : strLit? "'it\\'s \\\\ \"x\"'".toList = some ('\'', "it's \\\\ \"x\"".toList) := by decide
example : strLit? "\"a\\\"".toList = none ∧ strLit? "\"a\"b\"".toList = none := by decide

/-- **Registrations replace, they do not accumulate (round X04).**  On a meta-model, after any history of
`register_obj_processors` calls, every base-type key that the *last* registration does not mention is bound to
its built-in conversion again (and so it is on a meta-model on which nothing was registered): the conversions
the theorems above speak about are in force whatever was registered — and replaced — before.  (`Registry.after`
mirrors `register_obj_processors`: a fresh copy of the defaults, updated; tied to the live table by the
correspondence op `tokens` with `"hist"`.) -/
theorem C04_registration_replaces (hist : List (List (String × String))) (ps : List (String × String))
    (k : String) (hk : k ∈ Registry.defaultKeys) (hfree : ∀ kv ∈ ps, kv.1 ≠ k) :
    Registry.after (hist ++ [ps]) k = some .builtin ∧ Registry.after [] k = some .builtin := by
  constructor
  · rw [Registry.after_snoc, Registry.update_other _ _ _ hfree]
    simp [Registry.defaults, hk]
  · simp [Registry.after, Registry.register, Registry.update, Registry.defaults, hk]

/-- a registration that mentions the key binds it to the user's processor: the hypothesis `hfree` is needed -/
example : Registry.after [[("INT", "hex")]] "INT" = some (.user "hex") := by decide

example : Registry.after [[("INT", "hex")], [("Model", "obj")]] "INT" = some .builtin := by decide

end BaseTypes
